"""C18 -- tbbmalloc fails cleanly: overflow guards, argument validation, NULL propagation (entry points of frontend.cpp)."""
import os
import sys
import re
HERE = os.path.dirname(os.path.abspath(__file__))
sys.path.insert(0, os.path.join(HERE, '..'))
sys.path.insert(0, os.path.join(HERE, '..', '..', 'tools'))
import common
import native
import cxx2c
from cxx2c import Rewriter, slice_block, tag_loops, ExtractionBreak, load
from prove import Job

FE = 'src/tbbmalloc/frontend.cpp'
CU = 'src/tbbmalloc/Customize.h'
UT = 'include/oneapi/tbb/detail/_utils.h'


def extract(ctx):
    sliced, fired = [], {}
    rw = Rewriter('tbbmalloc-api')
    out = []
    # power-of-two helpers (Customize.h forwards to _utils.h)
    s = slice_block(UT, r'constexpr bool is_power_of_two\( IntegerType arg \)')
    sliced.append('%s:%d is_power_of_two' % (UT, s.line))
    t = rw.sub(s.text, r'constexpr bool is_power_of_two\( IntegerType arg \)', 'static bool tbb_is_power_of_two(uintptr_t arg)', 1, 1, name='sig + bind-template(IntegerType:=uintptr_t)')
    t = rw.sub(t, r'(?s)static_assert\(.*?\);', 'RG_NOP();', 1, 1, name='static_assert dropped')
    out.append(t)
    s = slice_block(UT, r'constexpr bool is_power_of_two_at_least\(ArgIntegerType arg, DivisorIntegerType divisor\)')
    sliced.append('%s:%d is_power_of_two_at_least' % (UT, s.line))
    t = rw.sub(s.text, r'constexpr bool is_power_of_two_at_least\(ArgIntegerType arg, DivisorIntegerType divisor\)', 'static bool tbb_is_power_of_two_at_least(uintptr_t arg, uintptr_t divisor)', 1, 1, name='sig + bind-template')
    t = rw.sub(t, r'(?s)static_assert\(.*?\);', 'RG_NOP();', 1, 1, name='static_assert dropped')
    out.append(t)
    for name in ('isPowerOfTwo', 'isPowerOfTwoAtLeast'):
        s = slice_block(CU, r'static inline bool %s\(' % name)
        sliced.append('%s:%d %s' % (CU, s.line, name))
        t = rw.sub(s.text, r'tbb::detail::is_power_of_two', 'tbb_is_power_of_two', 1, 1, name='ns-strip')
        out.append(t)
    for name, sig in (('scalable_calloc', r'extern "." void \* scalable_calloc\(size_t nobj, size_t size\)'),
                      ('scalable_posix_memalign', r'extern "." int scalable_posix_memalign\(void \*\*memptr, size_t alignment, size_t size\)'),
                      ('scalable_aligned_malloc', r'extern "." void \* scalable_aligned_malloc\(size_t size, size_t alignment\)'),
                      ('scalable_aligned_realloc', r'extern "." void \* scalable_aligned_realloc\(void \*ptr, size_t size, size_t alignment\)'),
                      ('scalable_realloc', r'extern "." void\* scalable_realloc\(void\* ptr, size_t size\)')):
        s = slice_block(FE, sig)
        sliced.append('%s:%d %s' % (FE, s.line, name))
        t = rw.sub(s.text, r'extern "C" ', '', 1, 1, name='extern "C" dropped')
        t = rw.sub(t, r'\berrno\b', 'VERIF_errno', 0, name='errno -> ghost variable')
        t = rw.sub(t, r'\bmemset\(', 'VERIF_memset(', 0, name='memset -> recording stub')
        t = rw.fcasts(t, ['size_t'])
        t = rw.std(t)
        out.append(t)
    common.write(ctx, 'api.inc', '\n'.join(out) + '\n')
    fired['api'] = rw.fired
    return sliced, fired


BE = 'src/tbbmalloc/backend.cpp'
LOH = 'src/tbbmalloc/large_objects.h'
LOC = 'src/tbbmalloc/large_objects.cpp'
SU = 'src/tbbmalloc/shared_utils.h'


def slice_between(rel, start_pat, end_pat):
    """mechanical fragment: from the start of the first match of start_pat up to (not including) the first later match of end_pat"""
    text = load(rel)
    m = cxx2c.mask(text)
    a = re.search(start_pat, m)
    if not a:
        raise ExtractionBreak('%s: fragment start %r not found' % (rel, start_pat))
    b = re.compile(end_pat).search(m, a.end())
    if not b:
        raise ExtractionBreak('%s: fragment end %r not found' % (rel, end_pat))
    return cxx2c.Slice(rel, a.start(), b.start(), cxx2c.strip_comments(text[a.start():b.start()]), cxx2c.line_of(text, a.start()))


def extract_remap(ctx, sliced, fired):
    """Backend::remap: the size arithmetic and its wrap-around guard (fragment between `const size_t userOffset` and `regionList.remove(oldRegion)`), with the real alignToBin / alignUp / log2"""
    rw = Rewriter('remap')
    l2, f2 = common.log2_c(ctx, sliced)
    out = [l2]
    s = slice_block(SU, r'static inline T alignUp\s*\(T arg, uintptr_t alignment\)')
    sliced.append('%s:%d alignUp' % (SU, s.line))
    t = rw.sub(s.text, r'static inline T alignUp\s*\(T arg, uintptr_t alignment\)', 'static inline size_t alignUp(size_t arg, uintptr_t alignment)', 1, 1, name='bind-template(T:=size_t)')
    t = rw.sub(t, r'\bT\b', 'size_t', 0, name='bind-template(T:=size_t)')
    t = rw.fcasts(t, ['size_t'], 1)
    out.append(t)
    s = slice_block('src/tbbmalloc/Customize.h', r'inline intptr_t BitScanRev\(uintptr_t x\)')
    sliced.append('%s:%d BitScanRev' % (s.rel, s.line))
    t = rw.sub(s.text, r'inline intptr_t BitScanRev\(uintptr_t x\)', 'static intptr_t BitScanRev(uintptr_t x)', 1, 1, name='sig')
    t = rw.sub(t, r'tbb::detail::log2\(', 'tbb_log2(', 1, 1, name='ns-strip')
    t = rw.casts(t, 1)
    out.append(t)
    s = slice_block(LOH, r'static size_t alignToBin\(size_t size\)', within=r'struct LargeBinStructureProps \{')
    sliced.append('%s:%d LargeBinStructureProps::alignToBin' % (LOH, s.line))
    out.append(rw.sub(s.text, r'static size_t alignToBin\(size_t size\)', 'static size_t LargeCacheType_alignToBin(size_t size)', 1, 1, name='sig'))
    s = slice_block(LOH, r'static size_t alignToBin\(size_t size\)', within=r'struct HugeBinStructureProps \{')
    sliced.append('%s:%d HugeBinStructureProps::alignToBin' % (LOH, s.line))
    t = rw.sub(s.text, r'static size_t alignToBin\(size_t size\)', 'static size_t HugeCacheType_alignToBin(size_t size)', 1, 1, name='sig')
    t, n = re.subn(r'MALLOC_ASSERT\((.*), "([^"]*)"\);', lambda m: 'VERIF_ASSERT(%s, "%s");' % (m.group(1), m.group(2).replace(',', ' ')), t)   # messages contain commas
    rw.fired['assert'] = rw.fired.get('assert', 0) + n
    out.append(t)
    s = slice_block(LOC, r'size_t LargeObjectCache::alignToBin\(size_t size\)')
    sliced.append('%s:%d LargeObjectCache::alignToBin' % (LOC, s.line))
    t = rw.sub(s.text, r'size_t LargeObjectCache::alignToBin\(size_t size\)', 'static size_t LargeObjectCache_alignToBin(size_t size)', 1, 1, name='sig')
    t = rw.sub(t, r'(Large|Huge)CacheType::alignToBin\(', r'\1CacheType_alignToBin(', 2, 2, name='ns-strip')
    out.append(t)
    consts = {}
    for name, pat in (('CacheStep', r'static const size_t\s+CacheStep = ([^;]*);'), ('maxLargeSize', r'maxLargeSize = ([^,;]*)[,;]'), ('StepFactor', r'static const int StepFactor\s*= (\d+);')):
        m = re.search(pat, load(LOH))
        if not m:
            raise ExtractionBreak('%s: constant %s not found' % (LOH, name))
        consts[name] = m.group(1).strip()
    pre = '#define CacheStep ((size_t)(%s))\n#define maxLargeSize ((size_t)(%s))\n#define StepFactor (%s)\n#define StepFactorExp 3\n' % (consts['CacheStep'], consts['maxLargeSize'], consts['StepFactor'])
    if consts['StepFactor'] != '8':
        raise ExtractionBreak('StepFactor changed: StepFactorExp = Log2<StepFactor> must be re-derived')
    s = slice_between(BE, r'const size_t userOffset = ', r'regionList\.remove\(oldRegion\);')
    sliced.append('%s:%d Backend::remap (size arithmetic and wrap-around guard)' % (BE, s.line))
    t = rw.sub(s.text, r'LargeObjectCache::alignToBin\(', 'LargeObjectCache_alignToBin(', 1, 1, name='ns-strip')
    t = rw.sub(t, r'sizeof\(MemRegion\)', 'SIZEOF_MemRegion', 1, 1, name='sizeof -> symbolic constant')
    t = rw.sub(t, r'sizeof\(LastFreeBlock\)', 'SIZEOF_LastFreeBlock', 1, 1, name='sizeof -> symbolic constant')
    t = rw.sub(t, r'extMemPool->granularity', 'granularity', 1, 1, name='field path')
    t = rw.std(t)
    common.write(ctx, 'remap.inc', pre + '\n'.join(out) + '\n')
    common.write(ctx, 'remap_frag.inc', t + '\n')
    # MemoryPool::getFromLLOCache: the size computation and its wrapped-size guard (fragment between `size_t headersSize =` and `if (tls) {`)
    s = slice_between(FE, r'size_t headersSize = sizeof\(LargeMemoryBlock\)\+sizeof\(LargeObjectHdr\);\s*size_t allocationSize', r'if \(tls\) \{')
    sliced.append('%s:%d MemoryPool::getFromLLOCache (size computation and wrapped-size guard)' % (FE, s.line))
    t = rw.sub(s.text, r'LargeObjectCache::alignToBin\(', 'LargeObjectCache_alignToBin(', 1, 1, name='ns-strip')
    t = rw.sub(t, r'sizeof\(LargeMemoryBlock\)', 'SIZEOF_LargeMemoryBlock', 1, 1, name='sizeof -> symbolic constant')
    t = rw.sub(t, r'sizeof\(LargeObjectHdr\)', 'SIZEOF_LargeObjectHdr', 1, 1, name='sizeof -> symbolic constant')
    t = malloc_asserts(rw, t)
    t = rw.std(t)
    common.write(ctx, 'lloc_frag.inc', t + '\n')
    fired['remap'] = dict(rw.fired, **f2)


# --------------------------------------------------------------------------------------------------------------------
# backend: free-block search (getFromBin), block splitting (splitBlock), out-of-memory ladder (genericGetBlock/askMemFromOS)
# --------------------------------------------------------------------------------------------------------------------
TI = 'src/tbbmalloc/tbbmalloc_internal.h'
BH = 'src/tbbmalloc/backend.h'
FB_CLASS = r'class FreeBlock : BlockMutexes \{'
BMAC = {'__TBB_MALLOC_BACKEND_STAT': 0}


def member_calls(rw, text, names, prefix, minc=0, name=None):
    """`obj->m(args)` -> `<prefix>m(obj, args)` where obj is an identifier or a call expression `f(...)` (chains are resolved left to right)"""
    total = 0
    rx = re.compile(r'->\s*(%s)\s*\(' % '|'.join(names))
    for _ in range(50):
        m = rx.search(text)
        if not m:
            break
        i = m.start()
        j = i - 1
        while j >= 0 and text[j].isspace():
            j -= 1
        if text[j] == ')':
            d = 0
            while j >= 0:
                if text[j] == ')':
                    d += 1
                elif text[j] == '(':
                    d -= 1
                    if d == 0:
                        break
                j -= 1
            j -= 1
        while j >= 0 and (text[j].isalnum() or text[j] == '_'):
            j -= 1
        obj = text[j + 1:i].strip()
        if not obj:
            raise ExtractionBreak('%s: cannot find the object of ->%s(' % (rw.name, m.group(1)))
        o = m.end() - 1
        c = cxx2c.match_close(text, o, '(', ')')
        args = [a for a in cxx2c.split_args(text[o + 1:c]) if a != '']
        text = text[:j + 1] + '%s%s(%s)' % (prefix, m.group(1), ', '.join([obj] + args)) + text[c + 1:]
        total += 1
    rw._rec(name or 'member-call obj->m(..) -> %sm(obj, ..)' % prefix, total, minc)
    return text


def malloc_asserts(rw, text, minc=0):
    """MALLOC_ASSERT(c, msg) -> VERIF_ASSERT(c, "...") (proof obligation); messages may contain commas"""
    def fn(m, a):
        msg = ','.join(a[1:]).strip()
        if not msg.startswith('"'):
            msg = '"%s"' % a[0].replace('"', "'").replace('\\', '')
        return 'VERIF_ASSERT(%s, %s)' % (a[0], msg.replace(',', ' '))
    return rw.call(text, r'\bMALLOC_ASSERT', fn, minc, name='assert')


def const_define(rw, sliced, rel, name, out):
    s = cxx2c.slice_stmt(rel, r'const (?:uint32_t|uintptr_t|size_t) %s\s*=' % name)
    sliced.append('%s:%d %s' % (rel, s.line, name))
    m = re.match(r'const (uint32_t|uintptr_t|size_t) (\w+)\s*=\s*(.*);', s.text, re.S)
    if not m:
        raise ExtractionBreak('cannot parse constant %s' % name)
    out.append('#define %s ((%s)(%s))' % (m.group(2), m.group(1), m.group(3).strip()))   # const-global -> #define (a C `const` is nondet in CBMC)
    rw.fired['const-global->#define'] = rw.fired.get('const-global->#define', 0) + 1


def extract_freeblock(ctx, sliced, fired):
    """fb.inc: slabSize, GuardedSize::State, struct GuardedSize / FreeBlock (members and their ORDER harvested from the class text), alignUp<FreeBlock*>,
    isAligned, and the FreeBlock methods rightNeig / initHeader / setMeFree / trySetMeUsed / setLeftFree / trySetLeftUsed / tryLockBlock / markBlocks.
    GuardedSize::tryLock / unlock / initLocked are NOT sliced here: the harness supplies their atomic specification (trusted; job lock.* is the place to prove it)."""
    rw = Rewriter('freeblock')
    out = ['typedef struct FreeBlock FreeBlock; typedef struct GuardedSize GuardedSize;']
    const_define(rw, sliced, TI, 'slabSize', out)
    s = slice_block(BE, r'enum State \{', within=r'class GuardedSize : tbb::detail::no_copy \{')
    sliced.append('%s:%d GuardedSize::State' % (BE, s.line))
    body = s.text[s.text.index('{') + 1:s.text.rindex('}')]
    body, n = re.subn(r'\b([A-Z][A-Z_]+)\b', r'GuardedSize_\1', body)
    rw._rec('enum State -> GuardedSize_<name>', n, 5)
    out.append('enum GuardedSize_State {%s};' % body)
    gs = cxx2c.CClass(BE, r'class GuardedSize : tbb::detail::no_copy \{', 'GuardedSize', rw=rw)
    gs.harvest_members(['value'])
    out.append(gs.struct_decl())
    bm = cxx2c.CClass(BE, r'class BlockMutexes \{', 'BlockMutexes', rw=rw)
    bm.harvest_members(['myL', 'leftL'])
    fb = cxx2c.CClass(BE, FB_CLASS, 'FreeBlock', rw=rw)
    fb.harvest_members(['prev', 'next', 'nextToFree', 'sizeTmp', 'myBin', 'slabAligned', 'blockInBin'])
    fb.members = bm.members + fb.members        # base class sub-object first
    out.append(fb.struct_decl())
    s = cxx2c.slice_stmt(BE, r'const size_t FreeBlock::minBlockSize = ')
    sliced.append('%s:%d FreeBlock::minBlockSize' % (BE, s.line))
    out.append(rw.sub(s.text, r'const size_t FreeBlock::minBlockSize = (.*);', r'#define FreeBlock_minBlockSize ((size_t)(\1))', 1, 1, name='const-global->#define'))
    s = slice_block(SU, r'static inline T alignUp\s*\(T arg, uintptr_t alignment\)')
    sliced.append('%s:%d alignUp<FreeBlock*>' % (SU, s.line))
    t = rw.sub(s.text, r'static inline T alignUp\s*\(T arg, uintptr_t alignment\)', 'static inline FreeBlock* alignUp_FreeBlock(FreeBlock* arg, uintptr_t alignment)', 1, 1, name='bind-template(T:=FreeBlock*)')
    t = rw.sub(t, r'\bT\(', '(FreeBlock*)(', 1, 1, name='bind-template(T:=FreeBlock*)')
    out.append(t)
    s = slice_block(UT, r'(?:constexpr )?bool is_aligned\(T\* pointer, std::uintptr_t alignment\)')
    sliced.append('%s:%d is_aligned' % (UT, s.line))
    t = rw.sub(s.text, r'(?:constexpr )?bool is_aligned\(T\* pointer, std::uintptr_t alignment\)', 'static inline bool isAligned(const void* pointer, uintptr_t alignment)', 1, 1, name='sig (Customize.h isAligned forwards to it) + bind-template(T:=void)')
    if not re.search(r'static inline bool isAligned\(T\* arg, uintptr_t alignment\) \{\s*return tbb::detail::is_aligned\(arg,alignment\);', load(CU)):
        raise ExtractionBreak('Customize.h isAligned no longer forwards to tbb::detail::is_aligned')
    t = rw.casts(t, 1)
    out.append(rw.std(t))
    for name, sig, csig in (
            ('rightNeig', r'FreeBlock \*rightNeig\(size_t sz\) const', 'static FreeBlock *FreeBlock_rightNeig(FreeBlock *self, size_t sz)'),
            ('initHeader', r'void initHeader\(\)', 'static void FreeBlock_initHeader(FreeBlock *self)'),
            ('setMeFree', r'void setMeFree\(size_t size\)', 'static void FreeBlock_setMeFree(FreeBlock *self, size_t size)'),
            ('trySetMeUsed', r'size_t trySetMeUsed\(GuardedSize::State s\)', 'static size_t FreeBlock_trySetMeUsed(FreeBlock *self, int s)'),
            ('setLeftFree', r'void setLeftFree\(size_t sz\)', 'static void FreeBlock_setLeftFree(FreeBlock *self, size_t sz)'),
            ('trySetLeftUsed', r'size_t trySetLeftUsed\(GuardedSize::State s\)', 'static size_t FreeBlock_trySetLeftUsed(FreeBlock *self, int s)'),
            ('tryLockBlock', r'size_t tryLockBlock\(\)', 'static size_t FreeBlock_tryLockBlock(FreeBlock *self)'),
            ('markBlocks', r'static void markBlocks\(FreeBlock \*fBlock, int num, size_t size\)', 'static void FreeBlock_markBlocks(FreeBlock *fBlock, int num, size_t size)')):
        s = slice_block(BE, sig, within=FB_CLASS)
        sliced.append('%s:%d FreeBlock::%s' % (BE, s.line, name))
        t = rw.sub(s.text, sig, csig, 1, 1, name='sig')
        t = rw.sub(t, r'\b(myL|leftL)\.(initLocked|unlock|tryLock)\(\s*', r'GuardedSize_\2(&self->\1, ', 0, name='member-object call x.m(..) -> GuardedSize_m(&self->x, ..)')
        t = rw.sub(t, r', \)', ')', 0, name='member-object call (no arguments)')
        t = rw.methods(t, ['trySetMeUsed', 'rightNeig', 'setMeFree'], 'FreeBlock_', 0)
        t = member_calls(rw, t, ['trySetLeftUsed', 'initHeader'], 'FreeBlock_', 0)
        t = rw.sub(t, r'\bthis\b', 'self', 0, name='this')
        t = rw.sub(t, r'GuardedSize::', 'GuardedSize_', 0, name='ns-strip')
        t = malloc_asserts(rw, t)
        if name == 'markBlocks':
            t = tag_loops(t, 'markBlocks', rw, expect=1)
        out.append(rw.std(t))
    common.write(ctx, 'fb.inc', '\n'.join(out) + '\n')
    fired['freeblock'] = rw.fired


def extract_getfrombin(ctx, sliced, fired):
    """Backend::IndexedBins::getFromBin with Bin::empty, BackendSync::blockConsumed"""
    rw = Rewriter('getFromBin')
    out = []
    s = slice_block(BH, r'bool empty\(\) const', within=r'struct Bin \{')
    sliced.append('%s:%d Backend::Bin::empty' % (BH, s.line))
    t = rw.sub(s.text, r'bool empty\(\) const', 'static bool Bin_empty(Bin *self)', 1, 1, name='sig')
    t = rw.fields(t, ['head'], 1)
    t = rw.atomics(t, ['head'], 1)
    t = rw.number_sites(t, 'empty', by_kind=True)
    out.append(t)
    s = slice_block(BH, r'void blockConsumed\(\)', within=r'class BackendSync \{')
    sliced.append('%s:%d BackendSync::blockConsumed' % (BH, s.line))
    t = rw.sub(s.text, r'void blockConsumed\(\)', 'static void BackendSync_blockConsumed(BackendSync *self)', 1, 1, name='sig')
    t = rw.fields(t, ['inFlyBlocks'], 0)
    t = rw.atomics(t, ['inFlyBlocks'], 0)
    out.append(t)
    sig = r'FreeBlock \*Backend::IndexedBins::getFromBin\(int binIdx, BackendSync \*sync, size_t size,\s*bool needAlignedRes, bool alignedBin,\s*bool wait, int \*binLocked\)'
    s = slice_block(BE, sig)
    sliced.append('%s:%d Backend::IndexedBins::getFromBin' % (BE, s.line))
    t = rw.sub(s.text, sig, 'FreeBlock *IndexedBins_getFromBin(IndexedBins *self, int binIdx, BackendSync *sync, size_t size, bool needAlignedRes, bool alignedBin, bool wait, int *binLocked)', 1, 1, name='sig')
    t = rw.sub(t, r'\btry_next:', 'try_next: ;', 1, 1, name='label in front of a declaration gets an empty statement (C grammar)')
    t = rw.fields(t, ['freeBins'], 1)
    t = rw.sub(t, r'(self->freeBins\[binIdx\])\.empty\(\)', r'Bin_empty(&\1)', 0, name='method')
    t = rw.sub(t, r'\bb->empty\(\)', 'Bin_empty(b)', 1, name='method')
    t = rw.scoped_locks(t, r'MallocMutex::scoped_lock scopedLock\(([^;]*)\);', 1, 1, lock='TRYLOCK_MUTEX', unlock='UNLOCK_IF_TAKEN')
    t = rw.sub(t, r'goto try_next;', '{ UNLOCK_IF_TAKEN(b->tLock, wait, &locked); RETRY_FROM(try_next); }', 0, name='goto out of the scoped_lock scope: destructor made explicit; the backward jump becomes RETRY_FROM (restart state is a proof obligation)')
    t = rw.atomics(t, ['head'], 0)
    t = rw.number_sites(t, 'getFromBin', by_kind=True)
    t = rw.sub(t, r'\bcurr->next\b', 'BIN_NEXT(curr)', 0, name='list link read -> BIN_NEXT (the bin is an arbitrary sequence of candidates)')
    t = rw.sub(t, r'\balignUp\(curr, slabSize\)', 'alignUp_FreeBlock(curr, slabSize)', 0, name='bind-template(T:=FreeBlock*)')
    t = rw.sub(t, r'\bsync->blockConsumed\(\)', 'BackendSync_blockConsumed(sync)', 0, name='method')
    t = rw.sub(t, r'\bb->removeBlock\(', 'STUB_Bin_removeBlock(b, ', 0, name='callee stub')
    t = rw.sub(t, r'\bbitMask\.set\(', 'STUB_bitMask_set(self, ', 0, name='callee stub')
    t = member_calls(rw, t, ['tryLockBlock', 'setMeFree', 'rightNeig', 'setLeftFree'], 'FreeBlock_', 0)
    t = rw.sub(t, r'\b(\w+)->sizeTmp = ([^;]*);', r'FB_WR_sizeTmp(\1, \2);', 0, name='block field write -> FB_WR_sizeTmp (blocks are addresses in the harness)')
    t = rw.sub(t, r'FreeBlock::minBlockSize', 'FreeBlock_minBlockSize', 0, name='ns-strip')
    t = malloc_asserts(rw, t)
    t = rw.std(t)
    t = tag_loops(t, 'getFromBin', rw, expect=1)
    out.append(t)
    common.write(ctx, 'getfrombin.inc', '\n'.join(out) + '\n')
    fired['getFromBin'] = rw.fired


def extract_split(ctx, sliced, fired):
    """Backend::splitBlock with Backend::toAlignedBin, FreeBlock::markBlocks/initHeader (fb.inc); coalescAndPut is a recording stub"""
    rw = Rewriter('splitBlock')
    out = []
    m = re.search(r'static const int numOfSlabAllocOnMiss = (\d+);', load(BH))
    if not m:
        raise ExtractionBreak('%s: constant numOfSlabAllocOnMiss not found' % BH)
    out.append('#define numOfSlabAllocOnMiss (%s)' % m.group(1))
    rw.fired['const-global->#define'] = 1
    s = slice_block(BH, r'static bool toAlignedBin\(FreeBlock \*block, size_t size\)')
    sliced.append('%s:%d Backend::toAlignedBin' % (BH, s.line))
    out.append(rw.sub(s.text, r'static bool toAlignedBin\(FreeBlock \*block, size_t size\)', 'static bool Backend_toAlignedBin(FreeBlock *block, size_t size)', 1, 1, name='sig'))
    sig = r'FreeBlock \*Backend::splitBlock\(FreeBlock \*fBlock, int num, size_t size, bool blockIsAligned, bool needAlignedBlock\)'
    s = slice_block(BE, sig)
    sliced.append('%s:%d Backend::splitBlock' % (BE, s.line))
    t = rw.sub(s.text, sig + r'\s*\{', 'FreeBlock *Backend_splitBlock(Backend *self, FreeBlock *fBlock, int num, size_t size, bool blockIsAligned, bool needAlignedBlock)\n{\n    size_t splitSize;', 1, 1,
               name='sig; `if (size_t splitSize = e)` needs its declaration hoisted in C')
    t = rw.sub(t, r'else if \(size_t splitSize = ([^{]*?)\) \{', r'else if ((splitSize = \1)) {', 1, 1, name='declaration in condition -> assignment in condition (evaluated at the same point)')
    t = rw.fields(t, ['extMemPool'], 0)
    t = rw.sub(t, r'\balignUp\(fBlock, slabSize\)', 'alignUp_FreeBlock(fBlock, slabSize)', 0, name='bind-template(T:=FreeBlock*)')
    t = rw.sub(t, r'\b(\w+)->sizeTmp\b(?!\s*=[^=])', r'FB_RD_sizeTmp(\1)', 0, name='block field read -> FB_RD_sizeTmp (blocks are addresses in the harness)')
    t = rw.methods(t, ['coalescAndPut'], 'STUB_Backend_', 0)
    t = rw.sub(t, r'(?<![\w.>:])toAlignedBin\(', 'Backend_toAlignedBin(', 0, name='static method')
    t = rw.sub(t, r'FreeBlock::markBlocks\(', 'FreeBlock_markBlocks(', 0, name='ns-strip')
    t = member_calls(rw, t, ['initHeader'], 'FreeBlock_', 0)
    t = malloc_asserts(rw, t)
    t = rw.std(t)
    out.append(t)
    common.write(ctx, 'split.inc', '\n'.join(out) + '\n')
    fired['splitBlock'] = rw.fired


def extract_oom(ctx, sliced, fired):
    """out-of-memory ladder: Backend::genericGetBlock, askMemFromOS, releaseMemInCaches, MemExtendingSema::wait/signal, BackendSync::blockConsumed/blockReleased/getNumOfMods"""
    rw = Rewriter('oom')
    out = []
    for sig, what in ((r'enum (?=\{\s*minBinnedSize)', 'Backend::{minBinnedSize,maxBinned_SmallPage,maxBinned_HugePage}'), (r'enum (?=\{\s*VALID_BLOCK_IN_BIN)', 'Backend::VALID_BLOCK_IN_BIN'), (r'enum MemRegionType \{', 'MemRegionType')):
        s = slice_block(BH, sig)
        sliced.append('%s:%d %s' % (BH, s.line, what))
        out.append(s.text + ';')
    out.append('typedef enum MemRegionType MemRegionType;')
    s = slice_block(SU, r'static inline T alignUp\s*\(T arg, uintptr_t alignment\)')
    sliced.append('%s:%d alignUp<size_t>' % (SU, s.line))
    t = rw.sub(s.text, r'static inline T alignUp\s*\(T arg, uintptr_t alignment\)', 'static inline size_t alignUp(size_t arg, uintptr_t alignment)', 1, 1, name='bind-template(T:=size_t)')
    t = rw.sub(t, r'\bT\b', 'size_t', 0, name='bind-template(T:=size_t)')
    out.append(rw.fcasts(t, ['size_t'], 1))
    common.write(ctx, 'oom_types.inc', '\n'.join(out) + '\n')
    out = []
    # BackendSync
    for name, sig, csig in (('blockConsumed', r'void blockConsumed\(\)', 'static void BackendSync_blockConsumed(BackendSync *self)'),
                            ('blockReleased', r'void blockReleased\(\)', 'static void BackendSync_blockReleased(BackendSync *self)'),
                            ('getNumOfMods', r'intptr_t getNumOfMods\(\) const', 'static intptr_t BackendSync_getNumOfMods(BackendSync *self)')):
        s = slice_block(BH, sig, within=r'class BackendSync \{')
        sliced.append('%s:%d BackendSync::%s' % (BH, s.line, name))
        t = cxx2c.cpp_resolve(s.text, BMAC, name)
        t = rw.sub(t, sig, csig, 1, 1, name='sig')
        t = rw.fields(t, ['inFlyBlocks', 'binsModifications'], 0)
        t = rw.atomics(t, ['inFlyBlocks', 'binsModifications'], 0)
        t = rw.number_sites(t, name, by_kind=True)
        t = rw.sub(t, r'suppress_unused_warning\(prev\);', 'RG_NOP();', 0, name='suppress_unused_warning -> RG_NOP')
        t = malloc_asserts(rw, t)
        out.append(rw.std(t))
    # MemExtendingSema
    for name, sig, csig in (('wait', r'bool wait\(\)', 'static bool MemExtendingSema_wait(MemExtendingSema *self)'), ('signal', r'void signal\(\)', 'static void MemExtendingSema_signal(MemExtendingSema *self)')):
        s = slice_block(BH, sig, within=r'class MemExtendingSema \{')
        sliced.append('%s:%d MemExtendingSema::%s' % (BH, s.line, name))
        t = rw.sub(s.text, sig, csig, 1, 1, name='sig')
        t = rw.sub(t, r'SpinWaitWhileEq\(active, prevCnt\);', 'STUB_SpinWaitWhileEq(&self->active, prevCnt);', 0, name='callee stub (spin until the word changes)')
        t = rw.fields(t, ['active'], 0)
        t = rw.atomics(t, ['active'], 0)
        t = rw.number_sites(t, 'sema_' + name, by_kind=True)
        t = rw.std(t)
        if name == 'wait':
            t = tag_loops(t, 'sema_wait', rw, expect=1)
        out.append(t)
    BFIELDS = ['extMemPool', 'bkndSync', 'memExtendingSema', 'maxRequestedSize', 'backendCleanCnt', 'freeSlabAlignedBins', 'freeLargeBlockBins']

    def common_rules(t):
        t = rw.fields(t, BFIELDS, 0)
        t = rw.sub(t, r'self->bkndSync\.(getNumOfMods|blockReleased)\(', r'BackendSync_\1(&self->bkndSync', 0, name='member-object call x.m(..) -> C_m(&self->x, ..)')
        t = rw.sub(t, r'self->bkndSync\.waitTillBlockReleased\(', 'STUB_BackendSync_waitTillBlockReleased(&self->bkndSync, ', 0, name='callee stub')
        t = rw.sub(t, r'self->memExtendingSema\.(wait|signal)\(\)', r'MemExtendingSema_\1(&self->memExtendingSema)', 0, name='member-object call x.m(..) -> C_m(&self->x, ..)')
        t = rw.sub(t, r'self->(freeSlabAlignedBins|freeLargeBlockBins)\.findBlock\(', r'STUB_IndexedBins_findBlock(&self->\1, ', 0, name='callee stub (contract of findBlock/getFromBin: NULL, or one block with one blockConsumed)')
        t = rw.sub(t, r'self->extMemPool->(softCachesCleanup|hardCachesCleanup)\(', r'STUB_ExtMemoryPool_\1(self->extMemPool, ', 0, name='callee stub')
        t = rw.sub(t, r', \)', ')', 0, name='call without arguments')
        t = rw.atomics(t, ['backendCleanCnt'], 0, obj=r'self->')
        t = rw.methods(t, ['askMemFromOS', 'releaseMemInCaches'], 'Backend_', 0)
        t = rw.methods(t, ['requestBootstrapMem', 'scanCoalescQ', 'splitBlock', 'addNewRegion', 'releaseCachesToLimit', 'getMaxBinnedSize'], 'STUB_Backend_', 0)
        t = rw.sub(t, r'\bsizeToBin\(', 'STUB_sizeToBin(', 0, name='callee stub')
        t = rw.sub(t, r'AtomicUpdate\(self->maxRequestedSize, totalReqSize, MaxRequestComparator\(this\)\);', 'STUB_AtomicUpdate_maxRequestedSize(self, totalReqSize);', 0, name='callee stub (monotone maximum)')
        t = malloc_asserts(rw, t)
        return rw.std(t)
    sig = r'FreeBlock \*Backend::releaseMemInCaches\(intptr_t startModifiedCnt,\s*int \*lockedBinsThreshold, int numOfLockedBins\)'
    s = slice_block(BE, sig)
    sliced.append('%s:%d Backend::releaseMemInCaches' % (BE, s.line))
    t = rw.sub(s.text, sig, 'static FreeBlock *Backend_releaseMemInCaches(Backend *self, intptr_t startModifiedCnt, int *lockedBinsThreshold, int numOfLockedBins)', 1, 1, name='sig')
    out.append(common_rules(t))
    sig = r'FreeBlock \*Backend::askMemFromOS\(size_t blockSize, intptr_t startModifiedCnt,\s*int \*lockedBinsThreshold, int numOfLockedBins,\s*bool \*splittableRet, bool needSlabRegion\)'
    s = slice_block(BE, sig)
    sliced.append('%s:%d Backend::askMemFromOS' % (BE, s.line))
    t = rw.sub(s.text, sig, 'static FreeBlock *Backend_askMemFromOS(Backend *self, size_t blockSize, intptr_t startModifiedCnt, int *lockedBinsThreshold, int numOfLockedBins, bool *splittableRet, bool needSlabRegion)', 1, 1, name='sig')
    t = common_rules(t)
    t = rw.number_sites(t, 'askMemFromOS', by_kind=True)
    t = tag_loops(t, 'askMemFromOS', rw, expect=1)
    out.append(t)
    sig = r'FreeBlock \*Backend::genericGetBlock\(int num, size_t size, bool needAlignedBlock\)'
    s = slice_block(BE, sig)
    sliced.append('%s:%d Backend::genericGetBlock' % (BE, s.line))
    t = rw.sub(s.text, sig, 'FreeBlock *Backend_genericGetBlock(Backend *self, int num, size_t size, bool needAlignedBlock)', 1, 1, name='sig')
    t = common_rules(t)
    t = rw.number_sites(t, 'genericGetBlock', by_kind=True)
    t = tag_loops(t, 'genericGetBlock', rw, expect=2)
    out.append(t)
    common.write(ctx, 'oom.inc', '\n'.join(out) + '\n')
    fired['oom'] = rw.fired


def extract_region(ctx, sliced, fired):
    """Backend::addNewRegion + findBlockInRegion (real arithmetic on the raw region), Backend::destroy (region list walk)"""
    rw = Rewriter('region')
    out = []
    const_define(rw, sliced, TI, 'slabSize', out)
    s = cxx2c.slice_stmt(TI, r'const size_t largeObjectAlignment\s*=')
    sliced.append('%s:%d largeObjectAlignment' % (TI, s.line))
    out.append(rw.sub(s.text, r'const size_t largeObjectAlignment = estimatedCacheLineSize;', '#define largeObjectAlignment ((size_t)(estimatedCacheLineSize))', 1, 1, name='const-global->#define'))
    m = re.search(r'#if __powerpc64__ \|\| __ppc64__ \|\| __bgp__\nconst uint32_t estimatedCacheLineSize = \d+;\n#else\nconst uint32_t estimatedCacheLineSize =\s*(\d+);\n#endif', load(SU))
    if not m:
        raise ExtractionBreak('cannot parse estimatedCacheLineSize (x86-64 arm of the #if)')
    sliced.append('%s:%d estimatedCacheLineSize' % (SU, cxx2c.line_of(load(SU), m.start())))
    out.append('#define estimatedCacheLineSize %s' % m.group(1))
    m = re.search(r'static const int numOfSlabAllocOnMiss = (\d+);', load(BH))
    if not m:
        raise ExtractionBreak('%s: constant numOfSlabAllocOnMiss not found' % BH)
    out.append('#define numOfSlabAllocOnMiss (%s)' % m.group(1))
    for sig, what in ((r'enum (?=\{\s*VALID_BLOCK_IN_BIN)', 'Backend::VALID_BLOCK_IN_BIN'), (r'enum MemRegionType \{', 'MemRegionType')):
        s = slice_block(BH, sig)
        sliced.append('%s:%d %s' % (BH, s.line, what))
        out.append(s.text + ';')
    out.append('typedef enum MemRegionType MemRegionType;')
    for name in ('alignDown', 'alignUp'):
        s = slice_block(SU, r'static inline T %s\s*\(T arg, uintptr_t alignment\)' % name)
        sliced.append('%s:%d %s<uintptr_t>' % (SU, s.line, name))
        t = rw.sub(s.text, r'static inline T %s\s*\(T arg, uintptr_t alignment\)' % name, 'static inline uintptr_t %s(uintptr_t arg, uintptr_t alignment)' % name, 1, 1, name='bind-template(T:=uintptr_t)')
        t = rw.sub(t, r'\bT\b', 'uintptr_t', 0, name='bind-template(T:=uintptr_t)')
        out.append(rw.fcasts(t, ['uintptr_t'], 1))
    common.write(ctx, 'region_types.inc', '\n'.join(out) + '\n')
    out = []

    def region_fields(t):
        t = rw.sub(t, r'\bregion->(\w+) = ([^;]*);', r'MR_WR_\1(region, \2);', 0, name='region header field write -> MR_WR_<f> (regions are addresses in the harness)')
        t = rw.sub(t, r'\bregion->(\w+)\b', r'MR_RD_\1(region)', 0, name='region header field read -> MR_RD_<f>')
        t = rw.sub(t, r'sizeof\(MemRegion\)', 'SIZEOF_MemRegion', 0, name='sizeof -> symbolic constant')
        t = rw.sub(t, r'sizeof\(LastFreeBlock\)', 'SIZEOF_LastFreeBlock', 0, name='sizeof -> symbolic constant')
        t = rw.sub(t, r'FreeBlock::minBlockSize', 'FreeBlock_minBlockSize', 0, name='ns-strip')
        t = rw.sub(t, r'GuardedSize::', 'GuardedSize_', 0, name='ns-strip')
        return t
    sig = r'FreeBlock \*Backend::findBlockInRegion\(MemRegion \*region, size_t exactBlockSize\)'
    s = slice_block(BE, sig)
    sliced.append('%s:%d Backend::findBlockInRegion' % (BE, s.line))
    t = rw.sub(s.text, sig, 'static FreeBlock *Backend_findBlockInRegion(Backend *self, MemRegion *region, size_t exactBlockSize)', 1, 1, name='sig')
    t = rw.sub(t, r'(?s)static_assert\(.*?\);', 'RG_NOP();', 1, 1, name='static_assert dropped (its condition is a harness assumption on the symbolic sizeof)')
    t = region_fields(t)
    t = malloc_asserts(rw, t)
    out.append(rw.std(t))
    sig = r'FreeBlock \*Backend::addNewRegion\(size_t size, MemRegionType memRegType, bool addToBin\)'
    s = slice_block(BE, sig)
    sliced.append('%s:%d Backend::addNewRegion' % (BE, s.line))
    t = rw.sub(s.text, sig, 'FreeBlock *Backend_addNewRegion(Backend *self, size_t size, MemRegionType memRegType, bool addToBin)', 1, 1, name='sig')
    t = rw.sub(t, r'(?s)static_assert\(.*?\);', 'RG_NOP();', 1, 1, name='static_assert dropped')
    t = rw.sub(t, r'\ballocRawMem\(rawSize\)', 'STUB_Backend_allocRawMem(self, &rawSize)', 1, 1, name='callee stub, reference parameter -> pointer')
    t = rw.sub(t, r'\bfreeRawMem\(', 'STUB_Backend_freeRawMem(self, ', 0, name='callee stub')
    t = rw.sub(t, r'\bregionList\.add\(', 'STUB_MemRegionList_add(&self->regionList, ', 0, name='callee stub')
    t = rw.sub(t, r'\bstartUseBlock\(', 'STUB_Backend_startUseBlock(self, ', 0, name='callee stub')
    t = rw.sub(t, r'\bbkndSync\.binsModified\(\);', 'STUB_binsModified(self);', 0, name='callee stub')
    t = rw.sub(t, r'\bfindBlockInRegion\(', 'Backend_findBlockInRegion(self, ', 0, name='method')
    t = rw.fields(t, ['extMemPool'], 0)
    t = region_fields(t)
    t = malloc_asserts(rw, t)
    out.append(rw.std(t))
    common.write(ctx, 'region.inc', '\n'.join(out) + '\n')
    # Backend::destroy: the walk that gives every raw region back
    sig = r'bool Backend::destroy\(\)'
    s = slice_block(BE, sig)
    sliced.append('%s:%d Backend::destroy' % (BE, s.line))
    t = rw.sub(s.text, sig, 'bool Backend_destroy(Backend *self)', 1, 1, name='sig')
    t = rw.sub(t, r'\bverify\(\);', 'RG_NOP();', 1, 1, name='debug verification -> RG_NOP')
    t = rw.sub(t, r'\binUserPool\(\)', 'Backend_inUserPool(self)', 0, name='method')
    t = rw.sub(t, r'\b(freeLargeBlockBins|freeSlabAlignedBins)\.reset\(\);', r'STUB_IndexedBins_reset(&self->\1);', 0, name='callee stub')
    t = rw.sub(t, r'\bfreeRawMem\(', 'STUB_Backend_freeRawMem(self, ', 0, name='callee stub')
    t = rw.fields(t, ['regionList'], 0)
    t = rw.sub(t, r'self->regionList\.head->(next|allocSz|blockSz)\b', r'MR_RD_\1(self->regionList.head)', 0, name='region header field read -> MR_RD_<f>')
    t = rw.std(t)
    t = tag_loops(t, 'destroy', rw, expect=1)
    out = [t]
    for name, sig, csig in (('userPool', r'bool userPool\(\) const', 'static bool ExtMemoryPool_userPool(ExtMemoryPool *self)'), ('destroy', r'bool destroy\(\)', 'bool ExtMemoryPool_destroy(ExtMemoryPool *self)')):
        s = slice_block(TI, sig, within=r'struct ExtMemoryPool \{')
        sliced.append('%s:%d ExtMemoryPool::%s' % (TI, s.line, name))
        t = rw.sub(s.text, sig, csig, 1, 1, name='sig')
        t = rw.sub(t, r'\b(loc|allLocalCaches)\.reset\(\);', r'STUB_\1_reset(self);', 0, name='callee stub')
        t = rw.sub(t, r'\btlsPointerKey\.destroy\(\)', 'STUB_tlsPointerKey_destroy(self)', 0, name='callee stub')
        t = rw.sub(t, r'\bbackend\.destroy\(\)', 'Backend_destroy(&self->backend)', 0, name='member-object call x.m() -> C_m(&self->x)')
        t = rw.sub(t, r'\buserPool\(\)', 'ExtMemoryPool_userPool(self)', 0, name='method')
        t = rw.sub(t, r'\bisPoolValid\(\)', 'STUB_isPoolValid(self)', 0, name='debug-only method (defined under MALLOC_DEBUG) -> stub')
        t = rw.fields(t, ['rawAlloc', 'rawFree', 'granularity'], 0)
        t = malloc_asserts(rw, t)
        out.append(rw.std(t))
    s = slice_block(TI, r'inline bool Backend::inUserPool\(\) const')
    sliced.append('%s:%d Backend::inUserPool' % (TI, s.line))
    t = rw.sub(s.text, r'inline bool Backend::inUserPool\(\) const', 'static bool Backend_inUserPool(Backend *self)', 1, 1, name='sig')
    t = rw.sub(t, r'\bextMemPool->userPool\(\)', 'ExtMemoryPool_userPool(self->extMemPool)', 1, 1, name='method')
    out.insert(1, t)
    out[0], out[1], out[2] = out[2], out[1], out[0]     # userPool, inUserPool, Backend::destroy, ExtMemoryPool::destroy
    common.write(ctx, 'destroy.inc', '\n'.join(out) + '\n')
    fired['region'] = rw.fired


def extract_poolapi(ctx, sliced, fired):
    """rml::pool_create_v1 / pool_destroy / pool_reset (frontend.cpp): argument validation and failure paths"""
    rw = Rewriter('poolapi')
    SA = 'include/oneapi/tbb/scalable_allocator.h'
    m = re.search(r'struct MemPoolPolicy \{\s*enum \{\s*TBBMALLOC_POOL_VERSION = (\d+)\s*\};', load(SA))
    if not m:
        raise ExtractionBreak('%s: MemPoolPolicy::TBBMALLOC_POOL_VERSION not found' % SA)
    out = ['#define MemPoolPolicy_TBBMALLOC_POOL_VERSION (%s)' % m.group(1)]
    for name, sig, csig in (
            ('pool_create_v1', r'rml::MemPoolError pool_create_v1\(intptr_t pool_id, const MemPoolPolicy \*policy,\s*rml::MemoryPool \*\*pool\)', 'int pool_create_v1(intptr_t pool_id, const MemPoolPolicy *policy, rml_MemoryPool **pool)'),
            ('pool_destroy', r'bool pool_destroy\(rml::MemoryPool\* memPool\)', 'bool pool_destroy(rml_MemoryPool* memPool)'),
            ('pool_reset', r'bool pool_reset\(rml::MemoryPool\* memPool\)', 'bool pool_reset(rml_MemoryPool* memPool)')):
        s = slice_block(FE, sig)
        sliced.append('%s:%d rml::%s' % (FE, s.line, name))
        t = rw.sub(s.text, sig, csig, 1, 1, name='sig')
        t = rw.sub(t, r'rml::internal::MemoryPool', 'MemoryPool', 1, name='ns-strip')
        t = rw.sub(t, r'rml::MemoryPool', 'rml_MemoryPool', 0, name='ns-strip')
        t = rw.sub(t, r'MemPoolPolicy::TBBMALLOC_POOL_VERSION', 'MemPoolPolicy_TBBMALLOC_POOL_VERSION', 0, name='ns-strip')
        t = rw.casts(t, 0)
        t = rw.sub(t, r'\bmemset\(', 'VERIF_memset(', 0, name='memset -> recording stub')
        t = member_calls(rw, t, ['init', 'destroy', 'reset'], 'STUB_MemoryPool_', 0)
        t = rw.sub(t, r'\b(isMallocInitialized|doInitialization)\(\)', r'STUB_\1()', 0, name='callee stub')
        out.append(rw.std(t))
    common.write(ctx, 'poolapi.inc', '\n'.join(out) + '\n')
    fired['poolapi'] = rw.fired


def extract_empty_block(ctx, sliced, fired):
    """MemoryPool::getEmptyBlock: slab refill with roll-back when a back reference cannot be obtained"""
    rw = Rewriter('getEmptyBlock')
    s = slice_block(FE, r'Block \*MemoryPool::getEmptyBlock\(size_t size\)')
    sliced.append('%s:%d MemoryPool::getEmptyBlock' % (FE, s.line))
    t = rw.sub(s.text, r'Block \*MemoryPool::getEmptyBlock\(size_t size\)', 'Block *MemoryPool_getEmptyBlock(struct MemoryPool* self, size_t size)', 1, 1, name='sig')
    t = rw.sub(t, r'TLSData\* tls = getTLS\(\s*false\s*\);', 'TLSData* tls = STUB_getTLS(self);', 1, 1, name='callee stub')
    t = rw.sub(t, r'FreeBlockPool::ResOfGet resOfGet = tls\?\s*tls->freeSlabBlocks\.getBlock\(\) : FreeBlockPool::ResOfGet\(nullptr, false\);', 'struct ResOfGet resOfGet = tls ? STUB_freeSlabBlocks_getBlock(tls) : RESOFGET(NULL, false);', 1, 1, name='callee stub')
    t = rw.sub(t, r'Backend::numOfSlabAllocOnMiss', 'numOfSlabAllocOnMiss', 2, name='class constant')
    t = rw.sub(t, r'static_cast<Block\*>\(extMemPool\.backend\.getSlabBlock\(num\)\)', 'STUB_getSlabBlock(self, num)', 1, 1, name='callee (backend, job oom.genericGetBlock)')
    t = rw.sub(t, r'extMemPool\.userPool\(\)', 'STUB_userPool(self)', 2, name='callee stub')
    t = rw.sub(t, r'BackRefIdx::newBackRef\(\s*false\s*\)', 'STUB_newBackRef()', 0, None, name='callee stub (may fail: returns the invalid index)')
    t = rw.sub(t, r'backRefIdx\[(\w+)\]\.isInvalid\(\)', r'BRI_isInvalid(backRefIdx[\1])', 0, None, name='method')
    t = rw.sub(t, r'(?<![\w.>])removeBackRef\(', 'STUB_removeBackRef(', 0, None, name='callee stub')
    t = rw.sub(t, r'extMemPool\.backend\.putSlabBlock\(', 'STUB_putSlabBlock(self, ', 0, None, name='callee stub')
    t = rw.sub(t, r'new \(&b->backRefIdx\) BackRefIdx\(\);', 'b->backRefIdx = BRI_invalid();', 0, None, name='placement-new of the invalid index')
    t = rw.sub(t, r'(?<![\w.>])setBackRef\(', 'STUB_setBackRef(', 0, None, name='callee stub')
    t = rw.sub(t, r'b->tlsPtr\.store\(tls, std::memory_order_relaxed\);', 'b->tlsPtr = tls;', 0, None, name='atomic-store (block not yet shared)')
    t = rw.sub(t, r'b->poolPtr = this;', 'b->poolPtr = self;', 0, None, name='this')
    t = rw.sub(t, r'tls->freeSlabBlocks\.returnBlock\(b\);', 'STUB_returnBlock(tls, b);', 0, None, name='callee stub')
    t = rw.sub(t, r'result->initEmptyBlock\(tls, size\);', 'STUB_initEmptyBlock(result, tls, size);', 0, None, name='callee stub')
    t = rw.sub(t, r'STAT_increment\([^;]*\);', 'RG_NOP();', 0, None, name='statistics -> RG_NOP')
    t = rw.sub(t, r', ASSERT_TEXT\)', ', "assertion")', 0, None, name='assert text')
    t = rw.asserts(t, 0, macro='MALLOC_ASSERT')
    t = rw.std(t)
    m = re.search(r'numOfSlabAllocOnMiss = (\d+)', load('src/tbbmalloc/backend.h'))
    if not m:
        raise ExtractionBreak('backend.h: numOfSlabAllocOnMiss not found')
    common.write(ctx, 'empty_block.inc', t + '\n')
    ctx.num_on_miss = int(m.group(1))
    fired['getEmptyBlock'] = rw.fired


def build(ctx):
    sliced, fired = extract(ctx)
    extract_remap(ctx, sliced, fired)
    extract_empty_block(ctx, sliced, fired)
    extract_freeblock(ctx, sliced, fired)
    extract_getfrombin(ctx, sliced, fired)
    extract_split(ctx, sliced, fired)
    extract_oom(ctx, sliced, fired)
    extract_region(ctx, sliced, fired)
    extract_poolapi(ctx, sliced, fired)
    C = os.path.join(HERE, 'c18.c')
    jobs = []
    for w in (8, 16):
        jobs.append(Job('calloc.overflow.w%d' % w, C, 'h_calloc', route='BD', bounded=True, bound_text='size_t bound to a %d-bit type (the code is sizeof(size_t)-generic); the 32/64-bit instantiations are beyond SAT reach (multiply/divide)' % w,
                        defines=['VSZ_BITS=%d' % w, 'CALLOC'], timeout=600, solver='cadical' if w == 16 else None,
                        checks=['--bounds-check', '--pointer-check', '--div-by-zero-check', '--no-signed-overflow-check'],   # no signed-overflow check: uint8/16 operands promote to int, an artefact of the narrowed type
                        target='scalable_calloc (size_t := uint%d_t)' % w, source=FE))
    jobs.append(Job('calloc.heuristic.w64', C, 'h_calloc64', route='LF', defines=['CALLOC64'], timeout=600, target='scalable_calloc, 64 bit: control flow of the overflow guard (which products reach the exact check; result plumbing)', source=FE))
    jobs.append(Job('oom.genericGetBlock', C, 'h_oom', route='LC', loops=True, nloops=4, defines=['OOM'], timeout=600,
                    target='Backend::genericGetBlock + askMemFromOS + releaseMemInCaches + MemExtendingSema::wait/signal + BackendSync::blockConsumed/blockReleased (any number of retries, raw allocation refused at any call)', source=BE))
    jobs.append(Job('region.addNewRegion', C, 'h_region', route='LF', defines=['REGION'], timeout=300, solver='cadical', inputs=['IN_size', 'IN_type', 'IN_base', 'IN_raw', 'IN_fixed'],
                    target='Backend::addNewRegion + findBlockInRegion + alignUp/alignDown (raw allocation refused / too small / usable; any base address, any sizeof(MemRegion), sizeof(LastFreeBlock))', source=BE))
    jobs.append(Job('pool.destroy', C, 'h_destroy', route='LC', loops=True, nloops=1, defines=['DESTROY'], timeout=300,
                    target='ExtMemoryPool::destroy + Backend::destroy (region list walk, any number of regions) + userPool/inUserPool', source=BE))
    jobs.append(Job('largeobj.size_guard', C, 'h_lloc', route='LF', defines=['REMAP', 'LLOC'], timeout=600, inputs=['IN_size', 'IN_alignment'],
                    target='MemoryPool::getFromLLOCache: size + headers + alignment, alignToBin and the wrapped-size guard (with the real LargeObjectCache::alignToBin, alignUp, log2)', source=FE))
    # MemoryPool::getFromLLOCache as a whole with the thread's TLS possibly missing (TLS creation was refused earlier - a state this property is about): the extraction and the
    # harness are the ones of C17 (specs/C17: extract / extract_aligned / extract_lloc write their .inc files into THIS check's work directory; c17.c section LLOC_PLACE)
    import importlib.util
    sp17 = importlib.util.spec_from_file_location('spec_c17_for_c18', os.path.join(HERE, '..', 'C17', 'spec.py'))
    c17 = importlib.util.module_from_spec(sp17)
    sp17.loader.exec_module(c17)
    s17, f17 = c17.extract(ctx)
    c17.extract_aligned(ctx, s17, f17)
    c17.extract_lloc(ctx, s17, f17)
    sliced += [x for x in s17 if 'getFromLLOCache' in x or 'isLargeObject' in x]
    fired['c17.lloc'] = f17.get('lloc', {})
    jobs.append(Job('largeobj.place.no_tls', os.path.join(HERE, '..', 'C17', 'c17.c'), 'h_lloc_place', route='LF', defines=['LLOC', 'LLOC_PLACE', 'LLOC_ALIGN_EXP=6'], timeout=600,
                    target='MemoryPool::getFromLLOCache, whole function, with tls == NULL or not (cache-line alignment): no access through a missing TLS, NULL from the block sources is passed on', source=FE))
    jobs.append(Job('pool.create_destroy.args', C, 'h_poolapi', route='LF', defines=['POOLAPI'], timeout=300, target='rml::pool_create_v1 + pool_destroy + pool_reset (policy validation, failure paths)', source=FE))
    jobs += [
        Job('posix_memalign.args', C, 'h_memalign', route='LF', defines=['API'], target='scalable_posix_memalign + isPowerOfTwoAtLeast', source=FE),
        Job('aligned_malloc.args', C, 'h_aligned_malloc', route='LF', defines=['API'], target='scalable_aligned_malloc + isPowerOfTwo', source=FE),
        Job('aligned_realloc.args', C, 'h_aligned_realloc', route='LF', defines=['API'], target='scalable_aligned_realloc', source=FE),
        Job('slab.getEmptyBlock', C, 'h_empty_block', route='LW', defines=['EMPTYBLOCK', 'numOfSlabAllocOnMiss=%d' % ctx.num_on_miss], unwind=ctx.num_on_miss + 2, target='MemoryPool::getEmptyBlock (slab refill; roll-back when a back reference cannot be obtained)', source=FE),
        Job('remap.size_guard', C, 'h_remap', route='LF', defines=['REMAP'], target='Backend::remap: size arithmetic + wrap-around guard (with the real LargeObjectCache::alignToBin, alignUp, log2)', source=BE, timeout=600),
        Job('realloc.args', C, 'h_realloc', route='LF', defines=['API'], target='scalable_realloc', source=FE),
        Job('bin.getFromBin', C, 'h_getfrombin', route='LC', loops=True, nloops=1, defines=['GETBIN'], timeout=300, inputs=['IN_size', 'IN_addr', 'IN_S', 'IN_needAligned', 'IN_alignedBin'],
            target='Backend::IndexedBins::getFromBin + FreeBlock::tryLockBlock/rightNeig/setMeFree/setLeftFree + Bin::empty + BackendSync::blockConsumed (any bin contents, any block address and size)', source=BE),
    ]
    for case, what in ((1, 'special: slab request cut from the middle of an unaligned block (fixed pool)'), (2, 'slab request cut from the right end of a slab-aligned block'), (3, 'one block of any size cut from the left end')):
        jobs.append(Job('backend.splitBlock.case%d' % case, C, 'h_split', route='LW', unwind=14, defines=['SPLIT', 'SPLIT_CASE=%d' % case], timeout=300, inputs=['IN_addr', 'IN_S', 'IN_size', 'IN_num', 'IN_blockAligned', 'IN_needAligned'],
                        target='Backend::splitBlock (%s) + toAlignedBin + FreeBlock::markBlocks/initHeader + alignUp (any block address and size; 1..numOfSlabAllocOnMiss slabs)' % what, source=BE))
    jobs += [
    ]
    return {
        'jobs': jobs, 'sliced': sliced, 'fired': fired,
        'trusted': ['internalMalloc / allocateAligned / reallocAligned / internalFree / scalable_free: stubs that may return NULL (reallocAligned is proved under C17)', 'errno modelled as a ghost variable',
                    'GuardedSize::tryLock / unlock / initLocked (backend.cpp:169-191): atomic specification supplied by the harness (tryLock: returns the old word and stores the lock state iff the word held a size; unlock: stores the size; initLocked: stores LOCKED); their CAS loop is not proved here',
                    'bin.getFromBin: Bin::removeBlock, BitMask::set stubs (recording); MallocMutex try/blocking lock as a held-counter; the bin list is an arbitrary sequence of candidate blocks (curr->next yields NULL or a fresh arbitrary block)',
                    'backend.splitBlock.*: coalescAndPut is a recording stub that checks its precondition (locked delimiting size words, size, placement); what coalescAndPut/doCoalesc then do is not proved',
                    'oom.genericGetBlock: IndexedBins::findBlock (NULL, or one block + one blockConsumed - the contract proved for getFromBin), addNewRegion (NULL = refused | VALID_BLOCK_IN_BIN | block + one blockConsumed), splitBlock, scanCoalescQ / softCachesCleanup / hardCachesCleanup / waitTillBlockReleased (arbitrary bool), requestBootstrapMem, releaseCachesToLimit, sizeToBin, AtomicUpdate(maxRequestedSize) (monotone maximum), SpinWaitWhileEq: stubs',
                    'region.addNewRegion: allocRawMem (refuses, or returns real memory [base, base+size\') with size\' >= request for growing pools / any size for a fixed pool), freeRawMem, MemRegionList::add, startUseBlock, binsModified: recording stubs',
                    'pool.destroy: freeRawMem (recording; may report failure), tlsPointerKey.destroy, cache resets: stubs',
                    'pool.create_destroy.args: MemoryPool::init/destroy/reset, isMallocInitialized, doInitialization: stubs with arbitrary results; error-code names bound to distinct harness constants'],
        'drops': ['extern "C"', 'static_assert', 'errno -> VERIF_errno', 'memset -> recording stub', 'memory orders (SC assumed)', 'Backend::verify() (debug) -> RG_NOP', 'suppress_unused_warning -> RG_NOP',
                  '`goto try_next` in getFromBin -> RETRY_FROM: the restart state is a proof obligation, the continuation is cut (induction over restarts; termination not claimed)',
                  'scoped_lock destructor made explicit at scope exits (UNLOCK_IF_TAKEN)', 'block / region header field accesses -> FB_WR_sizeTmp, FB_RD_sizeTmp, BIN_NEXT, MR_RD_*/MR_WR_* accessors (blocks and regions are addresses in the harness)',
                  'sizeof(MemRegion), sizeof(LastFreeBlock), sizeof(LargeMemoryBlock), sizeof(LargeObjectHdr) -> symbolic constants (8..4096, word multiples)',
                  '`else if (size_t splitSize = e)` -> declaration hoisted, assignment in the condition'],
        'not_decided': ['scalable_calloc at 64 bits: the exact overflow test nobj*size / nobj != size (64-bit multiply and divide are beyond the SAT back ends; proved for 8- and 16-bit size_t as a bounded stand-in)',
                        'coalescAndPut / doCoalesc / coalescAndPutList (merging remainders with neighbours and filing them: setMeFree/setLeftFree of the merged block), CoalRequestQ; GuardedSize CAS loop',
                        'startUseBlock, MemRegionList::add/remove, allocRawMem/freeRawMem themselves (callback invocation, huge-page fallbacks, totalMemSize accounting); Backend::reset / MemoryPool::reset (pool_reset); releaseRegion from coalescing (a raw region given back while in use)',
                        'MemoryPool::init / ExtMemoryPool::init failure paths (TLS key creation), MemoryPool::destroy (large-object list release), pool_identify, internalPoolMalloc NULL propagation, memory_pool.h C++ wrappers (bad_alloc)',
                        'back-reference table growth failure, large-object cache misses, slab refill (getEmptyBlock) under a failing backend',
                        'that a bin really contains only free blocks whose size words agree (heap representation invariant across operations): assumed per candidate in bin.getFromBin, established for fresh regions only through the startUseBlock stub',
                        'termination of the retry loops (goto try_next, genericGetBlock for(;;), MemExtendingSema::wait)',
                        'multi-thread interleavings beyond the rely/guarantee treatment of the size words, inFlyBlocks and the semaphore word (SC atomics)'],
        'assumptions': ['block / region addresses lie below 2^56 and [addr, addr+size+header) does not wrap (user-space addresses; also keeps CBMC pointer-typed field offsets exact)',
                        'a free block in a bin is at least FreeBlock::minBlockSize bytes and is followed by a block header (regions end in a LastFreeBlock)',
                        'callers of genericGetBlock: slab-aligned requests are num*slabSize with 1 <= num <= numOfSlabAllocOnMiss (getSlabBlock); any other request is one block of any size',
                        'splitBlock entry state = getFromBin exit state (fit, locked size words, sizeTmp) or a fresh region block; slab request from an unaligned block only in fixed pools; slabAligned attribute means the right end is slab aligned',
                        'raw allocator contract: on success real memory; growing pools/OS return at least the requested size; a fixed pool is asked only by requestBootstrapMem (slab region)',
                        'sizes reaching addNewRegion are <= SIZE_MAX - 2^16 (proved for getFromLLOCache results in largeobj.size_guard; other callers pass small sizes)',
                        'rely for size words: a word not held by this thread is free (== block size) or held (LOCKED/COAL_BLOCK) by another thread; a held word is changed by nobody else',
                        'large-object alignment passed to getFromLLOCache is a power of two >= 64'],
    }


def replay(ctx, jobname, failure):
    exe = native.build([os.path.join(HERE, 'c18_replay.cpp')], os.path.join(ctx.work, 'c18_replay'),
                       flags=['-fno-access-control', '-I', os.path.join(ctx.repo, 'src/tbbmalloc'), '-I', os.path.join(ctx.repo, 'src'), '-D__TBBMALLOC_BUILD=1', '-ldl'])
    ins = failure.get('inputs', {}) or {}
    extra = [str(ins.get('IN_newSize'))] if jobname == 'remap.size_guard' and ins.get('IN_newSize') else []
    if jobname == 'bin.getFromBin':
        extra = [str(ins.get('IN_addr', 0) or 0), str(ins.get('IN_S', 0) or 0), str(ins.get('IN_size', 0) or 0)]
    elif jobname not in ('remap.size_guard',) and not jobname.startswith(('calloc', 'posix_memalign', 'aligned_', 'realloc')):
        return {'reproduced': False, 'detail': 'no native recipe for this job (the counterexample is in the replay file); seeded/C18-3/demo.cpp is a public-API scenario for the backend jobs'}
    rc, out = native.run([exe, jobname] + extra, timeout=120)
    rep = {'cmd': exe + ' ' + jobname, 'rc': rc, 'output': out[-1500:], 'reproduced': False, 'detail': 'native search found no failing input'}
    m = re.search(r'REPRODUCED (.*)', out)
    if m:
        rep['reproduced'] = True
        rep['detail'] = m.group(1)
        w = re.search(r'class=(\S+)', m.group(1))
        rep['witness_class'] = w.group(1) if w else None
    return rep
