// Native replay for C18 against the REAL tbbmalloc compiled from /repo's current sources.
#define __TBB_SOURCE_DIRECTLY_INCLUDED 1
#define __TBB_MALLOC_WHITEBOX_TEST 1
#define WhiteboxTestingYield() ((void)0)
#include "frontend.cpp"
#include "backend.cpp"
#include "backref.cpp"
namespace tbbmalloc_whitebox { std::atomic<size_t> locGetProcessed{}; std::atomic<size_t> locPutProcessed{}; }
#include "large_objects.cpp"
#include "tbbmalloc.cpp"
#include <cstdio>
#include <cstdlib>
#include <cerrno>
#include <string>
#include <vector>
#include <sys/mman.h>

// ---- bin.getFromBin: the REAL Backend::IndexedBins::getFromBin on a bin holding one free block at a chosen address offset and size ----
static_assert(sizeof(rml::internal::FreeBlock) == 56, "header view of FreeBlock used by the harness (GuardedSize myL, leftL; prev, next, nextToFree; sizeTmp; myBin; slabAligned; blockInBin)");
static bool try_getFromBin(size_t lead_in, size_t S, size_t size, bool report) {
    using namespace rml::internal;
    if (S < sizeof(FreeBlock) || S > (size_t(1) << 33) || size > (size_t(1) << 33)) return false;
    size_t lead = lead_in & (slabSize - 1);
    size_t mapSz = alignUp(S + 4 * slabSize, slabSize);
    char* base = (char*)mmap(nullptr, mapSz + slabSize, PROT_READ | PROT_WRITE, MAP_PRIVATE | MAP_ANONYMOUS | MAP_NORESERVE, -1, 0);
    if (base == MAP_FAILED) return false;
    char* al = (char*)alignUp((uintptr_t)base, slabSize);
    FreeBlock* fb = (FreeBlock*)(al + slabSize - lead);          // distance to the next slab boundary == lead (lead 0: aligned)
    FreeBlock* right = (FreeBlock*)((uintptr_t)fb + S);
    fb->initHeader(); fb->setMeFree(S); right->initHeader(); right->setLeftFree(S);
    alignas(64) static char binsSpace[sizeof(Backend::IndexedBins)]; memset(binsSpace, 0, sizeof(binsSpace));
    alignas(64) static char syncSpace[sizeof(BackendSync)]; memset(syncSpace, 0, sizeof(syncSpace));
    Backend::IndexedBins* bins = (Backend::IndexedBins*)binsSpace; BackendSync* sync = (BackendSync*)syncSpace;
    const int bin = 3;
    bins->addBlock(bin, fb, S, /*addToTail=*/false);
    FreeBlock* r = bins->getFromBin(bin, sync, size, /*needAlignedRes=*/true, /*alignedBin=*/false, /*wait=*/true, nullptr);
    bool bad = false;
    if (r) {
        uintptr_t newB = alignUp((uintptr_t)r, slabSize), end = (uintptr_t)fb + S;
        if (r != fb || newB + size > end) bad = true;
        if (bad && report)
            std::printf("REPRODUCED class=getFromBin-fit IndexedBins::getFromBin(size=%zu, needAlignedRes=true, alignedBin=false) accepted the free block [%p, +%zu): its slab-aligned start is %zu bytes in, so the %zu-byte slab block would end %zu bytes inside the live right neighbour\n",
                        size, (void*)fb, S, (size_t)(newB - (uintptr_t)fb), size, (size_t)(newB + size - end));
    }
    munmap(base, mapSz + slabSize);
    return bad;
}
static int replay_getFromBin(int argc, char** argv) {
    size_t addr = argc > 2 ? std::strtoull(argv[2], nullptr, 0) : 0, S = argc > 3 ? std::strtoull(argv[3], nullptr, 0) : 0, size = argc > 4 ? std::strtoull(argv[4], nullptr, 0) : 0;
    if (S && size && try_getFromBin((size_t)0 - addr, S, size, true)) return 0;           // the verifier's counterexample first
    for (size_t num : {size_t(1), size_t(2)}) for (size_t lead : {size_t(8), size_t(56), size_t(64), size_t(4096), size_t(8192), size_t(16320), size_t(16376)})
        for (size_t slack : {size_t(0), size_t(8), size_t(56), size_t(64), size_t(4096)}) {
            size_t size = num * rml::internal::slabSize;
            for (size_t S : {size + slack, size + lead - 8, size + lead, size + lead + 8, size + lead + 56 + slack})
                if (try_getFromBin(lead, S, size, true)) return 0;
        }
    std::printf("NOT-REPRODUCED\n"); return 0;
}
int main(int argc, char** argv) {
    std::string job = argc > 1 ? argv[1] : "";
    if (job == "bin.getFromBin") return replay_getFromBin(argc, argv);
    if (job == "remap.size_guard") {
        // a huge object that lives alone in its region (>= 1 MB) is grown by scalable_realloc -> reallocAligned -> Backend::remap; sizes near SIZE_MAX cannot be represented
        size_t want = argc > 2 ? std::strtoull(argv[2], nullptr, 0) : 0;
        std::vector<size_t> sizes; if (want) sizes.push_back(want);
        for (size_t d : {size_t(16), size_t(4096), size_t(8192), size_t(1) << 20, size_t(1) << 24}) sizes.push_back(SIZE_MAX - d);
        for (size_t olds : {size_t(16) << 20, size_t(2) << 20, size_t(64) << 20}) for (size_t ns : sizes) {
            char* p = (char*)scalable_malloc(olds); if (!p) continue;
            p[0] = 'a'; p[olds - 1] = 'z';
            errno = 0; char* q = (char*)scalable_realloc(p, ns);
            if (q != nullptr) {
                std::printf("REPRODUCED class=remap-size-wrap p = scalable_malloc(%zu); scalable_realloc(p, %zu /* SIZE_MAX-%zu */) returned non-null %p (errno %d, scalable_msize %zu): the request cannot be represented, the old block has been shrunk away\n",
                            olds, ns, SIZE_MAX - ns, (void*)q, errno, scalable_msize(q));
                return 0;
            }
            if (p[0] != 'a' || p[olds - 1] != 'z') { std::printf("REPRODUCED class=remap-size-wrap failed realloc damaged the live block\n"); return 0; }
            scalable_free(p);
        }
        std::printf("NOT-REPRODUCED\n"); return 0;
    }
    std::vector<size_t> vals;
    for (int b : {0, 1, 8, 16, 31, 32, 33, 48, 62, 63}) for (long d : {-1L, 0L, 1L}) vals.push_back((size_t(1) << b) + (size_t)d);
    vals.push_back(SIZE_MAX); vals.push_back(SIZE_MAX / 2); vals.push_back(SIZE_MAX / 3); vals.push_back(3); vals.push_back(0xFFFFFFFFull); vals.push_back(0x100000001ull);
    for (size_t n : vals) for (size_t s : vals) {
        unsigned __int128 prod = (unsigned __int128)n * s;
        bool overflow = prod > (unsigned __int128)SIZE_MAX;
        if (!overflow && prod > (1u << 20)) continue;          // do not really allocate big blocks
        errno = 0;
        void* p = scalable_calloc(n, s);
        if (overflow && (p != nullptr || errno != ENOMEM)) { std::printf("REPRODUCED class=calloc-overflow scalable_calloc(%zu, %zu): the product overflows size_t but the call returned %p with errno=%d instead of NULL/ENOMEM\n", n, s, p, errno); return 0; }
        if (!overflow && p) { for (size_t i = 0; i < (size_t)prod; ++i) if (((char*)p)[i]) { std::printf("REPRODUCED class=calloc-zero scalable_calloc(%zu,%zu) not zero-filled at %zu\n", n, s, i); return 0; } }
        if (p) scalable_free(p);
    }
    // argument validation
    void* slot = (void*)0x1234; int rc = scalable_posix_memalign(&slot, 3, 10);
    if (rc != EINVAL || slot != (void*)0x1234) { std::printf("REPRODUCED class=memalign-args scalable_posix_memalign(&p, 3, 10) returned %d, *memptr %s\n", rc, slot == (void*)0x1234 ? "untouched" : "modified"); return 0; }
    rc = scalable_posix_memalign(&slot, sizeof(void*) / 2, 10);
    if (rc != EINVAL || slot != (void*)0x1234) { std::printf("REPRODUCED class=memalign-args scalable_posix_memalign(&p, %zu, 10) returned %d\n", sizeof(void*) / 2, rc); return 0; }
    errno = 0; if (scalable_aligned_malloc(10, 24) != nullptr || errno != EINVAL) { std::printf("REPRODUCED class=aligned-args scalable_aligned_malloc(10, 24) did not fail with EINVAL\n"); return 0; }
    errno = 0; if (scalable_aligned_malloc(0, 16) != nullptr || errno != EINVAL) { std::printf("REPRODUCED class=aligned-args scalable_aligned_malloc(0, 16) did not fail with EINVAL\n"); return 0; }
    std::printf("NOT-REPRODUCED\n"); return 0;
}
