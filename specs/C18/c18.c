/* C18 harnesses: entry points of tbbmalloc sliced from src/tbbmalloc/frontend.cpp */
#include <stddef.h>
#include <stdint.h>
#include <stdbool.h>
#include <limits.h>
#include <errno.h>
#if defined(CALLOC)
#if VSZ_BITS == 8
typedef uint8_t VSZ; typedef uint16_t WIDE;
#elif VSZ_BITS == 16
typedef uint16_t VSZ; typedef uint32_t WIDE;
#else
typedef uint32_t VSZ; typedef uint64_t WIDE;
#endif
#endif
#undef size_t_is_builtin
#include "verif.h"
int VERIF_errno;
typedef struct MemoryPool MemoryPool;
static MemoryPool *defaultMemPool;
#ifdef CALLOC
#define REALSZ VSZ
#else
#define REALSZ size_t
#endif
int g_malloc_calls, g_memset_calls, g_free_calls, g_aa_calls, g_ra_calls; REALSZ g_malloc_arg, g_memset_len; void *g_memset_ptr, *g_freed; bool g_fail;
size_t g_aa_size, g_aa_align, g_ra_size, g_ra_align; void *g_ra_ptr;
static char g_obj[64], g_obj2[64];
static void *internalMalloc(REALSZ n) { g_malloc_calls++; g_malloc_arg = n; return g_fail ? NULL : (void *)g_obj; }
static void VERIF_memset(void *p, int c, REALSZ n) { g_memset_calls++; g_memset_ptr = p; g_memset_len = n; }
static void *allocateAligned(MemoryPool *mp, REALSZ size, REALSZ alignment) { g_aa_calls++; g_aa_size = size; g_aa_align = alignment; return g_fail ? NULL : (void *)g_obj; }
static void *reallocAligned(MemoryPool *mp, void *ptr, REALSZ size, REALSZ alignment) { g_ra_calls++; g_ra_ptr = ptr; g_ra_size = size; g_ra_align = alignment; return g_fail ? NULL : (void *)g_obj2; }
static void internalFree(void *p) { g_free_calls++; g_freed = p; }
static void scalable_free(void *p) { g_free_calls++; g_freed = p; }
#ifdef CALLOC
#define size_t VSZ      /* the code is sizeof(size_t)-generic: bind size_t to a narrower type for the bounded stand-in */
#endif
#include "api.inc"
#ifdef CALLOC
#undef size_t
#endif
static void reset(void) { g_malloc_calls = g_memset_calls = g_free_calls = g_aa_calls = g_ra_calls = 0; g_fail = nondet_bool(); VERIF_errno = 0; }

#ifdef CALLOC
VSZ IN_nobj, IN_size;
void h_calloc(void) {
    VSZ nobj = IN_nobj = (VSZ)nondet_u64(), size = IN_size = (VSZ)nondet_u64();
    reset();
    void *r = scalable_calloc(nobj, size);
    WIDE prod = (WIDE)nobj * (WIDE)size;
    bool overflow = prod > (WIDE)(VSZ)-1;
    if (overflow) {
        OBLIGATION(r == NULL && VERIF_errno == ENOMEM, "C18.calloc: nobj*size overflowing size_t returns NULL with errno == ENOMEM");
        OBLIGATION(g_malloc_calls == 0 && g_memset_calls == 0, "C18.calloc: nothing is allocated or written on overflow");
    } else {
        OBLIGATION(g_malloc_calls == 1 && (WIDE)g_malloc_arg == prod, "C18.calloc: exactly nobj*size bytes are requested");
        OBLIGATION(g_fail ? (r == NULL && VERIF_errno == ENOMEM && g_memset_calls == 0) : (r != NULL && g_memset_calls == 1 && g_memset_ptr == r && (WIDE)g_memset_len == prod),
                   "C18.calloc: a failed allocation gives NULL/ENOMEM untouched; a successful one is zero-filled over exactly the request");
    }
    VACUITY_END();
}
#endif
#ifdef CALLOC64
size_t IN_nobj, IN_size;
void h_calloc64(void) {
    size_t nobj = IN_nobj = nondet_size_t(), size = IN_size = nondet_size_t();
    reset();
    void *r = scalable_calloc(nobj, size);
    /* facts that need no multiplier: what happens with the (wrapped) product the code computed */
    OBLIGATION(g_malloc_calls <= 1 && g_memset_calls <= g_malloc_calls, "C18.calloc64: at most one allocation, zero-fill only after it");
    OBLIGATION(r != NULL ? (g_malloc_calls == 1 && g_memset_calls == 1 && g_memset_ptr == r && g_memset_len == g_malloc_arg) : VERIF_errno == ENOMEM, "C18.calloc64: NULL always comes with ENOMEM; a block is zero-filled over exactly what was requested");
    OBLIGATION(!(nobj < ((size_t)1 << 32) && size < ((size_t)1 << 32)) || g_malloc_calls == 1, "C18.calloc64: factors below 2^32 never take the overflow exit");
    OBLIGATION(!(nobj == ((size_t)1 << 32) && size == ((size_t)1 << 32)) || (r == NULL && g_malloc_calls == 0), "C18.calloc64: 2^32 * 2^32 (the smallest square that wraps to 0) is rejected");
    OBLIGATION(!(nobj == SIZE_MAX && size == 2) || (r == NULL && g_malloc_calls == 0), "C18.calloc64: SIZE_MAX * 2 is rejected");
    VACUITY_END();
}
#endif
#ifdef API
size_t IN_align, IN_size;
void h_memalign(void) {
    size_t alignment = IN_align = nondet_size_t(), size = IN_size = nondet_size_t();
    reset();
    void *slot = (void *)g_obj2, *before = slot;
    int rc = scalable_posix_memalign(&slot, alignment, size);
    bool legal = alignment >= sizeof(void *) && (alignment & (alignment - 1)) == 0;
    OBLIGATION(legal || (rc == EINVAL && slot == before && g_aa_calls == 0), "C18.memalign: an alignment that is not a power of two >= sizeof(void*) gives EINVAL, *memptr untouched, nothing allocated");
    OBLIGATION(!legal || (g_aa_calls == 1 && g_aa_size == size && g_aa_align == alignment), "C18.memalign: a legal request is passed on unchanged");
    OBLIGATION(!(legal && g_fail) || (rc == ENOMEM && slot == before), "C18.memalign: allocation failure gives ENOMEM and leaves *memptr untouched");
    OBLIGATION(!(legal && !g_fail) || (rc == 0 && slot == (void *)g_obj), "C18.memalign: success stores the block and returns 0");
    VACUITY_END();
}
void h_aligned_malloc(void) {
    size_t alignment = IN_align = nondet_size_t(), size = IN_size = nondet_size_t();
    reset();
    void *r = scalable_aligned_malloc(size, alignment);
    bool legal = alignment != 0 && (alignment & (alignment - 1)) == 0 && size != 0;
    OBLIGATION(legal || (r == NULL && VERIF_errno == EINVAL && g_aa_calls == 0), "C18.aligned_malloc: non-power-of-two alignment or zero size gives NULL/EINVAL, nothing allocated");
    OBLIGATION(!legal || (g_aa_calls == 1 && g_aa_size == size && g_aa_align == alignment && (g_fail ? (r == NULL && VERIF_errno == ENOMEM) : r == (void *)g_obj)), "C18.aligned_malloc: legal request passed on; NULL comes with ENOMEM");
    VACUITY_END();
}
void h_aligned_realloc(void) {
    size_t alignment = IN_align = nondet_size_t(), size = IN_size = nondet_size_t();
    void *ptr = nondet_bool() ? NULL : (void *)g_obj;
    reset();
    void *r = scalable_aligned_realloc(ptr, size, alignment);
    bool pow2 = alignment != 0 && (alignment & (alignment - 1)) == 0;
    if (!pow2) OBLIGATION(r == NULL && VERIF_errno == EINVAL && g_aa_calls + g_ra_calls + g_free_calls == 0, "C18.aligned_realloc: bad alignment gives NULL/EINVAL and touches nothing");
    else if (!ptr) OBLIGATION(g_aa_calls == 1 && g_ra_calls == 0 && g_free_calls == 0 && g_aa_size == size && (g_fail ? (r == NULL && VERIF_errno == ENOMEM) : r != NULL), "C18.aligned_realloc: NULL pointer behaves as aligned_malloc");
    else if (!size) OBLIGATION(r == NULL && g_free_calls == 1 && g_freed == ptr && g_aa_calls + g_ra_calls == 0, "C18.aligned_realloc: size 0 frees the block once and returns NULL");
    else OBLIGATION(g_ra_calls == 1 && g_ra_ptr == ptr && g_ra_size == size && g_ra_align == alignment && g_free_calls == 0 && (g_fail ? (r == NULL && VERIF_errno == ENOMEM) : r == (void *)g_obj2),
                    "C18.aligned_realloc: otherwise reallocAligned decides; on failure NULL/ENOMEM and the old block is not freed here");
    VACUITY_END();
}
void h_realloc(void) {
    size_t size = IN_size = nondet_size_t();
    void *ptr = nondet_bool() ? NULL : (void *)g_obj;
    reset();
    void *r = scalable_realloc(ptr, size);
    if (!ptr) OBLIGATION(g_malloc_calls == 1 && g_malloc_arg == size && g_ra_calls == 0 && g_free_calls == 0 && (g_fail ? (r == NULL && VERIF_errno == ENOMEM) : r != NULL), "C18.realloc: NULL pointer behaves as malloc");
    else if (!size) OBLIGATION(r == NULL && g_free_calls == 1 && g_freed == ptr && g_malloc_calls + g_ra_calls == 0, "C18.realloc: size 0 frees the block once and returns NULL");
    else OBLIGATION(g_ra_calls == 1 && g_ra_ptr == ptr && g_ra_size == size && g_ra_align == 0 && g_free_calls == 0 && (g_fail ? (r == NULL && VERIF_errno == ENOMEM) : r == (void *)g_obj2),
                    "C18.realloc: otherwise reallocAligned decides; on failure NULL/ENOMEM and the old block is not freed here");
    VACUITY_END();
}
#endif

#ifdef REMAP
/* Backend::remap (in-place growth of a huge object by mremap): the new region size is computed from newSize + the object's offset in its region.  The statements between
   `const size_t userOffset` and `regionList.remove(oldRegion)` are sliced verbatim into the body below; everything after them resizes the mapping to requestSize and records
   objectSize = newSize, so falling through ("PROCEED") is only sound if the block really holds newSize bytes behind the offset. */
static size_t SIZEOF_MemRegion, SIZEOF_LastFreeBlock;
#include "remap.inc"
size_t g_aligned, g_request; bool g_proceed;
static void *remap_fragment(void *ptr, void *oldRegion, size_t newSize, size_t granularity) {
    g_proceed = false;
#include "remap_frag.inc"
    g_aligned = alignedSize; g_request = requestSize; g_proceed = true;
    return ptr;
}
size_t IN_newSize, IN_offset, IN_gran;
void h_remap(void) {
    size_t newSize = IN_newSize = nondet_size_t(), off = IN_offset = nondet_size_t(), gran = IN_gran = nondet_size_t();
    SIZEOF_MemRegion = nondet_size_t(); SIZEOF_LastFreeBlock = nondet_size_t();
    __CPROVER_assume(SIZEOF_MemRegion >= 8 && SIZEOF_MemRegion <= 4096 && SIZEOF_LastFreeBlock >= 8 && SIZEOF_LastFreeBlock <= 4096);
    __CPROVER_assume(gran >= 4096 && gran <= ((size_t)1 << 30) && (gran & (gran - 1)) == 0);              /* page or huge-page size */
    __CPROVER_assume(off >= SIZEOF_MemRegion && off <= ((size_t)1 << 32));                                    /* the object lies behind the region header, alignment slack at most 4 GB */
    __CPROVER_assume(newSize >= 8 * 1024);                                                                    /* remap is only tried for min(oldSize,newSize) >= maxBinned_SmallPage */
    char *region = (char *)(uintptr_t)((size_t)1 << 40);
    remap_fragment(region + off, region, newSize, gran);
    if (g_proceed) {
        OBLIGATION(g_aligned >= newSize && g_aligned - newSize >= off, "C18.overflow: Backend::remap goes on to resize the mapping only if the new block really holds offset + newSize bytes - a request whose size cannot be represented (newSize + offset, or its rounding to a bin, wraps) must be refused");
        OBLIGATION(g_request >= g_aligned && g_request - g_aligned >= SIZEOF_MemRegion + SIZEOF_LastFreeBlock, "C18.overflow: the mapping requested covers the region header, the block and the trailing marker (no wrap in the page rounding)");
    }
    VACUITY_END();
}
#endif
