/* C18 harnesses: entry points of tbbmalloc sliced from src/tbbmalloc/frontend.cpp */
#include <stddef.h>
#include <stdint.h>
#include <stdbool.h>
#include <limits.h>
#include <errno.h>
#if defined(CALLOC)
#if VSZ_BITS == 8
typedef uint8_t VSZ; typedef uint16_t WIDE;
#elif VSZ_BITS == 16
typedef uint16_t VSZ; typedef uint32_t WIDE;
#else
typedef uint32_t VSZ; typedef uint64_t WIDE;
#endif
#endif
#undef size_t_is_builtin
#include "verif.h"
int VERIF_errno;
typedef struct MemoryPool MemoryPool;
static MemoryPool *defaultMemPool;
#ifdef CALLOC
#define REALSZ VSZ
#else
#define REALSZ size_t
#endif
int g_malloc_calls, g_memset_calls, g_free_calls, g_aa_calls, g_ra_calls; REALSZ g_malloc_arg, g_memset_len; void *g_memset_ptr, *g_freed; bool g_fail;
size_t g_aa_size, g_aa_align, g_ra_size, g_ra_align; void *g_ra_ptr;
static char g_obj[64], g_obj2[64];
static void *internalMalloc(REALSZ n) { g_malloc_calls++; g_malloc_arg = n; return g_fail ? NULL : (void *)g_obj; }
static void VERIF_memset(void *p, int c, REALSZ n) { g_memset_calls++; g_memset_ptr = p; g_memset_len = n; }
static void *allocateAligned(MemoryPool *mp, REALSZ size, REALSZ alignment) { g_aa_calls++; g_aa_size = size; g_aa_align = alignment; return g_fail ? NULL : (void *)g_obj; }
static void *reallocAligned(MemoryPool *mp, void *ptr, REALSZ size, REALSZ alignment) { g_ra_calls++; g_ra_ptr = ptr; g_ra_size = size; g_ra_align = alignment; return g_fail ? NULL : (void *)g_obj2; }
static void internalFree(void *p) { g_free_calls++; g_freed = p; }
static void scalable_free(void *p) { g_free_calls++; g_freed = p; }
#ifdef CALLOC
#define size_t VSZ      /* the code is sizeof(size_t)-generic: bind size_t to a narrower type for the bounded stand-in */
#endif
#include "api.inc"
#ifdef CALLOC
#undef size_t
#endif
static void reset(void) { g_malloc_calls = g_memset_calls = g_free_calls = g_aa_calls = g_ra_calls = 0; g_fail = nondet_bool(); VERIF_errno = 0; }

#ifdef CALLOC
VSZ IN_nobj, IN_size;
void h_calloc(void) {
    VSZ nobj = IN_nobj = (VSZ)nondet_u64(), size = IN_size = (VSZ)nondet_u64();
    reset();
    void *r = scalable_calloc(nobj, size);
    WIDE prod = (WIDE)nobj * (WIDE)size;
    bool overflow = prod > (WIDE)(VSZ)-1;
    if (overflow) {
        OBLIGATION(r == NULL && VERIF_errno == ENOMEM, "C18.calloc: nobj*size overflowing size_t returns NULL with errno == ENOMEM");
        OBLIGATION(g_malloc_calls == 0 && g_memset_calls == 0, "C18.calloc: nothing is allocated or written on overflow");
    } else {
        OBLIGATION(g_malloc_calls == 1 && (WIDE)g_malloc_arg == prod, "C18.calloc: exactly nobj*size bytes are requested");
        OBLIGATION(g_fail ? (r == NULL && VERIF_errno == ENOMEM && g_memset_calls == 0) : (r != NULL && g_memset_calls == 1 && g_memset_ptr == r && (WIDE)g_memset_len == prod),
                   "C18.calloc: a failed allocation gives NULL/ENOMEM untouched; a successful one is zero-filled over exactly the request");
    }
    VACUITY_END();
}
#endif
#ifdef CALLOC64
size_t IN_nobj, IN_size;
void h_calloc64(void) {
    size_t nobj = IN_nobj = nondet_size_t(), size = IN_size = nondet_size_t();
    reset();
    void *r = scalable_calloc(nobj, size);
    /* facts that need no multiplier: what happens with the (wrapped) product the code computed */
    OBLIGATION(g_malloc_calls <= 1 && g_memset_calls <= g_malloc_calls, "C18.calloc64: at most one allocation, zero-fill only after it");
    OBLIGATION(r != NULL ? (g_malloc_calls == 1 && g_memset_calls == 1 && g_memset_ptr == r && g_memset_len == g_malloc_arg) : VERIF_errno == ENOMEM, "C18.calloc64: NULL always comes with ENOMEM; a block is zero-filled over exactly what was requested");
    OBLIGATION(!(nobj < ((size_t)1 << 32) && size < ((size_t)1 << 32)) || g_malloc_calls == 1, "C18.calloc64: factors below 2^32 never take the overflow exit");
    OBLIGATION(!(nobj == ((size_t)1 << 32) && size == ((size_t)1 << 32)) || (r == NULL && g_malloc_calls == 0), "C18.calloc64: 2^32 * 2^32 (the smallest square that wraps to 0) is rejected");
    OBLIGATION(!(nobj == SIZE_MAX && size == 2) || (r == NULL && g_malloc_calls == 0), "C18.calloc64: SIZE_MAX * 2 is rejected");
    VACUITY_END();
}
#endif
#ifdef API
size_t IN_align, IN_size;
void h_memalign(void) {
    size_t alignment = IN_align = nondet_size_t(), size = IN_size = nondet_size_t();
    reset();
    void *slot = (void *)g_obj2, *before = slot;
    int rc = scalable_posix_memalign(&slot, alignment, size);
    bool legal = alignment >= sizeof(void *) && (alignment & (alignment - 1)) == 0;
    OBLIGATION(legal || (rc == EINVAL && slot == before && g_aa_calls == 0), "C18.memalign: an alignment that is not a power of two >= sizeof(void*) gives EINVAL, *memptr untouched, nothing allocated");
    OBLIGATION(!legal || (g_aa_calls == 1 && g_aa_size == size && g_aa_align == alignment), "C18.memalign: a legal request is passed on unchanged");
    OBLIGATION(!(legal && g_fail) || (rc == ENOMEM && slot == before), "C18.memalign: allocation failure gives ENOMEM and leaves *memptr untouched");
    OBLIGATION(!(legal && !g_fail) || (rc == 0 && slot == (void *)g_obj), "C18.memalign: success stores the block and returns 0");
    VACUITY_END();
}
void h_aligned_malloc(void) {
    size_t alignment = IN_align = nondet_size_t(), size = IN_size = nondet_size_t();
    reset();
    void *r = scalable_aligned_malloc(size, alignment);
    bool legal = alignment != 0 && (alignment & (alignment - 1)) == 0 && size != 0;
    OBLIGATION(legal || (r == NULL && VERIF_errno == EINVAL && g_aa_calls == 0), "C18.aligned_malloc: non-power-of-two alignment or zero size gives NULL/EINVAL, nothing allocated");
    OBLIGATION(!legal || (g_aa_calls == 1 && g_aa_size == size && g_aa_align == alignment && (g_fail ? (r == NULL && VERIF_errno == ENOMEM) : r == (void *)g_obj)), "C18.aligned_malloc: legal request passed on; NULL comes with ENOMEM");
    VACUITY_END();
}
void h_aligned_realloc(void) {
    size_t alignment = IN_align = nondet_size_t(), size = IN_size = nondet_size_t();
    void *ptr = nondet_bool() ? NULL : (void *)g_obj;
    reset();
    void *r = scalable_aligned_realloc(ptr, size, alignment);
    bool pow2 = alignment != 0 && (alignment & (alignment - 1)) == 0;
    if (!pow2) OBLIGATION(r == NULL && VERIF_errno == EINVAL && g_aa_calls + g_ra_calls + g_free_calls == 0, "C18.aligned_realloc: bad alignment gives NULL/EINVAL and touches nothing");
    else if (!ptr) OBLIGATION(g_aa_calls == 1 && g_ra_calls == 0 && g_free_calls == 0 && g_aa_size == size && (g_fail ? (r == NULL && VERIF_errno == ENOMEM) : r != NULL), "C18.aligned_realloc: NULL pointer behaves as aligned_malloc");
    else if (!size) OBLIGATION(r == NULL && g_free_calls == 1 && g_freed == ptr && g_aa_calls + g_ra_calls == 0, "C18.aligned_realloc: size 0 frees the block once and returns NULL");
    else OBLIGATION(g_ra_calls == 1 && g_ra_ptr == ptr && g_ra_size == size && g_ra_align == alignment && g_free_calls == 0 && (g_fail ? (r == NULL && VERIF_errno == ENOMEM) : r == (void *)g_obj2),
                    "C18.aligned_realloc: otherwise reallocAligned decides; on failure NULL/ENOMEM and the old block is not freed here");
    VACUITY_END();
}
void h_realloc(void) {
    size_t size = IN_size = nondet_size_t();
    void *ptr = nondet_bool() ? NULL : (void *)g_obj;
    reset();
    void *r = scalable_realloc(ptr, size);
    if (!ptr) OBLIGATION(g_malloc_calls == 1 && g_malloc_arg == size && g_ra_calls == 0 && g_free_calls == 0 && (g_fail ? (r == NULL && VERIF_errno == ENOMEM) : r != NULL), "C18.realloc: NULL pointer behaves as malloc");
    else if (!size) OBLIGATION(r == NULL && g_free_calls == 1 && g_freed == ptr && g_malloc_calls + g_ra_calls == 0, "C18.realloc: size 0 frees the block once and returns NULL");
    else OBLIGATION(g_ra_calls == 1 && g_ra_ptr == ptr && g_ra_size == size && g_ra_align == 0 && g_free_calls == 0 && (g_fail ? (r == NULL && VERIF_errno == ENOMEM) : r == (void *)g_obj2),
                    "C18.realloc: otherwise reallocAligned decides; on failure NULL/ENOMEM and the old block is not freed here");
    VACUITY_END();
}
#endif

#ifdef REMAP
/* Backend::remap (in-place growth of a huge object by mremap): the new region size is computed from newSize + the object's offset in its region.  The statements between
   `const size_t userOffset` and `regionList.remove(oldRegion)` are sliced verbatim into the body below; everything after them resizes the mapping to requestSize and records
   objectSize = newSize, so falling through ("PROCEED") is only sound if the block really holds newSize bytes behind the offset. */
static size_t SIZEOF_MemRegion, SIZEOF_LastFreeBlock;
#include "remap.inc"
size_t g_aligned, g_request; bool g_proceed;
static void *remap_fragment(void *ptr, void *oldRegion, size_t newSize, size_t granularity) {
    g_proceed = false;
#include "remap_frag.inc"
    g_aligned = alignedSize; g_request = requestSize; g_proceed = true;
    return ptr;
}
#ifdef LLOC
/* MemoryPool::getFromLLOCache (every large-object allocation, aligned or not): allocationSize = alignToBin(size + headers + alignment); the request must be refused when that
   cannot be represented.  The statements between `size_t headersSize =` and `if (tls) {` are sliced verbatim into the body below; falling through means the code goes on to
   allocate allocationSize bytes and to place `size` user bytes behind the headers at an `alignment` boundary inside them. */
static size_t SIZEOF_LargeMemoryBlock, SIZEOF_LargeObjectHdr; size_t g_alloc_size; bool g_lloc_proceed;
static void *lloc_fragment(size_t size, size_t alignment) {
    g_lloc_proceed = false;
#include "lloc_frag.inc"
    g_alloc_size = allocationSize; g_lloc_proceed = true;
    return (void *)1;
}
size_t IN_size, IN_alignment;
void h_lloc(void) {
    size_t size = IN_size = nondet_size_t(), alignment = IN_alignment = nondet_size_t();
    SIZEOF_LargeMemoryBlock = nondet_size_t(); SIZEOF_LargeObjectHdr = nondet_size_t();
    __CPROVER_assume(SIZEOF_LargeMemoryBlock >= 8 && SIZEOF_LargeMemoryBlock <= 4096 && SIZEOF_LargeObjectHdr >= 8 && SIZEOF_LargeObjectHdr <= 4096);
    __CPROVER_assume(alignment >= 64 && (alignment & (alignment - 1)) == 0);      /* callers: largeObjectAlignment, or a power of two validated by the entry points (jobs *.args) */
    lloc_fragment(size, alignment);
    if (g_lloc_proceed) {
        size_t hdrs = SIZEOF_LargeMemoryBlock + SIZEOF_LargeObjectHdr;
        OBLIGATION(g_alloc_size >= size && g_alloc_size - size >= hdrs && g_alloc_size - size - hdrs >= alignment, "C18.overflow: getFromLLOCache goes on to allocate only if the block really holds headers + alignment slack + size bytes - a request whose size+header+alignment cannot be represented (the sum, or its rounding to a bin, wraps) is refused with nullptr");
        OBLIGATION(g_alloc_size <= SIZE_MAX - ((size_t)1 << 16), "C18.overflow: the size passed on to the backend leaves room for the region overhead added in addNewRegion (no second wrap)");
    }
    VACUITY_END();
}
#endif
size_t IN_newSize, IN_offset, IN_gran;
void h_remap(void) {
    size_t newSize = IN_newSize = nondet_size_t(), off = IN_offset = nondet_size_t(), gran = IN_gran = nondet_size_t();
    SIZEOF_MemRegion = nondet_size_t(); SIZEOF_LastFreeBlock = nondet_size_t();
    __CPROVER_assume(SIZEOF_MemRegion >= 8 && SIZEOF_MemRegion <= 4096 && SIZEOF_LastFreeBlock >= 8 && SIZEOF_LastFreeBlock <= 4096);
    __CPROVER_assume(gran >= 4096 && gran <= ((size_t)1 << 30) && (gran & (gran - 1)) == 0);              /* page or huge-page size */
    __CPROVER_assume(off >= SIZEOF_MemRegion && off <= ((size_t)1 << 32));                                    /* the object lies behind the region header, alignment slack at most 4 GB */
    __CPROVER_assume(newSize >= 8 * 1024);                                                                    /* remap is only tried for min(oldSize,newSize) >= maxBinned_SmallPage */
    char *region = (char *)(uintptr_t)((size_t)1 << 40);
    remap_fragment(region + off, region, newSize, gran);
    if (g_proceed) {
        OBLIGATION(g_aligned >= newSize && g_aligned - newSize >= off, "C18.overflow: Backend::remap goes on to resize the mapping only if the new block really holds offset + newSize bytes - a request whose size cannot be represented (newSize + offset, or its rounding to a bin, wraps) must be refused");
        OBLIGATION(g_request >= g_aligned && g_request - g_aligned >= SIZEOF_MemRegion + SIZEOF_LastFreeBlock, "C18.overflow: the mapping requested covers the region header, the block and the trailing marker (no wrap in the page rounding)");
    }
    VACUITY_END();
}
#endif

#ifdef GETBIN
/* Backend::IndexedBins::getFromBin: the search of one bin for a free block that can serve `size` bytes (slab-aligned when needAlignedRes).
   Memory model: block headers are ADDRESSES - a candidate free block is [g_addr, g_addr+g_S) anywhere below 2^56 (its header at g_addr, the header of its
   right neighbour at g_addr+g_S; no wrap-around, the region always ends in a LastFreeBlock).  All the (uintptr_t) arithmetic of the sliced code runs unchanged on these
   pointers; the sliced code dereferences a block only through FB_WR_sizeTmp / BIN_NEXT / the size-word primitives below.
   The bin is an ARBITRARY sequence of candidates: the list link read `curr->next` (BIN_NEXT) yields NULL or a fresh arbitrary block, so the loop contract covers every list.
   Size words (GuardedSize): tryLock / unlock are the trusted atomic primitives; a word this thread does not hold is free (== the block's size) or held by another
   thread (LOCKED / COAL_BLOCK) - chosen afresh at every access (rely); a word this thread holds is changed by nobody else. */
#define VERIF_NBINS 4      /* the number of bins is immaterial here: binIdx is any valid index */
typedef struct MallocMutex { int held; } MallocMutex;
typedef struct BackendSync { intptr_t inFlyBlocks, binsModifications; } BackendSync;
typedef struct Bin Bin; typedef struct IndexedBins IndexedBins;
static size_t GuardedSize_tryLock(struct GuardedSize *w, int state); static void GuardedSize_unlock(struct GuardedSize *w, size_t size); static void GuardedSize_initLocked(struct GuardedSize *w);
#define LOOP_markBlocks_1
#include "fb.inc"
struct Bin { FreeBlock *head; FreeBlock *tail; MallocMutex tLock; };
struct IndexedBins { int bitMask; Bin freeBins[VERIF_NBINS]; };
static uintptr_t g_addr; static size_t g_S; static bool g_meMine, g_leftMine; static uintptr_t g_meV, g_leftV;
static intptr_t g_consumed_before; static int g_removed; static FreeBlock *g_removed_blk; static int g_lock_taken, g_lock_released; static bool g_candidates;
static FreeBlock *g_szTmp_blk; static size_t g_szTmp; static int g_szTmp_writes;
#define CUR ((FreeBlock *)g_addr)
#define RIGHT ((FreeBlock *)(g_addr + g_S))
#define ADDR_TOP ((uintptr_t)1 << 56)      /* user-space addresses: a block and the header behind it lie below 2^56 (also keeps CBMC's pointer-typed field offsets `&p->leftL` exact: its pointers carry a 56-bit offset) */
#define BLOCK_OK (g_addr >= 4096 && g_addr < ADDR_TOP - 2 * sizeof(FreeBlock) && g_S >= FreeBlock_minBlockSize && g_S <= ADDR_TOP - sizeof(FreeBlock) - g_addr)
static size_t GuardedSize_tryLock(struct GuardedSize *w, int state) {
    VERIF_ASSERT(state <= GuardedSize_MAX_LOCKED_VAL, "state <= MAX_LOCKED_VAL");
    bool isMe = (w == &CUR->myL), isLeft = (w == &RIGHT->leftL);
    OBLIGATION(isMe || isLeft, "C18.bin: the only size words the search locks are the candidate's own and the left-size word in the header right behind the candidate");
    if (isMe) { if (!g_meMine) g_meV = nondet_bool() ? g_S : (nondet_bool() ? GuardedSize_LOCKED : GuardedSize_COAL_BLOCK);
                uintptr_t old = g_meV; if (old > GuardedSize_MAX_LOCKED_VAL) { g_meV = state; g_meMine = true; } return old; }
    if (!g_leftMine) g_leftV = nondet_bool() ? g_S : (nondet_bool() ? GuardedSize_LOCKED : GuardedSize_COAL_BLOCK);
    uintptr_t old = g_leftV; if (old > GuardedSize_MAX_LOCKED_VAL) { g_leftV = state; g_leftMine = true; } return old;
}
static void GuardedSize_unlock(struct GuardedSize *w, size_t size) {
    bool isMe = (w == &CUR->myL), isLeft = (w == &RIGHT->leftL);
    OBLIGATION(isMe || isLeft, "C18.bin: the only size words the search releases are the candidate's own and the left-size word in the header right behind the candidate");
    OBLIGATION(isMe ? g_meMine : g_leftMine, "C18.bin: a size word is released only by the thread that locked it");
    VERIF_ASSERT(size > GuardedSize_MAX_LOCKED_VAL, "size > MAX_LOCKED_VAL");
    OBLIGATION(size == g_S, "C18.bin: a candidate that is passed over is marked free again with its own size (both size words)");
    if (isMe) { g_meV = size; g_meMine = false; } else { g_leftV = size; g_leftMine = false; }
}
static void GuardedSize_initLocked(struct GuardedSize *w) { OBLIGATION(0, "C18.bin: the search initialises no header"); }
static FreeBlock *candidate(bool first) {
    if (!first) OBLIGATION(!g_meMine && !g_leftMine, "C18.bin: a candidate that does not fit is unlocked again before the search moves on");
    if (nondet_bool()) return NULL;
    g_addr = nondet_uintptr_t(); g_S = nondet_size_t(); __CPROVER_assume(BLOCK_OK);
    g_meMine = g_leftMine = false; g_candidates = true;
    return CUR;
}
#define LOAD_empty_LOAD_1(x) (nondet_bool() ? (FreeBlock *)(uintptr_t)4096 : (FreeBlock *)NULL)     /* lock-free emptiness probe: any answer */
#define LOAD_getFromBin_LOAD_1(x) candidate(true)
#define ATOMIC_LOAD_AT(site, x) LOAD_##site(x)
#define BIN_NEXT(c) candidate(false)
#define FB_WR_sizeTmp(p, v) do { g_szTmp_blk = (p); g_szTmp = (v); g_szTmp_writes++; } while (0)
#define ATOMIC_POSTINC(x) ((x)++)
#define TRYLOCK_MUTEX(m, wait, lockedp) bool VERIF_taken = ((wait) || nondet_bool()); if (VERIF_taken) { OBLIGATION((m).held == 0, "C18.bin: the bin lock is not taken twice"); (m).held++; g_lock_taken++; } if (lockedp) *(lockedp) = VERIF_taken
#define UNLOCK_IF_TAKEN(m, wait, lockedp) do { if (VERIF_taken) { (m).held--; g_lock_released++; } } while (0)
/* `goto try_next`: the search starts over after meeting a block that another thread holds.  Induction over restarts: the state at the jump must be an entry state
   (nothing locked, consumed, removed; bin lock released); the continuation is then the function's own behaviour from an entry state.  Termination is not claimed. */
#define RETRY_FROM(label) do { OBLIGATION(!g_meMine && !g_leftMine && sync->inFlyBlocks == g_consumed_before && g_removed == 0 && g_szTmp_writes == 0 && b->tLock.held == 0 && fBlock == NULL, \
      "C18.bin: when the search starts over after meeting a block another thread holds, nothing is left locked, consumed or removed and the bin lock is released"); __CPROVER_assume(0); } while (0)
static void STUB_Bin_removeBlock(Bin *b, FreeBlock *f) { OBLIGATION(b->tLock.held == 1, "C18.bin: a block is unlinked from its bin only under the bin lock"); g_removed++; g_removed_blk = f; }
static void STUB_bitMask_set(IndexedBins *s, int idx, bool v) { }
#define LOOP_getFromBin_1 __CPROVER_assigns(curr, fBlock, g_addr, g_S, g_meMine, g_leftMine, g_meV, g_leftV, g_candidates, g_removed, g_removed_blk, g_lock_released, b->tLock.held, g_szTmp_blk, g_szTmp, g_szTmp_writes, sync->inFlyBlocks) \
   __CPROVER_loop_invariant(fBlock == NULL && g_removed == 0 && g_szTmp_writes == 0 && sync->inFlyBlocks == g_consumed_before && b->tLock.held == 1 && VERIF_taken && g_lock_taken == 1 && g_lock_released == 0 && !g_meMine && !g_leftMine \
        && (curr == NULL || (BLOCK_OK && (uintptr_t)curr == g_addr && g_candidates)))
#include "getfrombin.inc"
size_t IN_size, IN_addr, IN_S; bool IN_needAligned, IN_alignedBin;
void h_getfrombin(void) {
    static IndexedBins bins; BackendSync sync; int nlocked = nondet_int(); __CPROVER_assume(nlocked >= 0 && nlocked < 1000);
    int binIdx = nondet_int(); __CPROVER_assume(binIdx >= 0 && binIdx < VERIF_NBINS);
    bins.freeBins[binIdx].tLock.held = 0;
    sync.inFlyBlocks = nondet_long(); __CPROVER_assume(sync.inFlyBlocks >= 0 && sync.inFlyBlocks < (1L << 40)); g_consumed_before = sync.inFlyBlocks;
    g_removed = g_lock_taken = g_lock_released = g_szTmp_writes = 0; g_candidates = false; g_meMine = g_leftMine = false; g_addr = 0; g_S = 0;
    size_t size = IN_size = nondet_size_t(); bool needAlignedRes = IN_needAligned = nondet_bool(), alignedBin = IN_alignedBin = nondet_bool(), wait = nondet_bool();
    /* callers: a slab-aligned result is only ever asked for num*slabSize bytes (getSlabBlock); any other request has any size */
    __CPROVER_assume(!needAlignedRes || (size >= slabSize && size <= ((size_t)1 << 30) && (size & (slabSize - 1)) == 0));
    FreeBlock *r = IndexedBins_getFromBin(&bins, binIdx, &sync, size, needAlignedRes, alignedBin, wait, nondet_bool() ? &nlocked : NULL);
    IN_addr = g_addr; IN_S = g_S;
    OBLIGATION(bins.freeBins[binIdx].tLock.held == 0 && g_lock_taken == g_lock_released && g_lock_taken <= 1, "C18.bin: the bin lock is released on every path");
    if (r == NULL) {
        OBLIGATION(sync.inFlyBlocks == g_consumed_before && g_removed == 0, "C18.bin: a search that finds nothing consumes and unlinks nothing");
        OBLIGATION(!g_meMine && !g_leftMine, "C18.bin: a search that finds nothing leaves no block locked");
        OBLIGATION(g_lock_taken == 1 || !g_candidates, "C18.bin: no block is examined without the bin lock");
    } else {
        OBLIGATION(r == CUR && g_candidates, "C18.bin: the block handed out is one of the bin's blocks");
        OBLIGATION(g_szTmp_writes == 1 && g_szTmp_blk == r && g_szTmp == g_S, "C18.bin: the block handed out carries its true size (sizeTmp)");
        OBLIGATION(g_meMine && g_leftMine && g_meV == GuardedSize_LOCKED && g_leftV == GuardedSize_LOCKED, "C18.bin: the block handed out is locked on both sides (own size word and the right neighbour's left-size word), so no other thread can take or merge it");
        OBLIGATION(sync.inFlyBlocks == g_consumed_before + 1, "C18.bin: exactly one blockConsumed is charged for the block handed out");
        OBLIGATION(g_removed == 1 && g_removed_blk == r, "C18.bin: the block handed out is unlinked from the bin exactly once");
        if (alignedBin || !needAlignedRes) {
            OBLIGATION(g_S >= size && (g_S - size == 0 || g_S - size >= FreeBlock_minBlockSize), "C18.bin: the request fits into the free block it is cut from, and what is left over is nothing or can hold a block header (no metadata write into the right neighbour)");
        } else {
            size_t lead = ((size_t)0 - g_addr) & (slabSize - 1);     /* distance from the block start to the next slab boundary */
            OBLIGATION(lead <= g_S && size <= g_S - lead, "C18.bin: a slab-aligned request served from an unaligned block fits when measured from the ALIGNED start: [newB, newB+size) lies inside the free block [curr, curr+blockSz) - it never reaches into the live right neighbour");
            OBLIGATION(lead == 0 || lead >= FreeBlock_minBlockSize, "C18.bin: the piece left in front of the aligned start is nothing or can hold a block header");
            OBLIGATION(!(lead <= g_S && size <= g_S - lead) || g_S - lead - size == 0 || g_S - lead - size >= FreeBlock_minBlockSize, "C18.bin: the piece left behind the aligned block is nothing or can hold a block header");
        }
    }
    VACUITY_END();
}
#endif

#ifdef SPLIT
/* Backend::splitBlock: cuts `num` blocks of `size` bytes out of a locked free block [g_B, g_B+g_S) and gives the rest back through coalescAndPut.
   Blocks are addresses (see GETBIN).  Entry state = what getFromBin guarantees (job bin.getFromBin): the block's own size word and the left-size word of the header
   right behind it are LOCKED, sizeTmp is the true size, and the request fits (general case: from the block start / end; special case: from the slab-aligned start).
   GuardedSize::initLocked is the trusted primitive "store LOCKED"; the harness records which words were locked and checks that each lies inside the block. */
typedef struct ExtMemoryPool { bool fixedPool; } ExtMemoryPool;
typedef struct Backend { ExtMemoryPool *extMemPool; } Backend;
static size_t GuardedSize_tryLock(struct GuardedSize *w, int state); static void GuardedSize_unlock(struct GuardedSize *w, size_t size); static void GuardedSize_initLocked(struct GuardedSize *w);
#define LOOP_markBlocks_1
#include "fb.inc"
#define ADDR_TOP ((uintptr_t)1 << 56)      /* user-space addresses lie below 2^56 (see GETBIN) */
#define NW 12
static uintptr_t g_B; static size_t g_S;
static uintptr_t g_lw[NW]; static int g_nlw;                       /* size words set to LOCKED by this call */
static uintptr_t g_put_addr[3]; static size_t g_put_size[3]; static int g_nput;
static size_t GuardedSize_tryLock(struct GuardedSize *w, int state) { OBLIGATION(0, "C18.split: splitting takes no lock (the block is already locked)"); return 0; }
static void GuardedSize_unlock(struct GuardedSize *w, size_t size) { OBLIGATION(0, "C18.split: splitting itself frees nothing (coalescAndPut does)"); }
static void GuardedSize_initLocked(struct GuardedSize *w) {
    uintptr_t a = (uintptr_t)w;
    OBLIGATION(a >= g_B && a - g_B <= g_S - sizeof(GuardedSize), "C18.split: every block header written while splitting lies inside the free block being split - no metadata write into a neighbouring (live) block");
    OBLIGATION(g_nlw < NW, "C18.split: (harness) bounded number of headers");
    if (g_nlw < NW) g_lw[g_nlw++] = a;
}
static bool word_locked(uintptr_t a) { bool r = false; for (int i = 0; i < NW; i++) if (i < g_nlw && g_lw[i] == a) r = true; return r; }
/* own size word of the block at address a / left-size word of the header at address a */
static bool my_word_locked(uintptr_t a) { return a == g_B || word_locked((uintptr_t)&((FreeBlock *)a)->myL); }
static bool left_word_locked(uintptr_t a) { return a == g_B + g_S || word_locked((uintptr_t)&((FreeBlock *)a)->leftL); }
#define FB_RD_sizeTmp(p) (fb_rd_sizeTmp(p))
static size_t fb_rd_sizeTmp(FreeBlock *p) { OBLIGATION((uintptr_t)p == g_B, "C18.split: the only size consulted is that of the block being split"); return g_S; }
static void STUB_Backend_coalescAndPut(Backend *self, FreeBlock *blk, size_t sz, bool aligned) {
    uintptr_t a = (uintptr_t)blk;
    OBLIGATION(a >= g_B && sz <= g_S && a - g_B <= g_S - sz, "C18.split: a remainder given back lies inside the free block it was cut from");
    OBLIGATION(sz >= FreeBlock_minBlockSize, "C18.split: a remainder given back can hold a free-block header (its list links are not written into the next block)");
    OBLIGATION(my_word_locked(a) && left_word_locked(a + sz), "C18.split: a remainder given back is delimited by LOCKED size words (its own and the left-size word of the header behind it), so that no other thread merges across the cut while it is processed");
    OBLIGATION(!aligned || ((a + sz) & (slabSize - 1)) == 0, "C18.split: a remainder filed as slab-aligned really ends on a slab boundary");
    OBLIGATION(g_nput < 3, "C18.split: at most two remainders (left and right)");
    if (g_nput < 3) { g_put_addr[g_nput] = a; g_put_size[g_nput] = sz; g_nput++; }
}
#include "split.inc"
size_t IN_addr, IN_S, IN_size; int IN_num; bool IN_blockAligned, IN_needAligned;
void h_split(void) {
    ExtMemoryPool pool; Backend be; be.extMemPool = &pool; pool.fixedPool = nondet_bool();
    g_B = IN_addr = nondet_uintptr_t(); g_S = IN_S = nondet_size_t(); g_nlw = 0; g_nput = 0;
    __CPROVER_assume(g_B >= 4096 && g_B < ADDR_TOP - 2 * sizeof(FreeBlock) && g_S >= FreeBlock_minBlockSize && g_S <= ADDR_TOP - sizeof(FreeBlock) - g_B);
    bool blockIsAligned = IN_blockAligned = nondet_bool(), needAlignedBlock = IN_needAligned = nondet_bool();
    /* one job per case (SPLIT_CASE): 1 = slab request from an unaligned block (special case), 2 = slab request from a slab-aligned block, 3 = one block of any size */
    __CPROVER_assume(SPLIT_CASE == 1 ? (needAlignedBlock && !blockIsAligned) : SPLIT_CASE == 2 ? (needAlignedBlock && blockIsAligned) : !needAlignedBlock);
    /* callers (getLargeBlock, getBackRefSpace: one block of any size, unaligned; getSlabBlock: 1..numOfSlabAllocOnMiss slabs, aligned) */
    bool slabs = needAlignedBlock; int num = 1; size_t size;
    if (slabs) { num = nondet_int(); __CPROVER_assume(num >= 1 && num <= numOfSlabAllocOnMiss); size = slabSize; } else { size = nondet_size_t(); __CPROVER_assume(size >= 1); }
    IN_num = num; IN_size = size;
    size_t total = slabs ? (size_t)num * slabSize : size;
    /* slabAligned attribute of a block: its right end is slab aligned */
    __CPROVER_assume(!blockIsAligned || ((g_B + g_S) & (slabSize - 1)) == 0);
    size_t lead = ((size_t)0 - g_B) & (slabSize - 1);
    if (needAlignedBlock && !blockIsAligned) {   /* special case: guaranteed by getFromBin (bin.getFromBin) and only reached in fixed pools */
        __CPROVER_assume(pool.fixedPool);
        __CPROVER_assume(lead <= g_S && total <= g_S - lead && (lead == 0 || lead >= FreeBlock_minBlockSize) && (g_S - lead - total == 0 || g_S - lead - total >= FreeBlock_minBlockSize));
    } else {
        __CPROVER_assume(g_S >= total && (g_S - total == 0 || g_S - total >= FreeBlock_minBlockSize));
    }
    FreeBlock *r = slabs ? Backend_splitBlock(&be, (FreeBlock *)g_B, num, slabSize, blockIsAligned, needAlignedBlock)
                         : Backend_splitBlock(&be, (FreeBlock *)g_B, 1, size, blockIsAligned, needAlignedBlock);
    uintptr_t ra = (uintptr_t)r;
    OBLIGATION(ra >= g_B && total <= g_S && ra - g_B <= g_S - total, "C18.split: the block handed out lies inside the free block it was cut from (it does not overlap the live right neighbour)");
    OBLIGATION(!needAlignedBlock || (ra & (slabSize - 1)) == 0, "C18.split: a slab request is served slab-aligned");
    OBLIGATION(my_word_locked(ra) && left_word_locked(ra + total), "C18.split: the block handed out is delimited by LOCKED size words");
    size_t sum = total; for (int i = 0; i < 3; i++) if (i < g_nput) sum += g_put_size[i];
    OBLIGATION(g_nput <= 2 && sum == g_S, "C18.split: the block handed out and the remainders given back add up to the original block - nothing is lost");
    for (int i = 0; i < 3; i++) if (i < g_nput) {
        OBLIGATION(g_put_addr[i] + g_put_size[i] <= ra || ra + total <= g_put_addr[i], "C18.split: a remainder given back does not overlap the block handed out");
        for (int j = 0; j < 3; j++) if (j < i) OBLIGATION(g_put_addr[i] + g_put_size[i] <= g_put_addr[j] || g_put_addr[j] + g_put_size[j] <= g_put_addr[i], "C18.split: the remainders given back do not overlap each other");
    }
    if (slabs && num > 1) { int k = nondet_int(); __CPROVER_assume(k >= 1 && k < num);     /* any inner slab of a multi-slab request */
        OBLIGATION(my_word_locked(ra + (size_t)k * slabSize) && left_word_locked(ra + (size_t)k * slabSize), "C18.split: every slab of a multi-slab block gets its own (locked) header inside the block handed out"); }
    VACUITY_END();
}
#endif

#ifdef OOM
/* The out-of-memory ladder: Backend::genericGetBlock -> (bins) -> scanCoalescQ / softCachesCleanup -> askMemFromOS -> addNewRegion (raw allocation, may be REFUSED at any
   call) -> releaseMemInCaches (hardCachesCleanup, waitTillBlockReleased, locked bins) -> nullptr.  Every retry loop has a loop contract: any number of rounds.
   Two shared counters are followed rely/guarantee style (SC atomics): BackendSync::inFlyBlocks (blocks taken out of the bins and not yet reported back) and
   MemExtendingSema::active (threads currently extending memory, at most 3).  Other threads may change either at any time; the ghost g_my_* is THIS request's share.
   Stubs (trusted contracts): IndexedBins::findBlock = NULL or one block with exactly one blockConsumed (proved for getFromBin in bin.getFromBin); addNewRegion = NULL
   (raw memory refused) or VALID_BLOCK_IN_BIN (addToBin) or one block with one blockConsumed (startUseBlock); splitBlock (proved in backend.splitBlock.*). */
typedef struct MemExtendingSema { intptr_t active; } MemExtendingSema;
typedef struct BackendSync { intptr_t inFlyBlocks, binsModifications; } BackendSync;
typedef struct IndexedBins { int unused; } IndexedBins;
typedef struct ExtMemoryPool { bool fixedPool; } ExtMemoryPool;
typedef struct Backend { ExtMemoryPool *extMemPool; BackendSync bkndSync; MemExtendingSema memExtendingSema; size_t maxRequestedSize; intptr_t backendCleanCnt; IndexedBins freeSlabAlignedBins, freeLargeBlockBins; } Backend;
static size_t GuardedSize_tryLock(struct GuardedSize *w, int state) { __CPROVER_assert(0, "not used"); return 0; }
static void GuardedSize_unlock(struct GuardedSize *w, size_t size) { __CPROVER_assert(0, "not used"); }
static void GuardedSize_initLocked(struct GuardedSize *w) { __CPROVER_assert(0, "not used"); }
#define LOOP_markBlocks_1
#include "fb.inc"
#include "oom_types.inc"
static int g_my_inFly, g_my_sema, g_taken, g_split; static bool g_raw_refused; static size_t g_maxBinned; static FreeBlock g_blk;
#define CNT_MAX ((intptr_t)1 << 40)
#define INV_INFLY(x) ((x) >= g_my_inFly && (x) < CNT_MAX)
#define INV_SEMA(x) ((x) >= g_my_sema && (x) >= 0 && (x) <= 3)
#define ATOMIC_POSTINC_AT(site, x) POSTINC_##site(x)
#define ATOMIC_FETCH_SUB_AT(site, x, v) FSUB_##site(x, v)
#define ATOMIC_LOAD_AT(site, x) LOAD_##site(x)
#define ATOMIC_CAS_AT(site, x, e, d) CAS_##site(x, e, d)
#define POSTINC_blockConsumed_POSTINC_1(x) ({ (x) = nondet_long(); __CPROVER_assume(INV_INFLY(x) && (x) < CNT_MAX - 1); (x)++; g_my_inFly++; (x) - 1; })
#define POSTINC_blockReleased_POSTINC_1(x) ({ (x) = nondet_long(); __CPROVER_assume((x) >= 0 && (x) < CNT_MAX); (x)++; })
#define FSUB_blockReleased_FETCH_SUB_1(x, v) ({ (x) = nondet_long(); __CPROVER_assume(INV_INFLY(x)); OBLIGATION(g_my_inFly >= 1, "C18.oom: blockReleased is charged against a blockConsumed of this very request (the in-flight counter is not driven below the other threads' share)"); \
      intptr_t old_ = (x); (x) -= (v); g_my_inFly--; old_; })
#define LOAD_getNumOfMods_LOAD_1(x) ({ (x) = nondet_long(); __CPROVER_assume((x) >= 0 && (x) < CNT_MAX); (x); })
#define LOAD_genericGetBlock_LOAD_1(x) ({ (x) = nondet_long(); __CPROVER_assume((x) >= 0 && (x) < CNT_MAX); (x); })
#define LOAD_genericGetBlock_LOAD_2(x) LOAD_genericGetBlock_LOAD_1(x)
#define LOAD_sema_wait_LOAD_1(x) ({ (x) = nondet_long(); __CPROVER_assume(INV_SEMA(x)); (x); })
#define CAS_sema_wait_CAS_1(x, e, d) ({ (x) = nondet_long(); __CPROVER_assume(INV_SEMA(x)); bool ok_ = ((x) == *(e)); if (ok_) { (x) = (d); g_my_sema++; } else *(e) = (x); \
      __CPROVER_assert(INV_SEMA(x), "C18.oom guarantee: at most three threads hold the memory-extension semaphore"); ok_; })
#define FSUB_sema_signal_FETCH_SUB_1(x, v) ({ (x) = nondet_long(); __CPROVER_assume(INV_SEMA(x)); OBLIGATION(g_my_sema >= 1, "C18.oom: the memory-extension semaphore is signalled only by a request that holds it"); \
      intptr_t old_ = (x); (x) -= (v); g_my_sema--; old_; })
static void STUB_SpinWaitWhileEq(intptr_t *w, intptr_t v) { }
#define LOOP_sema_wait_1 __CPROVER_assigns(prevCnt, rescanBins, self->active, g_my_sema) __CPROVER_loop_invariant(g_my_sema == 0 && !rescanBins && INV_SEMA(self->active))
#define LOOP_askMemFromOS_1 __CPROVER_assigns(idx, g_raw_refused) __CPROVER_loop_invariant(idx <= NUM_OF_REG) __CPROVER_decreases(NUM_OF_REG - idx)
#define OOM_INV ((block == NULL || block == (FreeBlock *)VALID_BLOCK_IN_BIN) /* no real block in hand */ && g_my_inFly == 0 && g_my_sema == 0 && g_taken == 0 && g_split == 0 && INV_INFLY(self->bkndSync.inFlyBlocks) && INV_SEMA(self->memExtendingSema.active) && self->maxRequestedSize < 4 * 1024 * 1024UL && (totalReqSize >= g_maxBinned || self->maxRequestedSize >= totalReqSize))
#define LOOP_genericGetBlock_1 __CPROVER_assigns(block, lockedBinsThreshold, splittable, self->bkndSync.inFlyBlocks, self->bkndSync.binsModifications, self->memExtendingSema.active, self->backendCleanCnt, self->maxRequestedSize, \
        g_my_inFly, g_my_sema, g_taken, g_raw_refused, g_blk.sizeTmp, g_blk.slabAligned) \
   __CPROVER_loop_invariant(OOM_INV && splittable && (lockedBinsThreshold == 0 || lockedBinsThreshold == 2))
#define LOOP_genericGetBlock_2 __CPROVER_assigns(block, numOfLockedBins, cleanCnt, self->bkndSync.inFlyBlocks, self->backendCleanCnt, g_my_inFly, g_taken, g_blk.sizeTmp, g_blk.slabAligned) \
   __CPROVER_loop_invariant(OOM_INV)
static int STUB_sizeToBin(size_t sz) { return nondet_int(); }
static void STUB_Backend_requestBootstrapMem(Backend *self) { }
static void STUB_AtomicUpdate_maxRequestedSize(Backend *self, size_t req) { if (req > self->maxRequestedSize && req < g_maxBinned) self->maxRequestedSize = req; }   /* monotone maximum of the binned request sizes */
static bool STUB_Backend_scanCoalescQ(Backend *self, bool force) { return nondet_bool(); }
static bool STUB_ExtMemoryPool_softCachesCleanup(ExtMemoryPool *p) { return nondet_bool(); }
static bool STUB_ExtMemoryPool_hardCachesCleanup(ExtMemoryPool *p, bool w) { return nondet_bool(); }
static bool STUB_BackendSync_waitTillBlockReleased(BackendSync *s, intptr_t cnt) { return nondet_bool(); }
static size_t STUB_Backend_getMaxBinnedSize(Backend *self) { return g_maxBinned; }
static void STUB_Backend_releaseCachesToLimit(Backend *self) { }
static void BackendSync_blockConsumed(BackendSync *self);
static FreeBlock *hand_out(BackendSync *sync, size_t atLeast, bool aligned) {
    OBLIGATION(g_taken == 0, "C18.oom: no second block is taken while one is already in hand (it would be lost)");
    g_blk.sizeTmp = nondet_size_t(); __CPROVER_assume(g_blk.sizeTmp >= atLeast); g_blk.slabAligned = aligned;
    BackendSync_blockConsumed(sync); g_taken++; return &g_blk;
}
static FreeBlock *STUB_IndexedBins_findBlock(IndexedBins *bins, int nativeBin, BackendSync *sync, size_t size, bool needAligned, bool alignedBin, int *nLocked) {
    int more = nondet_int(); __CPROVER_assume(more >= 0 && more <= 600); *nLocked += more;
    if (nondet_bool()) return NULL;
    return hand_out(sync, size, alignedBin);
}
static FreeBlock *STUB_Backend_addNewRegion(Backend *self, size_t size, MemRegionType type, bool addToBin) {
    if (nondet_bool()) { g_raw_refused = true; return NULL; }      /* the raw allocation (OS / pool callback) is refused, or its memory is unusable */
    if (addToBin) return (FreeBlock *)VALID_BLOCK_IN_BIN;
    return hand_out(&self->bkndSync, size, type == MEMREG_SLAB_BLOCKS);
}
static FreeBlock *STUB_Backend_splitBlock(Backend *self, FreeBlock *b, int num, size_t size, bool isAligned, bool needAligned) {
    OBLIGATION(b == &g_blk && g_taken == 1, "C18.oom: what is split is the block that was found");
    g_split++; return b;
}
#include "oom.inc"
size_t IN_size; int IN_num; bool IN_needAligned, IN_fixed;
void h_oom(void) {
    ExtMemoryPool pool; Backend be; be.extMemPool = &pool; pool.fixedPool = IN_fixed = nondet_bool();
    g_maxBinned = nondet_bool() ? maxBinned_SmallPage : maxBinned_HugePage;
    g_my_inFly = g_my_sema = g_taken = g_split = 0; g_raw_refused = false;
    be.bkndSync.inFlyBlocks = nondet_long(); be.bkndSync.binsModifications = nondet_long(); be.memExtendingSema.active = nondet_long(); be.backendCleanCnt = nondet_long(); be.maxRequestedSize = nondet_size_t();
    __CPROVER_assume(INV_INFLY(be.bkndSync.inFlyBlocks) && INV_SEMA(be.memExtendingSema.active) && be.maxRequestedSize < g_maxBinned);
    bool needAlignedBlock = IN_needAligned = nondet_bool(); int num = IN_num = nondet_int(); size_t size = IN_size = nondet_size_t();
    __CPROVER_assume(needAlignedBlock ? (num >= 1 && num <= 2 && size == 16 * 1024) : (num == 1 && size >= 1));
    FreeBlock *r = needAlignedBlock ? Backend_genericGetBlock(&be, num, 16 * 1024, true) : Backend_genericGetBlock(&be, 1, size, false);
    OBLIGATION(g_my_inFly == 0, "C18.oom: every blockConsumed charged for this request has its blockReleased - on the failure path as well as on success (no in-flight count is leaked, later requests do not wait for ever)");
    OBLIGATION(g_my_sema == 0, "C18.oom: the memory-extension semaphore is given back on every path (a refused raw allocation does not leak a slot)");
    if (r == NULL) {
        OBLIGATION(g_taken == 0 && g_split == 0, "C18.oom: a request that fails has not swallowed a block");
        OBLIGATION(g_raw_refused, "C18.oom: nullptr is reported only after asking for more raw memory was refused");
    } else {
        OBLIGATION(r == &g_blk && g_taken == 1, "C18.oom: the block handed out is the one block that was taken from the bins or from a new region");
        OBLIGATION(g_split <= 1, "C18.oom: the block is split at most once");
    }
    VACUITY_END();
}
#endif

#ifdef REGION
/* Backend::addNewRegion + findBlockInRegion: a new raw region is asked from the OS / the pool's callback (which may REFUSE, or hand back a different size), a block is carved
   out of it, and the region is registered for release at pool destruction.  Regions are addresses; sizeof(MemRegion) / sizeof(LastFreeBlock) are symbolic. */
typedef struct MemRegion MemRegion;
typedef struct ExtMemoryPool { bool fixedPool; } ExtMemoryPool;
typedef struct MemRegionList { int unused; } MemRegionList;
typedef struct Backend { ExtMemoryPool *extMemPool; MemRegionList regionList; } Backend;
static size_t GuardedSize_tryLock(struct GuardedSize *w, int state) { __CPROVER_assert(0, "not used"); return 0; }
static void GuardedSize_unlock(struct GuardedSize *w, size_t size) { __CPROVER_assert(0, "not used"); }
static void GuardedSize_initLocked(struct GuardedSize *w) { __CPROVER_assert(0, "not used"); }
#define LOOP_markBlocks_1
#include "fb.inc"
#undef slabSize
#include "region_types.inc"
#define ADDR_TOP ((uintptr_t)1 << 56)
static size_t SIZEOF_MemRegion, SIZEOF_LastFreeBlock;
static uintptr_t g_base; static size_t g_raw, g_requested; static bool g_refuse, g_asked; static int g_type;
static int g_free_calls, g_add_calls, g_use_calls; static uintptr_t g_free_ptr, g_add_ptr, g_use_region, g_use_block; static size_t g_free_size; static bool g_use_addToBin;
static int g_mr_type; static size_t g_mr_allocSz, g_mr_blockSz; static bool g_mr_type_set, g_mr_allocSz_set, g_mr_blockSz_set;
static void mr_check(MemRegion *r) { OBLIGATION((uintptr_t)r == g_base, "C18.region: only the header of the region just obtained is touched"); }
#define MR_WR_type(r, v) do { mr_check(r); g_mr_type = (v); g_mr_type_set = true; } while (0)
#define MR_WR_allocSz(r, v) do { mr_check(r); g_mr_allocSz = (v); g_mr_allocSz_set = true; } while (0)
#define MR_WR_blockSz(r, v) do { mr_check(r); g_mr_blockSz = (v); g_mr_blockSz_set = true; } while (0)
#define MR_RD_type(r) (mr_check(r), g_mr_type)
#define MR_RD_allocSz(r) (mr_check(r), g_mr_allocSz)
#define MR_RD_blockSz(r) (mr_check(r), g_mr_blockSz)
static void *STUB_Backend_allocRawMem(Backend *self, size_t *size) {
    OBLIGATION(!g_asked, "C18.region: the raw allocator is asked once per region");
    g_asked = true; g_requested = *size;
    if (g_refuse) return NULL;                      /* refused: the size is left alone */
    /* callback contract: a growing pool's callback / the OS returns at least what was asked; a fixed pool hands over its one buffer whatever its size, and is only ever
       asked by requestBootstrapMem (slab region) */
    __CPROVER_assume(self->extMemPool->fixedPool ? g_type == MEMREG_SLAB_BLOCKS : g_raw >= *size);
    *size = g_raw; return (void *)g_base;
}
static bool STUB_Backend_freeRawMem(Backend *self, void *p, size_t sz) { g_free_calls++; g_free_ptr = (uintptr_t)p; g_free_size = sz; return nondet_bool(); }
static void STUB_MemRegionList_add(MemRegionList *l, MemRegion *r) { g_add_calls++; g_add_ptr = (uintptr_t)r; }
static void STUB_Backend_startUseBlock(Backend *self, MemRegion *r, FreeBlock *b, bool addToBin) { g_use_calls++; g_use_region = (uintptr_t)r; g_use_block = (uintptr_t)b; g_use_addToBin = addToBin; }
static void STUB_binsModified(Backend *self) { }
#include "region.inc"
size_t IN_size, IN_raw; uintptr_t IN_base; int IN_type; bool IN_fixed;
void h_region(void) {
    ExtMemoryPool pool; Backend be; be.extMemPool = &pool; pool.fixedPool = IN_fixed = nondet_bool();
    SIZEOF_MemRegion = nondet_size_t(); SIZEOF_LastFreeBlock = nondet_size_t();
    __CPROVER_assume(SIZEOF_MemRegion >= 8 && SIZEOF_MemRegion <= 4096 && SIZEOF_MemRegion % 8 == 0 && SIZEOF_LastFreeBlock >= sizeof(FreeBlock) && SIZEOF_LastFreeBlock <= 4096 && SIZEOF_LastFreeBlock % sizeof(uintptr_t) == 0);
    size_t size = IN_size = nondet_size_t(); int type = IN_type = g_type = nondet_int(); bool addToBin = nondet_bool();
    __CPROVER_assume(type == MEMREG_SLAB_BLOCKS || type == MEMREG_LARGE_BLOCKS || type == MEMREG_ONE_BLOCK);
    /* sizes that reach the backend do not wrap when the region overhead is added: they come from getFromLLOCache's wrapped-size guard (job largeobj.size_guard) or are small constants */
    __CPROVER_assume(size <= SIZE_MAX - ((size_t)1 << 16));
    g_base = IN_base = nondet_uintptr_t(); g_raw = IN_raw = nondet_size_t(); g_refuse = nondet_bool(); g_asked = false;
    /* what the raw allocator hands out is real memory: [base, base+raw) does not wrap, lies in user space */
    __CPROVER_assume(g_base >= 4096 && g_base < ADDR_TOP && g_raw <= ADDR_TOP - g_base);
    g_free_calls = g_add_calls = g_use_calls = 0; g_mr_type_set = g_mr_allocSz_set = g_mr_blockSz_set = false; g_mr_type = nondet_int(); g_mr_allocSz = nondet_size_t(); g_mr_blockSz = nondet_size_t();
    FreeBlock *r = Backend_addNewRegion(&be, size, (MemRegionType)type, addToBin);
    if (g_refuse) {
        OBLIGATION(r == NULL && g_free_calls == 0 && g_add_calls == 0 && g_use_calls == 0, "C18.region: a refused raw allocation is reported as nullptr - nothing is registered, used or freed");
    } else if (r == NULL) {
        OBLIGATION(g_add_calls == 0 && g_use_calls == 0, "C18.region: raw memory that cannot be used is neither registered nor used");
        OBLIGATION(pool.fixedPool ? g_free_calls == 0 : (g_free_calls == 1 && g_free_ptr == g_base && g_free_size == g_raw), "C18.region: raw memory that cannot be used is given back to the raw allocator exactly once, with the address and size it was obtained with (a fixed pool's buffer is never given back)");
    } else {
        OBLIGATION(g_free_calls == 0, "C18.region: a region that is put to use is not given back");
        OBLIGATION(g_add_calls == 1 && g_add_ptr == g_base, "C18.region: a region that is put to use is registered exactly once (so that pool destruction can return it)");
        OBLIGATION(g_mr_allocSz_set && g_mr_allocSz == g_raw, "C18.region: the region header records the size the raw allocator really handed out (the size passed back to rawFree later)");
        OBLIGATION(g_use_calls == 1 && g_use_region == g_base && g_mr_blockSz_set, "C18.region: exactly one block is carved out of the new region");
        OBLIGATION(r == (addToBin ? (FreeBlock *)VALID_BLOCK_IN_BIN : (FreeBlock *)g_use_block) && g_use_addToBin == addToBin, "C18.region: the block is either filed in a bin or handed to the caller, not both");
        uintptr_t b = g_use_block;
        OBLIGATION(b >= g_base + SIZEOF_MemRegion && b % sizeof(uintptr_t) == 0, "C18.region: the block starts behind the region header, word aligned");
        OBLIGATION(g_mr_blockSz >= FreeBlock_minBlockSize && b + g_mr_blockSz >= b && b + g_mr_blockSz + SIZEOF_LastFreeBlock <= g_base + g_raw, "C18.region: the block and the end marker behind it lie inside the raw memory obtained from the pool's own raw allocator");
        OBLIGATION(type == MEMREG_SLAB_BLOCKS ? ((b + g_mr_blockSz) % slabSize == 0 && g_mr_blockSz >= numOfSlabAllocOnMiss * slabSize) : g_mr_blockSz >= size, "C18.region: a slab region's block ends on a slab boundary and holds a full slab request; any other region's block holds the requested size");
    }
    VACUITY_END();
}
#endif

#ifdef DESTROY
/* ExtMemoryPool::destroy -> Backend::destroy: every raw region the pool registered is given back to the raw allocator exactly once, with the size recorded in its header.
   The region list is a per-index representation (region i is THE i-th region, its successor is region i+1): regions are pairwise distinct by construction; g_k is an arbitrary one. */
#include <stdlib.h>
typedef struct MemRegion MemRegion;
typedef struct IndexedBins { int unused; } IndexedBins;
typedef struct MemRegionList { MemRegion *head; } MemRegionList;
typedef struct ExtMemoryPool ExtMemoryPool;
typedef struct Backend { ExtMemoryPool *extMemPool; MemRegionList regionList; IndexedBins freeLargeBlockBins, freeSlabAlignedBins; } Backend;
struct ExtMemoryPool { void *rawAlloc; void *rawFree; size_t granularity; Backend backend; };
#define NMAXREG ((size_t)1 << 12)
static size_t g_n; static size_t *g_alloc;        /* number of regions, their recorded sizes */
static size_t g_k; static int g_freed_k; static bool g_badsize, g_badptr; static bool g_bins_reset;
#define REG(i) ((MemRegion *)(((uintptr_t)(i) + 1) << 12))
#define RIDX(p) ((size_t)(((uintptr_t)(p)) >> 12) - 1)
#define HEADIDX(h) ((h) == NULL ? g_n : RIDX(h))
static MemRegion *mr_next(MemRegion *r) { size_t i = RIDX(r); __CPROVER_assert(r == REG(i) && i < g_n, "C18.destroy: only registered regions are visited"); return i + 1 < g_n ? REG(i + 1) : NULL; }
static size_t mr_allocSz(MemRegion *r) { size_t i = RIDX(r); __CPROVER_assert(r == REG(i) && i < g_n, "C18.destroy: only registered regions are visited"); return g_alloc[i]; }
#define MR_RD_next(r) mr_next(r)
#define MR_RD_allocSz(r) mr_allocSz(r)
#define MR_RD_blockSz(r) (nondet_size_t())      /* not the size the region was obtained with */
static bool STUB_Backend_freeRawMem(Backend *self, MemRegion *p, size_t sz) {
    size_t i = RIDX(p);
    if (!(p == REG(i) && i < g_n)) g_badptr = true;
    else { if (sz != g_alloc[i]) g_badsize = true; if (i == g_k && g_freed_k < 2) g_freed_k++; }
    return nondet_bool();       /* the callback may report failure; the walk goes on */
}
static void STUB_IndexedBins_reset(IndexedBins *b) { g_bins_reset = true; }
static void STUB_loc_reset(ExtMemoryPool *p) { } static void STUB_allLocalCaches_reset(ExtMemoryPool *p) { }
static bool STUB_tlsPointerKey_destroy(ExtMemoryPool *p) { return nondet_bool(); }
static bool STUB_isPoolValid(ExtMemoryPool *p) { return p->granularity != 0; }
#define LOOP_destroy_1 __CPROVER_assigns(self->regionList.head, noError, g_freed_k, g_badsize, g_badptr) \
   __CPROVER_loop_invariant((self->regionList.head == NULL || (self->regionList.head == REG(RIDX(self->regionList.head)) && RIDX(self->regionList.head) < g_n)) \
        && g_freed_k == (g_k < HEADIDX(self->regionList.head) ? 1 : 0) && !g_badsize && !g_badptr) \
   __CPROVER_decreases(g_n - HEADIDX(self->regionList.head))
#include "destroy.inc"
void h_destroy(void) {
    static ExtMemoryPool pool; pool.backend.extMemPool = &pool;
    g_n = nondet_size_t(); __CPROVER_assume(g_n <= NMAXREG);
    g_alloc = malloc((g_n + 1) * sizeof(size_t)); __CPROVER_assume(g_alloc != NULL);
    g_k = nondet_size_t(); __CPROVER_assume(g_k < g_n || g_n == 0);
    pool.rawAlloc = nondet_bool() ? (void *)&pool : NULL; pool.rawFree = nondet_bool() ? (void *)&pool : NULL; pool.granularity = 4096;
    __CPROVER_assume(pool.rawAlloc != NULL || pool.rawFree == NULL);       /* the default pool has neither callback */
    pool.backend.regionList.head = g_n ? REG(0) : NULL; g_freed_k = 0; g_badsize = g_badptr = g_bins_reset = false;
    bool user = pool.rawAlloc != NULL, canFree = pool.rawFree != NULL;
    ExtMemoryPool_destroy(&pool);
    OBLIGATION(!g_badptr && !g_badsize, "C18.destroy: only registered regions are handed to the raw deallocator, each with the size recorded when it was obtained");
    if (user && !canFree) OBLIGATION(g_freed_k == 0, "C18.destroy: a pool without a raw deallocator (fixed pool) never has one invoked");
    else if (g_n > 0) OBLIGATION(g_freed_k == 1 && pool.backend.regionList.head == NULL, "C18.destroy: every raw region of the pool is given back exactly once - none is leaked, none is freed twice");
    OBLIGATION(pool.granularity == 0, "C18.destroy: the pool is marked invalid afterwards (a second pool_destroy is detectable)");
    VACUITY_END();
}
#endif

#ifdef POOLAPI
/* rml::pool_create_v1 / pool_destroy / pool_reset: policy validation and the failure paths of pool creation (library initialisation fails, the pool object cannot be
   allocated, MemoryPool::init fails).  internalMalloc / internalFree / memset are the recording stubs from the top of this file. */
struct MemoryPool { char bytes[48]; };
typedef struct rml_MemoryPool rml_MemoryPool;
typedef struct MemPoolPolicy { void *pAlloc; void *pFree; size_t granularity; int version; unsigned fixedPool : 1, keepAllMemory : 1, reserved : 30; } MemPoolPolicy;
enum { POOL_OK = 0, INVALID_POLICY = 11, UNSUPPORTED_POLICY = 12, NO_MEMORY = 13, NO_EFFECT = 14 };       /* the code names them; only their being distinct matters */
static bool g_lib_inited, g_lib_init_ok, g_pool_init_ok, g_destroy_ret, g_reset_ret; static int g_init_calls, g_destroy_calls, g_reset_calls, g_libinit_calls; static int g_order; static int g_init_at, g_destroy_at;
static bool STUB_isMallocInitialized(void) { return g_lib_inited; }
static bool STUB_doInitialization(void) { g_libinit_calls++; return g_lib_init_ok; }
static bool STUB_MemoryPool_init(MemoryPool *p, intptr_t id, const MemPoolPolicy *pol) { g_init_calls++; g_init_at = ++g_order; return g_pool_init_ok; }
static bool STUB_MemoryPool_destroy(MemoryPool *p) { g_destroy_calls++; g_destroy_at = ++g_order; OBLIGATION(g_free_calls == 0, "C18.pool: the pool object is still allocated while it is being destroyed"); return g_destroy_ret; }
static bool STUB_MemoryPool_reset(MemoryPool *p) { g_reset_calls++; return g_reset_ret; }
#include "poolapi.inc"
void h_poolapi(void) {
    MemPoolPolicy pol; pol.pAlloc = nondet_bool() ? (void *)g_obj2 : NULL; pol.pFree = nondet_bool() ? (void *)g_obj2 : NULL; pol.granularity = nondet_size_t(); pol.version = nondet_int();
    pol.fixedPool = nondet_bool(); pol.keepAllMemory = nondet_bool(); pol.reserved = nondet_unsigned() & 0x3fffffff;
    reset(); g_lib_inited = nondet_bool(); g_lib_init_ok = nondet_bool(); g_pool_init_ok = nondet_bool(); g_init_calls = g_destroy_calls = g_reset_calls = g_libinit_calls = g_order = 0;
    rml_MemoryPool *out = (rml_MemoryPool *)g_obj2;
    int rc = pool_create_v1(nondet_long(), &pol, &out);
    bool invalid = !pol.pAlloc || pol.version < 1 || (!pol.fixedPool && !pol.pFree), unsupported = !invalid && (pol.version > 1 || pol.reserved);
    OBLIGATION((rc == POOL_OK) == (out != NULL), "C18.pool: pool_create_v1 hands out a pool exactly when it reports POOL_OK; every failure stores nullptr");
    if (invalid) OBLIGATION(rc == INVALID_POLICY && g_malloc_calls == 0 && g_init_calls == 0, "C18.pool: a policy without an allocation callback, of too old a version, or growing without a free callback is INVALID_POLICY - nothing is allocated");
    else if (unsupported) OBLIGATION(rc == UNSUPPORTED_POLICY && g_malloc_calls == 0 && g_init_calls == 0, "C18.pool: a newer policy version or reserved flags are UNSUPPORTED_POLICY - nothing is allocated");
    else if (!g_lib_inited && !g_lib_init_ok) OBLIGATION(rc == NO_MEMORY && g_malloc_calls == 0 && g_init_calls == 0, "C18.pool: failed library initialisation is NO_MEMORY");
    else if (g_fail) OBLIGATION(rc == NO_MEMORY && g_malloc_calls == 1 && g_init_calls == 0 && g_free_calls == 0, "C18.pool: when the pool object cannot be allocated the result is NO_MEMORY and nothing is initialised or freed");
    else if (!g_pool_init_ok) OBLIGATION(rc == NO_MEMORY && g_init_calls == 1 && g_free_calls == 1 && g_freed == (void *)g_obj, "C18.pool: when MemoryPool::init fails the pool object is freed exactly once (no leak) and NO_MEMORY is reported");
    else OBLIGATION(rc == POOL_OK && out == (rml_MemoryPool *)g_obj && g_init_calls == 1 && g_free_calls == 0 && g_malloc_calls == 1 && g_malloc_arg == sizeof(MemoryPool), "C18.pool: success hands out the initialised pool object, not freed");
    /* pool_destroy / pool_reset */
    reset(); g_destroy_calls = g_reset_calls = 0; g_destroy_ret = nondet_bool(); g_reset_ret = nondet_bool();
    rml_MemoryPool *p = nondet_bool() ? (rml_MemoryPool *)g_obj : NULL;
    if (nondet_bool()) {
        bool r = pool_destroy(p);
        OBLIGATION(p ? (r == g_destroy_ret && g_destroy_calls == 1 && g_free_calls == 1 && g_freed == (void *)p) : (!r && g_destroy_calls == 0 && g_free_calls == 0), "C18.pool: pool_destroy(nullptr) is false and does nothing; otherwise the pool is destroyed once and then its object freed once");
    } else {
        bool r = pool_reset(p);
        OBLIGATION(p ? (r == g_reset_ret && g_reset_calls == 1 && g_free_calls == 0) : (!r && g_reset_calls == 0), "C18.pool: pool_reset(nullptr) is false and does nothing; otherwise the pool is reset once and stays allocated");
    }
    VACUITY_END();
}
#endif

#ifdef EMPTYBLOCK
/* MemoryPool::getEmptyBlock: when the thread's slab cache is empty, `num` slabs are taken from the backend and each needs a back reference (default pool).  If the i-th back reference
   cannot be obtained (the back-reference table cannot grow: memory refused), everything taken so far is given back - exactly the back references obtained for slabs 0..i-1, and all
   num slabs - and the call fails cleanly with nullptr. */
typedef struct BackRefIdx { uint32_t main; uint16_t largeObj_offset; } BackRefIdx;
#define BRI_INVALID_MAIN 0xFFFFFFFFu
static bool BRI_isInvalid(BackRefIdx x) { return x.main == BRI_INVALID_MAIN; }
static BackRefIdx BRI_invalid(void) { BackRefIdx x; x.main = BRI_INVALID_MAIN; x.largeObj_offset = 0; return x; }
typedef struct TLSData { int d; } TLSData;
struct MemoryPool { bool user_pool; };
typedef struct Block { BackRefIdx backRefIdx; TLSData *tlsPtr; struct MemoryPool *poolPtr; } Block;
struct ResOfGet { Block *block; bool lastAccMiss; };
static struct ResOfGet RESOFGET(Block *b, bool m) { struct ResOfGet r; r.block = b; r.lastAccMiss = m; return r; }
#define slabSize sizeof(Block)     /* the slabs of one refill are adjacent cells; in the harness a cell is just its header */
static TLSData TLS; static Block CACHED; static Block SLABS[numOfSlabAllocOnMiss + 1];
bool g_have_tls, g_cache_hit, g_cache_miss_flag, g_backend_fails; int g_fail_at, g_news, g_removed[numOfSlabAllocOnMiss], g_removed_other, g_put[numOfSlabAllocOnMiss], g_put_other, g_set[numOfSlabAllocOnMiss], g_returned[numOfSlabAllocOnMiss], g_inits, g_num; Block *g_init_block;
static TLSData *STUB_getTLS(struct MemoryPool *p) { return g_have_tls ? &TLS : NULL; }
static struct ResOfGet STUB_freeSlabBlocks_getBlock(TLSData *t) { return RESOFGET(g_cache_hit ? &CACHED : NULL, g_cache_miss_flag); }
static Block *STUB_getSlabBlock(struct MemoryPool *p, int num) { g_num = num; return g_backend_fails ? NULL : (Block *)SLABS; }
static bool STUB_userPool(struct MemoryPool *p) { return p->user_pool; }
static BackRefIdx STUB_newBackRef(void) { BackRefIdx x; if (g_news == g_fail_at) { g_news++; return BRI_invalid(); } x.main = (uint32_t)(100 + g_news); x.largeObj_offset = 0; g_news++; return x; }
static void STUB_removeBackRef(BackRefIdx x) { __CPROVER_assert(!BRI_isInvalid(x), "C18.refill: an invalid back reference is never removed (it indexes outside the back-reference table)");
    if (x.main >= 100 && x.main < 100 + numOfSlabAllocOnMiss) g_removed[x.main - 100]++; else g_removed_other++; }
static int slab_no(Block *b) { for (int k = 0; k < numOfSlabAllocOnMiss; ++k) if (b == &SLABS[k]) return k; return -1; }
static void STUB_putSlabBlock(struct MemoryPool *p, Block *b) { int k = slab_no(b); if (k >= 0) g_put[k]++; else g_put_other++; }
static void STUB_setBackRef(BackRefIdx x, Block *b) { int k = slab_no(b); __CPROVER_assert(k >= 0 && x.main == (uint32_t)(100 + k), "C18.refill: slab k is registered under the back reference obtained for it"); g_set[k]++; }
static void STUB_returnBlock(TLSData *t, Block *b) { int k = slab_no(b); __CPROVER_assert(k >= 1, "C18.refill: only the surplus slabs go to the thread's slab cache"); g_returned[k]++; }
static void STUB_initEmptyBlock(Block *b, TLSData *t, size_t size) { g_inits++; g_init_block = b; }
#include "empty_block.inc"
void h_empty_block(void) {
    struct MemoryPool P; P.user_pool = nondet_bool(); g_have_tls = nondet_bool(); g_cache_hit = g_have_tls && nondet_bool(); g_cache_miss_flag = g_have_tls && nondet_bool(); g_backend_fails = nondet_bool();
    g_fail_at = nondet_int(); __CPROVER_assume(g_fail_at >= -1 && g_fail_at < numOfSlabAllocOnMiss); g_news = 0; g_removed_other = g_put_other = g_inits = 0; g_num = 0;
    for (int k = 0; k < numOfSlabAllocOnMiss; ++k) g_removed[k] = g_put[k] = g_set[k] = g_returned[k] = 0;
    Block *r = MemoryPool_getEmptyBlock(&P, nondet_size_t());
    if (g_cache_hit) { OBLIGATION(r == &CACHED && g_inits == 1 && g_num == 0, "C18.refill: a cached slab is used as is"); }
    else if (g_backend_fails) { OBLIGATION(r == NULL && g_inits == 0 && g_news == 0, "C18.fail: a refused slab request is reported as nullptr and nothing else is touched"); }
    else {
        bool failed = !P.user_pool && g_fail_at >= 0 && g_fail_at < g_num;
        OBLIGATION(g_num >= 1 && g_num <= numOfSlabAllocOnMiss && (g_num == 1 || g_have_tls), "C18.refill: several slabs are requested only when there is a thread cache to keep the surplus");
        if (failed) {
            OBLIGATION(r == NULL && g_inits == 0, "C18.fail: when a back reference cannot be obtained in the middle of a slab refill the call fails cleanly with nullptr");
            for (int k = 0; k < numOfSlabAllocOnMiss; ++k) {
                OBLIGATION(g_removed[k] == (k < g_fail_at ? 1 : 0), "C18.fail: the roll-back removes exactly the back references that were obtained for this refill, each once (none leaked, none removed twice)");
                OBLIGATION(g_put[k] == (k < g_num ? 1 : 0) && g_set[k] == 0 && g_returned[k] == 0, "C18.fail: the roll-back gives every slab of the refill back to the backend exactly once and registers none");
            }
            OBLIGATION(g_removed_other == 0 && g_put_other == 0, "C18.fail: the roll-back touches nothing else");
        } else {
            OBLIGATION(r == (Block *)SLABS && g_inits == 1 && g_init_block == r, "C18.refill: the first slab is initialised and returned");
            for (int k = 0; k < numOfSlabAllocOnMiss; ++k) {
                OBLIGATION(g_set[k] == ((!P.user_pool && k < g_num) ? 1 : 0) && g_removed[k] == 0 && g_put[k] == 0, "C18.refill: every slab of a default pool is registered under its own back reference, exactly once");
                OBLIGATION(g_returned[k] == ((k >= 1 && k < g_num) ? 1 : 0), "C18.refill: the surplus slabs go to the thread's slab cache, each once");
            }
        }
    }
    VACUITY_END();
}
#endif
