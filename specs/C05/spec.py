"""C05 -- parallel loops apply the body exactly once to every element, in legal chunks."""
import os
import sys
import re
HERE = os.path.dirname(os.path.abspath(__file__))
sys.path.insert(0, os.path.join(HERE, '..'))
sys.path.insert(0, os.path.join(HERE, '..', '..', 'tools'))
import common
import native
import cxx2c
from cxx2c import Rewriter, CClass, slice_block, tag_loops, ExtractionBreak, load
from prove import Job

BR = 'include/oneapi/tbb/blocked_range.h'
BR2 = 'include/oneapi/tbb/blocked_range2d.h'
BR3 = 'include/oneapi/tbb/blocked_range3d.h'
RC = 'include/oneapi/tbb/detail/_range_common.h'
PT = 'include/oneapi/tbb/partitioner.h'
PF = 'include/oneapi/tbb/parallel_for.h'
FC = ['size_type', 'size_t', 'float', 'double', 'Value', 'Index', 'depth_t']

PFE = 'include/oneapi/tbb/parallel_for_each.h'
PI = 'include/oneapi/tbb/parallel_invoke.h'
ND = 'include/oneapi/tbb/blocked_nd_range.h'


# ---------------------------------------------------------------------------------------------------------------------
# helpers for member functions of task classes (same idiom as specs/C06: tools/ is not touched)
# ---------------------------------------------------------------------------------------------------------------------
def targs(s):
    """split template / call arguments at top-level commas (angle brackets nest too)"""
    out, d, cur = [], 0, []
    for ch in s:
        if ch in '(<[{':
            d += 1
        elif ch in ')>]}':
            d -= 1
        if ch == ',' and d == 0:
            out.append(''.join(cur).strip())
            cur = []
        else:
            cur.append(ch)
    if ''.join(cur).strip() or out:
        out.append(''.join(cur).strip())
    return out


def class_scope(text):
    """class text with everything nested deeper than class scope blanked"""
    mk = cxx2c.mask(text)
    o = mk.find('{')
    out, d = [], 0
    for i, ch in enumerate(mk):
        if i < o:
            out.append(' ')
            continue
        if ch == '{':
            d += 1
        out.append(text[i] if d == 1 and ch not in '{}' else ' ')
        if ch == '}':
            d -= 1
    return ''.join(out)


def member_order(ctext, names, cname):
    """declared order of the listed data members (C++ initialises bases first, then members in DECLARED order)"""
    cs = class_scope(ctext)
    pos = {}
    for n in names:
        hits = [m.start() for m in re.finditer(r'(?<![\w.>])%s\s*(?:\[[^\]]*\])?\s*(?:=[^;()]*)?;' % n, cs)]
        if len(hits) != 1:
            raise ExtractionBreak('%s: member %s declared %d times' % (cname, n, len(hits)))
        pos[n] = hits[0]
    return sorted(names, key=lambda n: pos[n])


def nsdmi(ctext, names):
    """default member initialisers `name{expr};` / `name = expr;` of the class"""
    out = {}
    for n in names:
        m = re.search(r'(?<![\w.>])%s\s*\{([^{}]*)\}\s*;' % n, ctext) or re.search(r'(?<![\w.>])%s\s*=\s*([^;{}()]*);' % n, class_scope(ctext))
        if m:
            out[n] = m.group(1).strip()
    return out


def slice_ctor(rel, sig, within, nth_within=0):
    """constructor slice: from the match of `sig` to the close of the constructor BODY, skipping brace initialisers of the init list"""
    text = load(rel)
    mk = cxx2c.mask(text)
    ws = list(re.finditer(within, mk))
    if len(ws) <= nth_within:
        raise ExtractionBreak('%s: enclosing block %r not found' % (rel, within))
    w = ws[nth_within]
    lo = w.start()
    hi = cxx2c.match_close(mk, mk.find('{', w.end() - 1)) + 1
    hits = list(re.finditer(sig, mk[lo:hi]))
    if len(hits) != 1:
        raise ExtractionBreak('%s: constructor %r found %d times' % (rel, sig, len(hits)))
    st = lo + hits[0].start()
    c = cxx2c.match_close(mk, mk.find('(', st), '(', ')')
    j, depth = c + 1, 0
    while j < hi:
        ch = mk[j]
        if ch == '(':
            depth += 1
        elif ch == ')':
            depth -= 1
        elif ch == ';' and depth == 0:
            break
        elif ch == '{' and depth == 0:
            k = j - 1
            while mk[k].isspace():
                k -= 1
            if mk[k] in ')}':
                e = cxx2c.match_close(mk, j)
                return cxx2c.Slice(rel, st, e + 1, cxx2c.strip_comments(text[st:e + 1]), cxx2c.line_of(text, st))
            j = cxx2c.match_close(mk, j)
        j += 1
    raise ExtractionBreak('%s: constructor %r has no body' % (rel, sig))


def ctor_c(rw, sl, csig, order, bases=(), defaults=None, cname='', tag=''):
    """constructor slice -> `void csig { INIT_<m>_<argc>(self, args); ... body }`; init items in base-then-declared order;
    members that the list does not mention take their default member initialiser (if the class text has one)"""
    text = sl.text
    mk = cxx2c.mask(text)
    o = mk.find('(')
    c = cxx2c.match_close(mk, o, '(', ')')
    j, depth, b = c + 1, 0, None
    while j < len(mk):
        ch = mk[j]
        if ch == '(':
            depth += 1
        elif ch == ')':
            depth -= 1
        elif ch == '{' and depth == 0:
            k = j - 1
            while mk[k].isspace():
                k -= 1
            if mk[k] in ')}':
                b = j
                break
            j = cxx2c.match_close(mk, j)
        j += 1
    if b is None:
        raise ExtractionBreak('%s: constructor body not found' % cname)
    between = text[c + 1:b]
    items = []
    if between.strip():
        if not between.strip().startswith(':'):
            raise ExtractionBreak('%s: unexpected text after the constructor parameter list: %r' % (cname, between.strip()[:60]))
        for it in targs(between.strip()[1:]):
            im = re.match(r'(?s)\s*(\w+)\s*[\(\{](.*)[\)\}]\s*$', it)
            if not im:
                raise ExtractionBreak('%s: cannot parse init-list item %r' % (cname, it))
            items.append((im.group(1), [a for a in targs(im.group(2)) if a != '']))
    names = [n for n, _ in items]
    for n in names:
        if n not in order and n not in bases:
            raise ExtractionBreak('%s: init-list names %s, which is neither a harvested member nor a base' % (cname, n))
    for n, ex in (defaults or {}).items():
        if n not in names:
            items.append((n, [ex]))
    seq = list(bases) + list(order)
    items.sort(key=lambda x: seq.index(x[0]))
    init = ''.join('    INIT_%s%s_%d(self%s);\n' % (tag, n, len(a), ''.join(', ' + x for x in a)) for n, a in items)
    k = 'ctor-init-list -> INIT_<member>_<argc>() in base-then-declared order'
    rw.fired[k] = rw.fired.get(k, 0) + len(items)
    return 'void %s {\n%s%s' % (csig, init, text[b + 1:])


def refs(rw, t, names, minc=0):
    """reference parameters became pointers: every use `p` -> `(*p)`"""
    b = cxx2c.mask(t).find('{')          # the (already C) signature is left alone
    head, t = t[:b], t[b:]
    for n in names:
        t = rw.sub(t, r'(?<![\w.>])%s\b(?!\s*\()' % n, '(*%s)' % n, minc, name='ref-param %s -> (*%s)' % (n, n))
    return head + t


def ref_members(rw, t, names):
    """reference data members are pointers in the C struct: self->m -> (*self->m)"""
    return rw.sub(t, r'(?<![\w.>])self->(%s)\b' % '|'.join(names), r'(*self->\1)', 0, name='reference member -> (*self->m)')


def body_of(t):
    """function text from its first '{' (the signature is replaced by the caller)"""
    return t[cxx2c.mask(t).find('{'):]


def task_calls(rw, t):
    """plumbing shared by the task classes of parallel_for_each.h / parallel_invoke.h / parallel_for.h"""
    t = rw.sub(t, r'small_object_allocator alloc\{\};', 'small_object_allocator alloc; ALLOCATOR_INIT(alloc);', 0, name='value-initialised allocator')
    t = rw.sub(t, r'\bthis->', 'self->', 0, name='this->')
    t = rw.sub(t, r'\(\*this\)', '(*self)', 0, name='*this')
    t = rw.sub(t, r'\*this\b', '(*self)', 0, name='*this')
    t = rw.sub(t, r'\bthis\b', 'self', 0, name='this')
    return t


def wait_ops(rw, t):
    """X.reserve() / X.release() / P->reserve() / P->release() on wait contexts -> WAIT_RESERVE(lvalue[, n]) / WAIT_RELEASE(lvalue[, n]) (callee stubs: wait_context)"""
    lv = r'((?:\(\*self->\w+\)|self->\w+|\w+))'
    t = rw.sub(t, lv + r'\.(reserve|release)\(\s*\)', lambda m: 'WAIT_%s(%s)' % (m.group(2).upper(), m.group(1)), 0, name='wait_context::reserve/release -> WAIT_RESERVE/WAIT_RELEASE')
    t = rw.sub(t, lv + r'\.(reserve|release)\(\s*(\w+)\s*\)', lambda m: 'WAIT_%s_N(%s, %s)' % (m.group(2).upper(), m.group(1), m.group(3)), 0, name='wait_context::reserve/release(n) -> WAIT_*_N')
    t = rw.sub(t, lv + r'->(reserve|release)\(\s*\)', lambda m: 'WAIT_%s(*%s)' % (m.group(2).upper(), m.group(1)), 0, name='vertex->reserve/release -> WAIT_RESERVE/WAIT_RELEASE')
    return t


def extract(ctx):
    sliced, fired = [], {}
    # ---- proportional_split -------------------------------------------------
    ps = CClass(RC, r'class proportional_split : no_assign \{', 'proportional_split')
    ps.harvest_members(['my_left', 'my_right'])
    out = [ps.struct_decl()]
    out.append(ps.convert(ps.method(r'proportional_split\(size_t _left = 1, size_t _right = 1\)', ctor=True), 'proportional_split_ctor'))
    out.append(ps.convert(ps.method(r'size_t left\(\) const'), 'proportional_split_left'))
    out.append(ps.convert(ps.method(r'size_t right\(\) const'), 'proportional_split_right'))
    common.write(ctx, 'psplit.inc', '\n'.join(out))
    sliced += ps.sliced
    fired['proportional_split'] = ps.rw.fired

    # ---- blocked_range<Value> ------------------------------------------------
    br = CClass(BR, r'class blocked_range \{', 'blocked_range', tbind={'size_type': 'size_t', 'const_iterator': 'Value'})
    br.harvest_members(['my_end', 'my_begin', 'my_grainsize'])
    M = ['begin', 'end', 'size', 'grainsize', 'empty', 'is_divisible']
    out = [br.struct_decl()]
    for nm, sig in (('begin', r'const_iterator begin\(\) const'), ('end', r'const_iterator end\(\) const'),
                    ('size', r'size_type size\(\) const'), ('grainsize', r'size_type grainsize\(\) const'),
                    ('empty', r'bool empty\(\) const'), ('is_divisible', r'bool is_divisible\(\) const')):
        out.append('static ' + br.convert(br.method(sig), 'blocked_range_' + nm, methods=M, fcast=FC))
    out.append(br.convert(br.method(r'static Value do_split\( blocked_range& r, split \)'), 'blocked_range_do_split_s', methods=M, fcast=FC))
    out.append(br.convert(br.method(r'static Value do_split\( blocked_range& r, proportional_split& proportion \)'), 'blocked_range_do_split_p',
                          methods=M, other={'proportion': ps}, fcast=FC))
    out.append(br.convert(br.method(r'blocked_range\( Value begin_, Value end_, size_type grainsize_=1 \)', ctor=True), 'blocked_range_ctor', methods=M))
    out.append(br.convert(br.method(r'blocked_range\( blocked_range& r, split \)', ctor=True), 'blocked_range_ctor_s', methods=M,
                          pre=[(r'do_split\(r, split\(\)\)', 'blocked_range_do_split_s(r)', 1)]))
    out.append(br.convert(br.method(r'blocked_range\( blocked_range& r, proportional_split& proportion \)', ctor=True), 'blocked_range_ctor_p', methods=M, other={'proportion': ps},
                          pre=[(r'do_split\(r, proportion\)', 'blocked_range_do_split_p(r, proportion)', 1)]))
    common.write(ctx, 'brange.inc', '\n'.join(out))
    sliced += br.sliced
    fired['blocked_range'] = br.rw.fired

    # ---- blocked_range2d / 3d: the dimension choice ---------------------------
    out = []
    for rel, cls, cname, dims in ((BR2, r'class blocked_range2d \{', 'blocked_range2d', ['my_rows', 'my_cols']),
                                  (BR3, r'class blocked_range3d \{', 'blocked_range3d', ['my_pages', 'my_rows', 'my_cols'])):
        c = CClass(rel, cls, cname, tbind={'row_range_type': 'struct blocked_range', 'col_range_type': 'struct blocked_range', 'page_range_type': 'struct blocked_range'})
        c.harvest_members(dims)
        out.append(c.struct_decl())
        s = c.method(r'void do_split\( %s& r, Split& split_obj ?\)' % cname)
        t = c.convert(s, cname + '_do_split', fcast=FC, pre=[
            (r'(\w+)_range_type::do_split\(r\.(\w+), split_obj\)', r'DIM_DO_SPLIT(&r.\2, split_obj)', len(dims)),
            (r'\b(my_\w+)\.(size|grainsize)\(\)', r'blocked_range_\2(&\1)', 4),
        ])
        t = c.rw.sub(t, r'Split\* split_obj', 'SPLIT_T split_obj', 1, 1, name='bind-template(Split)')
        out.append(t)
        t = c.convert(c.method(r'bool is_divisible\(\) const'), cname + '_is_divisible',
                      pre=[(r'\b(my_\w+)\.is_divisible\(\)', r'blocked_range_is_divisible(&\1)', len(dims))])
        out.append(t)
        sliced += c.sliced
        fired[cname] = c.rw.fired
    common.write(ctx, 'brange_nd.inc', '\n'.join(out))

    # ---- partitioner divisor arithmetic ------------------------------------------
    rw = Rewriter('partitioner')
    out = []
    am = CClass(PT, r'struct adaptive_mode : partition_type_base<Partition> \{', 'part', rw=rw)
    am.members = [('size_t', 'my_divisor', ''), ('depth_t', 'my_max_depth', ''), ('int', 'my_delay', ''), ('size_t', 'my_head', ''), ('size_t', 'my_max_affinity', '')]
    for n_, pat in (('my_divisor', r'std::size_t my_divisor;'), ('my_max_depth', r'depth_t my_max_depth;'),
                    ('my_head', r'std::size_t my_head;'), ('my_max_affinity', r'std::size_t my_max_affinity;')):
        if not re.search(pat, load(PT)):
            raise ExtractionBreak('partitioner.h: member %s not found' % n_)
    PRE = [(r'self\(\)\.', 'self->', 0), (r'my_partition::factor', 'PART_FACTOR', 0), (r'Mode::PART_FACTOR', 'PART_FACTOR', 0)]
    out.append(am.convert(am.method(r'std::size_t do_split\(adaptive_mode &src, split\)'), 'adaptive_do_split', pre=PRE, fcast=FC))
    pm = CClass(PT, r'struct proportional_mode : adaptive_mode<Partition> \{', 'part', rw=rw)
    pm.members = am.members
    out.append(pm.convert(pm.method(r'std::size_t do_split\(proportional_mode &src, const proportional_split& split_obj\)'), 'proportional_do_split',
                          pre=PRE, other={'split_obj': ps}, fcast=FC))
    out.append(pm.convert(pm.method(r'bool is_divisible\(\)'), 'proportional_is_divisible', pre=PRE))
    t = pm.convert(pm.method(r'proportional_split get_split\(\)'), 'proportional_get_split', pre=PRE + [
        (r'return proportional_split\(left, right\);', 'struct proportional_split ps_; proportional_split_ctor(&ps_, left, right); return ps_;', 1)], ret='struct proportional_split')
    out.append(t)
    ap = CClass(PT, r'class auto_partition_type: public dynamic_grainsize_mode<adaptive_mode<auto_partition_type> > \{', 'part', rw=rw)
    ap.members = am.members
    out.append(ap.convert(ap.method(r'bool is_divisible\(\)'), 'auto_is_divisible', pre=PRE))
    t = ap.convert(ap.method(r'bool check_for_demand\(Task& t\)'), 'auto_check_for_demand', pre=PRE + [(r'tree_node::is_peer_stolen\(t\)', 'STUB_is_peer_stolen()', 0)])
    t = rw.sub(t, r'Task\* t', 'int t_unused', 1, 1, name='bind-template(Task)')
    out.append(t)
    dg = CClass(PT, r'struct dynamic_grainsize_mode : Mode \{', 'part', rw=rw)
    dg.members = am.members
    out.append(dg.convert(dg.method(r'void align_depth\(depth_t base\)'), 'dyn_align_depth', pre=PRE))
    t = dg.convert(dg.method(r'bool check_for_demand\(Task& t\)'), 'dyn_check_for_demand', pre=PRE + [
        (r'tree_node::is_peer_stolen\(t\)', 'STUB_is_peer_stolen()', 1), (r'\bpass\b', 'DELAY_pass', 2), (r'\bbegin == ', 'DELAY_begin == ', 1)])
    t = rw.sub(t, r'Task\* t', 'int t_unused', 1, 1, name='bind-template(Task)')
    out.append(t)
    la = CClass(PT, r'struct linear_affinity_mode : proportional_mode<Partition> \{', 'part', rw=rw)
    la.members = am.members
    s = la.method(r'linear_affinity_mode\(linear_affinity_mode &src, const proportional_split& split_obj\)', ctor=True)
    t = s.text
    t = rw.sub(t, r'linear_affinity_mode\(linear_affinity_mode &src, const proportional_split& split_obj\) : proportional_mode<Partition>\(src, split_obj\)\s*,',
               'linear_affinity_mode(linear_affinity_mode &src, const proportional_split& split_obj) :', 1, 1, name='base-ctor call moved to harness (declared order: base first)')
    from cxx2c import Slice
    out.append(la.convert(Slice(s.rel, s.start, s.end, t, s.line), 'linear_affinity_ctor_p', pre=PRE, other={'split_obj': ps}))
    txt = am.struct_decl() + '\n'.join(out)
    txt = rw.sub(txt, r'\b(adaptive_mode|proportional_mode)\* src', 'struct part* src', 2, 2, name='bind-template(Mode hierarchy -> struct part)')
    common.write(ctx, 'partitioner.inc', txt)
    common.write(ctx, 'partitioner_fns.inc', txt[len(am.struct_decl()):])
    if not re.search(r'typedef unsigned char depth_t;', load(PT)):
        raise ExtractionBreak('partitioner.h: depth_t is no longer unsigned char')
    for c in (am, pm, ap, dg, la):
        sliced += c.sliced
    fired['partitioner'] = rw.fired

    # ---- range_vector<blocked_range<size_t>, 8> -------------------------------------
    rv = CClass(PT, r'class range_vector \{', 'range_vector', tbind={'T': 'struct blocked_range'})
    rv.harvest_members(['my_head', 'my_tail', 'my_size', 'my_depth'])
    out = ['struct range_vector { depth_t my_head; depth_t my_tail; depth_t my_size; depth_t my_depth[MaxCapacity]; struct blocked_range my_pool[MaxCapacity]; };\n']
    require_order = [m[1] for m in rv.members]
    if require_order != ['my_head', 'my_tail', 'my_size', 'my_depth']:
        raise ExtractionBreak('range_vector member order changed: %s' % require_order)
    RVM = ['empty', 'size', 'pop_back', 'pop_front', 'back', 'front', 'front_depth', 'back_depth', 'is_divisible', 'split_to_fill']
    POOL = [(r'my_pool\.begin\(\)', 'self->my_pool', 0)]
    for nm, sig in (('empty', r'bool empty\(\) const'), ('size', r'depth_t size\(\) const'), ('front_depth', r'depth_t front_depth\(\)'),
                    ('back_depth', r'depth_t back_depth\(\)')):
        out.append(rv.convert(rv.method(sig), 'range_vector_' + nm, methods=RVM, pre=POOL))
    for nm, sig in (('back', r'T& back\(\)'), ('front', r'T& front\(\)')):
        t = rv.convert(rv.method(sig), 'range_vector_' + nm, methods=RVM, pre=POOL + [(r'return self->my_pool\[', 'return &self->my_pool[', 1)])
        out.append(t)
    for nm, sig in (('pop_back', r'void pop_back\(\)'), ('pop_front', r'void pop_front\(\)')):
        out.append(rv.convert(rv.method(sig), 'range_vector_' + nm, methods=RVM, pre=POOL + [(r'self->my_pool\[(\w+)\]\.~T\(\);', r'DESTROY(&self->my_pool[\1]);', 1)]))
    t = rv.convert(rv.method(r'bool is_divisible\(depth_t max_depth\)'), 'range_vector_is_divisible', methods=['back_depth'],
                   pre=[(r'back\(\)\.is_divisible\(\)', 'blocked_range_is_divisible(range_vector_back(self))', 1)])
    out.append(t)
    t = rv.convert(rv.method(r'void split_to_fill\(depth_t max_depth\)'), 'range_vector_split_to_fill', methods=['is_divisible'], pre=POOL + [
        (r'new\(self->my_pool\+my_head\) T\(self->my_pool\[prev\]\);', 'self->my_pool[my_head] = self->my_pool[prev];', 1),
        (r'self->my_pool\[prev\]\.~T\(\);', 'DESTROY(&self->my_pool[prev]);', 1),
        (r'new\(self->my_pool\+prev\) T\(self->my_pool\[my_head\], detail::split\(\)\);', 'blocked_range_ctor_s(&self->my_pool[prev], &self->my_pool[my_head]);', 1)])
    t = tag_loops(t, 'split_to_fill', rv.rw, expect=1)
    out.append(t)
    t = rv.convert(rv.method(r'range_vector\(const T& elem\)', ctor=True), 'range_vector_ctor', pre=POOL + [
        (r'new\( static_cast<void \*>\(self->my_pool\) \) T\(elem\);', 'self->my_pool[0] = *elem;', 1)])
    out.append(t)
    common.write(ctx, 'range_vector.inc', '\n'.join(out))
    sliced += rv.sliced
    fired['range_vector'] = rv.rw.fired

    # ---- execute loops -------------------------------------------------------------
    rw = Rewriter('execute')
    sp = CClass(PT, r'class simple_partition_type: public partition_type_base<simple_partition_type> \{', 'part', rw=rw)
    s = sp.method(r'void execute\(StartType &start, Range &range, execution_data& ed\)')
    t = sp.convert(s, 'simple_execute', pre=[
        (r'split_type split_obj = split\(\);', 'RG_NOP();', 1),
        (r'range\.is_divisible\(\)', 'blocked_range_is_divisible(range)', 0),
        (r'start\.offer_work\( split_obj, ed \)', 'start_offer_work_split(start, range)', 0),
        (r'start\.run_body\( range \)', 'start_run_body(start, range)', 0)])
    t = rw.sub(t, r'StartType\* start, Range\* range, execution_data\* ed', 'struct start_for* start, struct blocked_range* range', 1, 1, name='bind-template(StartType, Range)')
    t = tag_loops(t, 'simple_execute', rw, expect=1)
    out = [t]
    pb = CClass(PT, r'struct partition_type_base \{', 'part', rw=rw)
    s = pb.method(r'void execute\(StartType &start, Range &range, execution_data& ed\)')
    t = pb.convert(s, 'base_execute', pre=[
        (r'range\.is_divisible\(\)', 'blocked_range_is_divisible(range)', 0),
        (r'self\(\)\.is_divisible\(\)', 'PART_IS_DIVISIBLE(self)', 0),
        (r'typename Partition::split_type split_obj = self\(\)\.template get_split<Range>\(\);', 'PART_SPLIT_T split_obj = PART_GET_SPLIT(self);', 1),
        (r'start\.offer_work\( split_obj, ed \)', 'PART_OFFER_WORK(start, range, self, &split_obj)', 0),
        (r'self\(\)\.work_balance\(start, range, ed\)', 'PART_WORK_BALANCE(self, start, range)', 0)])
    t = rw.sub(t, r'StartType\* start, Range\* range, execution_data\* ed', 'struct start_for* start, struct blocked_range* range', 1, 1, name='bind-template(StartType, Range)')
    t = tag_loops(t, 'base_execute', rw, expect=1)
    out.append(t)
    dg2 = CClass(PT, r'struct dynamic_grainsize_mode : Mode \{', 'part', rw=rw)
    s = dg2.method(r'void work_balance\(StartType &start, Range &range, execution_data& ed\)')
    # statement-level rules are generic and have no minimum: a change that drops or swaps a statement must fail an obligation, not break the extraction
    t = dg2.convert(s, 'dyn_work_balance', pre=[
        (r'range\.is_divisible\(\)', 'blocked_range_is_divisible(range)', 0),
        (r'self\(\)\.max_depth\(\)', 'self->my_max_depth', 0),
        (r'start\.run_body\(\s*', 'start_run_body(start, ', 0),
        (r'range_vector<Range, range_pool_size> range_pool\(range\);', 'struct range_vector range_pool; range_vector_ctor(&range_pool, range);', 1),
        (r'self\(\)\.check_for_demand\(\s*start\s*\)', 'PART_CHECK_FOR_DEMAND(self)', 0),
        (r'start\.offer_work\(\s*', 'start_offer_work_range(start, ', 0),
        (r'range_pool\.(\w+)\(\s*\)', r'range_vector_\1(&range_pool)', 0),
        (r'range_pool\.(\w+)\(\s*', r'range_vector_\1(&range_pool, ', 0),
        (r'ed\.context->is_group_execution_cancelled\(\)', 'STUB_is_cancelled()', 0)])
    t = rw.sub(t, r'StartType\* start, Range\* range, execution_data\* ed', 'struct start_for* start, struct blocked_range* range, void* ed', 1, 1, name='bind-template(StartType, Range)')
    t = tag_loops(t, 'work_balance', rw, expect=1)
    out.append(t)
    common.write(ctx, 'execute.inc', '\n'.join(out))
    sliced += sp.sliced + pb.sliced + dg2.sliced
    fired['execute'] = rw.fired

    # ---- parallel_for_impl(first,last,step) index arithmetic --------------------------
    rw = Rewriter('parallel_for_impl')
    out = []
    for k, (nth, cfn) in enumerate(((0, 'parallel_for_impl'), (1, 'parallel_for_impl_ctx'))):
        s = slice_block(PF, r'void parallel_for_impl\(Index first, Index last, Index step, const Function& f, Partitioner& partitioner(?:, task_group_context &context)?\)', nth=nth)
        sliced.append('%s:%d %s' % (s.rel, s.line, cfn))
        t = rw.sub(s.text, r'void parallel_for_impl\(Index first, Index last, Index step, const Function& f, Partitioner& partitioner(?:, task_group_context &context)?\)',
                   'void %s(Index first, Index last, Index step)' % cfn, 1, 1, name='sig (Function/Partitioner/context: forwarded only, dropped)')
        t = rw.sub(t, r'throw_exception\(exception_id::nonpositive_step\);', 'VERIF_THROW(nonpositive_step);', 1, 1, name='throw')
        t = rw.sub(t, r'blocked_range<Index> range\(static_cast<Index>\(0\), end\);', 'struct blocked_range range; blocked_range_ctor(&range, ((Index)(0)), end, 1);', 1, 1, name='ctor + default argument')
        t = rw.sub(t, r'parallel_for_body_wrapper<Function, Index> body\(f, first, step\);', 'struct pf_body body; pf_body_ctor(&body, &first, &step);', 1, 1, name='ctor')
        t = rw.sub(t, r'parallel_for\(range, body, partitioner(?:, context)?\);', 'STUB_parallel_for(&range, &body);', 1, 1, name='callee stub')
        t = rw.fcasts(t, FC)
        out.append(t)
    bw = CClass(PF, r'class parallel_for_body_wrapper : detail::no_assign \{', 'pf_body', tbind={'Function': 'int'})
    bw.harvest_members(['my_begin', 'my_step'])
    out2 = [bw.struct_decl()]
    s = bw.method(r'parallel_for_body_wrapper\( const Function& _func, Index& _begin, Index& _step \)', ctor=True)
    t = bw.convert(s, 'pf_body_ctor', skip_init=['my_func'], pre=[(r'= _begin;', '= *_begin;', 1), (r'= _step;', '= *_step;', 1)])
    t = bw.rw.sub(t, r'int\* _func, ', '', 1, 1, name='drop Function param')
    out2.append(t)
    s = bw.method(r'void operator\(\)\( const blocked_range<Index>& r \) const')
    t = s.text
    t = bw.rw.sub(t, r'void operator\(\)\( const blocked_range<Index>& r \) const', 'void pf_body_call(struct pf_body* self, struct blocked_range* r)', 1, 1, name='sig')
    t = bw.rw.sub(t, r'r\.(begin|end)\(\)', r'blocked_range_\1(r)', 2, 2, name='method')
    t = bw.rw.sub(t, r'\b(my_step|my_begin)\b', r'self->\1', 2, 2, name='field')
    t = bw.rw.sub(t, r'tbb::detail::invoke\(my_func, k\);', 'STUB_invoke(k);', 1, 1, name='callee stub')
    t = common.cxx2c.cpp_resolve(t, {'__INTEL_COMPILER': 0, '__TBB_ASSERT_ON_VECTORIZATION_FAILURE': 0}, 'pf_body')
    t = tag_loops(t, 'pf_body', bw.rw, expect=1)
    out2.append(t)
    common.write(ctx, 'pfor.inc', '\n'.join(out2 + out))
    sliced += bw.sliced
    fired['parallel_for_impl'] = dict(rw.fired, **bw.rw.fired)
    extract_pfe(ctx, sliced, fired)
    extract_invoke(ctx, sliced, fired)
    extract_partition_ctors(ctx, sliced, fired)
    extract_nd(ctx, sliced, fired)
    extract_start_for(ctx, sliced, fired)
    return sliced, fired


# ---------------------------------------------------------------------------------------------------------------------
# parallel_for_each.h
# ---------------------------------------------------------------------------------------------------------------------
def _sig(rw, sl, csig, what):
    """replace the C++ signature of a sliced function by the hand-written C signature (plumbing)"""
    rw.fired['sig: ' + what] = rw.fired.get('sig: ' + what, 0) + 1
    return csig + ' ' + body_of(sl.text)


def pfe_stmt_rules(rw, t):
    """statement-level rewrites shared by the parallel_for_each task classes; every rule keeps the statement (callee -> stub macro), none has a minimum"""
    t = task_calls(rw, t)
    t = rw.sub(t, r'\busing \w+ = [^;]*;', 'RG_NOP();', 0, name='local type alias -> RG_NOP')
    t = rw.sub(t, r'\bblock_handling_type::max_block_size\b', 'max_block_size', 0, name='ns-strip (class constant)')
    t = rw.sub(t, r'(?<![\w.>:])spawn\(', 'SPAWN(', 0, name='callee stub (r1::spawn)')
    t = rw.sub(t, r'(?<![\w.>:])execute_and_wait\(', 'EXECUTE_AND_WAIT(', 0, name='callee stub (r1::execute_and_wait)')
    t = rw.sub(t, r'((?:self->)?\w+)\.delete_object\(self, ed\)', r'DELETE_OBJECT(\1, self, ed)', 0, name='callee stub (small_object_allocator::delete_object: destructor, then free)')
    t = rw.sub(t, r'parallel_for_each_operator_selector<Body>::call\(', 'SELECTOR_CALL(', 0, name='static member call -> SELECTOR_CALL (sliced separately)')
    t = rw.sub(t, r'\bstd::move\((\w+)\)', r'ITEM_MOVE(\1)', 0, name='std::move(item) -> ITEM_MOVE')
    t = rw.sub(t, r'\bstd::forward<\w+>\((\w+)\)', r'ITEM_FWD(\1)', 0, name='std::forward<T>(item) -> ITEM_FWD')
    return t


def aspace(rw, t, names):
    """aligned_space<T,N> members: X.begin() / X.end() -> ASPACE_BEGIN(X) / ASPACE_END(X)"""
    pat = r'((?:\w+->)?(?:%s))\.(begin|end)\(\)' % '|'.join(names)
    return rw.sub(t, pat, lambda m: 'ASPACE_%s(%s)' % (m.group(2).upper(), m.group(1)), 0, name='aligned_space::begin/end -> ASPACE_BEGIN/ASPACE_END')


def extract_pfe(ctx, sliced, fired):
    rw = Rewriter('parallel_for_each')
    if not re.search(r'T\* end\(\) const \{ return begin\(\) \+ N; \}', load('include/oneapi/tbb/detail/_aligned_space.h')):
        raise ExtractionBreak('_aligned_space.h: end() is no longer begin() + N')

    def fin(t, members, refm=()):
        t = pfe_stmt_rules(rw, t)
        t = rw.fields(t, members, 0) if members else t
        t = ref_members(rw, t, refm) if refm else t
        t = wait_ops(rw, t)
        t = rw.asserts(t, 0)
        t = rw.std(t)
        return t

    def note(sl, what):
        sliced.append('%s:%d %s' % (sl.rel, sl.line, what))

    # ---- parallel_for_each_operator_selector::call (without / with feeder) ----------------------------------------------
    sel = []
    SEL = r'struct parallel_for_each_operator_selector \{'
    for nth, cfn, inv in ((0, 'selector_call_plain', 'BODY_INVOKE1'), (1, 'selector_call_feeder', 'BODY_INVOKE2')):
        s = slice_block(PFE, r'static auto call\(const Body& body, ItemArg&& item, FeederArg\*(?: feeder)?\)', within=SEL, nth=nth)
        note(s, 'parallel_for_each_operator_selector::call #%d' % nth)
        t = _sig(rw, s, 'static void %s(const Body* body, ITEM_ARG item, struct feeder_impl* feeder)' % cfn, cfn)
        t = cxx2c.cpp_resolve(t, dict(common.TARGET_MACROS), cfn)
        t = rw.sub(t, r'tbb::detail::invoke\(body, std::forward<ItemArg>\(item\)(, \*feeder)?\);', lambda m: '%s((*body), item%s);' % (inv, m.group(1) or ''), 0, name='user body invocation -> BODY_INVOKE1/2')
        t = rw.asserts(t, 0)
        sel.append(rw.std(t))
    # ---- for_each_iteration_task ----------------------------------------------------------------------------------------
    IT = r'struct for_each_iteration_task: public task \{'
    IT_M = ['item_ptr', 'my_body', 'my_feeder_ptr', 'parent_wait_context']
    IT_R = ['my_body', 'parent_wait_context']
    icls = slice_block(PFE, IT)
    order = member_order(icls.text, IT_M, 'for_each_iteration_task')
    it = []
    s = slice_ctor(PFE, r'for_each_iteration_task\(Iterator input_item_ptr, const Body& body, feeder_impl<Body, Item>\* feeder_ptr, wait_context& wait_context\)', IT)
    note(s, 'for_each_iteration_task constructor')
    t = ctor_c(rw, s, 'iteration_task_ctor(struct iteration_task* self, TASK_ITER input_item_ptr, const Body* body, struct feeder_impl* feeder_ptr, wait_context* wait_context_)', order, cname='for_each_iteration_task', tag='it_')
    t = rw.sub(t, r'INIT_it_parent_wait_context_1\(self, wait_context\)', 'INIT_it_parent_wait_context_1(self, (*wait_context_))', 0, name='ref-param named like its type: wait_context -> (*wait_context_)')
    t = refs(rw, t, ['body'])
    it.append(t)
    s = slice_block(PFE, r'void finalize\(\)', within=IT)
    note(s, 'for_each_iteration_task::finalize')
    it.append(fin(_sig(rw, s, 'void iteration_task_finalize(struct iteration_task* self)', 'iteration_task_finalize'), IT_M, IT_R))
    for nm in ('execute', 'cancel'):
        s = slice_block(PFE, r'task\* %s\(execution_data&\) override' % nm, within=IT)
        note(s, 'for_each_iteration_task::' + nm)
        t = _sig(rw, s, 'task* iteration_task_%s(struct iteration_task* self, execution_data* ed_unused)' % nm, 'iteration_task_' + nm)
        t = rw.sub(t, r'(?<![\w.>])finalize\(\);', 'iteration_task_finalize(self);', 0, name='method')
        t = rw.sub(t, r'\*item_ptr\b', 'TASK_ITER_DEREF(item_ptr)', 0, name='*iterator -> TASK_ITER_DEREF')
        it.append(fin(t, IT_M, IT_R))
    # ---- block handling tasks (input / forward) ---------------------------------------------------------------------------
    blocks = {}
    for kind, CL, ctor_sig, csig, M in (
            ('input', r'struct input_block_handling_task : public task \{',
             r'input_block_handling_task\(wait_context_vertex& root_wait_context, task_group_context& e_context,\s*const Body& body, feeder_impl<Body, Item>\* feeder_ptr, small_object_allocator& alloc\)',
             'block_task_ctor(struct block_task* self, wait_context_vertex* root_wait_context, task_group_context* e_context, const Body* body, struct feeder_impl* feeder_ptr, small_object_allocator* alloc)',
             ['block_iteration_space', 'task_pool', 'my_size', 'my_wait_context', 'my_root_wait_context', 'my_execution_context', 'my_allocator']),
            ('forward', r'struct forward_block_handling_task : public task \{',
             r'forward_block_handling_task\(Iterator first, std::size_t size,\s*wait_context_vertex& w_context, task_group_context& e_context,\s*const Body& body, feeder_impl<Body, Item>\* feeder_ptr,\s*small_object_allocator& alloc\)',
             'block_task_ctor(struct block_task* self, Iterator first, size_t size, wait_context_vertex* w_context, task_group_context* e_context, const Body* body, struct feeder_impl* feeder_ptr, small_object_allocator* alloc)',
             ['task_pool', 'my_size', 'my_wait_context', 'my_root_wait_context', 'my_execution_context', 'my_allocator'])):
        R = ['my_root_wait_context', 'my_execution_context']
        AS = [m for m in M if m in ('block_iteration_space', 'task_pool')]
        cls = slice_block(PFE, CL)
        mb = re.search(r'static constexpr size_t max_block_size = (\d+);', cls.text)
        if not mb:
            raise ExtractionBreak('%s block task: max_block_size constant not found' % kind)
        common.write(ctx, 'pfe_block_%s_const.inc' % kind, 'enum { max_block_size = %s };\n' % mb.group(1))
        out = []
        order = member_order(cls.text, M, kind + '_block_handling_task')
        if order.index('my_size') > order.index('my_wait_context') or [m for m in order if m in AS] != order[:len(AS)]:
            raise ExtractionBreak('%s block task: member order changed: %s' % (kind, order))
        s = slice_ctor(PFE, ctor_sig, CL)
        note(s, kind + '_block_handling_task constructor')
        t = ctor_c(rw, s, csig, order, cname=kind + '_block_handling_task', tag='blk_')
        t = rw.sub(t, r'\bauto item_it =', 'Item* item_it =', 0, name='auto')
        t = rw.sub(t, r'\bauto\* (it|task_it) =', r'struct iteration_task* \1 =', 0, name='auto')
        t = rw.sub(t, r'new \((\w+(?:\+\+)?)\) iteration_task\(', r'NEW_AT_iteration_task(\1, ', 0, name='placement new of an iteration task -> NEW_AT_iteration_task(place, ctor args): the sliced constructor')
        t = rw.sub(t, r'\biteration_task_iterator_type\(', r'ITER_FROM_ITEMPTR(', 0, name='iterator conversion (Item* -> const Item* / move_iterator<Item*>)')
        t = refs(rw, t, ['root_wait_context', 'w_context', 'e_context', 'body', 'alloc'])
        t = rw.sub(t, r'(INIT_\w+\(self, )|(?<![\w.>])(%s)\b(?!\s*\()' % '|'.join(M), lambda m: m.group(1) or 'self->' + m.group(2), 0, name='field')
        t = aspace(rw, t, AS)
        out.append(rw.std(t))
        s = slice_block(PFE, r'void finalize\(const execution_data& ed\)', within=CL)
        note(s, kind + '_block_handling_task::finalize')
        out.append(fin(_sig(rw, s, 'void block_task_finalize(struct block_task* self, const execution_data* ed)', 'block_task_finalize'), M, R))
        s = slice_block(PFE, r'~%s_block_handling_task\(\)' % kind, within=CL)
        note(s, kind + '_block_handling_task destructor')
        t = _sig(rw, s, 'void block_task_dtor(struct block_task* self)', 'block_task_dtor')
        t = fin(t, M, R)
        t = aspace(rw, t, AS)
        t = rw.sub(t, r'\((ASPACE_BEGIN\(self->\w+\) \+ \w+)\)->~(\w+)\(\)', r'DTOR_\2(\1)', 0, name='explicit destructor call -> DTOR_<type>(place)')
        t = tag_loops(t, 'block_dtor', rw, expect=1)
        out.append(t)
        for nm in ('execute', 'cancel'):
            s = slice_block(PFE, r'task\* %s\(execution_data& ed\) override' % nm, within=CL)
            note(s, '%s_block_handling_task::%s' % (kind, nm))
            t = _sig(rw, s, 'task* block_task_%s(struct block_task* self, execution_data* ed)' % nm, 'block_task_' + nm)
            t = rw.sub(t, r'(?<![\w.>])finalize\(ed\);', 'block_task_finalize(self, ed);', 0, name='method')
            t = fin(t, M, R)
            t = aspace(rw, t, AS)
            if nm == 'execute':
                t = tag_loops(t, 'block_execute', rw, expect=1)
            out.append(t)
        blocks[kind] = out
    # ---- feeder_item_task / feeder_impl ------------------------------------------------------------------------------------
    FT = r'struct feeder_item_task: public task \{'
    FT_M = ['item', 'my_feeder', 'my_allocator', 'm_wait_tree_vertex']
    fcls = slice_block(PFE, FT)
    order = member_order(fcls.text, FT_M, 'feeder_item_task')
    fd = []
    s = slice_ctor(PFE, r'feeder_item_task\(ItemType&& input_item, feeder_type& feeder, small_object_allocator& alloc, wait_tree_vertex_interface& wait_vertex\) :', FT)
    note(s, 'feeder_item_task constructor')
    t = ctor_c(rw, s, 'feeder_item_task_ctor(struct feeder_item_task* self, ITEM_ARG input_item, struct feeder_impl* feeder, small_object_allocator* alloc, wait_tree_vertex_interface* wait_vertex)', order, cname='feeder_item_task', tag='ft_')
    t = rw.sub(t, r'\br1::get_thread_reference_vertex\(', 'STUB_get_thread_reference_vertex(', 0, name='callee stub (r1::get_thread_reference_vertex)')
    t = refs(rw, t, ['feeder', 'alloc', 'wait_vertex'])
    t = rw.sub(t, r'(?<![\w.>])m_wait_tree_vertex\b', 'self->m_wait_tree_vertex', 0, name='field')
    t = pfe_stmt_rules(rw, t)
    t = wait_ops(rw, t)
    fd.append(rw.std(t))
    s = slice_block(PFE, r'void finalize\(const execution_data& ed\)', within=FT)
    note(s, 'feeder_item_task::finalize')
    fd.append(fin(_sig(rw, s, 'void feeder_item_task_finalize(struct feeder_item_task* self, const execution_data* ed)', 'feeder_item_task_finalize'), FT_M, ['my_feeder']))
    for nth, cfn in ((0, 'feeder_item_task_call_first'), (1, 'feeder_item_task_call_second')):
        s = slice_block(PFE, r'static (?:auto|void) call\(const BodyType& call_body, ItemType& call_item, FeederType& call_feeder, (?:first|second)_priority\)', within=FT, nth=nth)
        note(s, 'feeder_item_task::call #%d' % nth)
        t = _sig(rw, s, 'static void %s(const Body* call_body, Item* call_item, struct feeder_impl* call_feeder)' % cfn, cfn)
        fd.append(refs(rw, fin(t, [], ()), ['call_body', 'call_item', 'call_feeder']))
    for nm in ('execute', 'cancel'):
        s = slice_block(PFE, r'task\* %s\(execution_data& ed\) override' % nm, within=FT)
        note(s, 'feeder_item_task::' + nm)
        t = _sig(rw, s, 'task* feeder_item_task_%s(struct feeder_item_task* self, execution_data* ed)' % nm, 'feeder_item_task_' + nm)
        t = rw.sub(t, r'(?<![\w.>])finalize\(ed\);', 'feeder_item_task_finalize(self, ed);', 0, name='method')
        t = rw.sub(t, r'(?<![\w.>:])call\(([^;]*), first_priority\{\}\);', r'FEEDER_TASK_CALL(\1);', 0, name='overload set call(..., first_priority{}) -> FEEDER_TASK_CALL (either sliced overload)')
        fd.append(fin(t, FT_M, ['my_feeder']))
    FI = r'class feeder_impl : public feeder<Item> \{'
    FI_M = ['my_body', 'my_wait_context', 'my_execution_context']
    ficls = slice_block(PFE, FI)
    order = member_order(ficls.text, FI_M, 'feeder_impl')
    s = slice_ctor(PFE, r'feeder_impl\(const Body& body, wait_context_vertex& w_context, task_group_context &context\)', FI)
    note(s, 'feeder_impl constructor')
    t = ctor_c(rw, s, 'feeder_impl_ctor(struct feeder_impl* self, const Body* body, wait_context_vertex* w_context, task_group_context* context)', order, cname='feeder_impl', tag='fi_')
    common.write(ctx, 'pfe_feeder_impl_ctor.inc', refs(rw, t, ['body', 'w_context', 'context']) + '\n')
    for sig, cfn, csig in ((r'void internal_add_copy_impl\(std::true_type, const Item& item\)', 'feeder_impl_internal_add_copy_impl_true', 'const Item* item'),
                           (r'void internal_add_move\(Item&& item\) override', 'feeder_impl_internal_add_move', 'Item* item')):
        s = slice_block(PFE, sig, within=FI)
        note(s, 'feeder_impl::' + cfn[len('feeder_impl_'):])
        t = _sig(rw, s, 'void %s(struct feeder_impl* self, %s)' % (cfn, csig), cfn)
        t = rw.sub(t, r'\bauto task = alloc\.new_object<feeder_task>\(', 'struct feeder_item_task* task = NEW_feeder_item_task(alloc, ', 0, name='alloc.new_object<T>(args) -> NEW_T(alloc, args): allocate, then the sliced constructor')
        t = rw.sub(t, r'\bstd::move\(item\)', 'ITEM_MOVE(*item)', 0, name='std::move(item) -> ITEM_MOVE')
        t = rw.sub(t, r'(NEW_feeder_item_task\(alloc, )item\b', r'\1ITEM_COPY(*item)', 0, name='copy of the item argument -> ITEM_COPY')
        t = fin(t, FI_M, FI_M)
        fd.append(t)
    s = slice_block(PFE, r'void internal_add_copy\(const Item& item\) override', within=FI)
    note(s, 'feeder_impl::internal_add_copy')
    t = _sig(rw, s, 'void feeder_impl_internal_add_copy(struct feeder_impl* self, const Item* item)', 'feeder_impl_internal_add_copy')
    t = rw.sub(t, r'internal_add_copy_impl\(typename std::is_copy_constructible<Item>::type\(\), item\);', 'feeder_impl_internal_add_copy_impl_true(self, item);', 0, name='tag dispatch bound: Item is copy constructible')
    fd.append(t)
    # ---- parallel_for_body_wrapper (random access iterators) --------------------------------------------------------------
    BW = r'class parallel_for_body_wrapper \{'
    BW_M = ['my_first', 'my_body', 'my_feeder_ptr']
    wcls = slice_block(PFE, BW)
    order = member_order(wcls.text, BW_M, 'pfe parallel_for_body_wrapper')
    wr = []
    s = slice_ctor(PFE, r'parallel_for_body_wrapper\(Iterator first, const Body& body, feeder_impl<Body, Item>\* feeder_ptr\)', BW)
    note(s, 'parallel_for_each parallel_for_body_wrapper constructor')
    t = ctor_c(rw, s, 'pfe_wrapper_ctor(struct pfe_wrapper* self, Iterator first, const Body* body, struct feeder_impl* feeder_ptr)', order, cname='pfe_wrapper', tag='pw_')
    wr.append(refs(rw, t, ['body']))
    s = slice_block(PFE, r'void operator\(\)\(tbb::blocked_range<std::size_t> range\) const', within=BW)
    note(s, 'parallel_for_each parallel_for_body_wrapper::operator()')
    t = _sig(rw, s, 'void pfe_wrapper_call(const struct pfe_wrapper* self, struct blocked_range range)', 'pfe_wrapper_call')
    t = cxx2c.cpp_resolve(t, {'__INTEL_COMPILER': 0}, 'pfe_wrapper_call')
    t = rw.sub(t, r'\brange\.(begin|end)\(\)', r'blocked_range_\1(&range)', 0, name='method')
    t = rw.sub(t, r'\*\((my_first\b[^()]*)\)', r'SEQ_DEREF(\1)', 0, name='*iterator -> SEQ_DEREF')
    t = fin(t, BW_M, ['my_body'])
    t = tag_loops(t, 'pfe_wrapper', rw, expect=1)
    wr.append(t)
    # ---- feeder_holder, for_each_root_task_base, the three root tasks, run_parallel_for_each ---------------------------
    rt = []
    FH1 = r'struct feeder_holder \{'
    FH2 = r'class feeder_holder<Iterator, Body, Item, feeder_is_required<Body, Iterator, Item>> \{'
    s = slice_block(PFE, r'feeder_impl<Body, Item>\* feeder_ptr\(\)', within=FH1)
    note(s, 'feeder_holder (no feeder)::feeder_ptr')
    rt.append('#ifndef FEEDER_REQUIRED\n' + rw.std(_sig(rw, s, 'static struct feeder_impl* feeder_holder_feeder_ptr(struct feeder_holder* self)', 'feeder_ptr (none)')))
    s = slice_ctor(PFE, r'feeder_holder\( wait_context_vertex&, task_group_context&, const Body& \)', FH1)
    note(s, 'feeder_holder (no feeder) constructor')
    rt.append(ctor_c(rw, s, 'feeder_holder_ctor(struct feeder_holder* self, wait_context_vertex* w_context, task_group_context* context, const Body* body)', [], cname='feeder_holder', tag='fh_') + '\n#else')
    s = slice_block(PFE, r'feeder_impl<Body, Item>\* feeder_ptr\(\)', within=FH2)
    note(s, 'feeder_holder (feeder required)::feeder_ptr')
    t = rw.std(_sig(rw, s, 'static struct feeder_impl* feeder_holder_feeder_ptr(struct feeder_holder* self)', 'feeder_ptr (required)'))
    rt.append(rw.fields(t, ['my_feeder'], 0))
    s = slice_ctor(PFE, r'feeder_holder\( wait_context_vertex& w_context, task_group_context& context, const Body& body \)', FH2)
    note(s, 'feeder_holder (feeder required) constructor')
    t = ctor_c(rw, s, 'feeder_holder_ctor(struct feeder_holder* self, wait_context_vertex* w_context, task_group_context* context, const Body* body)', ['my_feeder'], cname='feeder_holder', tag='fh_')
    rt.append(refs(rw, t, ['w_context', 'context', 'body']) + '\n#endif')
    RB = r'class for_each_root_task_base : public task \{'
    RB_M = ['my_first', 'my_last', 'my_wait_context', 'my_execution_context', 'my_body', 'my_feeder_holder']
    RB_R = ['my_wait_context', 'my_execution_context', 'my_body']
    rcls = slice_block(PFE, RB)
    order = member_order(rcls.text, RB_M, 'for_each_root_task_base')
    s = slice_ctor(PFE, r'for_each_root_task_base\(Iterator first, Iterator last, const Body& body, wait_context_vertex& w_context, task_group_context& e_context\)', RB)
    note(s, 'for_each_root_task_base constructor')
    t = ctor_c(rw, s, 'root_task_ctor(struct root_task* self, Iterator first, Iterator last, const Body* body, wait_context_vertex* w_context, task_group_context* e_context)', order, cname='for_each_root_task_base', tag='root_')
    t = refs(rw, t, ['body', 'w_context', 'e_context'])
    t = rw.sub(t, r'(INIT_\w+\(self, )|(?<![\w.>])(%s)\b(?!\s*\()' % '|'.join(RB_M), lambda m: m.group(1) or 'self->' + m.group(2), 0, name='field')
    t = ref_members(rw, t, RB_R)
    t = wait_ops(rw, t)
    rt.append(t)
    s = slice_block(PFE, r'task\* cancel\(execution_data&\) override', within=RB)
    note(s, 'for_each_root_task_base::cancel')
    rt.append(fin(_sig(rw, s, 'task* root_task_cancel(struct root_task* self, execution_data* ed_unused)', 'root_task_cancel'), RB_M, RB_R))
    roots = {}
    for kind, CL in (('input', r'class for_each_root_task : public for_each_root_task_base<Iterator, Body, Item>\s*\{'),
                     ('forward', r'class for_each_root_task<Iterator, Body, Item, std::forward_iterator_tag>\s*: public for_each_root_task_base<Iterator, Body, Item>\s*\{'),
                     ('random', r'class for_each_root_task<Iterator, Body, Item, std::random_access_iterator_tag>\s*: public for_each_root_task_base<Iterator, Body, Item>\s*\{')):
        s = slice_block(PFE, r'task\* execute\(execution_data&(?: ed)?\) override', within=CL)
        note(s, 'for_each_root_task<%s>::execute' % kind)
        t = _sig(rw, s, 'task* root_task_execute(struct root_task* self, execution_data* ed)', 'root_task_execute (%s)' % kind)
        t = rw.sub(t, r'\bauto block_handling_task = alloc\.new_object<block_handling_type>\(', 'struct block_task* block_handling_task = NEW_block_task(alloc, ', 0, name='alloc.new_object<T>(args) -> NEW_T(alloc, args): allocate, then the sliced constructor')
        t = rw.sub(t, r'\bauto\* block_iterator =', 'Item* block_iterator =', 0, name='auto')
        t = rw.sub(t, r'new \((block_iterator\b[^()]*)\) Item\(\*this->my_first\);', r'NEW_AT_Item(\1, SEQ_DEREF(this->my_first));', 0, name='placement new of Item(*iterator) -> NEW_AT_Item(place, SEQ_DEREF(iterator))')
        t = rw.sub(t, r'\bstd::size_t block_size\{0\};', 'size_t block_size = 0;', 0, name='brace initialiser')
        t = rw.sub(t, r'this->my_feeder_holder\.feeder_ptr\(\)', 'feeder_holder_feeder_ptr(&this->my_feeder_holder)', 0, name='member-object method')
        t = rw.sub(t, r'\btbb::parallel_for\(', 'STUB_parallel_for(', 0, name='callee stub (tbb::parallel_for: C05 parallel_for jobs)')
        t = rw.sub(t, r'\btbb::blocked_range<std::size_t>\(', 'MK_RANGE(', 0, name='temporary blocked_range<size_t>(b, e) -> MK_RANGE: the sliced constructor, default grainsize')
        t = rw.sub(t, r'\bstd::distance\(', 'ITER_DISTANCE(', 0, name='std::distance -> ITER_DISTANCE')
        t = rw.sub(t, r'\bparallel_for_body_wrapper<Iterator, Body, Item>\(', 'MK_WRAPPER(', 0, name='temporary wrapper object -> MK_WRAPPER: the sliced constructor')
        t = fin(t, RB_M, RB_R)
        t = aspace(rw, t, ['block_iteration_space'])
        if kind != 'random':
            t = tag_loops(t, 'root_execute', rw, expect=1)
        roots[kind] = t
    s = slice_block(PFE, r'void run_parallel_for_each\( Iterator first, Iterator last, const Body& body, task_group_context& context\)')
    note(s, 'run_parallel_for_each')
    t = _sig(rw, s, 'void run_parallel_for_each(Iterator first, Iterator last, const Body* body, task_group_context* context)', 'run_parallel_for_each')
    t = rw.sub(t, r'\bwait_context_vertex w_context\(0\);', 'wait_context_vertex w_context; WAIT_CTOR(w_context, 0);', 0, name='local object + constructor')
    t = rw.sub(t, r'\bfor_each_root_task<Iterator, Body, ItemType> root_task\(first, last, body, w_context, context\);', 'struct root_task root_task; root_task_ctor(&root_task, first, last, &body, &w_context, &context);', 0, name='local object + sliced constructor')
    t = rw.sub(t, r'\bw_context\.get_context\(\)', 'WAIT_GET_CONTEXT(w_context)', 0, name='wait_context_vertex::get_context')
    t = refs(rw, t, ['body', 'context'])
    t = fin(t, [], ())
    run = t
    pre = '\n'.join(sel) + '\n'
    common.write(ctx, 'pfe_iter.inc', pre + '\n'.join(it) + '\n')
    for kind in ('input', 'forward'):
        common.write(ctx, 'pfe_block_%s.inc' % kind, '\n'.join(blocks[kind]) + '\n')
    common.write(ctx, 'pfe_feeder.inc', '\n'.join(fd) + '\n')
    common.write(ctx, 'pfe_wrapper.inc', '\n'.join(wr) + '\n')
    common.write(ctx, 'pfe_root.inc', '\n'.join(rt) + '\n')
    for kind in roots:
        common.write(ctx, 'pfe_root_%s.inc' % kind, roots[kind] + '\n')
    common.write(ctx, 'pfe_run.inc', run + '\n')
    fired['parallel_for_each'] = rw.fired


# ---------------------------------------------------------------------------------------------------------------------
# parallel_invoke.h
# ---------------------------------------------------------------------------------------------------------------------
def extract_invoke(ctx, sliced, fired):
    rw = Rewriter('parallel_invoke')

    def note(sl, what):
        sliced.append('%s:%d %s' % (sl.rel, sl.line, what))

    def stmts(t):
        t = task_calls(rw, t)
        t = rw.sub(t, r'call_itt_task_notify\(\w+, self\);', 'RG_NOP();', 0, name='ITT notification -> RG_NOP')
        t = rw.sub(t, r'(?<![\w.>:])spawn\(', 'SPAWN(', 0, name='callee stub (r1::spawn)')
        t = rw.sub(t, r'(?<![\w.>:])execute_and_wait\(', 'EXECUTE_AND_WAIT(', 0, name='callee stub (r1::execute_and_wait)')
        return t
    out = []
    # ---- function_invoker ---------------------------------------------------------------------------------------------------
    FI = r'struct function_invoker : public task \{'
    FI_M = ['my_function', 'parent_wait_ctx']
    cls = slice_block(PI, FI)
    order = member_order(cls.text, FI_M, 'function_invoker')
    s = slice_ctor(PI, r'function_invoker\(const Function& function, WaitObject& wait_ctx\) :', FI)
    note(s, 'function_invoker constructor')
    t = ctor_c(rw, s, 'function_invoker_ctor(struct function_invoker* self, const Fn* function, WAIT_OBJECT* wait_ctx)', order, cname='function_invoker', tag='inv_')
    out.append(refs(rw, t, ['function', 'wait_ctx']))
    for nm in ('execute', 'cancel'):
        s = slice_block(PI, r'task\* %s\(execution_data& ed\) override' % nm, within=FI)
        note(s, 'function_invoker::' + nm)
        t = _sig(rw, s, 'task* function_invoker_%s(struct function_invoker* self, execution_data* ed)' % nm, 'function_invoker_' + nm)
        t = stmts(t)
        t = rw.sub(t, r'(?<![\w.>])my_function\(\);', 'FN_CALL(my_function);', 0, name='user functor invocation -> FN_CALL')
        t = rw.sub(t, r'(?<![\w.>])parent_wait_ctx\.release\(ed\);', 'WAIT_OBJECT_RELEASE(parent_wait_ctx, ed);', 0, name='WaitObject::release(ed) -> WAIT_OBJECT_RELEASE (invoke_root_task / invoke_subroot_task: sliced separately)')
        t = rw.fields(t, FI_M, 0)
        t = ref_members(rw, t, FI_M)
        out.append(rw.std(t))
    txt = '\n'.join(out) + '\n'
    for suf, wo in (('r', 'invoke_root_task'), ('s', 'invoke_subroot_task')):      # the two instantiations of the class template (WaitObject := invoke_root_task / invoke_subroot_task)
        t = txt.replace('function_invoker', 'function_invoker_' + suf).replace('WAIT_OBJECT_RELEASE(', wo + '_release(&').replace('WAIT_OBJECT*', 'struct %s*' % wo)
        common.write(ctx, 'invoke_invoker_%s.inc' % suf, t)
    rw.fired['bind-template(function_invoker<Function, WaitObject>: two instantiations)'] = 2
    # ---- invoke_root_task ----------------------------------------------------------------------------------------------------
    out = []
    RT = r'class invoke_root_task \{'
    s = slice_ctor(PI, r'invoke_root_task\(wait_context& wc\) :', RT)
    note(s, 'invoke_root_task constructor')
    t = ctor_c(rw, s, 'invoke_root_task_ctor(struct invoke_root_task* self, wait_context* wc)', ['my_wait_context'], cname='invoke_root_task', tag='rt_')
    out.append(refs(rw, t, ['wc']))
    s = slice_block(PI, r'void release\(const execution_data&\)', within=RT)
    note(s, 'invoke_root_task::release')
    t = _sig(rw, s, 'void invoke_root_task_release(struct invoke_root_task* self, const execution_data* ed_unused)', 'invoke_root_task_release')
    t = rw.fields(t, ['my_wait_context'], 0)
    t = ref_members(rw, t, ['my_wait_context'])
    out.append(wait_ops(rw, t))
    common.write(ctx, 'invoke_root.inc', '\n'.join(out) + '\n')
    # ---- invoke_subroot_task --------------------------------------------------------------------------------------------------
    out = []
    ST = r'struct invoke_subroot_task : public task \{'
    ST_M = ['root_wait_ctx', 'ref_count', 'child_spawned', 'self_invoked_functor', 'f2_invoker', 'f3_invoker', 'my_execution_context', 'my_allocator']
    ST_R = ['root_wait_ctx', 'self_invoked_functor', 'my_execution_context']
    cls = slice_block(PI, ST)
    order = member_order(cls.text, ST_M, 'invoke_subroot_task')
    s = slice_ctor(PI, r'invoke_subroot_task\(const F1& f1, const F2& f2, const F3& f3, wait_context& wait_ctx, task_group_context& context,\s*small_object_allocator& alloc\) :', ST)
    note(s, 'invoke_subroot_task constructor')
    t = ctor_c(rw, s, 'invoke_subroot_task_ctor(struct invoke_subroot_task* self, const Fn* f1, const Fn* f2, const Fn* f3, wait_context* wait_ctx, task_group_context* context, small_object_allocator* alloc)',
               order, defaults=nsdmi(cls.text, ['ref_count', 'child_spawned']), cname='invoke_subroot_task', tag='sub_')
    t = task_calls(rw, t)
    t = refs(rw, t, ['f1', 'f2', 'f3', 'wait_ctx', 'context', 'alloc'])
    t = rw.sub(t, r'(?<![\w.>])root_wait_ctx\b(?=\.)', 'self->root_wait_ctx', 0, name='field')
    t = ref_members(rw, t, ST_R)
    out.append(wait_ops(rw, t))

    def sub_fn(t):
        t = stmts(t)
        t = rw.sub(t, r'(?<![\w.>])(finalize|release)\(ed\);', r'invoke_subroot_task_\1(self, ed);', 0, name='method')
        t = rw.sub(t, r'(?<![\w.>])self_invoked_functor\(\);', 'FN_CALL(self_invoked_functor);', 0, name='user functor invocation -> FN_CALL')
        t = rw.sub(t, r'(?<![\w.>])my_allocator\.delete_object\(self, ed\);', 'DELETE_OBJECT(my_allocator, self, ed);', 0, name='callee stub (small_object_allocator::delete_object)')
        t = rw.sub(t, r'__TBB_ASSERT\(ref_count > 0, nullptr\);', 'VERIF_ASSERT(ASSERT_READ(ref_count) > 0, "release() is called on a positive count");', 0, name='assert (a read that only exists in debug builds: no atomic site)')
        t = rw.sub(t, r'(?<![\w.>(])ref_count > 0', 'ref_count.load() > 0', 0, name='implicit atomic load made explicit')
        t = rw.atomics(t, ['ref_count'], 0)
        t = rw.fields(t, ST_M, 0)
        t = ref_members(rw, t, ST_R)
        t = wait_ops(rw, t)
        t = rw.asserts(t, 0)
        return rw.std(t)
    out.append('void invoke_subroot_task_release(struct invoke_subroot_task* self, const execution_data* ed);')
    for nm, sig, csig in (('finalize', r'void finalize\(const execution_data& ed\)', 'void invoke_subroot_task_finalize(struct invoke_subroot_task* self, const execution_data* ed)'),
                          ('release', r'void release\(const execution_data& ed\)', 'void invoke_subroot_task_release(struct invoke_subroot_task* self, const execution_data* ed)'),
                          ('execute', r'task\* execute\(execution_data& ed\) override', 'task* invoke_subroot_task_execute(struct invoke_subroot_task* self, execution_data* ed)'),
                          ('cancel', r'task\* cancel\(execution_data& ed\) override', 'task* invoke_subroot_task_cancel(struct invoke_subroot_task* self, execution_data* ed)')):
        s = slice_block(PI, sig, within=ST)
        note(s, 'invoke_subroot_task::' + nm)
        t = sub_fn(_sig(rw, s, csig, 'invoke_subroot_task_' + nm))
        out.append(rw.number_sites(t, 'sub_' + nm, by_kind=True))
    common.write(ctx, 'invoke_subroot.inc', '\n'.join(out) + '\n')
    # ---- invoke_recursive_separation (1, 2, 3 functions; variadic) ------------------------------------------------------------
    out = []
    for n in (1, 2, 3, 4):
        if n < 4:
            sig = r'void invoke_recursive_separation\(wait_context& root_wait_ctx, task_group_context& context, %s\)' % ', '.join('const F%d& f%d' % (i, i) for i in range(1, n + 1))
            csig = 'void invoke_sep_%d(wait_context* root_wait_ctx, task_group_context* context, %s)' % (n, ', '.join('const Fn* f%d' % i for i in range(1, n + 1)))
        else:
            sig = r'void invoke_recursive_separation\(wait_context& root_wait_ctx, task_group_context& context,\s*const F1& f1, const F2& f2, const F3& f3, const Fs&\.\.\. fs\)'
            csig = 'void invoke_sep_n(wait_context* root_wait_ctx, task_group_context* context, const Fn* f1, const Fn* f2, const Fn* f3, FN_PACK fs)'
        s = slice_block(PI, sig)
        note(s, 'invoke_recursive_separation (%s)' % ('%d functions' % n if n < 4 else '3 functions + rest of the pack'))
        t = _sig(rw, s, csig, 'invoke_sep_%s' % (n if n < 4 else 'n'))
        t = stmts(t)
        t = rw.sub(t, r'\binvoke_root_task root\(root_wait_ctx\);', 'struct invoke_root_task root; invoke_root_task_ctor(&root, &(root_wait_ctx));', 0, name='local object + sliced constructor')
        t = rw.sub(t, r'\bfunction_invoker<F\d, invoke_root_task> (invoker\d)\((f\d), root\);', r'struct function_invoker_r \1; function_invoker_r_ctor(&\1, &(\2), &(root));', 0, name='local object + sliced constructor')
        t = rw.sub(t, r'\bauto sub_root = alloc\.new_object<invoke_subroot_task<F1, F2, F3>>\(', 'struct invoke_subroot_task* sub_root = NEW_subroot(alloc, ', 0, name='alloc.new_object<T>(args) -> NEW_T(alloc, args): allocate, then the sliced constructor')
        t = rw.sub(t, r'\binvoke_recursive_separation\(root_wait_ctx, context, fs\.\.\.\);', 'INVOKE_SEP_REST(root_wait_ctx, context, fs);', 0, name='recursive call on the rest of the pack -> INVOKE_SEP_REST (contract stub: induction on the pack length)')
        t = wait_ops(rw, t)
        t = refs(rw, t, ['root_wait_ctx', 'context', 'f1', 'f2', 'f3'][:2 + min(n, 3)])
        out.append(rw.std(t))
    # ---- parallel_invoke_impl (with / without a user context) -------------------------------------------------------------------
    s = slice_block(PI, r'void parallel_invoke_impl\(task_group_context& context, const Fs&\.\.\. fs\)')
    note(s, 'parallel_invoke_impl(context, fs...)')
    t = _sig(rw, s, 'void parallel_invoke_impl_ctx(task_group_context* context, FN_PACK fs)', 'parallel_invoke_impl_ctx')
    t = rw.sub(t, r'static_assert\(sizeof\.\.\.\(Fs\) >= (\d+),', r'VERIF_STATIC_ASSERT(fs.n >= \1,', 0, name='static_assert on the pack length -> precondition check')
    t = rw.sub(t, r'\bwait_context root_wait_ctx\{0\};', 'wait_context root_wait_ctx; WAIT_CTOR(root_wait_ctx, 0);', 0, name='local object + constructor')
    t = rw.sub(t, r'\binvoke_recursive_separation\(root_wait_ctx, context, fs\.\.\.\);', 'INVOKE_SEP_ALL(root_wait_ctx, context, fs);', 0, name='call on the whole pack -> INVOKE_SEP_ALL')
    out.append(rw.std(refs(rw, t, ['context'])))
    s = slice_block(PI, r'void parallel_invoke_impl\(const F1& f1, const Fs&\.\.\. fs\)')
    note(s, 'parallel_invoke_impl(f1, fs...)')
    t = _sig(rw, s, 'void parallel_invoke_impl_own(const Fn* f1, FN_PACK fs)', 'parallel_invoke_impl_own')
    t = rw.sub(t, r'static_assert\(sizeof\.\.\.\(Fs\) >= (\d+),', r'VERIF_STATIC_ASSERT(fs.n >= \1,', 0, name='static_assert on the pack length -> precondition check')
    t = rw.sub(t, r'\btask_group_context context\(PARALLEL_INVOKE\);', 'task_group_context context; CONTEXT_CTOR(context, PARALLEL_INVOKE);', 0, name='local context object + constructor')
    t = rw.sub(t, r'\bwait_context root_wait_ctx\{0\};', 'wait_context root_wait_ctx; WAIT_CTOR(root_wait_ctx, 0);', 0, name='local object + constructor')
    t = rw.sub(t, r'\binvoke_recursive_separation\(root_wait_ctx, context, fs\.\.\., f1\);', 'INVOKE_SEP_ALL_PLUS(root_wait_ctx, context, fs, f1);', 0, name='call on the pack followed by f1 -> INVOKE_SEP_ALL_PLUS')
    out.append(rw.std(refs(rw, t, ['f1'])))
    common.write(ctx, 'invoke_sep.inc', '\n'.join(out) + '\n')
    fired['parallel_invoke'] = rw.fired


# ---------------------------------------------------------------------------------------------------------------------
# partitioner.h: constructor chains of the partition types, affinity map, check_being_stolen
# ---------------------------------------------------------------------------------------------------------------------
def _retext(sl, text):
    return cxx2c.Slice(sl.rel, sl.start, sl.end, text, sl.line)


def extract_partition_ctors(ctx, sliced, fired):
    rw = Rewriter('partition constructors')

    def note(sl, what):
        sliced.append('%s:%d %s' % (sl.rel, sl.line, what))

    def base_names(t):
        """template arguments of base-class initialisers are dropped: Base<Args>(...) -> Base(...) (the hierarchy is bound per job)"""
        t = rw.sub(t, r'\b(adaptive_mode|proportional_mode|linear_affinity_mode)<\w+>\s*\(', r'\1(', 0, name='base-class initialiser: template arguments dropped')
        t = rw.sub(t, r'\bdynamic_grainsize_mode<\w+<\w+> >\s*\(', 'dynamic_grainsize_mode(', 0, name='base-class initialiser: template arguments dropped')
        return t

    def tags(t):
        """INIT_x_2(self, src, split()) -> INIT_x_s(self, src); INIT_x_2(self, src, split_obj) -> INIT_x_p(self, src, split_obj): overloads selected by the tag type"""
        t = rw.sub(t, r'INIT_(\w+)_2\(self, (\w+), split\(\)\)', r'INIT_\1_s(self, \2)', 0, name='overload on the split tag -> _s')
        t = rw.sub(t, r'INIT_(\w+)_2\(self, (\w+), split_obj\)', r'INIT_\1_p(self, \2, split_obj)', 0, name='overload on proportional_split -> _p')
        return t

    def common_rules(t):
        t = rw.sub(t, r'\bself\(\)\.', 'self->', 0, name='CRTP self()')
        t = rw.sub(t, r'\b(?:my_partition|Mode::my_partition)::factor\b', 'PART_FACTOR', 0, name='Partition::factor (bound per job)')
        t = rw.sub(t, r'\bdo_split\(src, split\(\)\)', 'adaptive_do_split(self, &(src))', 0, name='method (sliced separately)')
        t = rw.sub(t, r'\bdo_split\(src, split_obj\)', 'proportional_do_split(self, &(src), &(split_obj))', 0, name='method (sliced separately)')
        return t
    out = []
    M_ALL = ['my_divisor', 'my_delay', 'my_max_depth', 'my_head', 'my_max_affinity', 'my_array']
    s = slice_block(PT, r'inline std::size_t get_initial_auto_partitioner_divisor\(\)')
    note(s, 'get_initial_auto_partitioner_divisor')
    t = _sig(rw, s, 'static size_t get_initial_auto_partitioner_divisor(void)', 'get_initial_auto_partitioner_divisor')
    t = rw.sub(t, r'(?<![\w.>:])max_concurrency\(\)', 'STUB_max_concurrency()', 0, name='callee stub (this_task_arena::max_concurrency)')
    out.append(rw.std(rw.casts(t)))
    s = slice_block(PT, r'static std::size_t get_initial_partition_head\(\)')
    note(s, 'get_initial_partition_head')
    t = _sig(rw, s, 'static size_t get_initial_partition_head(void)', 'get_initial_partition_head')
    t = rw.sub(t, r'\btbb::this_task_arena::current_thread_index\(\)', 'STUB_current_thread_index()', 0, name='callee stub (this_task_arena::current_thread_index)')
    t = rw.sub(t, r'\btbb::task_arena::not_initialized\b', 'TASK_ARENA_not_initialized', 0, name='class constant')
    out.append(rw.std(rw.fcasts(t, ['size_t'])))
    ni = re.search(r'static const int not_initialized = (-?\d+);', load('include/oneapi/tbb/task_arena.h'))
    if not ni:
        raise ExtractionBreak('task_arena.h: not_initialized constant not found')
    consts = ['enum { TASK_ARENA_not_initialized = %s };' % ni.group(1)]
    for nm in ('__TBB_INITIAL_CHUNKS', '__TBB_RANGE_POOL_CAPACITY', '__TBB_INIT_DEPTH'):
        m = re.search(r'#define %s (\d+)' % nm, load(PT))
        if not m:
            raise ExtractionBreak('partitioner.h: %s not found' % nm)
        consts.append('#define %s %s' % (nm, m.group(1)))
    AP = r'class affinity_partition_type : public dynamic_grainsize_mode<linear_affinity_mode<affinity_partition_type> > \{'
    acls = slice_block(PT, AP)
    m1 = re.search(r'static const unsigned factor_power = (\d+);', acls.text)
    m2 = re.search(r'static const unsigned factor = (1 << factor_power);', acls.text)
    if not m1 or not m2:
        raise ExtractionBreak('affinity_partition_type: factor / factor_power constants not found')
    consts.append('enum { factor_power = %s }; enum { AFFINITY_FACTOR = %s };' % (m1.group(1), m2.group(1)))
    ns = re.search(r'constexpr slot_id no_slot = slot_id\(~0\);', load('include/oneapi/tbb/detail/_task.h'))
    if not ns or not re.search(r'using slot_id = unsigned short;', load('include/oneapi/tbb/detail/_task.h')):
        raise ExtractionBreak('_task.h: slot_id / no_slot changed')
    common.write(ctx, 'part_consts.inc', '\n'.join(consts) + '\n')
    # ---- constructor chains ------------------------------------------------------------------------------------------------------
    AM = r'struct adaptive_mode : partition_type_base<Partition> \{'
    PM = r'struct proportional_mode : adaptive_mode<Partition> \{'
    LA = r'struct linear_affinity_mode : proportional_mode<Partition> \{'
    DG = r'struct dynamic_grainsize_mode : Mode \{'
    AU = r'class auto_partition_type: public dynamic_grainsize_mode<adaptive_mode<auto_partition_type> > \{'
    ST = r'class static_partition_type : public linear_affinity_mode<static_partition_type> \{'
    SP = 'struct part* self'
    dgcls = slice_block(PT, DG)
    dg_order = member_order(dgcls.text, ['my_delay', 'my_max_depth'], 'dynamic_grainsize_mode')
    lacls = slice_block(PT, LA)
    la_order = member_order(lacls.text, ['my_head', 'my_max_affinity'], 'linear_affinity_mode')
    table = (
        (AM, r'adaptive_mode\(\) :', 'adaptive_ctor_0(%s)' % SP, ['my_divisor'], (), [], 'am_'),
        (AM, r'adaptive_mode\(adaptive_mode &src, split\) :', 'adaptive_ctor_s(%s, struct part* src)' % SP, ['my_divisor'], (), ['src'], 'am_'),
        (AM, r'adaptive_mode\(adaptive_mode&, const proportional_split&\) :', 'adaptive_ctor_p(%s, struct part* src_unused, const struct proportional_split* split_unused)' % SP, ['my_divisor'], (), [], 'am_'),
        (PM, r'proportional_mode\(\) :', 'proportional_ctor_0(%s)' % SP, [], ['adaptive_mode'], [], 'pm_'),
        (PM, r'proportional_mode\(proportional_mode &src, split\) :', 'proportional_ctor_s(%s, struct part* src)' % SP, [], ['adaptive_mode'], ['src'], 'pm_'),
        (PM, r'proportional_mode\(proportional_mode &src, const proportional_split& split_obj\)', 'proportional_ctor_p(%s, struct part* src, const struct proportional_split* split_obj)' % SP, [], ['adaptive_mode'], ['src', 'split_obj'], 'pm_'),
        (LA, r'linear_affinity_mode\(\) :', 'linear_ctor_0(%s)' % SP, la_order, ['proportional_mode'], [], 'la_'),
        (LA, r'linear_affinity_mode\(linear_affinity_mode &src, split\) :', 'linear_ctor_s(%s, struct part* src)' % SP, la_order, ['proportional_mode'], ['src'], 'la_'),
        (LA, r'linear_affinity_mode\(linear_affinity_mode &src, const proportional_split& split_obj\) :', 'linear_ctor_p(%s, struct part* src, const struct proportional_split* split_obj)' % SP, la_order, ['proportional_mode'], ['src', 'split_obj'], 'la_'),
        (DG, r'dynamic_grainsize_mode\(\): Mode\(\)', 'dyn_ctor_0(%s)' % SP, dg_order, ['Mode'], [], 'dg_'),
        (DG, r'dynamic_grainsize_mode\(dynamic_grainsize_mode& p, split\)', 'dyn_ctor_s(%s, struct part* p)' % SP, dg_order, ['Mode'], ['p'], 'dg_'),
        (DG, r'dynamic_grainsize_mode\(dynamic_grainsize_mode& p, const proportional_split& split_obj\)', 'dyn_ctor_p(%s, struct part* p, const struct proportional_split* split_obj)' % SP, dg_order, ['Mode'], ['p', 'split_obj'], 'dg_'),
        (AP, r'affinity_partition_type\( affinity_partitioner_base& ap \)', 'affinity_ctor_0(%s, struct affinity_partitioner_base* ap)' % SP, ['my_array'], ['dynamic_grainsize_mode'], ['ap'], 'ap_'),
        (AP, r'affinity_partition_type\(affinity_partition_type& p, split\)', 'affinity_ctor_s(%s, struct part* p)' % SP, ['my_array'], ['dynamic_grainsize_mode'], ['p'], 'ap_'),
        (AP, r'affinity_partition_type\(affinity_partition_type& p, const proportional_split& split_obj\)', 'affinity_ctor_p(%s, struct part* p, const struct proportional_split* split_obj)' % SP, ['my_array'], ['dynamic_grainsize_mode'], ['p', 'split_obj'], 'ap_'),
        (AU, r'auto_partition_type\( const auto_partitioner& \)', 'auto_ctor_0(%s)' % SP, [], ['dynamic_grainsize_mode'], [], 'au_'),
        (AU, r'auto_partition_type\( auto_partition_type& src, split\)', 'auto_ctor_s(%s, struct part* src)' % SP, [], ['dynamic_grainsize_mode'], ['src'], 'au_'),
        (ST, r'static_partition_type\( const static_partitioner& \)', 'static_ctor_0(%s)' % SP, [], ['linear_affinity_mode'], [], 'st_'),
        (ST, r'static_partition_type\( static_partition_type& p, const proportional_split& split_obj \)', 'static_ctor_p(%s, struct part* p, const struct proportional_split* split_obj)' % SP, [], ['linear_affinity_mode'], ['p', 'split_obj'], 'st_'),
    )
    protos = []
    for CL, sig, csig, order, bases, rparams, tag in table:
        sl = slice_ctor(PT, sig, CL)
        note(sl, csig.split('(')[0])
        txt = base_names(sl.text)
        # a base initialiser that the list does not mention is the base's default constructor (C++ rule)
        t = ctor_c(rw, _retext(sl, txt), csig, order, bases=bases, cname=csig.split('(')[0], tag=tag)
        for b in bases:
            if ('INIT_%s%s_' % (tag, b)) not in t:
                t = t.replace('{\n', '{\n    INIT_%s%s_0(self);\n' % (tag, b), 1)
                rw.fired['implicit default construction of the base class made explicit'] = rw.fired.get('implicit default construction of the base class made explicit', 0) + 1
        t = tags(t)
        t = common_rules(t)
        t = refs(rw, t, rparams)
        t = rw.sub(t, r'(INIT_\w+\(self, )|(?<![\w.>])(%s)\b(?!\s*\()' % '|'.join(M_ALL), lambda m: m.group(1) or 'self->' + m.group(2), 0, name='field')
        t = rw.sub(t, r'\(\*ap\)\.resize\(factor\);', 'affinity_partitioner_base_resize(ap, AFFINITY_FACTOR);', 0, name='method on the reference parameter (sliced separately)')
        t = rw.sub(t, r'(?<![\w.>])factor_power \+ 1', 'factor_power + 1', 0, name='class constant')
        t = rw.sub(t, r'\(factor&\(factor-1\)\)==0', '(AFFINITY_FACTOR&(AFFINITY_FACTOR-1))==0', 0, name='class constant')
        t = rw.sub(t, r'(INIT_dg_my_delay_1\(self, )(begin|pass)\)', r'\1DELAY_\2)', 0, name='enumerator of my_delay')
        t = rw.asserts(t, 0)
        protos.append('void ' + csig + ';')
        out.append(rw.std(t))
    # ---- affinity_partitioner_base::resize ---------------------------------------------------------------------------------------
    AB = r'class affinity_partitioner_base: no_copy \{'
    s = slice_block(PT, r'void resize\(unsigned factor\)', within=AB)
    note(s, 'affinity_partitioner_base::resize')
    t = _sig(rw, s, 'void affinity_partitioner_base_resize(struct affinity_partitioner_base* self, unsigned factor)', 'affinity_partitioner_base_resize')
    t = rw.sub(t, r'(?<![\w.>:])max_concurrency\(\)', 'STUB_max_concurrency()', 0, name='callee stub (this_task_arena::max_concurrency)')
    t = rw.sub(t, r'\br1::cache_aligned_deallocate\(', 'STUB_cache_aligned_deallocate(', 0, name='callee stub')
    t = rw.sub(t, r'\br1::cache_aligned_allocate\(', 'STUB_cache_aligned_allocate(', 0, name='callee stub (throwing allocator: success assumed)')
    t = rw.sub(t, r'\bstd::fill_n\(', 'STUB_fill_n(', 0, name='callee stub (std::fill_n)')
    t = rw.fields(t, ['my_array', 'my_size'], 0)
    t = rw.casts(t)
    out.append(rw.std(t))
    # ---- note_affinity / spawn_task / check_being_stolen --------------------------------------------------------------------------
    s = slice_block(PT, r'void note_affinity\(slot_id id\)', within=AP)
    note(s, 'affinity_partition_type::note_affinity')
    t = _sig(rw, s, 'void affinity_note_affinity(%s, slot_id id)' % SP, 'affinity_note_affinity')
    out.append(rw.fields(t, M_ALL, 0))
    for CL, cfn in ((AP, 'affinity_spawn_task'), (LA, 'linear_spawn_task')):
        s = slice_block(PT, r'void spawn_task\(task& t, task_group_context& ctx\)', within=CL)
        note(s, cfn)
        t = _sig(rw, s, 'void %s(%s, task* t, task_group_context* ctx)' % (cfn, SP), cfn)
        t = common_rules(t)
        t = rw.sub(t, r'(?<![\w.>:])spawn\(t, ctx, ', 'SPAWN_AFF(t, ctx, ', 0, name='callee stub (r1::spawn with affinity)')
        t = rw.sub(t, r'(?<![\w.>:])spawn\(t, ctx\)', 'SPAWN_ANY(t, ctx)', 0, name='callee stub (r1::spawn)')
        t = rw.sub(t, r'(?<![\w.>])my_head / factor\b', 'my_head / AFFINITY_FACTOR', 0, name='class constant')
        t = rw.fields(t, M_ALL, 0)
        out.append(rw.std(rw.fcasts(t, ['slot_id'])))
    s = slice_block(PT, r'bool check_being_stolen\(Task &t, const execution_data& ed\)', within=DG)
    note(s, 'dynamic_grainsize_mode::check_being_stolen')
    t = _sig(rw, s, 'bool dyn_check_being_stolen(%s, struct start_task* t, const execution_data* ed)' % SP, 'dyn_check_being_stolen')
    t = cxx2c.cpp_resolve(t, {'__TBB_USE_OPTIONAL_RTTI': 0}, 'check_being_stolen')
    t = common_rules(t)
    t = rw.sub(t, r'\bis_stolen_task\(ed\)', 'STUB_is_stolen_task(ed)', 0, name='callee stub (execution_slot != original_slot)')
    t = rw.sub(t, r'\bt\.my_parent->m_ref_count\b', 'ATOMIC_LOAD(t->my_parent->m_ref_count)', 0, name='implicit atomic load made explicit')
    t = rw.sub(t, r'\btree_node::mark_task_stolen\(t\);', 'STUB_mark_task_stolen(t);', 0, name='callee stub (tree_node::mark_task_stolen: sets the parent tree node\'s m_child_stolen)')
    t = rw.fields(t, M_ALL, 0)
    out.append(rw.std(t))
    common.write(ctx, 'part_ctors.inc', '\n'.join(protos) + '\n' + '\n'.join(out) + '\n')
    fired['partition constructors'] = rw.fired


# ---------------------------------------------------------------------------------------------------------------------
# blocked_nd_range.h
# ---------------------------------------------------------------------------------------------------------------------
def extract_nd(ctx, sliced, fired):
    rw = Rewriter('blocked_nd_range')
    CL = r'class blocked_nd_range_impl<Value, N, detail::index_sequence<Is\.\.\.>> \{'
    if not re.search(r'std::array<dim_range_type, N> my_dims;', slice_block(ND, CL).text):
        raise ExtractionBreak('blocked_nd_range_impl: my_dims is no longer std::array<dim_range_type, N>')
    out = []

    def note(sl, what):
        sliced.append('%s:%d %s' % (sl.rel, sl.line, what))

    def lambdas(t, prefix):
        """[](const dim_range_type& a[, const dim_range_type& b]) { body } -> a static C function placed in front; the call site gets the function's name"""
        fns = []

        def one(m):
            params = [p.strip() for p in m.group(1).split(',')]
            names = [re.sub(r'^const dim_range_type&\s*', '', p) for p in params]
            body = m.group(2)
            for n in names:
                body = re.sub(r'\b%s\.(size|grainsize|empty|is_divisible)\(\)' % n, r'blocked_range_\1(%s)' % n, body)
            fn = '%s_%d' % (prefix, len(fns) + 1)
            fns.append('static bool %s(%s) {%s}' % (fn, ', '.join('struct blocked_range* ' + n for n in names), body))
            return fn
        t, n = re.subn(r'(?s)\[\]\(((?:const dim_range_type& \w+(?:,\s*)?)+)\)\s*\{(.*?)\}', one, t)
        rw.fired['lambda -> static function (passed by name)'] = rw.fired.get('lambda -> static function (passed by name)', 0) + n
        return t, fns

    def arr(t):
        t = rw.sub(t, r'((?:\w+(?:->|\.))?my_dims)\.(begin|end)\(\)', lambda m: 'ARR_%s(%s)' % (m.group(2).upper(), m.group(1)), 0, name='std::array::begin/end -> ARR_BEGIN/ARR_END')
        return t
    for nm, sig in (('is_divisible', r'bool is_divisible\(\) const'), ('empty', r'bool empty\(\) const')):
        sl = slice_block(ND, sig, within=CL)
        note(sl, 'blocked_nd_range::' + nm)
        t = _sig(rw, sl, 'bool blocked_nd_range_%s(struct blocked_nd_range* self)' % nm, 'blocked_nd_range_' + nm)
        t, fns = lambdas(t, 'nd_%s_pred' % nm)
        t = rw.sub(t, r'\bstd::(any_of|all_of|none_of)\(', r'STD_\1(', 0, name='callee stub (std::any_of / all_of / none_of: models in the harness)')
        t = rw.fields(t, ['my_dims'], 0)
        out += [rw.std(rw.fcasts(f, ['double'])) for f in fns] + [rw.std(arr(t))]
    sl = slice_block(ND, r'void do_split\(blocked_nd_range_impl& r, split_type proportion\)', within=CL)
    note(sl, 'blocked_nd_range::do_split<split_type>')
    t = _sig(rw, sl, 'void blocked_nd_range_do_split(struct blocked_nd_range* self, struct blocked_nd_range* r, SPLIT_T proportion)', 'blocked_nd_range_do_split')
    t = rw.sub(t, r'(?s)static_assert\(\(std::is_same<split_type, split>::value \|\| std::is_same<split_type, proportional_split>::value\),\s*"[^"]*"\);', 'RG_NOP();', 0, name='static_assert on the tag type -> RG_NOP')
    t, fns = lambdas(t, 'nd_dim_less')
    t = rw.sub(t, r'\bstd::max_element\(', 'STD_max_element(', 0, name='callee stub (std::max_element: model in the harness)')
    t = rw.sub(t, r'\bauto (my_it|r_it) =', r'struct blocked_range* \1 =', 0, name='auto')
    t = rw.sub(t, r'\bdim_range_type::do_split\(\*r_it, proportion\)', 'DIM_DO_SPLIT(r_it, proportion)', 0, name='static member call (blocked_range::do_split: sliced separately)')
    t = rw.sub(t, r'\br\.is_divisible\(\)', 'blocked_nd_range_is_divisible(r)', 0, name='method')
    t = rw.sub(t, r'\br\.my_dims\b', 'r->my_dims', 0, name='ref-param')
    t = rw.fields(t, ['my_dims'], 0)
    t = arr(t)
    t = rw.asserts(t, 0)
    out += [rw.std(rw.fcasts(f, ['double'])) for f in fns] + [rw.std(t)]
    for tag, sig in (('p', r'blocked_nd_range_impl\(blocked_nd_range_impl& r, proportional_split proportion\) :'), ('s', r'blocked_nd_range_impl\(blocked_nd_range_impl& r, split proportion\) :')):
        sl = slice_ctor(ND, sig, CL)
        note(sl, 'blocked_nd_range splitting constructor (%s)' % ('proportional_split' if tag == 'p' else 'split'))
        t = ctor_c(rw, sl, 'blocked_nd_range_ctor_%s(struct blocked_nd_range* self, struct blocked_nd_range* r, SPLIT_T proportion)' % tag, ['my_dims'], cname='blocked_nd_range', tag='nd_')
        t = rw.sub(t, r'(?<![\w.>])do_split\(r, proportion\);', 'blocked_nd_range_do_split(self, r, proportion);', 0, name='method')
        t = rw.sub(t, r'INIT_nd_my_dims_1\(self, r\.my_dims\)', 'INIT_nd_my_dims_1(self, r->my_dims)', 0, name='ref-param')
        out.append(t)
    common.write(ctx, 'nd_range.inc', '\n'.join(out) + '\n')
    fired['blocked_nd_range'] = rw.fired


# ---------------------------------------------------------------------------------------------------------------------
# parallel_for.h: struct start_for (constructors, run, offer_work_impl, spawn_self, run_body, execute, cancel, finalize) + node / tree_node / wait_node constructors
# ---------------------------------------------------------------------------------------------------------------------
SF_MEMBERS = ['my_range', 'my_body', 'my_parent', 'my_partition', 'my_allocator']


def extract_start_for(ctx, sliced, fired):
    rw = Rewriter('start_for')

    def note(sl, what):
        sliced.append('%s:%d %s' % (sl.rel, sl.line, what))

    def fields(t):
        return rw.fields(t, SF_MEMBERS, 0)

    def calls(t):
        t = task_calls(rw, t)
        t = rw.sub(t, r'\bsplit\(\)', 'SPLIT_TAG', 0, name='split() tag object')
        return t
    out = []
    # ---- node / tree_node / wait_node constructors (partitioner.h) ----
    ncls = slice_block(PT, r'struct node \{')
    order = member_order(ncls.text, ['my_parent', 'm_ref_count'], 'node')
    sl = slice_ctor(PT, r'node\(node\* parent, int ref_count\) :', r'struct node \{')
    note(sl, 'node::node(parent, ref_count)')
    out.append(rw.asserts(ctor_c(rw, sl, 'node_ctor(struct node* self, struct node* parent, int ref_count)', order, cname='node', tag='n_'), 0))
    tcls = slice_block(PT, r'struct tree_node : public node \{')
    order = member_order(tcls.text, ['m_allocator', 'm_child_stolen'], 'tree_node')
    sl = slice_ctor(PT, r'tree_node\(node\* parent, int ref_count, small_object_allocator& alloc\)', r'struct tree_node : public node \{')
    note(sl, 'tree_node::tree_node(parent, ref_count, alloc)')
    t = ctor_c(rw, sl, 'tree_node_ctor(struct node* self, struct node* parent, int ref_count, small_object_allocator* alloc)', order, bases=['node'], defaults=nsdmi(tcls.text, ['m_child_stolen']), cname='tree_node', tag='n_')
    out.append(refs(rw, t, ['alloc']))
    wcls = slice_block(PT, r'struct wait_node : node \{')
    order = member_order(wcls.text, ['m_wait'], 'wait_node')
    sl = slice_ctor(PT, r'wait_node\(\)', r'struct wait_node : node \{')
    note(sl, 'wait_node::wait_node()')
    out.append(ctor_c(rw, sl, 'wait_node_ctor(struct node* self)', order, bases=['node'], defaults=nsdmi(wcls.text, ['m_wait']), cname='wait_node', tag='n_'))
    # ---- start_for ----
    SF = r'struct start_for : public task \{'
    scls = slice_block(PF, SF)
    order = member_order(scls.text, SF_MEMBERS, 'start_for')
    sl = slice_ctor(PF, r'start_for\( const Range& range, const Body& body, Partitioner& partitioner, small_object_allocator& alloc \) :', SF)
    note(sl, 'start_for root constructor')
    t = ctor_c(rw, sl, 'start_for_ctor_root(struct start_for* self, const Range* range, const Body* body, Partitioner* partitioner, small_object_allocator* alloc)', order, cname='start_for', tag='sf_')
    out.append(refs(rw, calls(t), ['range', 'body', 'partitioner', 'alloc']))
    sl = slice_ctor(PF, r'start_for\( start_for& parent_, typename Partitioner::split_type& split_obj, small_object_allocator& alloc \) :', SF)
    note(sl, 'start_for splitting constructor')
    t = ctor_c(rw, sl, 'start_for_ctor_split(struct start_for* self, struct start_for* parent_, split_type* split_obj, small_object_allocator* alloc)', order, cname='start_for', tag='sf_')
    t = rw.sub(t, r'get_range_split_object<Range>\(', 'STUB_get_range_split_object(', 0, name='callee stub (selects split / proportional_split for the Range)')
    out.append(refs(rw, calls(t), ['parent_', 'split_obj', 'alloc']))
    sl = slice_ctor(PF, r'start_for\( start_for& parent_, const Range& r, depth_t d, small_object_allocator& alloc \) :', SF)
    note(sl, 'start_for demand constructor')
    t = ctor_c(rw, sl, 'start_for_ctor_demand(struct start_for* self, struct start_for* parent_, const Range* r, depth_t d, small_object_allocator* alloc)', order, cname='start_for', tag='sf_')
    t = calls(t)
    t = rw.sub(t, r'(?<![\w.>])my_partition\.align_depth\(\s*d\s*\);', 'Partition_align_depth(&self->my_partition, d);', 0, name='member-object method')
    out.append(refs(rw, t, ['parent_', 'r', 'alloc']))
    sl = slice_block(PF, r'static void run\(const Range& range, const Body& body, Partitioner& partitioner, task_group_context& context\)', within=SF)
    note(sl, 'start_for::run(range, body, partitioner, context)')
    t = _sig(rw, sl, 'void start_for_run4(const Range* range, const Body* body, Partitioner* partitioner, task_group_context* context)', 'start_for_run4')
    t = rw.sub(t, r'\brange\.empty\(\)', 'Range_empty(range)', 0, name='Range::empty()')
    t = rw.sub(t, r'\bwait_node wn;', 'wait_node wn; WAIT_NODE_CTOR(wn);', 0, name='default-constructed wait_node')
    t = calls(t)
    t = rw.sub(t, r'start_for& for_task = \*alloc\.new_object<start_for>\(range, body, partitioner, alloc\);', 'struct start_for* for_task_p = NEW_start_for_root(alloc, range, body, partitioner, alloc);', 0,
               name='alloc.new_object<T>(args) -> NEW_T(alloc, args): allocate, then the sliced constructor (reference local -> pointer)')
    t = rw.sub(t, r'\bfor_task\.my_parent\b', 'for_task_p->my_parent', 0, name='reference local -> pointer')
    t = rw.sub(t, r'execute_and_wait\(for_task, ', 'EXECUTE_AND_WAIT((*for_task_p), ', 0, name='callee stub (r1::execute_and_wait)')
    out.append(refs(rw, t, ['range', 'body', 'partitioner', 'context']))
    sl = slice_block(PF, r'static void run\(const Range& range, const Body& body, Partitioner& partitioner\)', within=SF)
    note(sl, 'start_for::run(range, body, partitioner)')
    t = _sig(rw, sl, 'void start_for_run3(const Range* range, const Body* body, Partitioner* partitioner)', 'start_for_run3')
    t = rw.sub(t, r'task_group_context context\(PARALLEL_FOR\);', 'task_group_context context; CONTEXT_CTOR(context, PARALLEL_FOR);', 0, name='local context object + constructor')
    t = rw.sub(t, r'(?<![\w.>])run\(range, body, partitioner, context\);', 'RUN4(range, body, partitioner, context);', 0, name='static member call')
    out.append(refs(rw, t, ['range', 'body', 'partitioner']))
    sl = slice_block(PF, r'void run_body\( Range &r \)', within=SF)
    note(sl, 'start_for::run_body')
    t = _sig(rw, sl, 'void start_for_run_body(struct start_for* self, Range* r)', 'start_for_run_body')
    t = rw.sub(t, r'tbb::detail::invoke\(my_body, r\);', 'BODY_INVOKE(my_body, r);', 0, name='user body invocation')
    out.append(fields(t))
    if not re.search(r'void offer_work\(typename Partitioner::split_type& split_obj, execution_data& ed\) \{\s*offer_work_impl\(ed, \*this, split_obj\);', scls.text) or \
       not re.search(r'void offer_work\(const Range& r, depth_t d, execution_data& ed\) \{\s*offer_work_impl\(ed, \*this, r, d\);', scls.text):
        raise ExtractionBreak('start_for::offer_work no longer forwards (ed, *this, split_obj) / (ed, *this, r, d) to offer_work_impl')
    sl = slice_block(PF, r'void offer_work_impl\(execution_data& ed, Args&&\.\.\. constructor_args\)', within=SF)
    note(sl, 'start_for::offer_work_impl<Args...> (instantiated for (start_for&, split_type&) and (start_for&, const Range&, depth_t))')
    out.append('void start_for_spawn_self(struct start_for* self, execution_data* ed);')
    for suffix, cparams, pack, newer in (('split', 'struct start_for* a0, split_type* a1', '(*a0), (*a1)', 'NEW_start_for_split'),
                                          ('demand', 'struct start_for* a0, const Range* a1, depth_t a2', '(*a0), (*a1), a2', 'NEW_start_for_demand')):
        t = _sig(rw, sl, 'void start_for_offer_work_impl_%s(struct start_for* self, execution_data* ed, %s)' % (suffix, cparams), 'offer_work_impl_' + suffix)
        t = calls(t)
        t = rw.sub(t, r'start_for& right_child = \*alloc\.new_object<start_for>\(ed, std::forward<Args>\(constructor_args\)\.\.\., alloc\);', 'struct start_for* right_child_p = %s(alloc, ed, %s, alloc);' % (newer, pack), 0,
                   name='alloc.new_object<start_for>(ed, pack..., alloc) -> NEW_start_for_<ctor>(alloc, ed, pack, alloc) (reference local -> pointer)')
        t = rw.sub(t, r'\bright_child\.my_parent\b', 'right_child_p->my_parent', 0, name='reference local -> pointer')
        t = rw.sub(t, r'alloc\.new_object<tree_node>\(ed, ', 'NEW_tree_node(alloc, ed, ', 0, name='alloc.new_object<tree_node>(ed, args) -> NEW_tree_node(alloc, ed, args)')
        t = rw.sub(t, r'\bright_child\.spawn_self\(ed\);', 'start_for_spawn_self(right_child_p, ed);', 0, name='method call')
        out.append(fields(t))
    sl = slice_block(PF, r'void spawn_self\(execution_data& ed\)', within=SF)
    note(sl, 'start_for::spawn_self')
    t = _sig(rw, sl, 'void start_for_spawn_self(struct start_for* self, execution_data* ed)', 'start_for_spawn_self')
    t = calls(t)
    t = rw.sub(t, r'(?<![\w.>])my_partition\.spawn_task\(\(\*self\), \*context\(ed\)\);', 'Partition_spawn_task(&self->my_partition, self, STUB_context(ed));', 0, name='member-object method + task context accessor')
    out.append(t)
    sl = slice_block(PF, r'void start_for<Range, Body, Partitioner>::finalize\(const execution_data& ed\)')
    note(sl, 'start_for::finalize')
    t = _sig(rw, sl, 'void start_for_finalize(struct start_for* self, const execution_data* ed)', 'start_for_finalize')
    t = rw.sub(t, r'auto allocator = my_allocator;', 'small_object_allocator allocator = my_allocator;', 0, name='auto')
    t = rw.sub(t, r'this->~start_for\(\);', 'STUB_task_dtor(self);', 0, name='explicit destructor call -> stub (poisons the task)')
    t = rw.sub(t, r'fold_tree<tree_node>\(', 'STUB_fold_tree(', 0, name='callee stub (fold_tree: proved under C06)')
    t = rw.sub(t, r'allocator\.deallocate\(this, ed\);', 'STUB_deallocate(&allocator, self, ed);', 0, name='callee stub')
    out.append(rw.std(fields(calls(t))))
    sl = slice_block(PF, r'task\* start_for<Range, Body, Partitioner>::execute\(execution_data& ed\)')
    note(sl, 'start_for::execute')
    t = _sig(rw, sl, 'task* start_for_execute(struct start_for* self, execution_data* ed)', 'start_for_execute')
    t = rw.sub(t, r'is_same_affinity\(ed\)', 'STUB_is_same_affinity(ed)', 0, name='callee stub')
    t = rw.sub(t, r'(?<![\w.>])my_partition\.note_affinity\(execution_slot\(ed\)\);', 'Partition_note_affinity(&self->my_partition, STUB_execution_slot(ed));', 0, name='member-object method')
    t = rw.sub(t, r'(?<![\w.>])my_partition\.check_being_stolen\(\*this, ed\);', 'Partition_check_being_stolen(&self->my_partition, self, ed);', 0, name='member-object method')
    t = rw.sub(t, r'(?<![\w.>])my_partition\.execute\(\*this, my_range, ed\);', 'Partition_execute(&self->my_partition, self, &self->my_range, ed);', 0, name='member-object method (the partitioner runs run_body / offer_work on this task: jobs exec.*, wb.*)')
    t = rw.sub(t, r'(?<![\w.>])finalize\(ed\);', 'start_for_finalize(self, ed);', 0, name='method')
    out.append(rw.std(fields(calls(t))))
    sl = slice_block(PF, r'task\* start_for<Range, Body, Partitioner>::cancel\(execution_data& ed\)')
    note(sl, 'start_for::cancel')
    t = _sig(rw, sl, 'task* start_for_cancel(struct start_for* self, execution_data* ed)', 'start_for_cancel')
    t = rw.sub(t, r'(?<![\w.>])finalize\(ed\);', 'start_for_finalize(self, ed);', 0, name='method')
    out.append(rw.std(t))
    common.write(ctx, 'start_for.inc', rw.std('\n'.join(out)) + '\n')
    fired['start_for'] = rw.fired


def build(ctx):
    sliced, fired = extract(ctx)
    C = os.path.join(HERE, 'c05.c')
    jobs = []
    for vt, tag in (('size_t', 'size_t'), ('int', 'int'), ('unsigned char', 'uchar')):
        d = ['Value=' + vt.replace(' ', '_SP_'), 'VT_' + tag]
        jobs.append(Job('br.split.' + tag, C, 'h_br_split', route='LF', defines=d, target='blocked_range<%s>: splitting constructor + do_split(split)' % vt, source=BR))
    jobs.append(Job('br.propsplit', C, 'h_br_propsplit', route='LF', defines=['Value=size_t', 'VT_size_t'], timeout=600,
                    target='blocked_range<size_t>: proportional splitting constructor + do_split(proportional_split&) [IEEE float]', source=BR))
    jobs.append(Job('part.adaptive_split', C, 'h_adaptive_split', route='LF', defines=['Value=size_t', 'VT_size_t'], target='adaptive_mode::do_split', source=PT))
    for f in (1, 16):
        jobs.append(Job('part.proportional.f%d' % f, C, 'h_proportional', route='LF', defines=['Value=size_t', 'VT_size_t', 'PART_FACTOR=%du' % f],
                        target='proportional_mode::do_split/get_split/is_divisible + linear_affinity_mode split ctor (factor %d)' % f, source=PT))
    jobs.append(Job('part.auto_is_divisible', C, 'h_auto_is_divisible', route='LF', defines=['Value=size_t', 'VT_size_t'], target='auto_partition_type::is_divisible', source=PT))
    jobs.append(Job('part.check_for_demand', C, 'h_check_for_demand', route='LF', defines=['Value=size_t', 'VT_size_t'], target='dynamic_grainsize_mode::check_for_demand/align_depth', source=PT))
    jobs.append(Job('rv.ctor', C, 'h_rv_ctor', route='LF', defines=['Value=size_t', 'VT_size_t'], unwind=10, target='range_vector constructor', source=PT))
    for op, opn in ((1, 'pop_back'), (2, 'pop_front')):
        jobs.append(Job('rv.' + opn, C, 'h_rv_ops', route='LW', unwind=10, defines=['Value=size_t', 'VT_size_t', 'RV_OP=%d' % op], timeout=600,
                        target='range_vector<blocked_range<size_t>,8>::%s (+back/front)' % opn, source=PT))
    for tail in range(8):       # case split over the 8x8 (tail, size) shapes of the circular pool: each case is a complete proof
        for size in range(1, 9):
            jobs.append(Job('rv.split_to_fill.t%d.s%d' % (tail, size), C, 'h_rv_ops', route='LW', unwind=10, timeout=600, twin=(tail == 0),
                            defines=['Value=size_t', 'VT_size_t', 'RV_OP=0', 'RV_TAIL=%d' % tail, 'RV_SIZE=%d' % size],
                            target='range_vector<blocked_range<size_t>,8>::split_to_fill (+is_divisible, back, splitting ctor), pool shape tail=%d size=%d' % (tail, size), source=PT))
    jobs.append(Job('exec.simple', C, 'h_simple_execute', route='LC', loops=True, nloops=1, defines=['Value=size_t', 'VT_size_t'], target='simple_partition_type::execute', source=PT))
    jobs.append(Job('exec.base_auto', C, 'h_base_execute', route='LC', loops=True, nloops=1, defines=['Value=size_t', 'VT_size_t', 'AUTO_PART'], target='partition_type_base<auto_partition_type>::execute', source=PT))
    for f in (1, 16):
        jobs.append(Job('exec.base_prop.f%d' % f, C, 'h_base_execute_prop', route='LC', loops=True, nloops=1, defines=['Value=size_t', 'VT_size_t', 'PROP_PART', 'PART_FACTOR=%du' % f],
                        target='partition_type_base<%s>::execute (proportional split loop; range split by the contract of br.propsplit)' % ('static_partition_type' if f == 1 else 'affinity_partition_type'), source=PT))
    for it, tag in (('signed char', 'schar'), ('unsigned char', 'uchar')):
        jobs.append(Job('pfor.index.' + tag, C, 'h_pfor', route='LF', defines=['Value=' + it.replace(' ', '_SP_'), 'Index=' + it.replace(' ', '_SP_'), 'IT_' + tag, 'PFOR'], timeout=600, unwind=3,
                        checks=['--bounds-check', '--pointer-check', '--div-by-zero-check'],
                        target='parallel_for_impl<%s> (both overloads) + parallel_for_body_wrapper index arithmetic' % it, source=PF))
    for dom, dd in (('full', []),):   # a restricted-domain twin (extents <= 4096) still times out (IEEE double multiply on SAT): dropped, see DESIGN
        bd = dom == 'small'
        jobs.append(Job('br2d.dim.' + dom, C, 'h_br2d', route='BD' if bd else 'LF', bounded=bd, bound_text='extents and grainsizes <= 255 (IEEE double products exact)' if bd else None,
                        defines=['Value=size_t', 'VT_size_t', 'ND'] + dd, timeout=900, target='blocked_range2d::do_split dimension choice [IEEE double], domain: ' + dom, source=BR2))
        jobs.append(Job('br3d.dim.' + dom, C, 'h_br3d', route='BD' if bd else 'LF', bounded=bd, bound_text='extents and grainsizes <= 255 (IEEE double products exact)' if bd else None,
                        defines=['Value=size_t', 'VT_size_t', 'ND'] + dd, timeout=900, target='blocked_range3d::do_split dimension choice [IEEE double], domain: ' + dom, source=BR3))

    # ---- parallel_for_each ---------------------------------------------------------------------------------------------------
    T = ['Value=size_t', 'VT_size_t', 'TASKS', 'PFE']
    for kind in ('input', 'forward'):
        for fr, ftag in ((0, 'plain'), (1, 'feeder')):
            d = T + ['PFE_' + kind.upper()] + (['FEEDER_REQUIRED'] if fr else [])
            jobs.append(Job('pfe.iter.%s.%s' % (kind, ftag), C, 'h_pfe_iter', route='LF', defines=d + ['PFE_ITER'], source=PFE,
                            target='for_each_iteration_task (%s blocks, body %s feeder): constructor, execute, cancel, finalize + parallel_for_each_operator_selector::call' % (kind, 'with' if fr else 'without')))
            jobs.append(Job('pfe.block.%s.%s' % (kind, ftag), C, 'h_pfe_block', route='LW', unwind=10, defines=d + ['PFE_BLOCK'], source=PFE,
                            target='%s_block_handling_task: constructor, execute, cancel, finalize, destructor (body %s feeder)' % (kind, 'with' if fr else 'without')))
    for kind in ('input', 'forward', 'random'):
        for fr, ftag in ((0, 'plain'), (1, 'feeder')):
            d = T + ['PFE_' + kind.upper(), 'PFE_ROOT'] + (['FEEDER_REQUIRED'] if fr else [])
            jobs.append(Job('pfe.root.%s.%s' % (kind, ftag), C, 'h_pfe_root', route='LW', unwind=10, defines=d, source=PFE, inputs=['IN_first', 'IN_last'],
                            target='for_each_root_task<%s iterators>::execute + for_each_root_task_base constructor/cancel + feeder_holder (body %s feeder)%s' % (
                                kind, 'with' if fr else 'without', '' if kind == 'random' else ' + block constructor')))
    jobs.append(Job('pfe.run', C, 'h_pfe_run', route='LF', unwind=10, defines=T + ['PFE_FORWARD', 'PFE_ROOT'], source=PFE, target='run_parallel_for_each + for_each_root_task_base constructor'))
    jobs.append(Job('pfe.feeder.add', C, 'h_pfe_feeder_add', route='LF', defines=T + ['PFE_FORWARD', 'PFE_FEEDER', 'FEEDER_REQUIRED'], source=PFE,
                    target='feeder_impl::internal_add_copy / internal_add_copy_impl / internal_add_move + feeder_item_task constructor'))
    jobs.append(Job('pfe.feeder.task', C, 'h_pfe_feeder_task', route='LF', defines=T + ['PFE_FORWARD', 'PFE_FEEDER', 'FEEDER_REQUIRED'], source=PFE,
                    target='feeder_item_task::execute / cancel / finalize / call (both overloads)'))
    for fr, ftag in ((0, 'plain'), (1, 'feeder')):
        jobs.append(Job('pfe.wrapper.' + ftag, C, 'h_pfe_wrapper', route='LC', loops=True, nloops=1, defines=T + ['PFE_RANDOM', 'PFE_WRAP'] + (['FEEDER_REQUIRED'] if fr else []), source=PFE,
                        inputs=['IN_first', 'IN_b', 'IN_e', 'IN_k'], target='parallel_for_each parallel_for_body_wrapper::operator() (random-access iterators), any chunk [begin,end)'))

    # ---- parallel_invoke -------------------------------------------------------------------------------------------------------
    TI = ['Value=size_t', 'VT_size_t', 'TASKS', 'INVOKE']
    jobs.append(Job('invoke.invoker.root', C, 'h_inv_invoker_root', route='LF', defines=TI + ['INV_SEP'], source=PI, target='function_invoker<F, invoke_root_task>: constructor, execute, cancel + invoke_root_task constructor/release'))
    jobs.append(Job('invoke.subroot.ctor', C, 'h_inv_subroot_ctor', route='LF', defines=TI + ['INV_SUB'], source=PI, target='invoke_subroot_task constructor (+ function_invoker<F, invoke_subroot_task> constructor)'))
    jobs.append(Job('invoke.subroot.execute', C, 'h_inv_subroot_execute', route='RG', defines=TI + ['INV_SUB'], source=PI, target='invoke_subroot_task::execute / release / finalize (against concurrently finishing children)'))
    jobs.append(Job('invoke.subroot.child', C, 'h_inv_subroot_child', route='RG', defines=TI + ['INV_SUB'], source=PI, target='function_invoker<F, invoke_subroot_task>::execute / cancel + invoke_subroot_task::release / finalize (a child finishing against its siblings)'))
    jobs.append(Job('invoke.subroot.cancel', C, 'h_inv_subroot_cancel', route='RG', defines=TI + ['INV_SUB'], source=PI, target='invoke_subroot_task::cancel / finalize'))
    for n in (1, 2, 3):
        jobs.append(Job('invoke.sep.%d' % n, C, 'h_inv_sep', route='LF', defines=TI + ['INV_SEP', 'SEP_N=%d' % n], source=PI, target='invoke_recursive_separation(%d function%s)' % (n, '' if n == 1 else 's')))
    jobs.append(Job('invoke.sep.variadic', C, 'h_inv_sep_n', route='LF', defines=TI + ['INV_SEP', 'SEP_N=4'], source=PI, inputs=['IN_base', 'IN_n'],
                    target='invoke_recursive_separation(f1, f2, f3, fs...): 3-way split + recursion on the rest (induction step over the pack length) + invoke_subroot_task constructor'))
    jobs.append(Job('invoke.impl', C, 'h_inv_impl', route='LF', defines=TI + ['INV_SEP', 'SEP_N=4'], source=PI, inputs=['IN_base', 'IN_n'], target='parallel_invoke_impl (with a user context / with its own context)'))


    # ---- work_balance as a whole (modular: split_to_fill by its contract) -----------------------------------------------------------
    jobs.append(Job('rv.abstraction', C, 'h_rv_abstraction', route='LW', unwind=10, defines=['Value=size_t', 'VT_size_t'], source=PT, inputs=['IN_b', 'IN_e', 'IN_g'],
                    target='range_vector back/front/size/empty on every pool that satisfies the representation invariant: the abstract view (size, end of back, begin of front) used by wb.*'))
    for tag, dd, what in (('affinity', [], 'dynamic_grainsize_mode::check_for_demand (affinity partitioner)'), ('auto', ['AUTO_PART'], 'auto_partition_type::check_for_demand')):
        jobs.append(Job('wb.' + tag, C, 'h_work_balance_c', route='LC', loops=True, nloops=1, unwind=10, timeout=600, defines=['Value=size_t', 'VT_size_t', 'WBC'] + dd, source=PT, inputs=['IN_b', 'IN_e', 'IN_g'],
                        target='dynamic_grainsize_mode::work_balance as a whole + %s; the range pool by its contracts (jobs rv.*)' % what))

    # ---- partition objects: constructor chains, affinity map, check_being_stolen ------------------------------------------------------
    TA = ['Value=size_t', 'VT_size_t', 'TASKS', 'AFF']
    jobs.append(Job('aff.ctor', C, 'h_aff_ctor', route='LF', defines=TA + ['KIND_AFFINITY'], source=PT, inputs=['IN_P', 'IN_tid'],
                    target='affinity_partition_type(affinity_partitioner_base&) + base constructors + affinity_partitioner_base::resize + get_initial_partition_head / get_initial_auto_partitioner_divisor'))
    jobs.append(Job('aff.split', C, 'h_aff_split', route='LF', defines=TA + ['KIND_AFFINITY'], source=PT, inputs=['IN_div', 'IN_head', 'IN_max'], timeout=600,
                    target='affinity_partition_type splitting constructors (split / proportional_split) through dynamic_grainsize_mode, linear_affinity_mode, proportional_mode, adaptive_mode'))
    jobs.append(Job('aff.note_spawn', C, 'h_aff_note', route='LF', defines=TA + ['KIND_AFFINITY'], source=PT, inputs=['IN_div', 'IN_head', 'IN_max'], target='affinity_partition_type::note_affinity / spawn_task (map index arithmetic)'))
    jobs.append(Job('aff.stolen.affinity', C, 'h_check_being_stolen', route='LF', defines=TA + ['KIND_AFFINITY'], source=PT, inputs=['IN_div'], target='dynamic_grainsize_mode::check_being_stolen (factor 16)'))
    jobs.append(Job('aff.stolen.auto', C, 'h_check_being_stolen', route='LF', defines=TA + ['KIND_AUTO'], source=PT, inputs=['IN_div'], target='dynamic_grainsize_mode::check_being_stolen (factor 1)'))
    jobs.append(Job('aff.auto_ctor', C, 'h_auto_ctor', route='LF', defines=TA + ['KIND_AUTO'], source=PT, inputs=['IN_P', 'IN_div'], target='auto_partition_type constructors (root / split) + base constructors'))
    jobs.append(Job('aff.static_ctor', C, 'h_static_ctor', route='LF', defines=TA + ['KIND_STATIC'], source=PT, inputs=['IN_P', 'IN_div', 'IN_head', 'IN_max'], timeout=600,
                    target='static_partition_type constructors (root / proportional split) + linear_affinity_mode::spawn_task'))

    # ---- blocked_nd_range ---------------------------------------------------------------------------------------------------------
    TN = ['Value=size_t', 'VT_size_t', 'TASKS', 'NDR']
    for n in (1, 2, 3, 4):
        jobs.append(Job('nd.split.n%d' % n, C, 'h_nd_split', route='LW', unwind=6, defines=TN + ['ND_N=%d' % n, 'ND_ANY_CHOICE'], source=ND,
                        target='blocked_nd_range<size_t,%d> splitting constructors + do_split, for every choice of a divisible dimension (split / proportional_split)' % n))
    jobs.append(Job('nd.any_of.n3', C, 'h_nd_any_of', route='LW', unwind=6, defines=TN + ['ND_N=3'], source=ND, target='blocked_nd_range<size_t,3>::is_divisible / empty'))
    jobs.append(Job('nd.dim.small', C, 'h_nd_dim', route='BD', bounded=True, bound_text='extents and grainsizes <= 255 (IEEE double products exact)', unwind=6, defines=TN + ['ND_N=2', 'ND_SMALL=255'], source=ND, timeout=200, solver='cadical',
                    target='blocked_nd_range<size_t,2>::do_split dimension choice [IEEE double], domain: extents and grains <= 255'))
    jobs.append(Job('nd.dim.full', C, 'h_nd_dim', route='LF', unwind=6, defines=TN + ['ND_N=2'], source=ND, timeout=900, inputs=['IN_db', 'IN_de', 'IN_dg'],
                    target='blocked_nd_range<size_t,2>::do_split dimension choice (std::max_element over size/grainsize ratios) [IEEE double], domain: full'))

    # ---- start_for ------------------------------------------------------------------------------------------------------------------
    TS = ['Value=size_t', 'VT_size_t', 'TASKS', 'SFOR']
    for nm, h, what in (('execute', 'h_sfor_execute', 'start_for::execute + finalize'), ('cancel', 'h_sfor_cancel', 'start_for::cancel + finalize'),
                        ('offer_work.split', 'h_sfor_offer_split', 'start_for::offer_work_impl<start_for&, split_type&> + splitting constructor + tree_node / node constructors + spawn_self'),
                        ('offer_work.demand', 'h_sfor_offer_demand', 'start_for::offer_work_impl<start_for&, const Range&, depth_t> + demand constructor + tree_node / node constructors + spawn_self'),
                        ('run', 'h_sfor_run4', 'start_for::run(range, body, partitioner, context) + root constructor + wait_node constructor'),
                        ('run.own_context', 'h_sfor_run3', 'start_for::run(range, body, partitioner)'), ('run_body', 'h_sfor_run_body', 'start_for::run_body')):
        jobs.append(Job('sfor.' + nm, C, h, route='LF', defines=TS, source=PF, target=what))
    return {
        'jobs': jobs, 'sliced': sliced, 'fired': fired,
        'trusted': ['start_for::offer_work / run_body as seen by the partitioners (contract stubs in exec.* / wb.*: offer_work constructs the right-hand task with the REAL splitting constructors; start_for itself: sfor.*); that a spawned task runs once is C01',
                    'get_initial_auto_partitioner_divisor() >= 4 (r1 export max_concurrency() >= 1)', 'is_stolen_task / is_peer_stolen / cancellation: nondeterministic stubs (every steal pattern)',
                    'CBMC IEEE-754 float/double semantics', 'cxx2c rewriter up to translation validation',
                    'r1::spawn / r1::execute_and_wait: a spawned or bypassed task is executed (or cancelled) exactly once (C01); execute_and_wait returns when the given wait_context has dropped to zero',
                    'wait_context / wait_context_vertex reserve(n) / release(n): atomic add / subtract on one counter (detail/_task.h); r1::get_thread_reference_vertex(v): a per-thread vertex that holds one reference on v while its own count is positive',
                    'small_object_allocator::new_object = allocate + the constructor (the constructor called is the sliced one); delete_object = the destructor (sliced where it exists) + free',
                    'aligned_space<T,N>::begin()/end() (end() == begin() + N is checked textually by the extractor)',
                    'std::max_element / std::any_of (libstdc++ semantics, modelled in the harness); std::fill_n (stated for one arbitrary index); std::distance(first,last) == last - first; std::move / std::forward are value-preserving',
                    'overload resolution and template metaprogramming: invoke_helper (rotates the last argument of parallel_invoke to the front), the choice between the 1/2/3/variadic overloads of invoke_recursive_separation by pack length, iterator_tag_dispatch, feeder_is_required, the first_priority/second_priority call overloads of feeder_item_task (both overloads are proved)',
                    'this_task_arena::max_concurrency() >= 1 and constant while one partition object is built; current_thread_index() is not_initialized or < max_concurrency()',
                    'range_vector contracts used by wb.*: proved on the real code by rv.ctor / rv.split_to_fill.* / rv.pop_back / rv.pop_front / rv.abstraction; the step from "holds for every pool satisfying rv_inv" to the abstract stubs is by inspection of the quoted Hoare triples',
                    'fold_tree (join-tree unwinding and the single release of the wait): proved under C06 (job reduce.fold_tree)'],
        'drops': ['template headers (Value/Index bound per job; Range:=blocked_range<size_t>; Partition bound per job)', 'references -> pointers', 'constructor init lists -> assignments / INIT_<class>_<member>() macros in base-then-declared member order',
                  'placement new / explicit destructor on trivially copyable ranges -> assignment / DESTROY marker', 'tag parameters (split) dropped', '__TBB_ASSERT -> proof obligation',
                  'ITT notifications (call_itt_task_notify) -> RG_NOP', 'local type aliases (using x = ...) -> RG_NOP', 'memory orders of atomics (SC assumed)', 'lambdas of blocked_nd_range -> named static functions passed by name',
                  'static_assert on tag types -> RG_NOP; static_assert on pack length -> precondition check', 'function_invoker<F, WaitObject>: instantiated twice (WaitObject = invoke_root_task / invoke_subroot_task)',
                  'variadic packs: a pack fs... is the interval [base, base+n) of function numbers; the recursive call on the rest of the pack is a contract stub (induction on the pack length)'],
        'not_decided': ['that spawned tasks run exactly once and that execute_and_wait really waits (C01/C02)',
                        'composition: each task-level function is proved against its own pre/post state (the post state of the producer is the pre state of the consumer, stated in the harness comments); the induction over the task tree / block sequence / pack length is an argument on paper, not a CBMC run',
                        'parallel_for_each: public overloads (range / iterator, with / without context) and feeder::add (one-line forwards, virtual dispatch); item types that are not copy-constructible (internal_add_copy_impl(false_type) only asserts); exceptions thrown by bodies or copy constructors (C03)',
                        'parallel_invoke: invoke_helper / parallel_invoke (argument rotation by template metaprogramming)',
                        'blocked_nd_range: dimension choice proved only for extents and grainsizes <= 255 (bounded job nd.dim.small; IEEE double products do not finish on SAT beyond that) - above 2^52 it is wrong (F4); constructors from N ranges / from a C array',
                        'blocked_range2d/3d: dimension choice on the exact domain (same SAT limit); proportional split of 2-D/3-D/N-D ranges only through the 1-D contract (br.propsplit)',
                        'work_balance: termination (no decreases clause: a demand signal may repeat), the 8-bit depth budget (my_max_depth is assumed not to wrap, see assumptions); depth bookkeeping of range_vector (my_depth[]) is not part of the pool contract',
                        'partition_type_base::execute for the proportional partitioners is proved with the 1-D proportional range split replaced by its contract (br.propsplit proves that contract for l <= 2^32 proportions only)',
                        'affinity_partitioner_base destructor (resize(0)); the affinity hint values passed to spawn (placement only)',
                        'parallel_for(first,last,step) for Index wider than 8 bits (F3 shown natively for int)', 'quality of the partition (balance, number of chunks): not part of the property'],
        'assumptions': ['end - begin of a blocked_range is representable in Value (the Range requirements; unspecified otherwise)',
                        'proportions handed to ranges come from get_split(): 1 <= right <= left <= right+1',
                        'on entry to partition_type_base::execute the divisor of a proportional partition object is a multiple of factor or at most factor (root: aff.ctor; children of proportional splits: aff.split / exec.base_prop.*; children of demand splits get half of a divisor that exec.base_prop.* shows to be <= factor, and check_being_stolen resets a divisor < factor to 1 before execute() looks at it) - each link is proved, the chain is on paper',
                        'my_max_depth <= 253 on entry to check_being_stolen (the depth budget grows by at most 2 per task start and 1 per demand signal; 255 is out of reach for 64-bit iteration spaces)',
                        'parallel_for_each: the iterators obey their category (last is reachable from first by ++; an input iterator is dereferenced while it is in [first,last)); positions are modelled as size_t',
                        'wait-reference accounting is stated per entity: an entity (root task, block task, feeder task, invoker, sub-root) holds exactly one reference on the root wait context from before it becomes runnable until after its work is done'],
    }


import threading
_replay_lock = threading.Lock()
NO_RECIPE = ('aff.', 'rv.abs')       # sfor.* -> the whole-algorithm sweep (default recipe)


def replay(ctx, jobname, failure):
    if jobname.startswith(NO_RECIPE):
        return {'reproduced': False, 'detail': 'no native replay recipe for this job (scheduler-internal task protocol)'}
    exe = os.path.join(ctx.work, 'c05_replay')
    with _replay_lock:
        if not os.path.exists(exe):          # built once per run from the CURRENT headers and src/tbb
            native.build([os.path.join(HERE, 'c05_replay.cpp')], exe + '.tmp', flags=['-fno-access-control'], link_tbb=True)
            os.replace(exe + '.tmp', exe)
    ins = failure.get('inputs', {}) or {}
    args = [exe, jobname] + ['%s=%s' % (k, v) for k, v in sorted(ins.items()) if isinstance(v, int)]
    rc, out = native.run(args, timeout=120)
    rep = {'cmd': ' '.join(args), 'rc': rc, 'output': out[-1500:], 'reproduced': False, 'detail': 'native search found no failing input'}
    m = re.search(r'REPRODUCED (.*)', out)
    if m:
        rep['reproduced'] = True
        rep['detail'] = m.group(1)
        w = re.search(r'class=(\S+)', m.group(1))
        rep['witness_class'] = w.group(1) if w else None
    return rep
