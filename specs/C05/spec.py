"""C05 -- parallel loops apply the body exactly once to every element, in legal chunks."""
import os
import sys
import re
HERE = os.path.dirname(os.path.abspath(__file__))
sys.path.insert(0, os.path.join(HERE, '..'))
sys.path.insert(0, os.path.join(HERE, '..', '..', 'tools'))
import common
import native
from cxx2c import Rewriter, CClass, slice_block, tag_loops, ExtractionBreak, load
from prove import Job

BR = 'include/oneapi/tbb/blocked_range.h'
BR2 = 'include/oneapi/tbb/blocked_range2d.h'
BR3 = 'include/oneapi/tbb/blocked_range3d.h'
RC = 'include/oneapi/tbb/detail/_range_common.h'
PT = 'include/oneapi/tbb/partitioner.h'
PF = 'include/oneapi/tbb/parallel_for.h'
FC = ['size_type', 'size_t', 'float', 'double', 'Value', 'Index', 'depth_t']


def extract(ctx):
    sliced, fired = [], {}
    # ---- proportional_split -------------------------------------------------
    ps = CClass(RC, r'class proportional_split : no_assign \{', 'proportional_split')
    ps.harvest_members(['my_left', 'my_right'])
    out = [ps.struct_decl()]
    out.append(ps.convert(ps.method(r'proportional_split\(size_t _left = 1, size_t _right = 1\)', ctor=True), 'proportional_split_ctor'))
    out.append(ps.convert(ps.method(r'size_t left\(\) const'), 'proportional_split_left'))
    out.append(ps.convert(ps.method(r'size_t right\(\) const'), 'proportional_split_right'))
    common.write(ctx, 'psplit.inc', '\n'.join(out))
    sliced += ps.sliced
    fired['proportional_split'] = ps.rw.fired

    # ---- blocked_range<Value> ------------------------------------------------
    br = CClass(BR, r'class blocked_range \{', 'blocked_range', tbind={'size_type': 'size_t', 'const_iterator': 'Value'})
    br.harvest_members(['my_end', 'my_begin', 'my_grainsize'])
    M = ['begin', 'end', 'size', 'grainsize', 'empty', 'is_divisible']
    out = [br.struct_decl()]
    for nm, sig in (('begin', r'const_iterator begin\(\) const'), ('end', r'const_iterator end\(\) const'),
                    ('size', r'size_type size\(\) const'), ('grainsize', r'size_type grainsize\(\) const'),
                    ('empty', r'bool empty\(\) const'), ('is_divisible', r'bool is_divisible\(\) const')):
        out.append('static ' + br.convert(br.method(sig), 'blocked_range_' + nm, methods=M, fcast=FC))
    out.append(br.convert(br.method(r'static Value do_split\( blocked_range& r, split \)'), 'blocked_range_do_split_s', methods=M, fcast=FC))
    out.append(br.convert(br.method(r'static Value do_split\( blocked_range& r, proportional_split& proportion \)'), 'blocked_range_do_split_p',
                          methods=M, other={'proportion': ps}, fcast=FC))
    out.append(br.convert(br.method(r'blocked_range\( Value begin_, Value end_, size_type grainsize_=1 \)', ctor=True), 'blocked_range_ctor', methods=M))
    out.append(br.convert(br.method(r'blocked_range\( blocked_range& r, split \)', ctor=True), 'blocked_range_ctor_s', methods=M,
                          pre=[(r'do_split\(r, split\(\)\)', 'blocked_range_do_split_s(r)', 1)]))
    out.append(br.convert(br.method(r'blocked_range\( blocked_range& r, proportional_split& proportion \)', ctor=True), 'blocked_range_ctor_p', methods=M, other={'proportion': ps},
                          pre=[(r'do_split\(r, proportion\)', 'blocked_range_do_split_p(r, proportion)', 1)]))
    common.write(ctx, 'brange.inc', '\n'.join(out))
    sliced += br.sliced
    fired['blocked_range'] = br.rw.fired

    # ---- blocked_range2d / 3d: the dimension choice ---------------------------
    out = []
    for rel, cls, cname, dims in ((BR2, r'class blocked_range2d \{', 'blocked_range2d', ['my_rows', 'my_cols']),
                                  (BR3, r'class blocked_range3d \{', 'blocked_range3d', ['my_pages', 'my_rows', 'my_cols'])):
        c = CClass(rel, cls, cname, tbind={'row_range_type': 'struct blocked_range', 'col_range_type': 'struct blocked_range', 'page_range_type': 'struct blocked_range'})
        c.harvest_members(dims)
        out.append(c.struct_decl())
        s = c.method(r'void do_split\( %s& r, Split& split_obj ?\)' % cname)
        t = c.convert(s, cname + '_do_split', fcast=FC, pre=[
            (r'(\w+)_range_type::do_split\(r\.(\w+), split_obj\)', r'DIM_DO_SPLIT(&r.\2, split_obj)', len(dims)),
            (r'\b(my_\w+)\.(size|grainsize)\(\)', r'blocked_range_\2(&\1)', 4),
        ])
        t = c.rw.sub(t, r'Split\* split_obj', 'SPLIT_T split_obj', 1, 1, name='bind-template(Split)')
        out.append(t)
        t = c.convert(c.method(r'bool is_divisible\(\) const'), cname + '_is_divisible',
                      pre=[(r'\b(my_\w+)\.is_divisible\(\)', r'blocked_range_is_divisible(&\1)', len(dims))])
        out.append(t)
        sliced += c.sliced
        fired[cname] = c.rw.fired
    common.write(ctx, 'brange_nd.inc', '\n'.join(out))

    # ---- partitioner divisor arithmetic ------------------------------------------
    rw = Rewriter('partitioner')
    out = []
    am = CClass(PT, r'struct adaptive_mode : partition_type_base<Partition> \{', 'part', rw=rw)
    am.members = [('size_t', 'my_divisor', ''), ('depth_t', 'my_max_depth', ''), ('int', 'my_delay', ''), ('size_t', 'my_head', ''), ('size_t', 'my_max_affinity', '')]
    for n_, pat in (('my_divisor', r'std::size_t my_divisor;'), ('my_max_depth', r'depth_t my_max_depth;'),
                    ('my_head', r'std::size_t my_head;'), ('my_max_affinity', r'std::size_t my_max_affinity;')):
        if not re.search(pat, load(PT)):
            raise ExtractionBreak('partitioner.h: member %s not found' % n_)
    PRE = [(r'self\(\)\.', 'self->', 0), (r'my_partition::factor', 'PART_FACTOR', 0), (r'Mode::PART_FACTOR', 'PART_FACTOR', 0)]
    out.append(am.convert(am.method(r'std::size_t do_split\(adaptive_mode &src, split\)'), 'adaptive_do_split', pre=PRE, fcast=FC))
    pm = CClass(PT, r'struct proportional_mode : adaptive_mode<Partition> \{', 'part', rw=rw)
    pm.members = am.members
    out.append(pm.convert(pm.method(r'std::size_t do_split\(proportional_mode &src, const proportional_split& split_obj\)'), 'proportional_do_split',
                          pre=PRE, other={'split_obj': ps}, fcast=FC))
    out.append(pm.convert(pm.method(r'bool is_divisible\(\)'), 'proportional_is_divisible', pre=PRE))
    t = pm.convert(pm.method(r'proportional_split get_split\(\)'), 'proportional_get_split', pre=PRE + [
        (r'return proportional_split\(left, right\);', 'struct proportional_split ps_; proportional_split_ctor(&ps_, left, right); return ps_;', 1)], ret='struct proportional_split')
    out.append(t)
    ap = CClass(PT, r'class auto_partition_type: public dynamic_grainsize_mode<adaptive_mode<auto_partition_type> > \{', 'part', rw=rw)
    ap.members = am.members
    out.append(ap.convert(ap.method(r'bool is_divisible\(\)'), 'auto_is_divisible', pre=PRE))
    dg = CClass(PT, r'struct dynamic_grainsize_mode : Mode \{', 'part', rw=rw)
    dg.members = am.members
    out.append(dg.convert(dg.method(r'void align_depth\(depth_t base\)'), 'dyn_align_depth', pre=PRE))
    t = dg.convert(dg.method(r'bool check_for_demand\(Task& t\)'), 'dyn_check_for_demand', pre=PRE + [
        (r'tree_node::is_peer_stolen\(t\)', 'STUB_is_peer_stolen()', 1), (r'\bpass\b', 'DELAY_pass', 2), (r'\bbegin == ', 'DELAY_begin == ', 1)])
    t = rw.sub(t, r'Task\* t', 'int t_unused', 1, 1, name='bind-template(Task)')
    out.append(t)
    la = CClass(PT, r'struct linear_affinity_mode : proportional_mode<Partition> \{', 'part', rw=rw)
    la.members = am.members
    s = la.method(r'linear_affinity_mode\(linear_affinity_mode &src, const proportional_split& split_obj\)', ctor=True)
    t = s.text
    t = rw.sub(t, r'linear_affinity_mode\(linear_affinity_mode &src, const proportional_split& split_obj\) : proportional_mode<Partition>\(src, split_obj\)\s*,',
               'linear_affinity_mode(linear_affinity_mode &src, const proportional_split& split_obj) :', 1, 1, name='base-ctor call moved to harness (declared order: base first)')
    from cxx2c import Slice
    out.append(la.convert(Slice(s.rel, s.start, s.end, t, s.line), 'linear_affinity_ctor_p', pre=PRE, other={'split_obj': ps}))
    txt = am.struct_decl() + '\n'.join(out)
    txt = rw.sub(txt, r'\b(adaptive_mode|proportional_mode)\* src', 'struct part* src', 2, 2, name='bind-template(Mode hierarchy -> struct part)')
    common.write(ctx, 'partitioner.inc', txt)
    if not re.search(r'typedef unsigned char depth_t;', load(PT)):
        raise ExtractionBreak('partitioner.h: depth_t is no longer unsigned char')
    for c in (am, pm, ap, dg, la):
        sliced += c.sliced
    fired['partitioner'] = rw.fired

    # ---- range_vector<blocked_range<size_t>, 8> -------------------------------------
    rv = CClass(PT, r'class range_vector \{', 'range_vector', tbind={'T': 'struct blocked_range'})
    rv.harvest_members(['my_head', 'my_tail', 'my_size', 'my_depth'])
    out = ['struct range_vector { depth_t my_head; depth_t my_tail; depth_t my_size; depth_t my_depth[MaxCapacity]; struct blocked_range my_pool[MaxCapacity]; };\n']
    require_order = [m[1] for m in rv.members]
    if require_order != ['my_head', 'my_tail', 'my_size', 'my_depth']:
        raise ExtractionBreak('range_vector member order changed: %s' % require_order)
    RVM = ['empty', 'size', 'pop_back', 'pop_front', 'back', 'front', 'front_depth', 'back_depth', 'is_divisible', 'split_to_fill']
    POOL = [(r'my_pool\.begin\(\)', 'self->my_pool', 0)]
    for nm, sig in (('empty', r'bool empty\(\) const'), ('size', r'depth_t size\(\) const'), ('front_depth', r'depth_t front_depth\(\)'),
                    ('back_depth', r'depth_t back_depth\(\)')):
        out.append(rv.convert(rv.method(sig), 'range_vector_' + nm, methods=RVM, pre=POOL))
    for nm, sig in (('back', r'T& back\(\)'), ('front', r'T& front\(\)')):
        t = rv.convert(rv.method(sig), 'range_vector_' + nm, methods=RVM, pre=POOL + [(r'return self->my_pool\[', 'return &self->my_pool[', 1)])
        out.append(t)
    for nm, sig in (('pop_back', r'void pop_back\(\)'), ('pop_front', r'void pop_front\(\)')):
        out.append(rv.convert(rv.method(sig), 'range_vector_' + nm, methods=RVM, pre=POOL + [(r'self->my_pool\[(\w+)\]\.~T\(\);', r'DESTROY(&self->my_pool[\1]);', 1)]))
    t = rv.convert(rv.method(r'bool is_divisible\(depth_t max_depth\)'), 'range_vector_is_divisible', methods=['back_depth'],
                   pre=[(r'back\(\)\.is_divisible\(\)', 'blocked_range_is_divisible(range_vector_back(self))', 1)])
    out.append(t)
    t = rv.convert(rv.method(r'void split_to_fill\(depth_t max_depth\)'), 'range_vector_split_to_fill', methods=['is_divisible'], pre=POOL + [
        (r'new\(self->my_pool\+my_head\) T\(self->my_pool\[prev\]\);', 'self->my_pool[my_head] = self->my_pool[prev];', 1),
        (r'self->my_pool\[prev\]\.~T\(\);', 'DESTROY(&self->my_pool[prev]);', 1),
        (r'new\(self->my_pool\+prev\) T\(self->my_pool\[my_head\], detail::split\(\)\);', 'blocked_range_ctor_s(&self->my_pool[prev], &self->my_pool[my_head]);', 1)])
    t = tag_loops(t, 'split_to_fill', rv.rw, expect=1)
    out.append(t)
    t = rv.convert(rv.method(r'range_vector\(const T& elem\)', ctor=True), 'range_vector_ctor', pre=POOL + [
        (r'new\( static_cast<void \*>\(self->my_pool\) \) T\(elem\);', 'self->my_pool[0] = *elem;', 1)])
    out.append(t)
    common.write(ctx, 'range_vector.inc', '\n'.join(out))
    sliced += rv.sliced
    fired['range_vector'] = rv.rw.fired

    # ---- execute loops -------------------------------------------------------------
    rw = Rewriter('execute')
    sp = CClass(PT, r'class simple_partition_type: public partition_type_base<simple_partition_type> \{', 'part', rw=rw)
    s = sp.method(r'void execute\(StartType &start, Range &range, execution_data& ed\)')
    t = sp.convert(s, 'simple_execute', pre=[
        (r'split_type split_obj = split\(\);', 'RG_NOP();', 1),
        (r'range\.is_divisible\(\)', 'blocked_range_is_divisible(range)', 1),
        (r'start\.offer_work\( split_obj, ed \)', 'start_offer_work_split(start, range)', 1),
        (r'start\.run_body\( range \)', 'start_run_body(start, range)', 1)])
    t = rw.sub(t, r'StartType\* start, Range\* range, execution_data\* ed', 'struct start_for* start, struct blocked_range* range', 1, 1, name='bind-template(StartType, Range)')
    t = tag_loops(t, 'simple_execute', rw, expect=1)
    out = [t]
    pb = CClass(PT, r'struct partition_type_base \{', 'part', rw=rw)
    s = pb.method(r'void execute\(StartType &start, Range &range, execution_data& ed\)')
    t = pb.convert(s, 'base_execute', pre=[
        (r'range\.is_divisible\(\)', 'blocked_range_is_divisible(range)', 2),
        (r'self\(\)\.is_divisible\(\)', 'PART_IS_DIVISIBLE(self)', 2),
        (r'typename Partition::split_type split_obj = self\(\)\.template get_split<Range>\(\);', 'PART_SPLIT_T split_obj = PART_GET_SPLIT(self);', 1),
        (r'start\.offer_work\( split_obj, ed \)', 'PART_OFFER_WORK(start, range, self, &split_obj)', 1),
        (r'self\(\)\.work_balance\(start, range, ed\)', 'PART_WORK_BALANCE(self, start, range)', 1)])
    t = rw.sub(t, r'StartType\* start, Range\* range, execution_data\* ed', 'struct start_for* start, struct blocked_range* range', 1, 1, name='bind-template(StartType, Range)')
    t = tag_loops(t, 'base_execute', rw, expect=1)
    out.append(t)
    dg2 = CClass(PT, r'struct dynamic_grainsize_mode : Mode \{', 'part', rw=rw)
    s = dg2.method(r'void work_balance\(StartType &start, Range &range, execution_data& ed\)')
    t = dg2.convert(s, 'dyn_work_balance', pre=[
        (r'range\.is_divisible\(\)', 'blocked_range_is_divisible(range)', 1),
        (r'self\(\)\.max_depth\(\)', 'self->my_max_depth', 3),
        (r'start\.run_body\( range \)', 'start_run_body(start, range)', 1),
        (r'range_vector<Range, range_pool_size> range_pool\(range\);', 'struct range_vector range_pool; range_vector_ctor(&range_pool, range);', 1),
        (r'range_pool\.split_to_fill\(', 'range_vector_split_to_fill(&range_pool, ', 1),
        (r'self\(\)\.check_for_demand\( start \)', 'PART_CHECK_FOR_DEMAND(self)', 1),
        (r'range_pool\.size\(\)', 'range_vector_size(&range_pool)', 1),
        (r'start\.offer_work\( range_pool\.front\(\), range_pool\.front_depth\(\), ed \)', 'start_offer_work_range(start, range_vector_front(&range_pool), range_vector_front_depth(&range_pool))', 1),
        (r'range_pool\.pop_front\(\)', 'range_vector_pop_front(&range_pool)', 1),
        (r'range_pool\.is_divisible\(', 'range_vector_is_divisible(&range_pool, ', 1),
        (r'start\.run_body\( range_pool\.back\(\) \)', 'start_run_body(start, range_vector_back(&range_pool))', 1),
        (r'range_pool\.pop_back\(\)', 'range_vector_pop_back(&range_pool)', 1),
        (r'!range_pool\.empty\(\) && !ed\.context->is_group_execution_cancelled\(\)', '!range_vector_empty(&range_pool) && !STUB_is_cancelled()', 1)])
    t = rw.sub(t, r'StartType\* start, Range\* range, execution_data\* ed', 'struct start_for* start, struct blocked_range* range', 1, 1, name='bind-template(StartType, Range)')
    t = tag_loops(t, 'work_balance', rw, expect=1)
    out.append(t)
    common.write(ctx, 'execute.inc', '\n'.join(out))
    sliced += sp.sliced + pb.sliced + dg2.sliced
    fired['execute'] = rw.fired

    # ---- parallel_for_impl(first,last,step) index arithmetic --------------------------
    rw = Rewriter('parallel_for_impl')
    out = []
    for k, (nth, cfn) in enumerate(((0, 'parallel_for_impl'), (1, 'parallel_for_impl_ctx'))):
        s = slice_block(PF, r'void parallel_for_impl\(Index first, Index last, Index step, const Function& f, Partitioner& partitioner(?:, task_group_context &context)?\)', nth=nth)
        sliced.append('%s:%d %s' % (s.rel, s.line, cfn))
        t = rw.sub(s.text, r'void parallel_for_impl\(Index first, Index last, Index step, const Function& f, Partitioner& partitioner(?:, task_group_context &context)?\)',
                   'void %s(Index first, Index last, Index step)' % cfn, 1, 1, name='sig (Function/Partitioner/context: forwarded only, dropped)')
        t = rw.sub(t, r'throw_exception\(exception_id::nonpositive_step\);', 'VERIF_THROW(nonpositive_step);', 1, 1, name='throw')
        t = rw.sub(t, r'blocked_range<Index> range\(static_cast<Index>\(0\), end\);', 'struct blocked_range range; blocked_range_ctor(&range, ((Index)(0)), end, 1);', 1, 1, name='ctor + default argument')
        t = rw.sub(t, r'parallel_for_body_wrapper<Function, Index> body\(f, first, step\);', 'struct pf_body body; pf_body_ctor(&body, &first, &step);', 1, 1, name='ctor')
        t = rw.sub(t, r'parallel_for\(range, body, partitioner(?:, context)?\);', 'STUB_parallel_for(&range, &body);', 1, 1, name='callee stub')
        t = rw.fcasts(t, FC)
        out.append(t)
    bw = CClass(PF, r'class parallel_for_body_wrapper : detail::no_assign \{', 'pf_body', tbind={'Function': 'int'})
    bw.harvest_members(['my_begin', 'my_step'])
    out2 = [bw.struct_decl()]
    s = bw.method(r'parallel_for_body_wrapper\( const Function& _func, Index& _begin, Index& _step \)', ctor=True)
    t = bw.convert(s, 'pf_body_ctor', skip_init=['my_func'], pre=[(r'= _begin;', '= *_begin;', 1), (r'= _step;', '= *_step;', 1)])
    t = bw.rw.sub(t, r'int\* _func, ', '', 1, 1, name='drop Function param')
    out2.append(t)
    s = bw.method(r'void operator\(\)\( const blocked_range<Index>& r \) const')
    t = s.text
    t = bw.rw.sub(t, r'void operator\(\)\( const blocked_range<Index>& r \) const', 'void pf_body_call(struct pf_body* self, struct blocked_range* r)', 1, 1, name='sig')
    t = bw.rw.sub(t, r'r\.(begin|end)\(\)', r'blocked_range_\1(r)', 2, 2, name='method')
    t = bw.rw.sub(t, r'\b(my_step|my_begin)\b', r'self->\1', 2, 2, name='field')
    t = bw.rw.sub(t, r'tbb::detail::invoke\(my_func, k\);', 'STUB_invoke(k);', 1, 1, name='callee stub')
    t = common.cxx2c.cpp_resolve(t, {'__INTEL_COMPILER': 0, '__TBB_ASSERT_ON_VECTORIZATION_FAILURE': 0}, 'pf_body')
    t = tag_loops(t, 'pf_body', bw.rw, expect=1)
    out2.append(t)
    common.write(ctx, 'pfor.inc', '\n'.join(out2 + out))
    sliced += bw.sliced
    fired['parallel_for_impl'] = dict(rw.fired, **bw.rw.fired)
    return sliced, fired


def build(ctx):
    sliced, fired = extract(ctx)
    C = os.path.join(HERE, 'c05.c')
    jobs = []
    for vt, tag in (('size_t', 'size_t'), ('int', 'int'), ('unsigned char', 'uchar')):
        d = ['Value=' + vt.replace(' ', '_SP_'), 'VT_' + tag]
        jobs.append(Job('br.split.' + tag, C, 'h_br_split', route='LF', defines=d, target='blocked_range<%s>: splitting constructor + do_split(split)' % vt, source=BR))
    jobs.append(Job('br.propsplit', C, 'h_br_propsplit', route='LF', defines=['Value=size_t', 'VT_size_t'], timeout=600,
                    target='blocked_range<size_t>: proportional splitting constructor + do_split(proportional_split&) [IEEE float]', source=BR))
    jobs.append(Job('part.adaptive_split', C, 'h_adaptive_split', route='LF', defines=['Value=size_t', 'VT_size_t'], target='adaptive_mode::do_split', source=PT))
    for f in (1, 16):
        jobs.append(Job('part.proportional.f%d' % f, C, 'h_proportional', route='LF', defines=['Value=size_t', 'VT_size_t', 'PART_FACTOR=%du' % f],
                        target='proportional_mode::do_split/get_split/is_divisible + linear_affinity_mode split ctor (factor %d)' % f, source=PT))
    jobs.append(Job('part.auto_is_divisible', C, 'h_auto_is_divisible', route='LF', defines=['Value=size_t', 'VT_size_t'], target='auto_partition_type::is_divisible', source=PT))
    jobs.append(Job('part.check_for_demand', C, 'h_check_for_demand', route='LF', defines=['Value=size_t', 'VT_size_t'], target='dynamic_grainsize_mode::check_for_demand/align_depth', source=PT))
    jobs.append(Job('rv.ctor', C, 'h_rv_ctor', route='LF', defines=['Value=size_t', 'VT_size_t'], unwind=10, target='range_vector constructor', source=PT))
    for op, opn in ((1, 'pop_back'), (2, 'pop_front')):
        jobs.append(Job('rv.' + opn, C, 'h_rv_ops', route='LW', unwind=10, defines=['Value=size_t', 'VT_size_t', 'RV_OP=%d' % op], timeout=600,
                        target='range_vector<blocked_range<size_t>,8>::%s (+back/front)' % opn, source=PT))
    for tail in range(8):       # case split over the 8x8 (tail, size) shapes of the circular pool: each case is a complete proof
        for size in range(1, 9):
            jobs.append(Job('rv.split_to_fill.t%d.s%d' % (tail, size), C, 'h_rv_ops', route='LW', unwind=10, timeout=600, twin=(tail == 0),
                            defines=['Value=size_t', 'VT_size_t', 'RV_OP=0', 'RV_TAIL=%d' % tail, 'RV_SIZE=%d' % size],
                            target='range_vector<blocked_range<size_t>,8>::split_to_fill (+is_divisible, back, splitting ctor), pool shape tail=%d size=%d' % (tail, size), source=PT))
    jobs.append(Job('exec.simple', C, 'h_simple_execute', route='LC', loops=True, nloops=1, defines=['Value=size_t', 'VT_size_t'], target='simple_partition_type::execute', source=PT))
    jobs.append(Job('exec.base_auto', C, 'h_base_execute', route='LC', loops=True, nloops=1, defines=['Value=size_t', 'VT_size_t', 'AUTO_PART'], target='partition_type_base<auto_partition_type>::execute', source=PT))
    for it, tag in (('signed char', 'schar'), ('unsigned char', 'uchar')):
        jobs.append(Job('pfor.index.' + tag, C, 'h_pfor', route='LF', defines=['Value=' + it.replace(' ', '_SP_'), 'Index=' + it.replace(' ', '_SP_'), 'IT_' + tag, 'PFOR'], timeout=600, unwind=3,
                        checks=['--bounds-check', '--pointer-check', '--div-by-zero-check'],
                        target='parallel_for_impl<%s> (both overloads) + parallel_for_body_wrapper index arithmetic' % it, source=PF))
    for dom, dd in (('full', []),):   # a restricted-domain twin (extents <= 4096) still times out (IEEE double multiply on SAT): dropped, see DESIGN
        bd = dom == 'small'
        jobs.append(Job('br2d.dim.' + dom, C, 'h_br2d', route='BD' if bd else 'LF', bounded=bd, bound_text='extents and grainsizes <= 4096 (IEEE double products exact)' if bd else None,
                        defines=['Value=size_t', 'VT_size_t', 'ND'] + dd, timeout=900, target='blocked_range2d::do_split dimension choice [IEEE double], domain: ' + dom, source=BR2))
        jobs.append(Job('br3d.dim.' + dom, C, 'h_br3d', route='BD' if bd else 'LF', bounded=bd, bound_text='extents and grainsizes <= 4096 (IEEE double products exact)' if bd else None,
                        defines=['Value=size_t', 'VT_size_t', 'ND'] + dd, timeout=900, target='blocked_range3d::do_split dimension choice [IEEE double], domain: ' + dom, source=BR3))
    return {
        'jobs': jobs, 'sliced': sliced, 'fired': fired,
        'trusted': ['start_for::offer_work / run_body / spawn (contract stubs: offer_work constructs the right-hand task with the REAL splitting constructors; that a spawned task runs once is C01)',
                    'get_initial_auto_partitioner_divisor() >= 4 (r1 export max_concurrency() >= 1)', 'is_stolen_task / is_peer_stolen / cancellation: nondeterministic stubs (every steal pattern)',
                    'CBMC IEEE-754 float/double semantics', 'cxx2c rewriter up to translation validation'],
        'drops': ['template headers (Value/Index bound per job; Range:=blocked_range<size_t>; Partition bound per job)', 'references -> pointers', 'constructor init lists -> assignments in declared member order',
                  'placement new / explicit destructor on trivially copyable ranges -> assignment / DESTROY marker', 'tag parameters (split) dropped', '__TBB_ASSERT -> proof obligation'],
        'not_decided': ['parallel_for_each / feeder (iterator-generic, lambdas)', 'parallel_invoke (variadic)', 'start_for::offer_work allocation code', 'blocked_nd_range (std::array + algorithms)',
                        'that spawned tasks run exactly once (C01)'],
        'assumptions': ['end - begin of a blocked_range is representable in Value (the Range requirements; unspecified otherwise)',
                        'proportions handed to ranges come from get_split(): 1 <= right <= left <= right+1'],
    }


def replay(ctx, jobname, failure):
    exe = native.build([os.path.join(HERE, 'c05_replay.cpp')], os.path.join(ctx.work, 'c05_replay'), flags=['-fno-access-control'], link_tbb=True)
    ins = failure.get('inputs', {}) or {}
    args = [exe, jobname] + ['%s=%s' % (k, v) for k, v in sorted(ins.items()) if isinstance(v, int)]
    rc, out = native.run(args, timeout=120)
    rep = {'cmd': ' '.join(args), 'rc': rc, 'output': out[-1500:], 'reproduced': False, 'detail': 'native search found no failing input'}
    m = re.search(r'REPRODUCED (.*)', out)
    if m:
        rep['reproduced'] = True
        rep['detail'] = m.group(1)
        w = re.search(r'class=(\S+)', m.group(1))
        rep['witness_class'] = w.group(1) if w else None
    return rep
