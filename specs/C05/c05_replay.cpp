// Replay of failed C05 obligations on the REAL headers.
#include <oneapi/tbb/parallel_for.h>
#include <oneapi/tbb/blocked_range.h>
#include <oneapi/tbb/blocked_range2d.h>
#include <oneapi/tbb/blocked_range3d.h>
#include <oneapi/tbb/blocked_nd_range.h>
#include <oneapi/tbb/parallel_for_each.h>
#include <oneapi/tbb/parallel_invoke.h>
#include <forward_list>
#include <list>
#include <iterator>
#include <functional>
#include <oneapi/tbb/global_control.h>
#include <cstdio>
#include <cstdlib>
#include <cstring>
#include <map>
#include <string>
#include <vector>
#include <atomic>
#include <csignal>
#include <unistd.h>
static std::map<std::string, long long> in;
static bool has(const char* k) { return in.count(k) != 0; }
static long long get(const char* k, long long d = 0) { return has(k) ? in[k] : d; }

static char g_what[300];
static void on_hang(int) { char buf[500]; int n = std::snprintf(buf, sizeof buf, "REPRODUCED class=loop-hang %s did not return within 20 s\n", g_what); write(1, buf, n); _exit(0); }
static char g_case[300];
static void on_alarm(int) { char buf[400]; int n = std::snprintf(buf, sizeof buf, "REPRODUCED class=pfor-span-exceeds-index-max %s did not return within 20 s (the negative trip count makes an 'empty' range that is_divisible() forever)\n", g_case); write(1, buf, n); _exit(0); }
template <class Index> static bool pfor_case(const char* tn, long long first, long long last, long long step) {
    if (step <= 0 || first >= last) return false;
    std::snprintf(g_case, sizeof g_case, "parallel_for<%s>(%lld, %lld, %lld, f)", tn, first, last, step); signal(SIGALRM, on_alarm); alarm(20);
    __int128 span = (__int128)last - first, N = (span + step - 1) / step;
    if (N > (__int128)std::numeric_limits<Index>::max() || N > 5000000) return false;
    std::vector<std::atomic<int>> hit((size_t)N);
    std::atomic<long> calls{0}, bad{0};
    tbb::parallel_for((Index)first, (Index)last, (Index)step, [&](Index v) {
        ++calls; __int128 off = (__int128)v - first;
        if (off < 0 || off % step != 0 || off / step >= N) ++bad; else ++hit[(size_t)(off / step)];
    });
    alarm(0);
    long missing = 0, dup = 0;
    for (auto& h : hit) { if (h == 0) ++missing; if (h > 1) ++dup; }
    if (missing || dup || bad) {
        std::printf("REPRODUCED class=%s parallel_for<%s>(%lld, %lld, %lld, f): expected %lld calls (each index once), observed %ld calls, %ld indices never visited, %ld visited twice, %ld outside the space\n",
                    ((__int128)span > (__int128)std::numeric_limits<Index>::max()) ? "pfor-span-exceeds-index-max" : "pfor-count", tn, first, last, step, (long long)N, calls.load(), missing, dup, bad.load());
        return true;
    }
    return false;
}
static int replay_pfor(const std::string& job) {
    long long f = get("IN_first"), l = get("IN_last"), s = get("IN_step");
    if (has("IN_first")) {
        if (job.find("schar") != std::string::npos) { if (pfor_case<signed char>("signed char", (signed char)f, (signed char)l, (signed char)s)) return 0; }
        else if (pfor_case<unsigned char>("unsigned char", (unsigned char)f, (unsigned char)l, (unsigned char)s)) return 0;
    }
    if (pfor_case<int>("int", -2000000000, 2000000000, 1000000)) return 0;
    if (pfor_case<int>("int", 0, 1000, 7)) return 0;
    if (pfor_case<unsigned>("unsigned", 0, 4294967295u, 2147483647u)) return 0;
    if (pfor_case<unsigned short>("unsigned short", 0, 65534, 16383)) return 0;
    if (pfor_case<long>("long", -4000000000000000000L, 4000000000000000000L, 4000000000000000L)) return 0;
    if (pfor_case<size_t>("size_t", 5, 100000, 3)) return 0;
    std::printf("NOT-REPRODUCED\n"); return 0;
}

static int replay_2d(bool three) {
    using R = tbb::blocked_range<size_t>;
    struct D { size_t b, e, g; };
    auto cls = [](D p, D r, D c) { size_t lim = size_t(1) << 52; bool big = (p.e - p.b) > lim || (r.e - r.b) > lim || (c.e - c.b) > lim || p.g > lim || r.g > lim || c.g > lim;
        return big ? "nd-split-nondivisible-dim-above-2^52" : "nd-split-nondivisible-dim"; };
    auto chk = [&](D p, D r, D c) {
        auto div = [](D d) { return d.g < d.e - d.b; };
        if (three) {
            tbb::blocked_range3d<size_t> x(p.b, p.e, p.g, r.b, r.e, r.g, c.b, c.e, c.g);
            if (!x.is_divisible()) return false;
            tbb::blocked_range3d<size_t> y(x, tbb::split());
            bool bad = (!div(p) && (x.pages().end() != p.e || y.pages().begin() != p.b)) || (!div(r) && (x.rows().end() != r.e || y.rows().begin() != r.b)) || (!div(c) && (x.cols().end() != c.e || y.cols().begin() != c.b));
            if (bad) { std::printf("REPRODUCED class=%s blocked_range3d<size_t>(%zu,%zu,%zu, %zu,%zu,%zu, %zu,%zu,%zu) split: a dimension with size <= grainsize was split\n", cls(p, r, c), p.b, p.e, p.g, r.b, r.e, r.g, c.b, c.e, c.g); return true; }
        } else {
            tbb::blocked_range2d<size_t> x(r.b, r.e, r.g, c.b, c.e, c.g);
            if (!x.is_divisible()) return false;
            tbb::blocked_range2d<size_t> y(x, tbb::split());
            bool bad = (!div(r) && (x.rows().end() != r.e || y.rows().begin() != r.b)) || (!div(c) && (x.cols().end() != c.e || y.cols().begin() != c.b));
            if (bad) { std::printf("REPRODUCED class=%s blocked_range2d<size_t>(%zu,%zu,%zu, %zu,%zu,%zu) split with tbb::split(): rows [%zu,%zu) grain %zu are NOT divisible but became [%zu,%zu)+[%zu,%zu)\n", cls(D{0,0,1}, r, c), r.b, r.e, r.g, c.b, c.e, c.g, r.b, r.e, r.g, x.rows().begin(), x.rows().end(), y.rows().begin(), y.rows().end()); return true; }
        }
        return false;
    };
    for (size_t rs = 1; rs <= 6; ++rs) for (size_t rg = 1; rg <= 6; ++rg) for (size_t cs = 1; cs <= 6; ++cs) for (size_t cg = 1; cg <= 6; ++cg) {
        if (!three) { if (chk({0, 1, 1}, {3, 3 + rs, rg}, {7, 7 + cs, cg})) return 0; }
        else for (size_t ps = 1; ps <= 4; ++ps) for (size_t pg = 1; pg <= 4; ++pg) if (chk({1, 1 + ps, pg}, {3, 3 + rs, rg}, {7, 7 + cs, cg})) return 0;
    }
    D p{(size_t)get("IN_pb"), (size_t)get("IN_pe"), (size_t)get("IN_pg", 1)}, r{(size_t)get("IN_rb"), (size_t)get("IN_re"), (size_t)get("IN_rg", 1)}, c{(size_t)get("IN_cb"), (size_t)get("IN_ce"), (size_t)get("IN_cg", 1)};
    if (has("IN_rb") && p.g && r.g && c.g && chk(p, r, c)) return 0;
    if (chk({0, 5, 5}, {0, 5, 5}, {0, (size_t(1) << 60) + 1, size_t(1) << 60})) return 0;
    if (chk({0, 1, 1}, {0, 4, 4}, {0, 9, 2})) return 0;
    std::printf("NOT-REPRODUCED\n"); return 0;
}

template <class T> static bool split_case(const char* tn, long long b, long long e, unsigned long long g) {
    if (!(b <= e) || g == 0) return false;
    tbb::blocked_range<T> r((T)b, (T)e, g);
    if (!r.is_divisible()) return false;
    size_t n0 = r.size();
    tbb::blocked_range<T> n(r, tbb::split());
    bool ok = r.begin() == (T)b && n.end() == (T)e && r.end() == n.begin() && !r.empty() && !n.empty() && r.size() == n0 / 2 && n.size() == n0 - n0 / 2 && r.grainsize() == g && n.grainsize() == g;
    if (!ok) { std::printf("REPRODUCED class=range-split blocked_range<%s>(%lld,%lld,%llu) split -> [%lld,%lld) + [%lld,%lld)\n", tn, b, e, g, (long long)r.begin(), (long long)r.end(), (long long)n.begin(), (long long)n.end()); return true; }
    return false;
}
static int replay_split(const std::string& job) {
    long long b = get("IN_b"), e = get("IN_e"); unsigned long long g = (unsigned long long)get("IN_g", 1);
    if (has("IN_b")) {
        if (job.find(".int") != std::string::npos) { if (split_case<int>("int", (int)b, (int)e, g)) return 0; }
        else if (job.find("uchar") != std::string::npos) { if (split_case<unsigned char>("unsigned char", (unsigned char)b, (unsigned char)e, g)) return 0; }
        else if (split_case<size_t>("size_t", b, e, g)) return 0;
    }
    for (long long n = 2; n < 70; ++n) for (unsigned long long gg = 1; gg < (unsigned long long)n; ++gg) if (split_case<size_t>("size_t", 10, 10 + n, gg) || split_case<int>("int", -30, -30 + n, gg)) return 0;
    // proportional split through the static partitioner's proportions
    for (size_t n = 2; n < 300; ++n) for (size_t l = 1; l < 40; ++l) for (size_t rr = (l > 1 ? l - 1 : 1); rr <= l; ++rr) {
        tbb::blocked_range<size_t> r(0, n, 1); tbb::proportional_split p(l, rr);
        tbb::blocked_range<size_t> m(r, p);
        if (r.empty() || m.empty() || r.end() != m.begin() || m.end() != n) { std::printf("REPRODUCED class=range-propsplit blocked_range<size_t>(0,%zu,1) proportional_split(%zu,%zu) -> [%zu,%zu)+[%zu,%zu)\n", n, l, rr, r.begin(), r.end(), m.begin(), m.end()); return 0; }
    }
    std::printf("NOT-REPRODUCED\n"); return 0;
}

// whole-algorithm sweep: every index exactly once, chunk sizes legal, for the four partitioners
static int replay_exec() {
    signal(SIGALRM, on_hang);
    for (int threads : {1, 4}) {
        tbb::global_control gc(tbb::global_control::max_allowed_parallelism, threads);
        for (size_t n : {1u, 2u, 3u, 7u, 8u, 9u, 63u, 64u, 65u, 1000u, 4097u}) for (size_t g : {1u, 2u, 3u, 8u, 100u}) for (int part = 0; part < 4; ++part) {
            std::vector<std::atomic<int>> hit(n); std::atomic<int> bad{0};
            std::snprintf(g_what, sizeof g_what, "parallel_for(blocked_range<size_t>(0,%zu,%zu), partitioner #%d, %d threads)", n, g, part, threads); alarm(20);
            auto body = [&](const tbb::blocked_range<size_t>& r) { if (r.empty()) ++bad; if (part == 0 && n > g && (r.size() > g || 2 * r.size() < g)) ++bad; for (size_t i = r.begin(); i < r.end(); ++i) ++hit[i]; };
            tbb::blocked_range<size_t> R(0, n, g); tbb::affinity_partitioner ap;
            if (part == 0) tbb::parallel_for(R, body, tbb::simple_partitioner()); else if (part == 1) tbb::parallel_for(R, body, tbb::auto_partitioner());
            else if (part == 2) tbb::parallel_for(R, body, tbb::static_partitioner()); else tbb::parallel_for(R, body, ap);
            alarm(0);
            for (size_t i = 0; i < n; ++i) if (hit[i] != 1) ++bad;
            if (bad) { std::printf("REPRODUCED class=loop-coverage parallel_for(blocked_range<size_t>(0,%zu,%zu), partitioner #%d, %d threads): %d violations (index not visited exactly once / illegal chunk)\n", n, g, part, threads, bad.load()); return 0; }
        }
    }
    std::printf("NOT-REPRODUCED\n"); return 0;
}


// blocked_nd_range<size_t,2>: the dimension that is split must itself be divisible
static int replay_nd() {
    using R = tbb::blocked_range<size_t>;
    struct D { size_t b, e, g; };
    auto chk = [&](D r, D c) {
        auto div = [](D d) { return d.g < d.e - d.b; };
        tbb::blocked_nd_range<size_t, 2> x(R(r.b, r.e, r.g), R(c.b, c.e, c.g));
        if (!x.is_divisible()) return false;
        tbb::blocked_nd_range<size_t, 2> y(x, tbb::split());
        bool bad = (!div(r) && (x.dim(0).end() != r.e || y.dim(0).begin() != r.b)) || (!div(c) && (x.dim(1).end() != c.e || y.dim(1).begin() != c.b));
        size_t lim = size_t(1) << 52; bool big = (r.e - r.b) > lim || (c.e - c.b) > lim || r.g > lim || c.g > lim;
        if (bad) { std::printf("REPRODUCED class=%s blocked_nd_range<size_t,2>({%zu,%zu,%zu},{%zu,%zu,%zu}) split with tbb::split(): a dimension with size <= grainsize was split: halves [%zu,%zu)x[%zu,%zu) and [%zu,%zu)x[%zu,%zu)\n",
                               big ? "nd-split-nondivisible-dim-above-2^52" : "nd-split-nondivisible-dim", r.b, r.e, r.g, c.b, c.e, c.g,
                               x.dim(0).begin(), x.dim(0).end(), x.dim(1).begin(), x.dim(1).end(), y.dim(0).begin(), y.dim(0).end(), y.dim(1).begin(), y.dim(1).end()); return true; }
        return false;
    };
    for (size_t rs = 1; rs <= 8; ++rs) for (size_t rg = 1; rg <= 8; ++rg) for (size_t cs = 1; cs <= 8; ++cs) for (size_t cg = 1; cg <= 8; ++cg) if (chk({3, 3 + rs, rg}, {7, 7 + cs, cg})) return 0;
    if (has("IN_db[0]") || has("IN_db")) { }
    if (chk({0, 5, 5}, {0, (size_t(1) << 60) + 1, size_t(1) << 60})) return 0;
    if (chk({0, (size_t(1) << 60) + 1, size_t(1) << 60}, {0, 5, 5})) return 0;
    std::printf("NOT-REPRODUCED\n"); return 0;
}

// blocked_nd_range<size_t,3>: the two halves of a split tile the parent (one dimension cut into adjacent non-empty parts, the others whole); is_divisible / empty
static int replay_nd_split() {
    using R = tbb::blocked_range<size_t>;
    for (size_t a = 0; a <= 5; ++a) for (size_t ag = 1; ag <= 3; ++ag) for (size_t b = 0; b <= 5; ++b) for (size_t bg = 1; bg <= 3; ++bg) for (size_t c = 0; c <= 5; ++c) for (int prop = 0; prop < 2; ++prop) {
        size_t lo[3] = {2, 10, 20}, n[3] = {a, b, c}, g[3] = {ag, bg, 2};
        tbb::blocked_nd_range<size_t, 3> x(R(lo[0], lo[0] + n[0], g[0]), R(lo[1], lo[1] + n[1], g[1]), R(lo[2], lo[2] + n[2], g[2]));
        bool div = false, em = false; for (int d = 0; d < 3; ++d) { div = div || g[d] < n[d]; em = em || n[d] == 0; }
        if (x.is_divisible() != div || x.empty() != em) { std::printf("REPRODUCED class=nd-predicates blocked_nd_range<size_t,3> sizes %zu,%zu,%zu grains %zu,%zu,2: is_divisible()=%d (expected %d) empty()=%d (expected %d)\n", a, b, c, ag, bg, (int)x.is_divisible(), (int)div, (int)x.empty(), (int)em); return 0; }
        if (!div || em) continue;
        tbb::blocked_nd_range<size_t, 3> y = prop ? tbb::blocked_nd_range<size_t, 3>(x, tbb::proportional_split(2, 1)) : tbb::blocked_nd_range<size_t, 3>(x, tbb::split());
        int cut = 0; bool bad = false;
        for (int d = 0; d < 3; ++d) {
            bool whole_x = x.dim(d).begin() == lo[d] && x.dim(d).end() == lo[d] + n[d], whole_y = y.dim(d).begin() == lo[d] && y.dim(d).end() == lo[d] + n[d];
            if (whole_x && whole_y) continue;
            ++cut;
            if (!(x.dim(d).begin() == lo[d] && y.dim(d).end() == lo[d] + n[d] && x.dim(d).end() == y.dim(d).begin() && !x.dim(d).empty() && !y.dim(d).empty())) bad = true;
        }
        if (cut != 1 || bad) { std::printf("REPRODUCED class=nd-split-tiling blocked_nd_range<size_t,3> sizes %zu,%zu,%zu grains %zu,%zu,2 %s: %d dimensions changed, halves %s tile the parent\n", a, b, c, ag, bg, prop ? "proportional_split(2,1)" : "split()", cut, bad ? "do NOT" : "do"); return 0; }
    }
    std::printf("NOT-REPRODUCED\n"); return 0;
}

// ---- parallel_for_each: input / forward / random-access iterators, with and without feeder: every element exactly once, every fed item exactly once
struct in_iter {          // a single-pass input iterator over 0..n-1
    using iterator_category = std::input_iterator_tag; using value_type = int; using difference_type = std::ptrdiff_t; using pointer = const int*; using reference = int;
    int pos; int operator*() const { return pos; } in_iter& operator++() { ++pos; return *this; } in_iter operator++(int) { in_iter t = *this; ++pos; return t; }
    bool operator==(const in_iter& o) const { return pos == o.pos; } bool operator!=(const in_iter& o) const { return pos != o.pos; }
};
static int replay_pfe() {
    signal(SIGALRM, on_hang);
    for (int threads : {1, 4}) {
        tbb::global_control gc(tbb::global_control::max_allowed_parallelism, threads);
        for (int n = 0; n <= 21; ++n) for (int kind = 0; kind < 3; ++kind) for (int feed = 0; feed < 2; ++feed) {
            std::snprintf(g_what, sizeof g_what, "parallel_for_each(%s iterators, %d elements, %s feeder, %d threads)", kind == 0 ? "input" : kind == 1 ? "forward" : "random-access", n, feed ? "with" : "without", threads);
            alarm(20);
            std::vector<std::atomic<int>> hit(2 * n + 2); std::atomic<int> outside{0};
            auto plain = [&](int v) { if (v < 0 || v >= n) ++outside; else ++hit[v]; };
            auto feeding = [&](int v, tbb::feeder<int>& f) { if (v < 0 || v >= 2 * n) { ++outside; return; } ++hit[v]; if (v < n) f.add(n + v); };      // every original element adds one more item
            std::forward_list<int> fl; std::vector<int> vec; for (int i = n - 1; i >= 0; --i) fl.push_front(i); for (int i = 0; i < n; ++i) vec.push_back(i);
            if (kind == 0) { if (feed) tbb::parallel_for_each(in_iter{0}, in_iter{n}, feeding); else tbb::parallel_for_each(in_iter{0}, in_iter{n}, plain); }
            else if (kind == 1) { if (feed) tbb::parallel_for_each(fl.begin(), fl.end(), feeding); else tbb::parallel_for_each(fl.begin(), fl.end(), plain); }
            else { if (feed) tbb::parallel_for_each(vec.begin(), vec.end(), feeding); else tbb::parallel_for_each(vec.begin(), vec.end(), plain); }
            alarm(0);
            int missing = 0, dup = 0; int total = feed ? 2 * n : n;
            for (int i = 0; i < total; ++i) { if (hit[i] == 0) ++missing; if (hit[i] > 1) ++dup; }
            if (missing || dup || outside) { std::printf("REPRODUCED class=pfe-coverage %s: %d items never processed, %d processed more than once, %d values outside the sequence\n", g_what, missing, dup, outside.load()); return 0; }
        }
    }
    std::printf("NOT-REPRODUCED\n"); return 0;
}

// ---- parallel_invoke with 2..13 functions: every function exactly once
template <size_t... I> static void invoke_n(std::vector<std::atomic<int>>& hit, std::index_sequence<I...>) { tbb::parallel_invoke([&hit] { ++hit[I]; }...); }
template <size_t N> static bool invoke_case(int threads) {
    std::snprintf(g_what, sizeof g_what, "parallel_invoke with %zu functions, %d threads", N, threads); alarm(20);
    std::vector<std::atomic<int>> hit(N);
    invoke_n(hit, std::make_index_sequence<N>());
    alarm(0);
    int missing = 0, dup = 0; for (auto& h : hit) { if (h == 0) ++missing; if (h > 1) ++dup; }
    if (missing || dup) { std::printf("REPRODUCED class=invoke-coverage %s: %d functions never called, %d called more than once\n", g_what, missing, dup); return true; }
    return false;
}
static int replay_invoke() {
    signal(SIGALRM, on_hang);
    for (int threads : {1, 4}) {
        tbb::global_control gc(tbb::global_control::max_allowed_parallelism, threads);
        for (int rep = 0; rep < 20; ++rep)
            if (invoke_case<2>(threads) || invoke_case<3>(threads) || invoke_case<4>(threads) || invoke_case<5>(threads) || invoke_case<6>(threads) || invoke_case<7>(threads) || invoke_case<8>(threads)
                || invoke_case<9>(threads) || invoke_case<10>(threads) || invoke_case<11>(threads) || invoke_case<13>(threads)) return 0;
    }
    std::printf("NOT-REPRODUCED\n"); return 0;
}

int main(int argc, char** argv) {
    std::string job = argc > 1 ? argv[1] : "";
    for (int i = 2; i < argc; ++i) { char* e = std::strchr(argv[i], '='); if (e) in[std::string(argv[i], e - argv[i])] = (long long)std::strtoull(e + 1, 0, 0); }
    if (job.rfind("pfor", 0) == 0) return replay_pfor(job);
    if (job.rfind("br2d", 0) == 0) return replay_2d(false);
    if (job.rfind("br3d", 0) == 0) return replay_2d(true);
    if (job.rfind("br.", 0) == 0) return replay_split(job);
    if (job.rfind("nd.dim", 0) == 0) return replay_nd();
    if (job.rfind("nd.", 0) == 0) return replay_nd_split();
    if (job.rfind("pfe.", 0) == 0) return replay_pfe();
    if (job.rfind("invoke.", 0) == 0) return replay_invoke();
    return replay_exec();
}
