/* C05 harnesses.  *.inc files are generated from /repo on every run (specs/C05/spec.py). */
#include "verif.h"
#define unsigned_SP_char unsigned char
#define signed_SP_char signed char
#define unsigned_SP_short unsigned short
typedef unsigned char depth_t;
#define MaxCapacity 8
#define __TBB_DEMAND_DEPTH_ADD 1
#ifndef PART_FACTOR
#define PART_FACTOR 1u
#endif
#define DESTROY(p) ((void)0)   /* destructor of a trivially destructible range */
enum { DELAY_begin = 0, DELAY_run, DELAY_pass };

#include "psplit.inc"
#include "brange.inc"

#if defined(VT_int)
#define WIDE long
#define NO_OVERFLOW(b, e) ((long)(e) - (long)(b) <= (long)INT_MAX)
#else
#define NO_OVERFLOW(b, e) 1
#endif

#if !defined(PFOR) && !defined(ND) && !defined(TASKS)
/* ------------------------------------------------------------------ blocked_range split */
Value IN_b, IN_e; size_t IN_g;
static void mk_range(struct blocked_range *r) {
    Value b = IN_b = nondet_u64(), e = IN_e = nondet_u64(); size_t g = IN_g = nondet_size_t();
    __CPROVER_assume(!(e < b) && g > 0 && NO_OVERFLOW(b, e));
    blocked_range_ctor(r, b, e, g);
}
void h_br_split(void) {
    struct blocked_range r, n;
    mk_range(&r);
    __CPROVER_assume(blocked_range_is_divisible(&r));
    size_t n0 = blocked_range_size(&r), g = IN_g;
    blocked_range_ctor_s(&n, &r);
    OBLIGATION(r.my_begin == IN_b && n.my_end == IN_e, "C05.split: the two halves start/end where the original did");
    OBLIGATION(r.my_end == n.my_begin, "C05.split: halves are adjacent: no element lost, none in both");
    OBLIGATION(!blocked_range_empty(&r) && !blocked_range_empty(&n), "C05.split: both halves are non-empty");
    OBLIGATION(blocked_range_size(&r) == n0 / 2 && blocked_range_size(&n) == n0 - n0 / 2, "C05.split: sizes are floor(n/2) and ceil(n/2)");
    OBLIGATION(r.my_grainsize == g && n.my_grainsize == g, "C05.split: grainsize is inherited by both halves");
    OBLIGATION(blocked_range_size(&r) >= g / 2 + (g & 1) && blocked_range_size(&n) >= g / 2 + (g & 1), "C05.split: halves of a divisible range are >= ceil(grain/2) (simple-partitioner lower bound)");
    VACUITY_END();
}
size_t IN_left, IN_right;
void h_br_propsplit(void) {
    struct blocked_range r, n; struct proportional_split p;
    mk_range(&r);
    __CPROVER_assume(blocked_range_is_divisible(&r));
    size_t l = IN_left = nondet_size_t(), rt = IN_right = nondet_size_t();
    __CPROVER_assume(rt >= 1 && rt <= l && l - rt <= 1 && l <= ((size_t)1 << 32));   /* what get_split() produces */
    proportional_split_ctor(&p, l, rt);
    size_t n0 = blocked_range_size(&r);
    blocked_range_ctor_p(&n, &r, &p);
    OBLIGATION(r.my_begin == IN_b && n.my_end == IN_e && r.my_end == n.my_begin, "C05.propsplit: halves adjacent and covering");
    OBLIGATION(IN_b < r.my_end && r.my_end < IN_e, "C05.propsplit: split point strictly inside: both parts non-empty");
    OBLIGATION(blocked_range_size(&r) + blocked_range_size(&n) == n0, "C05.propsplit: sizes add up");
    VACUITY_END();
}

/* ------------------------------------------------------------------ partitioner divisor arithmetic */
static bool STUB_is_peer_stolen(void) { return nondet_bool(); }
#include "partitioner.inc"
size_t IN_div; unsigned char IN_depth;
static void mk_part(struct part *p) {
    p->my_divisor = IN_div = nondet_size_t(); p->my_max_depth = IN_depth = nondet_uchar();
    p->my_delay = nondet_int(); __CPROVER_assume(p->my_delay >= DELAY_begin && p->my_delay <= DELAY_pass);
    p->my_head = nondet_size_t(); p->my_max_affinity = nondet_size_t();
}
void h_adaptive_split(void) {
    struct part src, self; mk_part(&src); self = src;
    size_t d = src.my_divisor;
    self.my_divisor = adaptive_do_split(&self, &src);
    OBLIGATION(src.my_divisor == d / 2 && self.my_divisor == d / 2, "C05.part: adaptive split halves the divisor on both sides");
    OBLIGATION(src.my_divisor + self.my_divisor <= d, "C05.part: divisor never grows by splitting");
    VACUITY_END();
}
void h_proportional(void) {
    struct part src, self; mk_part(&src); self = src;
    size_t d = src.my_divisor;
    __CPROVER_assume(d % PART_FACTOR == 0);                   /* established by the constructors and preserved (proved below) */
    __CPROVER_assume(src.my_max_affinity >= 1 && src.my_head < src.my_max_affinity && d <= src.my_max_affinity);
    __CPROVER_assume(proportional_is_divisible(&src));
    struct proportional_split s = proportional_get_split(&src);
    OBLIGATION(s.my_right >= 1 && s.my_right <= s.my_left && s.my_left - s.my_right <= 1, "C05.part: get_split yields 1 <= right <= left <= right+1");
    OBLIGATION(s.my_left + s.my_right == d / PART_FACTOR, "C05.part: proportion sums to the divisor");
    size_t portion = proportional_do_split(&self, &src, &s);
    self.my_divisor = portion;
    OBLIGATION(portion + src.my_divisor == d, "C05.part: proportional split conserves the divisor");
    OBLIGATION(portion >= PART_FACTOR && src.my_divisor >= PART_FACTOR, "C05.part: both sides keep at least one unit (no underflow)");
    OBLIGATION(portion % PART_FACTOR == 0 && src.my_divisor % PART_FACTOR == 0, "C05.part: divisors stay multiples of factor");
    linear_affinity_ctor_p(&self, &src, &s);                  /* CBMC div-by-zero check covers the % my_max_affinity */
    OBLIGATION(self.my_head < self.my_max_affinity && self.my_max_affinity == src.my_max_affinity, "C05.part: affinity head stays inside the affinity array");
    VACUITY_END();
}
void h_auto_is_divisible(void) {
    struct part p; mk_part(&p);
    size_t d = p.my_divisor; depth_t dep = p.my_max_depth;
    bool r = auto_is_divisible(&p);
    OBLIGATION(r == (d > 1 || (d == 1 && dep > 0)), "C05.part: auto partitioner divisible iff divisor>1 or one depth-paid split is left");
    OBLIGATION(p.my_max_depth <= dep && (d > 1 ? (p.my_divisor == d && p.my_max_depth == dep) : 1), "C05.part: depth never wraps below zero");
    OBLIGATION(!(r && d <= 1) || (p.my_divisor == 0 && p.my_max_depth == dep - 1), "C05.part: the depth-paid split is taken once");
    VACUITY_END();
}
void h_check_for_demand(void) {
    struct part p; mk_part(&p);
    size_t d = p.my_divisor; depth_t dep = p.my_max_depth; int dl = p.my_delay;
    bool r = dyn_check_for_demand(&p, 0);
    OBLIGATION(!r || dl == DELAY_pass, "C05.part: demand is only reported in the pass phase");
    OBLIGATION(p.my_divisor == d || (p.my_divisor == 0 && d == 1), "C05.part: check_for_demand only ever clears a divisor of one");
    OBLIGATION(dl != DELAY_begin || p.my_delay == DELAY_pass, "C05.part: begin -> pass");
    if (dep < 255) OBLIGATION(p.my_max_depth >= dep, "C05.part: depth only grows on demand");
    depth_t base = nondet_uchar(); __CPROVER_assume(base <= p.my_max_depth);
    depth_t before = p.my_max_depth;
    dyn_align_depth(&p, base);
    OBLIGATION(p.my_max_depth == before - base, "C05.part: align_depth subtracts without wrapping");
    VACUITY_END();
}

/* ------------------------------------------------------------------ range_vector */
#define LOOP_split_to_fill_1
#include "range_vector.inc"
/* representation invariant: circular buffer of `size` adjacent non-empty ranges; back (head) is the LEFTMOST */
static bool rv_inv(struct range_vector *v, Value B, Value E, size_t G) {
    if (!(v->my_size <= MaxCapacity && v->my_head < MaxCapacity && v->my_tail < MaxCapacity)) return false;
    if (v->my_size == 0) return B == E;
    if (v->my_head != (v->my_tail + v->my_size - 1) % MaxCapacity) return false;
    Value hi = E;
    for (unsigned k = 0; k < MaxCapacity; ++k) {
        if (k < v->my_size) {
            struct blocked_range *s = &v->my_pool[(v->my_tail + k) % MaxCapacity];
            if (!(s->my_end == hi && s->my_begin < s->my_end && s->my_grainsize == G)) return false;
            hi = s->my_begin;
        }
    }
    return hi == B;
}
/* the contract of split_to_fill: precondition rv_inv(v,B,E,G) && size >= 1; postcondition = the three conjuncts below (proved for every pool shape by the jobs rv.split_to_fill.t*.s*,
   assumed by the contract stub of the job wb.*) */
#define RV_SPLIT_POST_1(v, B, E, G) rv_inv((v), (B), (E), (G))
#define RV_SPLIT_POST_2(v, size0) ((v)->my_size >= (size0) && (v)->my_size <= MaxCapacity)
#define RV_SPLIT_POST_3(v, maxd) ((v)->my_size == MaxCapacity || !range_vector_is_divisible((v), (maxd)))
unsigned char IN_op, IN_maxd;
void h_rv_ops(void) {
    struct range_vector v; Value B = IN_b = nondet_size_t(), E = IN_e = nondet_size_t(); size_t G = IN_g = nondet_size_t();
    __CPROVER_assume(G > 0);
#ifdef RV_TAIL
    v.my_tail = RV_TAIL;
#endif
#ifdef RV_SIZE
    v.my_size = RV_SIZE; v.my_head = (RV_TAIL + RV_SIZE - 1) % MaxCapacity;
#endif
    __CPROVER_assume(rv_inv(&v, B, E, G) && v.my_size >= 1);
#ifdef RV_OP
    unsigned char op = IN_op = RV_OP;
#else
    unsigned char op = IN_op = nondet_uchar();
#endif
    depth_t maxd = IN_maxd = nondet_uchar();
    depth_t size0 = v.my_size;
    if (op == 0) {
        range_vector_split_to_fill(&v, maxd);
        OBLIGATION(RV_SPLIT_POST_1(&v, B, E, G), "C05.pool: split_to_fill keeps the pool an ordered tiling of the same range");
        OBLIGATION(RV_SPLIT_POST_2(&v, size0), "C05.pool: split_to_fill never exceeds the capacity");
        OBLIGATION(RV_SPLIT_POST_3(&v, maxd), "C05.pool: fills until full or the back is not divisible / max depth reached");
    } else if (op == 1) {
        struct blocked_range *bk = range_vector_back(&v);
        Value b = bk->my_begin, e = bk->my_end;
        OBLIGATION(b == B && b < e, "C05.pool: back() is the leftmost, non-empty part");
        range_vector_pop_back(&v);
        OBLIGATION(rv_inv(&v, e, E, G) && v.my_size == size0 - 1, "C05.pool: pop_back removes exactly the back range");
    } else {
        struct blocked_range *fr = range_vector_front(&v);
        Value b = fr->my_begin, e = fr->my_end;
        OBLIGATION(e == E && b < e, "C05.pool: front() is the rightmost, non-empty part");
        range_vector_pop_front(&v);
        OBLIGATION(rv_inv(&v, B, b, G) && v.my_size == size0 - 1, "C05.pool: pop_front removes exactly the front range");
    }
    VACUITY_END();
}
void h_rv_ctor(void) {
    struct blocked_range r; mk_range(&r); __CPROVER_assume(!blocked_range_empty(&r));
    struct range_vector v; range_vector_ctor(&v, &r);
    OBLIGATION(rv_inv(&v, IN_b, IN_e, IN_g) && v.my_size == 1 && v.my_depth[0] == 0, "C05.pool: the pool starts as the one given range at depth 0");
    VACUITY_END();
}

/* ------------------------------------------------------------------ execute loops, ghost accounting */
struct start_for { int dummy; };
Value g_B0, g_E0, g_hi; size_t g_G; unsigned long g_nsplits; bool g_ran; Value g_run_b, g_run_e; unsigned long g_nrun;
/* offer_work: constructs the right-hand task's range with the REAL splitting constructor (contract: only divisible ranges) */
static void start_offer_work_split(struct start_for *st, struct blocked_range *range) {
    OBLIGATION(blocked_range_is_divisible(range), "C05.exec: a range that is not divisible is never split");
    struct blocked_range right;
    blocked_range_ctor_s(&right, range);
    OBLIGATION(right.my_end == g_hi && right.my_begin == range->my_end && right.my_begin < right.my_end, "C05.exec: offered chunk is the non-empty top part of what was left");
    g_hi = right.my_begin; g_nsplits++;
}
static void start_run_body(struct start_for *st, struct blocked_range *range) {
    OBLIGATION(!blocked_range_empty(range), "C05.exec: the body is never given an empty range");
    g_ran = true; g_run_b = range->my_begin; g_run_e = range->my_end; g_nrun++;
}
#define EXEC_INV (range->my_begin == g_B0 && range->my_end == g_hi && range->my_grainsize == g_G && g_B0 < g_hi && g_hi <= g_E0 \
                  && (g_nsplits == 0 || (size_t)(g_hi - g_B0) >= g_G / 2 + (g_G & 1)))
#define LOOP_simple_execute_1 __CPROVER_assigns(range->my_end, g_hi, g_nsplits) __CPROVER_loop_invariant(EXEC_INV) __CPROVER_decreases((size_t)(g_hi - g_B0))
#ifdef AUTO_PART
#define PART_IS_DIVISIBLE(p) auto_is_divisible(p)
#define PART_SPLIT_T int
#define PART_GET_SPLIT(p) 0
struct part g_right_part;
static void part_offer_work(struct start_for *st, struct blocked_range *range, struct part *self) {
    start_offer_work_split(st, range);
    g_right_part = *self; g_right_part.my_divisor = adaptive_do_split(&g_right_part, self);   /* adaptive_mode(src, split) */
}
#define PART_OFFER_WORK(st, r, p, s) part_offer_work(st, r, p)
#define PART_WORK_BALANCE(p, st, r) start_run_body(st, r)
#define LOOP_base_execute_1 __CPROVER_assigns(range->my_end, g_hi, g_nsplits, self->my_divisor, self->my_max_depth, g_right_part) \
        __CPROVER_loop_invariant(EXEC_INV && (size_t)(g_hi - g_B0) > g_G) __CPROVER_decreases((size_t)(g_hi - g_B0))
#elif defined(PROP_PART)
/* partition_type_base::execute for the proportional partitioners (static: factor 1, affinity: factor 16).  The range is split by the CONTRACT of the proportional splitting
   constructor (job br.propsplit: halves adjacent, split point strictly inside); the partition object by the real proportional_mode::do_split. */
#define PART_IS_DIVISIBLE(p) proportional_is_divisible(p)
#define PART_SPLIT_T struct proportional_split
#define PART_GET_SPLIT(p) proportional_get_split(p)
#define PROP_OK(p) ((p)->my_divisor % PART_FACTOR == 0 || (p)->my_divisor <= PART_FACTOR)
struct part g_right_part;
static void part_offer_work(struct start_for *st, struct blocked_range *range, struct part *self, struct proportional_split *s) {
    OBLIGATION(blocked_range_is_divisible(range), "C05.exec: a range that is not divisible is never split");
    OBLIGATION(self->my_divisor % PART_FACTOR == 0 && self->my_divisor > PART_FACTOR, "C05.exec: a proportional split is only made while the divisor is a multiple of factor and larger than factor (the precondition under which part.proportional.* / aff.split are proved: the proportion then has right >= 1)");
    OBLIGATION(s->my_right >= 1 && s->my_right <= s->my_left && s->my_left - s->my_right <= 1, "C05.exec: the proportion handed to the range is 1 <= right <= left <= right+1");
    Value m = nondet_size_t(); __CPROVER_assume(range->my_begin < m && m < range->my_end);      /* br.propsplit */
    OBLIGATION(range->my_end == g_hi, "C05.exec: offered chunk is the top part of what was left");
    range->my_end = m; g_hi = m; g_nsplits++;
    g_right_part = *self; g_right_part.my_divisor = proportional_do_split(&g_right_part, self, s);   /* proportional_mode(src, split_obj) */
    OBLIGATION(g_right_part.my_divisor % PART_FACTOR == 0 && g_right_part.my_divisor >= PART_FACTOR, "C05.exec: the right task starts with a positive multiple of factor");
}
#define PART_OFFER_WORK(st, r, p, s) part_offer_work(st, r, p, s)
static void part_work_balance(struct part *self, struct start_for *st, struct blocked_range *range) {
    OBLIGATION(!blocked_range_is_divisible(range) || self->my_divisor <= PART_FACTOR, "C05.exec: the range-pool phase (demand splits, which halve the divisor) is entered only with an exhausted partition or an indivisible range: divisors above factor are always multiples of factor");
    start_run_body(st, range);
}
#define PART_WORK_BALANCE(p, st, r) part_work_balance(p, st, r)
#define LOOP_base_execute_1 __CPROVER_assigns(range->my_end, g_hi, g_nsplits, self->my_divisor, g_right_part) \
        __CPROVER_loop_invariant(range->my_begin == g_B0 && range->my_end == g_hi && range->my_grainsize == g_G && g_B0 < g_hi && g_hi <= g_E0 \
            && g_G < (size_t)(g_hi - g_B0) && self->my_divisor > PART_FACTOR && self->my_divisor % PART_FACTOR == 0)   /* a do-while: the body runs under the invariant alone */ \
        __CPROVER_decreases((size_t)(g_hi - g_B0))
#else
#define PART_IS_DIVISIBLE(p) 0
#define PART_SPLIT_T int
#define PART_GET_SPLIT(p) 0
#define PART_OFFER_WORK(st, r, p, s) ((void)0)
#define PART_WORK_BALANCE(p, st, r) ((void)0)
#define LOOP_base_execute_1
#endif
static bool STUB_is_cancelled(void) { return nondet_bool(); }
/* ---- abstract view of a range pool.  alpha(v) = (size, end of the back piece, begin of the front piece); the pool tiles [lo,top), back piece = [lo,be), front piece = [fb,top).
   Job rv.abstraction proves on the real accessors that every pool satisfying the representation invariant rv_inv has an abstract view satisfying AINV;
   the jobs rv.ctor / rv.split_to_fill.* / rv.pop_back / rv.pop_front prove the concrete contracts {rv_inv(v,B,E,G), size>=1} op {rv_inv(v,B',E',G), size'} quoted at each abstract stub below.
   The job wb.* then proves work_balance against the abstract contracts: its loop invariant is a formula over five scalars. */
#define AINV(n, be, fb, lo, top) ((n) >= 1 && (n) <= MaxCapacity && (lo) < (be) && (be) <= (top) && (lo) <= (fb) && (fb) < (top) \
    && ((n) == 1 ? ((be) == (top) && (fb) == (lo)) : ((be) <= (fb))) && ((n) != 2 || (be) == (fb)))
void h_rv_abstraction(void) {
    struct range_vector v; Value B = IN_b = nondet_size_t(), E = IN_e = nondet_size_t(); size_t G = IN_g = nondet_size_t();
    __CPROVER_assume(rv_inv(&v, B, E, G));
    OBLIGATION(range_vector_size(&v) == v.my_size && range_vector_empty(&v) == (v.my_size == 0), "C05.pool.abs: size() / empty() report the number of stored pieces");
    if (v.my_size == 0) OBLIGATION(B == E, "C05.pool.abs: an empty pool covers nothing");
    else {
        struct blocked_range *bk = range_vector_back(&v), *fr = range_vector_front(&v);
        OBLIGATION(bk->my_begin == B && fr->my_end == E && bk->my_grainsize == G && fr->my_grainsize == G, "C05.pool.abs: back() is the piece that starts at the bottom of the covered range, front() the piece that ends at its top; both carry the task's grainsize");
        OBLIGATION(AINV(v.my_size, bk->my_end, fr->my_begin, B, E), "C05.pool.abs: pieces are non-empty and ordered: back ends at or before the begin of front; with one piece back == front == the whole; with two they are adjacent");
    }
    VACUITY_END();
}
#if defined(WBC)
/* work_balance as a whole against the abstract pool.  Ghost: everything handed out so far (run or offered) is [g_B0,g_lo) U [g_top,g_E0); the pool (a_*) tiles [a_lo,a_top). */
Value g_lo, g_top; bool g_exit_empty, g_exit_cancelled; unsigned long g_noffer;
unsigned a_n; Value a_lo, a_top, a_be, a_fb; struct blocked_range a_back, a_front;
static void a_fresh_pieces(void) { if (a_n >= 1) { a_be = nondet_size_t(); a_fb = nondet_size_t(); __CPROVER_assume(AINV(a_n, a_be, a_fb, a_lo, a_top)); } }
static void wb_run_body(struct start_for *st, struct blocked_range *r) {
    OBLIGATION(r->my_begin < r->my_end, "C05.wb: the body is never given an empty range");
    OBLIGATION(r->my_begin == g_lo, "C05.wb: the chunk run is the next not-yet-covered part from the bottom (no element twice, none skipped)");
    OBLIGATION(r->my_end <= g_top, "C05.wb: the chunk run does not reach into what was offered to other tasks");
    g_lo = r->my_end; g_nrun++;
}
static void start_offer_work_range(struct start_for *st, struct blocked_range *r, depth_t d, void *ed) {
    OBLIGATION(r->my_begin < r->my_end, "C05.wb: an offered chunk is non-empty");
    OBLIGATION(r->my_end == g_top, "C05.wb: the chunk offered is the topmost not-yet-covered part (no element twice, none skipped)");
    OBLIGATION(r->my_begin >= g_lo, "C05.wb: the chunk offered does not reach into what this task has already run");
    g_top = r->my_begin; g_noffer++;
}
#define start_run_body wb_run_body
#ifdef AUTO_PART
#define PART_CHECK_FOR_DEMAND(p) auto_check_for_demand(p, 0)
#else
#define PART_CHECK_FOR_DEMAND(p) dyn_check_for_demand(p, 0)
#endif
/* rv.ctor: {range non-empty} range_vector(range) {rv_inv(v, begin, end, grain), size == 1} */
static void rvc_ctor(struct range_vector *v, struct blocked_range *r) {
    __CPROVER_assert(r->my_begin < r->my_end, "C05.wb: the pool is started from a non-empty range (precondition of the pool contract)");
    a_n = 1; a_lo = r->my_begin; a_top = r->my_end; a_be = a_top; a_fb = a_lo;
    OBLIGATION(a_lo == g_lo && a_top == g_top && r->my_grainsize == g_G, "C05.wb: the pool starts as the task's whole range");
}
/* rv.split_to_fill.*: {rv_inv(v,B,E,G), size >= 1} split_to_fill(d) {rv_inv(v,B,E,G), size <= size' <= 8} */
static void rvc_split_to_fill(struct range_vector *v, depth_t maxd) {
    __CPROVER_assert(a_n >= 1, "C05.wb: split_to_fill is called on a non-empty pool (precondition of the pool contract)");
    unsigned n = nondet_unsigned(); __CPROVER_assume(n >= a_n && n <= MaxCapacity); a_n = n; a_fresh_pieces();
}
/* rv.pop_back: {rv_inv(v,B,E,G), size >= 1, back() == [B,e)} pop_back() {rv_inv(v,e,E,G), size' == size-1} */
static struct blocked_range *rvc_back(struct range_vector *v) {
    __CPROVER_assert(a_n >= 1, "C05.wb: back() is called on a non-empty pool");
    a_back.my_begin = a_lo; a_back.my_end = a_be; a_back.my_grainsize = g_G; return &a_back;
}
static void rvc_pop_back(struct range_vector *v) {
    __CPROVER_assert(a_n >= 1, "C05.wb: pop_back() is called on a non-empty pool");
    a_lo = a_be; a_n--; a_fresh_pieces();
}
/* rv.pop_front: {rv_inv(v,B,E,G), size >= 1, front() == [b,E)} pop_front() {rv_inv(v,B,b,G), size' == size-1} */
static struct blocked_range *rvc_front(struct range_vector *v) {
    __CPROVER_assert(a_n >= 1, "C05.wb: front() is called on a non-empty pool");
    a_front.my_begin = a_fb; a_front.my_end = a_top; a_front.my_grainsize = g_G; return &a_front;
}
static depth_t rvc_front_depth(struct range_vector *v) { __CPROVER_assert(a_n >= 1, "C05.wb: front_depth() is called on a non-empty pool"); return nondet_uchar(); }
static void rvc_pop_front(struct range_vector *v) {
    __CPROVER_assert(a_n >= 1, "C05.wb: pop_front() is called on a non-empty pool");
    a_top = a_fb; a_n--; a_fresh_pieces();
}
static depth_t rvc_size(struct range_vector *v) { return (depth_t)a_n; }
static bool rvc_is_divisible(struct range_vector *v, depth_t maxd) { __CPROVER_assert(a_n >= 1, "C05.wb: is_divisible() is called on a non-empty pool"); return nondet_bool(); }   /* any answer: the tiling does not depend on it */
static bool rvc_empty(struct range_vector *v) {
    bool e = a_n == 0;
    OBLIGATION(a_lo == g_lo && a_top == g_top, "C05.wb: after every step the pool holds exactly what has neither been run by this task nor offered to another (a piece run or offered is removed from the pool, and only that piece)");
    g_exit_empty = e;
    if (e) OBLIGATION(g_lo == g_top, "C05.wb: when the pool runs empty, the chunks run and the chunks offered cover the task's range completely");
    return e;
}
static bool wbc_is_cancelled(void) { g_exit_cancelled = nondet_bool(); return g_exit_cancelled; }
#define range_vector_ctor rvc_ctor
#define range_vector_split_to_fill rvc_split_to_fill
#define range_vector_back rvc_back
#define range_vector_pop_back rvc_pop_back
#define range_vector_front rvc_front
#define range_vector_front_depth rvc_front_depth
#define range_vector_pop_front rvc_pop_front
#define range_vector_size rvc_size
#define range_vector_is_divisible rvc_is_divisible
#define range_vector_empty rvc_empty
#define STUB_is_cancelled wbc_is_cancelled
#define WB_INV (AINV(a_n, a_be, a_fb, a_lo, a_top) && a_lo == g_lo && a_top == g_top && g_B0 <= g_lo && g_top <= g_E0)
#define LOOP_work_balance_1 __CPROVER_assigns(a_n, a_lo, a_top, a_be, a_fb, a_back, a_front, g_lo, g_top, g_nrun, g_noffer, g_exit_empty, g_exit_cancelled, self->my_divisor, self->my_max_depth, self->my_delay) __CPROVER_loop_invariant(WB_INV)
#else
#define PART_CHECK_FOR_DEMAND(p) 0
static void start_offer_work_range(struct start_for *st, struct blocked_range *r, depth_t d, void *ed) {}
#define LOOP_work_balance_1
#endif
#include "execute.inc"

static void mk_exec(struct blocked_range *r) {
    mk_range(r);
    __CPROVER_assume(!blocked_range_empty(r));
    g_B0 = r->my_begin; g_E0 = g_hi = r->my_end; g_G = r->my_grainsize; g_nsplits = 0; g_ran = false; g_nrun = 0;
}
void h_simple_execute(void) {
    struct blocked_range r; struct start_for st; struct part p;
    mk_exec(&r);
    simple_execute(&p, &st, &r);
    OBLIGATION(g_ran && g_nrun == 1 && g_run_b == g_B0 && g_run_e == g_hi, "C05.exec: what is left after the offers is run, once; offers + run tile the original range");
    OBLIGATION((size_t)(g_run_e - g_run_b) <= g_G || g_nsplits == 0 && 0, "C05.exec: simple partitioner runs chunks of at most grainsize");
    OBLIGATION(g_nsplits == 0 || (size_t)(g_run_e - g_run_b) >= g_G / 2 + (g_G & 1), "C05.exec: ... and at least ceil(grainsize/2) once split");
    VACUITY_END();
}
#ifdef AUTO_PART
void h_base_execute(void) {
    struct blocked_range r; struct start_for st; struct part p; mk_part(&p);
    mk_exec(&r);
    base_execute(&p, &st, &r);
    OBLIGATION(g_ran && g_nrun == 1 && g_run_b == g_B0 && g_run_e == g_hi, "C05.exec: offers + remaining work tile the original range (auto partitioner)");
    VACUITY_END();
}
#endif
#ifdef PROP_PART
void h_base_execute_prop(void) {
    struct blocked_range r; struct start_for st; struct part p; mk_part(&p);
    mk_exec(&r);
    __CPROVER_assume(PROP_OK(&p));     /* root: a multiple of factor (aff.ctor); children of proportional splits: multiples (aff.split); children of demand splits: below factor (reset to 1 by check_being_stolen) */
    base_execute(&p, &st, &r);
    OBLIGATION(g_ran && g_nrun == 1 && g_run_b == g_B0 && g_run_e == g_hi, "C05.exec: offers + remaining work tile the original range (proportional partitioners)");
    VACUITY_END();
}
#endif
#ifdef WBC
void h_work_balance_c(void) {
    struct blocked_range r; struct start_for st; struct part p; mk_part(&p);
    mk_exec(&r);
    g_lo = g_B0; g_top = g_E0; g_exit_empty = g_exit_cancelled = false; g_noffer = 0;
    dyn_work_balance(&p, &st, &r, NULL);
    OBLIGATION(g_B0 <= g_lo && g_lo <= g_top && g_top <= g_E0, "C05.wb: what was run and what was offered never overlap");
    OBLIGATION(g_lo == g_top || g_exit_cancelled, "C05.wb: unless the group is cancelled, work_balance returns only after every element of the task's range was run by this task or offered to exactly one other task");
    VACUITY_END();
}
#endif
#endif /* !PFOR && !ND && !TASKS */

#ifdef PFE
/* ================================================================== parallel_for_each.h
   Vocabulary: the user's sequence is the positions [g_first0, g_last) (an Iterator is a position: only ++, ==, * are used on it by the input / forward code);
   an Item value remembers which sequence element it is a copy of (src) and whether it is raw memory (0), constructed (1) or destroyed (2).
   Wait accounting: g_mine = references on the loop's ROOT wait context held by the running code for itself and for entities it has created but not yet made
   runnable.  A reference must exist before an entity becomes runnable (spawn / bypass / execute_and_wait) and is handed over at that moment; the code may only
   release what it holds; the body runs only while a reference is held.  Hence the root count is >= the number of unfinished entities: the caller's wait cannot
   end before every item has been processed, and it ends once all have (no reference is leaked). */
typedef void task;
typedef struct task_group_context { int id; } task_group_context;
typedef struct execution_data { task_group_context *context; } execution_data;
typedef struct small_object_allocator { void *pool; } small_object_allocator;
typedef struct wait_context { long refs; } wait_context;
typedef wait_context wait_context_vertex;            /* wait_context_vertex::reserve/release forward to its wait_context (detail/_task.h) */
typedef wait_context wait_tree_vertex_interface;
typedef struct Body { int id; } Body;
typedef struct Item { size_t src; unsigned char state; } Item;
typedef Item ITEM_ARG;
typedef size_t Iterator;
struct feeder_impl { const Body *my_body; wait_context_vertex *my_wait_context; task_group_context *my_execution_context; };
#define ALLOCATOR_INIT(a) ((a).pool = NULL)
#define ASPACE_BEGIN(a) (&(a)[0])
#define ASPACE_END(a) (&(a)[0] + sizeof(a) / sizeof((a)[0]))      /* aligned_space<T,N>::end() == begin() + N (checked by the extractor) */
#define ITEM_MOVE(x) (x)
#define ITEM_COPY(x) (x)
#define ITEM_FWD(x) (x)
/* ---- ghost state */
size_t g_first0, g_last, g_k;                        /* the sequence and one arbitrary element of it */
static wait_context W; long g_others, g_mine;         /* root wait context: W.refs == g_others + g_mine */
static Body B; static task_group_context C; static struct feeder_impl F;
size_t g_calls_total, g_deref_total; unsigned g_calls_k, g_deref_k, g_releases, g_reserves; size_t g_calls_at_release;
size_t g_last_src; const Body *g_call_body; struct feeder_impl *g_call_feeder; bool g_call_with_feeder; long g_mine_at_call;
static wait_context g_thread_vertex; static wait_context *g_vertex_parent;      /* r1::get_thread_reference_vertex(&root): a per-thread vertex that keeps one reference on its parent while its own count is > 0 (trusted) */
static void body_invoke(const Body *b, Item it, struct feeder_impl *f, bool with_feeder) {
    OBLIGATION(it.state == 1, "C05.pfe: the body is applied to a constructed item only (never to raw or destroyed block memory)");
    g_calls_total++; if (it.src == g_k) g_calls_k++;
    g_last_src = it.src; g_call_body = b; g_call_feeder = f; g_call_with_feeder = with_feeder; g_mine_at_call = g_mine;
}
#define BODY_INVOKE1(b, item) body_invoke(&(b), (item), NULL, false)
#define BODY_INVOKE2(b, item, f) body_invoke(&(b), (item), &(f), true)
#ifdef FEEDER_REQUIRED
#define SELECTOR_CALL(b, item, f) selector_call_feeder(&(b), (item), (f))
#else
#define SELECTOR_CALL(b, item, f) selector_call_plain(&(b), (item), (f))
#endif
static Item seq_deref(Iterator i) {
    OBLIGATION(i >= g_first0 && i < g_last, "C05.pfe: only positions inside [first,last) are dereferenced (nothing outside the iteration space)");
    g_deref_total++; if (i == g_k) g_deref_k++;
    Item it; it.src = i; it.state = 1; return it;
}
#define SEQ_DEREF(i) seq_deref(i)
static void root_ref(wait_context *w, long d) {          /* an operation on the ROOT context (directly or through the thread's reference vertex) */
    g_others = nondet_long(); __CPROVER_assume(g_others >= 0 && g_others < (1L << 40)); W.refs = g_others + g_mine;    /* other entities come and go */
    if (d < 0) { OBLIGATION(g_mine >= -d, "C05.pfe.wait: only a reference that is held is released (the root count cannot reach zero while work is outstanding)"); g_releases++; g_calls_at_release = g_calls_total; }
    else g_reserves++;
    W.refs += d; g_mine += d;
}
static void block_ref(wait_context *w, long d);
bool g_plain_wait;                                  /* run_parallel_for_each: the root context is a local of the function under proof */
static void wait_op(wait_context *w, long d) {
    if (g_plain_wait) { w->refs += d; if (d > 0) g_reserves++; else g_releases++; }
    else if (w == &W) root_ref(w, d);
    else if (w == &g_thread_vertex) { OBLIGATION(g_vertex_parent == &W, "C05.pfe.wait: a feeder task's reference vertex hangs under the loop's root wait context"); g_thread_vertex.refs += d; root_ref(&W, d); }
    else block_ref(w, d);
}
#define WAIT_RESERVE(w) wait_op(&(w), 1)
#define WAIT_RELEASE(w) wait_op(&(w), -1)
#define WAIT_CTOR(w, n) ((w).refs = (n))
#define WAIT_GET_CONTEXT(w) (w)
#define INIT_it_item_ptr_1(s, e) ((s)->item_ptr = (e))
#define INIT_it_my_body_1(s, e) ((s)->my_body = &(e))
#define INIT_it_my_feeder_ptr_1(s, e) ((s)->my_feeder_ptr = (e))
#define INIT_it_parent_wait_context_1(s, e) ((s)->parent_wait_context = &(e))
#define INIT_blk_my_size_1(s, e) ((s)->my_size = (e))
#define INIT_blk_my_wait_context_1(s, e) ((s)->my_wait_context.refs = (e))            /* wait_context(ref_count) */
#define INIT_blk_my_root_wait_context_1(s, e) ((s)->my_root_wait_context = &(e))
#define INIT_blk_my_execution_context_1(s, e) ((s)->my_execution_context = &(e))
#define INIT_blk_my_allocator_1(s, e) ((s)->my_allocator = (e))
static void mk_root_wait(long mine) { g_mine = mine; g_others = nondet_long(); __CPROVER_assume(g_others >= 0 && g_others < (1L << 40)); W.refs = g_others + g_mine; g_releases = g_reserves = 0; }
static void mk_seq(void) { g_first0 = nondet_size_t(); g_last = nondet_size_t(); g_k = nondet_size_t(); __CPROVER_assume(g_first0 <= g_last);
    g_calls_total = g_calls_k = g_deref_total = g_deref_k = g_calls_at_release = 0; g_call_body = NULL; g_call_feeder = NULL; }

#if defined(PFE_INPUT)
typedef Item *TASK_ITER;                             /* const Item* / std::move_iterator<Item*> into the block's copies */
#define TASK_ITER_DEREF(p) (*(p))
#define ITER_FROM_ITEMPTR(p) (p)
#include "pfe_block_input_const.inc"
#else
typedef Iterator TASK_ITER;                          /* the user's forward iterator */
#define TASK_ITER_DEREF(i) seq_deref(i)
#include "pfe_block_forward_const.inc"
#endif
struct iteration_task { TASK_ITER item_ptr; const Body *my_body; struct feeder_impl *my_feeder_ptr; wait_context *parent_wait_context; };
struct block_task {
#if defined(PFE_INPUT)
    Item block_iteration_space[max_block_size];
#endif
    struct iteration_task task_pool[max_block_size]; size_t my_size; wait_context my_wait_context; wait_context_vertex *my_root_wait_context;
    task_group_context *my_execution_context; small_object_allocator my_allocator; };
#include "pfe_iter.inc"
#define NEW_AT_iteration_task(place, ip, body, fp, wc) iteration_task_ctor((place), (ip), &(body), (fp), &(wc))

#ifdef PFE_ITER
/* ---------------------------------------------------------------- for_each_iteration_task: constructor, execute, cancel */
static void block_ref(wait_context *w, long d) { if (d < 0) { g_releases++; g_calls_at_release = g_calls_total; } else g_reserves++; w->refs += d; }
bool IN_cancel;
void h_pfe_iter(void) {
    struct iteration_task T; wait_context BW; Item slot; execution_data ed; ed.context = &C;
    mk_seq(); g_releases = g_reserves = 0;
    BW.refs = nondet_long(); __CPROVER_assume(BW.refs >= 1 && BW.refs <= 4); long refs0 = BW.refs;     /* this task was counted before it was started (block execute) */
#if defined(PFE_INPUT)
    slot.src = nondet_size_t(); slot.state = 1; TASK_ITER ip = &slot; size_t expect = slot.src;
#else
    TASK_ITER ip = nondet_size_t(); __CPROVER_assume(ip >= g_first0 && ip < g_last); size_t expect = ip;
#endif
#ifdef FEEDER_REQUIRED
    struct feeder_impl *fp = &F;
#else
    struct feeder_impl *fp = NULL;
#endif
    iteration_task_ctor(&T, ip, &B, fp, &BW);
    OBLIGATION(T.item_ptr == ip && T.my_body == &B && T.my_feeder_ptr == fp && T.parent_wait_context == &BW, "C05.pfe.iter: the iteration task remembers its element, the body, the feeder and its block's wait context");
    bool cancel = IN_cancel = nondet_bool();
    task *r = cancel ? iteration_task_cancel(&T, &ed) : iteration_task_execute(&T, &ed);
    if (!cancel) {
        OBLIGATION(g_calls_total == 1 && g_last_src == expect && g_call_body == &B, "C05.pfe.iter: the body is applied exactly once, to this task's own element");
#ifdef FEEDER_REQUIRED
        OBLIGATION(g_call_with_feeder && g_call_feeder == &F, "C05.pfe.iter: a body that takes a feeder gets the loop's feeder");
#endif
        OBLIGATION(g_calls_at_release == 1, "C05.pfe.iter: the block is told about completion only after the body has returned");
    } else OBLIGATION(g_calls_total == 0, "C05.pfe.iter: a cancelled iteration task does not run the body");
    OBLIGATION(g_releases == 1 && g_reserves == 0 && BW.refs == refs0 - 1 && r == NULL, "C05.pfe.iter: executed or cancelled, the task releases its block's wait context exactly once");
    VACUITY_END();
}
#endif /* PFE_ITER */

#if defined(PFE_BLOCK) || defined(PFE_ROOT)
/* ---------------------------------------------------------------- block handling tasks */
static struct block_task *BLK; bool g_blk_freed; unsigned g_blk_deleted, g_item_dtors, g_task_dtors; size_t g_size_at_delete;
unsigned g_started[8]; unsigned g_started_total, g_bw_reserved, g_waits; bool g_in_block_execute;
static void dtor_item(Item *p) { OBLIGATION(p->state == 1, "C05.pfe.block: only a constructed item copy is destroyed, and only once"); p->state = 2; g_item_dtors++; }
static void dtor_task(struct iteration_task *p) { g_task_dtors++; }
#define DTOR_Item(p) dtor_item(p)
#define DTOR_iteration_task(p) dtor_task(p)
#define LOOP_block_dtor_1
#define LOOP_block_execute_1
static void block_ref(wait_context *w, long d) {
    OBLIGATION(BLK != NULL && w == &BLK->my_wait_context, "C05.pfe.block: besides the root context only the block's own wait context is used");
    if (d > 0) g_bw_reserved++;
    w->refs += d;
}
static void spawn_(void *t, task_group_context *c);
static void execute_and_wait_(void *t, task_group_context *c1, wait_context *w, task_group_context *c2);
#define SPAWN(t, c) spawn_((void *)&(t), &(c))
#define EXECUTE_AND_WAIT(t, c1, w, c2) execute_and_wait_((void *)&(t), &(c1), &(w), &(c2))
void block_task_dtor(struct block_task *self);
static void delete_block(struct block_task *self) {
    OBLIGATION(self == BLK && !g_blk_freed, "C05.pfe.block: the block task deletes itself, once");
    g_size_at_delete = self->my_size;
    block_task_dtor(self);
#if defined(PFE_INPUT)
    for (unsigned k = 0; k < max_block_size; ++k)
        OBLIGATION(self->block_iteration_space[k].state == (k < g_size_at_delete ? 2 : 0), "C05.pfe.block: the destructor destroys exactly the my_size item copies that were constructed; the rest of the block is raw memory and is not touched");
#endif
    g_blk_deleted++; g_blk_freed = true; free(self);
}
#define DELETE_OBJECT(a, self, ed) delete_block(self)
#if defined(PFE_INPUT)
#include "pfe_block_input.inc"
#else
#include "pfe_block_forward.inc"
#endif
static struct block_task *alloc_block(void) { struct block_task *b = malloc(sizeof(struct block_task)); __CPROVER_assume(b != NULL);
#if defined(PFE_INPUT)
    for (unsigned k = 0; k < max_block_size; ++k) b->block_iteration_space[k].state = 0;
#endif
    BLK = b; g_blk_freed = false; return b; }
#endif

#ifdef PFE_BLOCK
static void spawn_(void *t, task_group_context *c) {
    struct iteration_task *p = (struct iteration_task *)t;
    OBLIGATION(p >= &BLK->task_pool[1] && p < &BLK->task_pool[max_block_size] && (size_t)(p - BLK->task_pool) < BLK->my_size, "C05.pfe.block: only iteration tasks 1..my_size-1 of the block are spawned (slots >= my_size hold no element)");
    size_t k = (size_t)(p - BLK->task_pool);
    OBLIGATION(g_bw_reserved == g_started_total + 1, "C05.pfe.block: a child is counted in the block's wait context before it becomes runnable");
    OBLIGATION(c == &C, "C05.pfe.block: children run in the loop's context");
    g_started[k]++; g_started_total++;
}
static void execute_and_wait_(void *t, task_group_context *c1, wait_context *w, task_group_context *c2) {
    OBLIGATION(t == (void *)&BLK->task_pool[0] && w == &BLK->my_wait_context && c1 == &C && c2 == &C, "C05.pfe.block: the block runs its first iteration task itself and waits on its own wait context");
    OBLIGATION(g_bw_reserved == g_started_total + 1, "C05.pfe.block: the first child is counted in the block's wait context before it is run");
    g_started[0]++; g_started_total++; g_waits++;
    /* every started child runs (or is cancelled) and releases the block's context exactly once (job pfe.iter.*); the wait returns when the count is zero */
    w->refs -= g_started_total;
    OBLIGATION(w->refs == 0, "C05.pfe.block: the block's wait ends exactly when all started children have finished: no reference is missing (early return) and none is left over (the wait would never end)");
}
size_t IN_size, IN_first;
void h_pfe_block(void) {
    execution_data ed; ed.context = &C; small_object_allocator a; a.pool = nondet_ptr();
    mk_seq(); mk_root_wait(1);                       /* the root task reserved one reference for this block before handing it out (job pfe.root.*) */
#ifdef FEEDER_REQUIRED
    struct feeder_impl *fp = &F;
#else
    struct feeder_impl *fp = NULL;
#endif
    struct block_task *b = alloc_block();
    size_t n = IN_size = nondet_size_t(); __CPROVER_assume(n >= 1 && n <= max_block_size);
    size_t f = IN_first = nondet_size_t(); __CPROVER_assume(f >= g_first0 && f <= g_last && g_last - f >= n);
#if defined(PFE_INPUT)
    block_task_ctor(b, &W, &C, &B, fp, &a);
    OBLIGATION(b->my_size == 0, "C05.pfe.block: a fresh input block holds no items");
    for (unsigned k = 0; k < max_block_size; ++k)
        OBLIGATION(b->task_pool[k].item_ptr == &b->block_iteration_space[k] && b->task_pool[k].my_body == &B && b->task_pool[k].my_feeder_ptr == fp && b->task_pool[k].parent_wait_context == &b->my_wait_context,
                   "C05.pfe.block: iteration task k of an input block is bound to item slot k of the same block, to the body, the feeder and the block's own wait context");
    for (unsigned k = 0; k < max_block_size; ++k) if (k < n) { b->block_iteration_space[k].src = f + k; b->block_iteration_space[k].state = 1; }   /* what root::execute leaves (job pfe.root.input) */
    b->my_size = n;
#else
    block_task_ctor(b, f, n, &W, &C, &B, fp, &a);
    OBLIGATION(b->my_size == n, "C05.pfe.block: a forward block remembers how many elements it was given");
    for (unsigned k = 0; k < max_block_size; ++k) if (k < n)
        OBLIGATION(b->task_pool[k].item_ptr == f + k && b->task_pool[k].my_body == &B && b->task_pool[k].my_feeder_ptr == fp && b->task_pool[k].parent_wait_context == &b->my_wait_context,
                   "C05.pfe.block: iteration task k of a forward block is bound to element first+k, to the body, the feeder and the block's own wait context");
#endif
    __CPROVER_assume(b->my_size == n);               /* just checked; keeps a broken constructor from also exhausting the unwinding bound below */
    OBLIGATION(b->my_wait_context.refs == 0 && b->my_root_wait_context == &W && b->my_execution_context == &C && b->my_allocator.pool == a.pool && g_mine == 1 && g_releases == 0 && g_reserves == 0,
               "C05.pfe.block: the block starts with no counted children, remembers the root wait context, the loop's context and its allocator; constructing it touches no reference count");
    for (unsigned k = 0; k < 8; ++k) g_started[k] = 0;
    g_started_total = g_bw_reserved = g_waits = g_blk_deleted = g_item_dtors = g_task_dtors = 0;
    bool cancel = nondet_bool();
    task *r = cancel ? block_task_cancel(b, &ed) : block_task_execute(b, &ed);
    for (unsigned k = 0; k < max_block_size; ++k)
        OBLIGATION(g_started[k] == ((!cancel && k < n) ? 1 : 0), "C05.pfe.block: each of the my_size iteration tasks is started exactly once (spawned, or run by the block itself); no other slot is started; a cancelled block starts none");
    OBLIGATION(cancel || g_waits == 1, "C05.pfe.block: the block waits for its children once");
    OBLIGATION(g_releases == 1 && g_mine == 0 && g_reserves == 0, "C05.pfe.block: the block gives back the root reference that was reserved for it exactly once, after its children are done");
    OBLIGATION(g_blk_deleted == 1 && r == NULL, "C05.pfe.block: the block deletes itself once and returns no task");
#if defined(PFE_INPUT)
    OBLIGATION(g_item_dtors == n, "C05.pfe.block: every item copy is destroyed exactly once");
#endif
    VACUITY_END();
}
#endif /* PFE_BLOCK */

#ifdef PFE_ROOT
/* ---------------------------------------------------------------- for_each_root_task (input / forward / random access), for_each_root_task_base, feeder_holder, run_parallel_for_each */
#ifdef FEEDER_REQUIRED
struct feeder_holder { struct feeder_impl my_feeder; };
#define INIT_fi_my_body_1(s, e) ((s)->my_body = &(e))
#define INIT_fi_my_wait_context_1(s, e) ((s)->my_wait_context = &(e))
#define INIT_fi_my_execution_context_1(s, e) ((s)->my_execution_context = &(e))
void feeder_impl_ctor(struct feeder_impl *self, const Body *body, wait_context_vertex *w_context, task_group_context *context);
#define INIT_fh_my_feeder_3(s, b, w, c) feeder_impl_ctor(&(s)->my_feeder, &(b), &(w), &(c))
#else
struct feeder_holder { int no_feeder; };
#endif
struct root_task { Iterator my_first; Iterator my_last; wait_context_vertex *my_wait_context; task_group_context *my_execution_context; const Body *my_body; struct feeder_holder my_feeder_holder; };
struct pfe_wrapper { Iterator my_first; const Body *my_body; struct feeder_impl *my_feeder_ptr; };
#define INIT_root_my_first_1(s, e) ((s)->my_first = (e))
#define INIT_root_my_last_1(s, e) ((s)->my_last = (e))
#define INIT_root_my_wait_context_1(s, e) ((s)->my_wait_context = &(e))
#define INIT_root_my_execution_context_1(s, e) ((s)->my_execution_context = &(e))
#define INIT_root_my_body_1(s, e) ((s)->my_body = &(e))
#define INIT_root_my_feeder_holder_3(s, w, c, b) feeder_holder_ctor(&(s)->my_feeder_holder, &(w), &(c), &(b))
#define INIT_pw_my_first_1(s, e) ((s)->my_first = (e))
#define INIT_pw_my_body_1(s, e) ((s)->my_body = &(e))
#define INIT_pw_my_feeder_ptr_1(s, e) ((s)->my_feeder_ptr = (e))
static struct root_task *ROOT; bool g_root_published; unsigned g_root_spawns, g_block_allocs, g_pf_calls, g_ew_calls;
size_t g_first_at_spawn, g_last_at_spawn; long g_mine_at_spawn; size_t g_blk_size_at_spawn;
#if defined(PFE_INPUT)
#define NEW_block_task(a, ed, w, c, b, fp, a2) ({ struct block_task *t_ = alloc_block(); g_block_allocs++; block_task_ctor(t_, &(w), &(c), &(b), (fp), &(a2)); t_; })
static void new_at_item(Item *place, Item v) { OBLIGATION(place->state == 0, "C05.pfe.root: an item copy is constructed into raw block memory (each slot at most once)"); *place = v; }
#define NEW_AT_Item(place, v) new_at_item((place), (v))
#else
#define NEW_block_task(a, ed, f, n, w, c, b, fp, a2) ({ struct block_task *t_ = alloc_block(); g_block_allocs++; block_task_ctor(t_, (f), (n), &(w), &(c), &(b), (fp), &(a2)); t_; })
#endif
/* ghost monitor on the block-filling loop: on a conforming run it is a no-op; a loop that would take more than max_block_size elements fails here instead of exhausting the unwinding bound */
unsigned g_fill_iter;
#define LOOP_root_execute_1 if (g_fill_iter++ >= max_block_size) { OBLIGATION(false, "C05.pfe.root: the loop that fills a block stops after at most max_block_size elements"); break; } else
/* spawn(*this): from here on another thread may run the root task again: its iteration state must not be touched any more (the object is poisoned by free) */
static void spawn_(void *t, task_group_context *c) {
    OBLIGATION(t == (void *)ROOT && !g_root_published && c == &C, "C05.pfe.root: the root task re-spawns itself, once, in the loop's context");
    g_first_at_spawn = ROOT->my_first; g_last_at_spawn = ROOT->my_last; g_mine_at_spawn = g_mine; g_blk_size_at_spawn = BLK ? BLK->my_size : 0;
    g_root_spawns++; g_root_published = true;
    g_mine -= 1;                                     /* the root's own reference travels with the re-spawned root */
    free(ROOT);
}
struct root_task *g_ew_task; wait_context *g_ew_w; task_group_context *g_ew_c1, *g_ew_c2; long g_ew_refs; size_t g_ew_first, g_ew_last; const Body *g_ew_body; wait_context *g_ew_task_w; struct feeder_impl *g_ew_fp;
static struct feeder_impl *feeder_holder_feeder_ptr(struct feeder_holder *self);
static void execute_and_wait_(void *t, task_group_context *c1, wait_context *w, task_group_context *c2) {
    g_ew_calls++; g_ew_task = (struct root_task *)t; g_ew_w = w; g_ew_c1 = c1; g_ew_c2 = c2; g_ew_refs = w->refs;
    g_ew_first = g_ew_task->my_first; g_ew_last = g_ew_task->my_last; g_ew_body = g_ew_task->my_body; g_ew_task_w = g_ew_task->my_wait_context; g_ew_fp = feeder_holder_feeder_ptr(&g_ew_task->my_feeder_holder);
}
#define ITER_DISTANCE(a, b) ((b) - (a))
#define MK_RANGE(b, e) ({ struct blocked_range r_; blocked_range_ctor(&r_, (b), (e), 1); r_; })      /* blocked_range(begin, end, grainsize = 1) */
void pfe_wrapper_ctor(struct pfe_wrapper *self, Iterator first, const Body *body, struct feeder_impl *feeder_ptr);
#define MK_WRAPPER(f, b, fp) ({ struct pfe_wrapper w_; pfe_wrapper_ctor(&w_, (f), &(b), (fp)); w_; })
struct blocked_range g_pf_range; struct pfe_wrapper g_pf_wrapper; task_group_context *g_pf_ctx; long g_mine_at_pf;
static void stub_parallel_for(struct blocked_range r, struct pfe_wrapper w, task_group_context *c) { g_pf_calls++; g_pf_range = r; g_pf_wrapper = w; g_pf_ctx = c; g_mine_at_pf = g_mine; }
#define STUB_parallel_for(r, w, c) stub_parallel_for((r), (w), &(c))
#define LOOP_pfe_wrapper_1
#include "pfe_wrapper.inc"
#include "pfe_root.inc"
#ifdef FEEDER_REQUIRED
#include "pfe_feeder_impl_ctor.inc"
#endif
#if defined(PFE_INPUT)
#include "pfe_root_input.inc"
#elif defined(PFE_FORWARD)
#include "pfe_root_forward.inc"
#else
#include "pfe_root_random.inc"
#endif
size_t IN_first, IN_last;
static struct root_task *mk_root(size_t f, size_t l) {
    struct root_task *r = malloc(sizeof(struct root_task)); __CPROVER_assume(r != NULL);
    ROOT = r; BLK = NULL; g_fill_iter = 0; g_root_published = false; g_root_spawns = g_block_allocs = g_pf_calls = g_ew_calls = 0;
    root_task_ctor(r, f, l, &B, &W, &C);
    return r;
}
void h_pfe_root(void) {
    execution_data ed; ed.context = &C;
    mk_seq(); mk_root_wait(0);
    size_t f = IN_first = g_first0, l = IN_last = g_last;         /* an arbitrary execution of the root: [f,l) is what is still to be handed out */
    struct root_task *r = mk_root(f, l);
    OBLIGATION(r->my_first == f && r->my_last == l && r->my_body == &B && r->my_wait_context == &W && r->my_execution_context == &C, "C05.pfe.root: the root task covers exactly [first,last) with the caller's body, wait context and task group context");
    OBLIGATION(g_mine == 1 && g_reserves == 1 && g_releases == 0, "C05.pfe.root: the root task holds one reference on the wait context from its construction on");
#ifdef FEEDER_REQUIRED
    struct feeder_impl *fp = feeder_holder_feeder_ptr(&r->my_feeder_holder);
    OBLIGATION(fp == &r->my_feeder_holder.my_feeder && fp->my_body == &B && fp->my_wait_context == &W && fp->my_execution_context == &C, "C05.pfe.root: a body that takes a feeder gets a feeder bound to the loop's body, root wait context and task group context");
#else
    struct feeder_impl *fp = feeder_holder_feeder_ptr(&r->my_feeder_holder);
    OBLIGATION(fp == NULL, "C05.pfe.root: no feeder is created for a body that does not take one");
#endif
    g_reserves = g_releases = 0;
    bool cancel = nondet_bool();
    task *ret = cancel ? root_task_cancel(r, &ed) : root_task_execute(r, &ed);
    if (cancel) {
        OBLIGATION(g_releases == 1 && g_mine == 0 && g_reserves == 0 && ret == NULL && g_root_spawns == 0 && g_block_allocs == 0 && g_calls_total == 0 && g_deref_total == 0, "C05.pfe.root: a cancelled root gives back its reference once and starts nothing");
    }
#if defined(PFE_RANDOM)
    else {
        OBLIGATION(g_pf_calls == 1 && g_pf_range.my_begin == 0 && g_pf_range.my_end == l - f && g_pf_range.my_grainsize == 1, "C05.pfe.random: random-access input is run as one parallel_for over exactly the index space [0, last-first)");
        OBLIGATION(g_pf_wrapper.my_first == f && g_pf_wrapper.my_body == &B && g_pf_wrapper.my_feeder_ptr == fp && g_pf_ctx == &C, "C05.pfe.random: index i of that loop stands for element first+i; the user's body, feeder and context are passed on");
        OBLIGATION(g_mine_at_pf == 1 && g_releases == 1 && g_mine == 0 && g_reserves == 0 && ret == NULL && g_root_spawns == 0, "C05.pfe.random: the root keeps its reference while the inner loop runs and gives it back exactly once afterwards");
    }
#else
    else if (f == l) {
        OBLIGATION(g_releases == 1 && g_mine == 0 && g_reserves == 0 && ret == NULL && g_root_spawns == 0 && g_block_allocs == 0 && g_deref_total == 0, "C05.pfe.root: when the sequence is exhausted the root gives back its reference exactly once and creates nothing more");
    } else {
        size_t n = l - f < max_block_size ? l - f : max_block_size;
        OBLIGATION(g_block_allocs == 1 && ret == (task *)BLK && !g_blk_freed && g_root_spawns == 1, "C05.pfe.root: one block task is created and returned for execution; the root re-spawns itself once");
        OBLIGATION(BLK->my_size == n && n >= 1, "C05.pfe.root: the block takes min(remaining, max_block_size) elements: a non-empty block, the last one holds the remainder");
        OBLIGATION(g_first_at_spawn == f + n && g_last_at_spawn == l && g_blk_size_at_spawn == n, "C05.pfe.root: when the root becomes runnable again it stands exactly behind the block's last element and the block is complete (blocks tile the sequence, no element twice, none skipped)");
        OBLIGATION(g_mine_at_spawn == 2 && g_reserves == 1 && g_releases == 0 && g_mine == 1, "C05.pfe.root: a reference for the block is reserved before the root is re-spawned and before the block is handed to the scheduler; the root keeps its own");
        OBLIGATION(BLK->my_root_wait_context == &W && BLK->my_execution_context == &C && BLK->my_wait_context.refs == 0, "C05.pfe.root: the block reports to the loop's root wait context and runs in the loop's context");
        for (unsigned k = 0; k < max_block_size; ++k) {
            OBLIGATION(BLK->task_pool[k].my_body == &B && BLK->task_pool[k].my_feeder_ptr == fp || k >= n, "C05.pfe.root: the block's iteration tasks apply the user's body with the loop's feeder");
#if defined(PFE_INPUT)
            OBLIGATION(k < n ? (BLK->block_iteration_space[k].state == 1 && BLK->block_iteration_space[k].src == f + k) : BLK->block_iteration_space[k].state == 0,
                       "C05.pfe.root: block slot k < my_size holds a copy of element first+k, in order; slots >= my_size stay raw memory");
#else
            OBLIGATION(k >= n || BLK->task_pool[k].item_ptr == f + k, "C05.pfe.root: iteration task k < my_size of the block is bound to element first+k");
#endif
        }
#if defined(PFE_INPUT)
        OBLIGATION(g_deref_k == ((g_k >= f && g_k < f + n) ? 1 : 0), "C05.pfe.root: every element of the block is read from the input iterator exactly once (a second read of a move iterator would copy a moved-from element), no element behind the block is read");
#else
#endif
    }
#endif
    VACUITY_END();
}
#include "pfe_run.inc"
void h_pfe_run(void) {
    mk_seq(); g_ew_calls = 0; g_reserves = g_releases = 0; g_mine = 0; g_plain_wait = true; BLK = NULL;
    size_t f = IN_first = g_first0, l = IN_last = g_last;
    run_parallel_for_each(f, l, &B, &C);
    OBLIGATION(g_ew_calls <= 1 && (f == l || g_ew_calls == 1), "C05.pfe.run: a non-empty sequence is handed to exactly one root task and waited for (an empty one to at most one)");
    OBLIGATION(g_calls_total == 0 && g_deref_total == 0, "C05.pfe.run: the set-up itself touches no element");
    if (g_ew_calls == 1) {
        OBLIGATION(g_ew_first == f && g_ew_last == l && g_ew_body == &B && g_ew_c1 == &C && g_ew_c2 == &C, "C05.pfe.run: the root task covers exactly [first,last) with the caller's body and runs in the caller's context");
        OBLIGATION(g_ew_w == g_ew_task_w && g_ew_refs == 1, "C05.pfe.run: the caller waits on the very wait context the root task reports to, and the root's reference is already counted when the wait starts");
    }
    VACUITY_END();
}
#endif /* PFE_ROOT */

#ifdef PFE_FEEDER
/* ---------------------------------------------------------------- feeder_impl::internal_add_copy / internal_add_move, feeder_item_task */
struct feeder_item_task { Item item; struct feeder_impl *my_feeder; small_object_allocator my_allocator; wait_tree_vertex_interface *m_wait_tree_vertex; };
#define INIT_fi_my_body_1(s, e) ((s)->my_body = &(e))
#define INIT_fi_my_wait_context_1(s, e) ((s)->my_wait_context = &(e))
#define INIT_fi_my_execution_context_1(s, e) ((s)->my_execution_context = &(e))
#define INIT_ft_item_1(s, e) ((s)->item = (e))
#define INIT_ft_my_feeder_1(s, e) ((s)->my_feeder = &(e))
#define INIT_ft_my_allocator_1(s, e) ((s)->my_allocator = (e))
#define INIT_ft_m_wait_tree_vertex_1(s, e) ((s)->m_wait_tree_vertex = (e))
static void block_ref(wait_context *w, long d) { OBLIGATION(false, "C05.pfe.feeder: a feeder task only uses the loop's root wait context (through its thread's reference vertex)"); }
static wait_tree_vertex_interface *STUB_get_thread_reference_vertex(wait_tree_vertex_interface *parent) { g_vertex_parent = parent; return &g_thread_vertex; }
static struct feeder_item_task *FT; unsigned g_ft_allocs, g_ft_spawns, g_ft_deleted; long g_mine_at_ft_spawn; bool g_ft_freed; Item g_ft_item_at_spawn; struct feeder_impl *g_ft_feeder_at_spawn;
static struct feeder_item_task *alloc_ftask(void) { struct feeder_item_task *t = malloc(sizeof(struct feeder_item_task)); __CPROVER_assume(t != NULL); FT = t; g_ft_allocs++; g_ft_freed = false; return t; }
void feeder_item_task_ctor(struct feeder_item_task *self, ITEM_ARG input_item, struct feeder_impl *feeder, small_object_allocator *alloc, wait_tree_vertex_interface *wait_vertex);
#define NEW_feeder_item_task(a, item, feeder, a2, wv) ({ struct feeder_item_task *t_ = alloc_ftask(); feeder_item_task_ctor(t_, (item), &(feeder), &(a2), &(wv)); t_; })
static void spawn_(void *t, task_group_context *c) {
    OBLIGATION(t == (void *)FT && c == &C, "C05.pfe.feeder: the task spawned is the new feeder task, in the loop's context");
    g_ft_spawns++; g_mine_at_ft_spawn = g_mine; g_ft_item_at_spawn = FT->item; g_ft_feeder_at_spawn = FT->my_feeder;
    g_mine -= 1;                                     /* the reference travels with the spawned task */
}
#define SPAWN(t, c) spawn_((void *)&(t), &(c))
static void delete_ftask(struct feeder_item_task *self) { OBLIGATION(self == FT && !g_ft_freed, "C05.pfe.feeder: the feeder task deletes itself, once"); g_ft_deleted++; g_ft_freed = true; free(self); }
#define DELETE_OBJECT(a, self, ed) delete_ftask(self)
static void feeder_item_task_call_first(const Body *call_body, Item *call_item, struct feeder_impl *call_feeder);
static void feeder_item_task_call_second(const Body *call_body, Item *call_item, struct feeder_impl *call_feeder);
/* call(body, item, feeder, first_priority{}): overload resolution picks the rvalue form when the body accepts Item&&, else the lvalue form; my_feeder.my_body is a reference member (pointer here) */
#define FEEDER_TASK_CALL(bodyp, item, feeder) (nondet_bool() ? feeder_item_task_call_first((bodyp), &(item), &(feeder)) : feeder_item_task_call_second((bodyp), &(item), &(feeder)))
#include "pfe_feeder_impl_ctor.inc"
#include "pfe_feeder.inc"
size_t IN_src; bool IN_move;
static void mk_feeder(void) {
    mk_seq(); g_ft_allocs = g_ft_spawns = g_ft_deleted = 0; g_thread_vertex.refs = nondet_long(); __CPROVER_assume(g_thread_vertex.refs >= 0 && g_thread_vertex.refs < (1L << 40)); g_vertex_parent = NULL;
    feeder_impl_ctor(&F, &B, &W, &C);
}
void h_pfe_feeder_add(void) {
    mk_feeder(); mk_root_wait(0);                    /* the caller is a running body: its own task's reference is not ours to count */
    OBLIGATION(F.my_body == &B && F.my_wait_context == &W && F.my_execution_context == &C, "C05.pfe.feeder: the feeder is bound to the loop's body, root wait context and task group context");
    Item it; it.src = IN_src = nondet_size_t(); it.state = 1;
    bool mv = IN_move = nondet_bool();
    if (mv) feeder_impl_internal_add_move(&F, &it); else feeder_impl_internal_add_copy(&F, &it);
    OBLIGATION(g_ft_allocs == 1 && g_ft_spawns == 1, "C05.pfe.feeder: add() creates exactly one task for the added item and spawns it once");
    OBLIGATION(g_ft_item_at_spawn.src == it.src && g_ft_item_at_spawn.state == 1 && g_ft_feeder_at_spawn == &F, "C05.pfe.feeder: the task carries its own copy of exactly the added item and the feeder it came from");
    OBLIGATION(g_mine_at_ft_spawn == 1 && g_reserves == 1 && g_releases == 0 && g_mine == 0, "C05.pfe.feeder: one reference on the root wait context is reserved for the added item before its task becomes runnable (the loop cannot finish before the item is processed)");
    OBLIGATION(g_calls_total == 0, "C05.pfe.feeder: add() itself does not run the body");
    VACUITY_END();
}
void h_pfe_feeder_task(void) {
    execution_data ed; ed.context = &C; small_object_allocator a; a.pool = nondet_ptr();
    mk_feeder(); mk_root_wait(0);
    Item it; it.src = IN_src = nondet_size_t(); it.state = 1;
    struct feeder_item_task *t = alloc_ftask();
    feeder_item_task_ctor(t, it, &F, &a, &W);
    OBLIGATION(g_mine == 1 && g_reserves == 1 && t->item.src == it.src && t->my_feeder == &F && t->m_wait_tree_vertex == &g_thread_vertex && g_vertex_parent == &W, "C05.pfe.feeder: a constructed feeder task holds one reference under the root wait context, its item and its feeder");
    g_reserves = g_releases = 0;
    bool cancel = nondet_bool();
    task *r = cancel ? feeder_item_task_cancel(t, &ed) : feeder_item_task_execute(t, &ed);
    if (!cancel) {
        OBLIGATION(g_calls_total == 1 && g_last_src == it.src && g_call_body == &B && g_call_with_feeder && g_call_feeder == &F, "C05.pfe.feeder: an added item gets the user's body applied exactly once, with the same feeder");
        OBLIGATION(g_mine_at_call == 1 && g_calls_at_release == 1, "C05.pfe.feeder: the item's reference is held while the body runs and released after it has returned");
    } else OBLIGATION(g_calls_total == 0, "C05.pfe.feeder: a cancelled feeder task does not run the body");
    OBLIGATION(g_releases == 1 && g_reserves == 0 && g_mine == 0 && g_ft_deleted == 1 && r == NULL, "C05.pfe.feeder: executed or cancelled, the feeder task gives back its reference exactly once and deletes itself once");
    VACUITY_END();
}
#endif /* PFE_FEEDER */

#ifdef PFE_WRAP
/* ---------------------------------------------------------------- parallel_for_body_wrapper::operator() of parallel_for_each (random-access iterators): LC, any chunk */
struct pfe_wrapper { Iterator my_first; const Body *my_body; struct feeder_impl *my_feeder_ptr; };
#define INIT_pw_my_first_1(s, e) ((s)->my_first = (e))
#define INIT_pw_my_body_1(s, e) ((s)->my_body = &(e))
#define INIT_pw_my_feeder_ptr_1(s, e) ((s)->my_feeder_ptr = (e))
static void block_ref(wait_context *w, long d) { }
size_t g_wb, g_we, g_wf;
#define IN_CHUNK(i) ((i) >= g_wb && (i) < g_we)
#define LOOP_pfe_wrapper_1 __CPROVER_assigns(count, g_calls_total, g_calls_k, g_deref_total, g_deref_k, g_last_src, g_call_body, g_call_feeder, g_call_with_feeder, g_mine_at_call) \
    __CPROVER_loop_invariant(g_wb <= count && count <= g_we && g_calls_total == count - g_wb && g_calls_k == ((g_k >= g_wf + g_wb && g_k < g_wf + count) ? 1 : 0) && g_deref_k == g_calls_k \
        && (count == g_wb || (g_last_src == g_wf + count - 1 && g_call_body == &B))) \
    __CPROVER_decreases(g_we - count)
#include "pfe_wrapper.inc"
size_t IN_first, IN_b, IN_e, IN_k;
void h_pfe_wrapper(void) {
    mk_seq();
    size_t f = IN_first = g_first0; IN_k = g_k;
    size_t b = IN_b = nondet_size_t(), e = IN_e = nondet_size_t();
    __CPROVER_assume(b <= e && e <= g_last - f);                      /* a chunk of the index space [0, last-first) handed out by parallel_for (jobs exec.*, br.split.*) */
    g_wb = b; g_we = e; g_wf = f;
#ifdef FEEDER_REQUIRED
    struct feeder_impl *fp = &F;
#else
    struct feeder_impl *fp = NULL;
#endif
    struct pfe_wrapper w; pfe_wrapper_ctor(&w, f, &B, fp);
    struct blocked_range r; blocked_range_ctor(&r, b, e, 1);
    pfe_wrapper_call(&w, r);
    OBLIGATION(g_calls_total == e - b, "C05.pfe.wrapper: a chunk [b,e) of the index space makes e-b body calls");
    OBLIGATION(g_calls_k == ((g_k >= f + b && g_k < f + e) ? 1 : 0), "C05.pfe.wrapper: element first+i gets the body applied exactly once for every index i of the chunk, and no other element is touched");
    VACUITY_END();
}
#endif /* PFE_WRAP */
#endif /* PFE */

#ifdef INVOKE
/* ================================================================== parallel_invoke.h
   The user's functions are numbered; Fn.idx is the number of a function, a pack fs... is the interval [base, base+n) of numbers.
   g_k is one arbitrary function number: "function g_k is called / started exactly once" stands for every function.
   Root wait context accounting as for parallel_for_each: g_mine = references held by the code under proof for entities it has not yet made runnable. */
typedef void task;
typedef struct task_group_context { int traits; } task_group_context;
typedef struct execution_data { task_group_context *context; } execution_data;
typedef struct small_object_allocator { void *pool; } small_object_allocator;
typedef struct wait_context { long refs; } wait_context;
typedef struct Fn { size_t idx; } Fn;
typedef struct FN_PACK { size_t base, n; } FN_PACK;
#define PARALLEL_INVOKE 11
#define ALLOCATOR_INIT(a) ((a).pool = NULL)
#define CONTEXT_CTOR(c, t) ((c).traits = (t))
#define WAIT_CTOR(w, n) ((w).refs = (n))
#define VERIF_STATIC_ASSERT(c, m) __CPROVER_assert((c), "static_assert: " m)
struct invoke_root_task { wait_context *my_wait_context; };
struct invoke_subroot_task;
struct function_invoker_r { const Fn *my_function; struct invoke_root_task *parent_wait_ctx; };
struct function_invoker_s { const Fn *my_function; struct invoke_subroot_task *parent_wait_ctx; };
struct invoke_subroot_task { wait_context *root_wait_ctx; unsigned ref_count; bool child_spawned; const Fn *self_invoked_functor; struct function_invoker_s f2_invoker; struct function_invoker_s f3_invoker;
                             task_group_context *my_execution_context; small_object_allocator my_allocator; };
#define INIT_inv_my_function_1(s, e) ((s)->my_function = &(e))
#define INIT_inv_parent_wait_ctx_1(s, e) ((s)->parent_wait_ctx = &(e))
#define INIT_rt_my_wait_context_1(s, e) ((s)->my_wait_context = &(e))
#define INIT_sub_root_wait_ctx_1(s, e) ((s)->root_wait_ctx = &(e))
#define INIT_sub_ref_count_1(s, e) ((s)->ref_count = (e))
#define INIT_sub_child_spawned_1(s, e) ((s)->child_spawned = (e))
#define INIT_sub_self_invoked_functor_1(s, e) ((s)->self_invoked_functor = &(e))
#define INIT_sub_f2_invoker_2(s, f, me) function_invoker_s_ctor(&(s)->f2_invoker, &(f), &(me))
#define INIT_sub_f3_invoker_2(s, f, me) function_invoker_s_ctor(&(s)->f3_invoker, &(f), &(me))
#define INIT_sub_my_execution_context_1(s, e) ((s)->my_execution_context = &(e))
#define INIT_sub_my_allocator_1(s, e) ((s)->my_allocator = (e))
size_t g_k; unsigned g_fn_calls, g_fn_calls_k; size_t g_last_idx; unsigned g_releases, g_reserves, g_calls_at_release;
static wait_context W; static task_group_context C; long g_others, g_mine, g_mine_at_call;
static void fn_call(const Fn *f) { g_fn_calls++; if (f->idx == g_k) g_fn_calls_k++; g_last_idx = f->idx; g_mine_at_call = g_mine; }
#define FN_CALL(f) fn_call(&(f))
bool g_plain_wait;
static void wait_op(wait_context *w, long d) {
    if (g_plain_wait) { w->refs += d; return; }
    __CPROVER_assert(w == &W, "C05.invoke: the only wait context used is the root wait context of the parallel_invoke call");
    g_others = nondet_long(); __CPROVER_assume(g_others >= 0 && g_others < (1L << 40)); W.refs = g_others + g_mine;        /* sub-roots and invokers of other levels come and go */
    if (d < 0) { OBLIGATION(g_mine >= -d, "C05.invoke.wait: only a reference that is held is released (the root count cannot reach zero while a function is outstanding)"); g_releases++; g_calls_at_release = g_fn_calls; }
    else g_reserves++;
    W.refs += d; g_mine += d;
}
#define WAIT_RESERVE(w) wait_op(&(w), 1)
#define WAIT_RELEASE(w) wait_op(&(w), -1)
#define WAIT_RESERVE_N(w, n) wait_op(&(w), (n))
static void mk_root_wait(long mine) { g_mine = mine; g_others = nondet_long(); __CPROVER_assume(g_others >= 0 && g_others < (1L << 40)); W.refs = g_others + g_mine; g_releases = g_reserves = g_calls_at_release = 0; g_fn_calls = g_fn_calls_k = 0; g_k = nondet_size_t(); }
void function_invoker_s_ctor(struct function_invoker_s *self, const Fn *function, struct invoke_subroot_task *wait_ctx);
void invoke_subroot_task_release(struct invoke_subroot_task *self, const execution_data *ed);
#include "invoke_root.inc"
#include "invoke_invoker_r.inc"

#ifdef INV_SUB
/* ---------------------------------------------------------------- invoke_subroot_task: rely/guarantee on ref_count.
   INV: ref_count == number of parties (the sub-root itself, its f2 and f3 invokers) that hold an unreleased reference == g_sub_others + g_sub_mine.
   Rely: other parties only ever release (children are spawned by the sub-root itself, after the count was raised); a party whose release is not the last must not touch the
   sub-root any more: whoever is last deletes it (modelled by freeing the object at that moment, so that any later access fails a pointer check). */
static struct invoke_subroot_task *SUB; long g_sub_others, g_sub_mine; bool g_sub_freed; unsigned g_sub_deleted, g_spawn_f2, g_spawn_f3, g_finalized_with_others;
long g_sub_mine_at_spawn2, g_sub_mine_at_spawn3;
#define SUB_INV (g_sub_others >= 0 && g_sub_others <= 2 && g_sub_mine >= 0 && SUB->ref_count == (unsigned)(g_sub_others + g_sub_mine))
static void interfere(void) { if (g_sub_mine >= 1) { long o = nondet_long(); __CPROVER_assume(o >= 0 && o <= g_sub_others); g_sub_others = o; SUB->ref_count = (unsigned)(g_sub_others + g_sub_mine); } }
#define ASSERT_READ(x) (x)
#define ATOMIC_LOAD_AT(site, x) ({ interfere(); (x); })
#define ATOMIC_FETCH_ADD_AT(site, x, v) ({ interfere(); unsigned o_ = (x); (x) += (v); g_sub_mine += (v); __CPROVER_assert(SUB_INV, "guarantee: ref_count equals the number of unreleased parties, at " #site); o_; })
#define ATOMIC_PREDEC_AT(site, x) ({ interfere(); OBLIGATION(g_sub_mine >= 1, "C05.invoke.subroot: a party releases the sub-root only once (it holds a counted reference)"); unsigned r_ = --(x); g_sub_mine--; \
    __CPROVER_assert(SUB_INV, "guarantee: ref_count equals the number of unreleased parties, at " #site); \
    if (g_sub_mine == 0 && g_sub_others > 0) { g_sub_freed = true; free(SUB); }   /* not the last: the others may delete the sub-root from now on */ \
    r_; })
static void delete_sub(struct invoke_subroot_task *self) {
    OBLIGATION(self == SUB && !g_sub_freed && g_sub_deleted == 0, "C05.invoke.subroot: the sub-root is deleted once");
    if (g_sub_others != 0 || g_sub_mine != 0) g_finalized_with_others++;
    g_sub_deleted++; g_sub_freed = true; free(self);
}
#define DELETE_OBJECT(a, self, ed) delete_sub(self)
static void spawn_(void *t, task_group_context *c) {
    OBLIGATION(c == &C, "C05.invoke.subroot: children are spawned in the context of the parallel_invoke call");
    OBLIGATION(t == (void *)&SUB->f2_invoker || t == (void *)&SUB->f3_invoker, "C05.invoke.subroot: the tasks spawned are the sub-root's own two invokers");
    OBLIGATION(g_sub_mine >= 2, "C05.invoke.subroot: the count covers a child before the child becomes runnable (otherwise its release could delete the sub-root early, or twice)");
    if (t == (void *)&SUB->f2_invoker) { g_spawn_f2++; g_sub_mine_at_spawn2 = g_sub_mine; } else { g_spawn_f3++; g_sub_mine_at_spawn3 = g_sub_mine; }
    g_sub_mine--; g_sub_others++;                    /* that reference now belongs to the child */
}
#define SPAWN(t, c) spawn_((void *)&(t), &(c))
#define EXECUTE_AND_WAIT(t, c1, w, c2) __CPROVER_assert(false, "not used by the sub-root")
#include "invoke_invoker_s.inc"
#include "invoke_subroot.inc"
static Fn F1, F2, F3; size_t IN_base;
static struct invoke_subroot_task *mk_sub(void) {
    struct invoke_subroot_task *s = malloc(sizeof(struct invoke_subroot_task)); __CPROVER_assume(s != NULL);
    SUB = s; g_sub_freed = false; g_sub_deleted = g_spawn_f2 = g_spawn_f3 = g_finalized_with_others = 0; g_sub_others = g_sub_mine = 0;
    size_t b = IN_base = nondet_size_t(); __CPROVER_assume(b < ((size_t)1 << 62)); F1.idx = b; F2.idx = b + 1; F3.idx = b + 2;
    small_object_allocator a; a.pool = nondet_ptr();
    mk_root_wait(0);
    invoke_subroot_task_ctor(s, &F1, &F2, &F3, &W, &C, &a);
    return s;
}
void h_inv_subroot_ctor(void) {
    struct invoke_subroot_task *s = mk_sub();
    OBLIGATION(s->self_invoked_functor == &F1 && s->f2_invoker.my_function == &F2 && s->f3_invoker.my_function == &F3, "C05.invoke.subroot: the sub-root is bound to its three functions, one each (self, f2 invoker, f3 invoker)");
    OBLIGATION(s->f2_invoker.parent_wait_ctx == s && s->f3_invoker.parent_wait_ctx == s, "C05.invoke.subroot: both invokers report completion to this sub-root");
    OBLIGATION(s->ref_count == 0 && s->root_wait_ctx == &W && s->my_execution_context == &C, "C05.invoke.subroot: it starts with no counted parties, remembers the root wait context and the context");
    OBLIGATION(g_mine == 1 && g_reserves == 1 && g_releases == 0, "C05.invoke.subroot: constructing the sub-root reserves one reference on the root wait context (before it can be spawned)");
    VACUITY_END();
}
void h_inv_subroot_execute(void) {
    struct invoke_subroot_task *s = mk_sub(); execution_data ed; ed.context = &C;
    g_reserves = g_releases = 0;
    task *r = invoke_subroot_task_execute(s, &ed);
    OBLIGATION(g_fn_calls == 1 && g_last_idx == F1.idx, "C05.invoke.subroot: the sub-root calls its own (first) function exactly once");
    OBLIGATION(g_spawn_f2 == 1 && g_spawn_f3 == 1, "C05.invoke.subroot: each of the two invokers is spawned exactly once");
    OBLIGATION(g_sub_mine == 0, "C05.invoke.subroot: the sub-root gives up its own reference exactly once");
    OBLIGATION(g_sub_others == 0 ? (g_sub_deleted == 1 && g_releases == 1 && g_mine == 0) : (g_sub_deleted == 0 && g_releases == 0),
               "C05.invoke.subroot: the sub-root is finalized (root reference released once, object deleted once) by exactly the party whose release is the last one: never while a child is outstanding, and always when none is");
    OBLIGATION(g_finalized_with_others == 0 && r == NULL && g_reserves == 0, "C05.invoke.subroot: no finalization while references are outstanding");
    VACUITY_END();
}
void h_inv_subroot_child(void) {
    struct invoke_subroot_task *s = mk_sub(); execution_data ed; ed.context = &C;
    /* state after the sub-root's execute() has raised the count and spawned both children: this thread is one of the children, the other parties may or may not have released yet */
    g_sub_mine = 1; g_sub_others = nondet_long(); __CPROVER_assume(g_sub_others >= 0 && g_sub_others <= 2); s->ref_count = (unsigned)(g_sub_others + g_sub_mine);
    g_reserves = g_releases = 0;
    bool second = nondet_bool(), cancel = nondet_bool();
    struct function_invoker_s *me = second ? &s->f2_invoker : &s->f3_invoker;
    task *r = cancel ? function_invoker_s_cancel(me, &ed) : function_invoker_s_execute(me, &ed);
    if (!cancel) OBLIGATION(g_fn_calls == 1 && g_last_idx == (second ? F2.idx : F3.idx), "C05.invoke.invoker: a spawned invoker calls its own function exactly once");
    else OBLIGATION(g_fn_calls == 0, "C05.invoke.invoker: a cancelled invoker does not call its function");
    OBLIGATION(g_sub_mine == 0, "C05.invoke.invoker: executed or cancelled, the invoker releases its sub-root exactly once");
    OBLIGATION(g_sub_others == 0 ? (g_sub_deleted == 1 && g_releases == 1 && g_mine == 0) : (g_sub_deleted == 0 && g_releases == 0),
               "C05.invoke.subroot: the sub-root is finalized (root reference released once, object deleted once) by exactly the party whose release is the last one: never while a child is outstanding, and always when none is");
    OBLIGATION(cancel || g_calls_at_release == 1 || g_releases == 0, "C05.invoke.invoker: completion is reported only after the function has returned");
    OBLIGATION(g_finalized_with_others == 0 && r == NULL, "C05.invoke.subroot: no finalization while references are outstanding");
    VACUITY_END();
}
void h_inv_subroot_cancel(void) {
    struct invoke_subroot_task *s = mk_sub(); execution_data ed; ed.context = &C;
    g_reserves = g_releases = 0;                     /* a task is either executed or cancelled: a cancelled sub-root has never raised its count nor spawned children */
    task *r = invoke_subroot_task_cancel(s, &ed);
    OBLIGATION(g_fn_calls == 0 && g_spawn_f2 == 0 && g_spawn_f3 == 0, "C05.invoke.subroot: a cancelled sub-root calls and spawns nothing");
    OBLIGATION(g_sub_deleted == 1 && g_releases == 1 && g_mine == 0 && r == NULL, "C05.invoke.subroot: a cancelled sub-root still gives back its root reference once and deletes itself once");
    VACUITY_END();
}
#endif /* INV_SUB */

#ifdef INV_SEP
/* ---------------------------------------------------------------- invoke_recursive_separation / parallel_invoke_impl */
#ifndef SEP_N
#define SEP_N 3
#endif
static Fn FN[4]; size_t g_base; unsigned g_started[4], g_started_total, g_waits, g_started_at_wait;
static struct invoke_subroot_task *SUB; unsigned g_sub_allocs, g_sub_spawns, g_rest_calls; FN_PACK g_rest_pack; unsigned g_sub_spawns_at_rest;
void invoke_subroot_task_ctor(struct invoke_subroot_task *self, const Fn *f1, const Fn *f2, const Fn *f3, wait_context *wait_ctx, task_group_context *context, small_object_allocator *alloc);
#define NEW_subroot(a, f1, f2, f3, w, c, a2) ({ struct invoke_subroot_task *t_ = malloc(sizeof(struct invoke_subroot_task)); __CPROVER_assume(t_ != NULL); SUB = t_; g_sub_allocs++; invoke_subroot_task_ctor(t_, &(f1), &(f2), &(f3), &(w), &(c), &(a2)); t_; })
static void start_invoker(struct function_invoker_r *inv) {
    OBLIGATION(inv->parent_wait_ctx != NULL && inv->parent_wait_ctx->my_wait_context == &W, "C05.invoke.sep: every invoker reports completion to the root wait context of this call");
    size_t j = inv->my_function->idx - g_base;
    OBLIGATION(j < SEP_N, "C05.invoke.sep: the invoker started is bound to one of this call's functions");
    if (j < 4) g_started[j]++;
    g_started_total++;
    OBLIGATION(g_mine >= 1, "C05.invoke.sep: the root count covers an invoker before it becomes runnable");
    g_mine -= 1;                                     /* the reference travels with the started invoker */
}
static void spawn_(void *t, task_group_context *c) {
    OBLIGATION(c == &C, "C05.invoke.sep: tasks are spawned in the context of the parallel_invoke call");
    if (SUB != NULL && t == (void *)SUB) {
        g_sub_spawns++;
        OBLIGATION(g_mine >= 1, "C05.invoke.sep: the sub-root's reference on the root wait context exists before it is spawned");
        g_mine -= 1;
    } else start_invoker((struct function_invoker_r *)t);
}
#define SPAWN(t, c) spawn_((void *)&(t), &(c))
static void execute_and_wait_(struct function_invoker_r *t, task_group_context *c1, wait_context *w, task_group_context *c2) {
    OBLIGATION(w == &W && c1 == &C && c2 == &C, "C05.invoke.sep: the caller waits on the root wait context, in the call's context");
    start_invoker(t); g_waits++; g_started_at_wait = g_started_total;
    W.refs = 0; g_others = 0;                        /* the wait returns when the root count is zero: every started invoker and every sub-root of every level has finished */
    OBLIGATION(g_mine == 0, "C05.invoke.sep: when the wait starts every reserved reference belongs to a started invoker (a left-over reference would block the wait for ever)");
}
#define EXECUTE_AND_WAIT(t, c1, w, c2) execute_and_wait_(&(t), &(c1), &(w), &(c2))
#define DELETE_OBJECT(a, self, ed) ((void)0)
#define ASSERT_READ(x) (x)
#define ATOMIC_LOAD_AT(site, x) (x)
#define ATOMIC_FETCH_ADD_AT(site, x, v) ((x) += (v))
#define ATOMIC_PREDEC_AT(site, x) (--(x))
static void sep_rest(wait_context *w, task_group_context *c, FN_PACK fs) {
    OBLIGATION(w == &W && c == &C, "C05.invoke.sep: the rest of the pack is run against the same root wait context and context");
    g_rest_calls++; g_rest_pack = fs; g_sub_spawns_at_rest = g_sub_spawns;
}
#define INVOKE_SEP_REST(w, c, fs) sep_rest(&(w), &(c), (fs))
unsigned g_all_calls; FN_PACK g_all_pack; const Fn *g_all_extra; wait_context *g_all_w; task_group_context *g_all_c; long g_all_refs; int g_all_traits;
static void sep_all(wait_context *w, task_group_context *c, FN_PACK fs, const Fn *extra) { g_all_calls++; g_all_pack = fs; g_all_extra = extra; g_all_w = w; g_all_c = c; g_all_refs = w->refs; g_all_traits = c->traits; }
#define INVOKE_SEP_ALL(w, c, fs) sep_all(&(w), &(c), (fs), NULL)
#define INVOKE_SEP_ALL_PLUS(w, c, fs, f) sep_all(&(w), &(c), (fs), &(f))
#include "invoke_invoker_s.inc"
#include "invoke_subroot.inc"
#include "invoke_sep.inc"
size_t IN_base, IN_n;
static void mk_fns(void) {
    mk_root_wait(0);
    g_base = IN_base = nondet_size_t(); __CPROVER_assume(g_base < ((size_t)1 << 62));
    for (unsigned j = 0; j < 4; ++j) { FN[j].idx = g_base + j; g_started[j] = 0; }
    g_started_total = g_waits = g_sub_allocs = g_sub_spawns = g_rest_calls = g_all_calls = 0; SUB = NULL;
}
void h_inv_invoker_root(void) {
    mk_fns(); execution_data ed; ed.context = &C;
    mk_root_wait(1);                                 /* the reference reserved for this invoker by invoke_recursive_separation (jobs invoke.sep.*) */
    struct invoke_root_task root; invoke_root_task_ctor(&root, &W);
    struct function_invoker_r inv; function_invoker_r_ctor(&inv, &FN[0], &root);
    OBLIGATION(root.my_wait_context == &W && inv.my_function == &FN[0] && inv.parent_wait_ctx == &root, "C05.invoke.invoker: the invoker is bound to its function and to the root wait object");
    bool cancel = nondet_bool();
    task *r = cancel ? function_invoker_r_cancel(&inv, &ed) : function_invoker_r_execute(&inv, &ed);
    if (!cancel) OBLIGATION(g_fn_calls == 1 && g_last_idx == FN[0].idx && g_mine_at_call == 1 && g_calls_at_release == 1, "C05.invoke.invoker: the invoker calls its own function exactly once, while its reference is held, and reports completion afterwards");
    else OBLIGATION(g_fn_calls == 0, "C05.invoke.invoker: a cancelled invoker does not call its function");
    OBLIGATION(g_releases == 1 && g_mine == 0 && g_reserves == 0 && r == NULL, "C05.invoke.invoker: executed or cancelled, the invoker releases the root wait context exactly once");
    VACUITY_END();
}
void h_inv_sep(void) {
    mk_fns();
#if SEP_N == 1
    invoke_sep_1(&W, &C, &FN[0]);
#elif SEP_N == 2
    invoke_sep_2(&W, &C, &FN[0], &FN[1]);
#else
    invoke_sep_3(&W, &C, &FN[0], &FN[1], &FN[2]);
#endif
    for (unsigned j = 0; j < 4; ++j)
        OBLIGATION(g_started[j] == (j < SEP_N ? 1 : 0), "C05.invoke.sep: each of the N functions gets exactly one invoker started (spawned, or run by the caller itself); nothing else is started");
    OBLIGATION(g_reserves == 1 && g_releases == 0 && g_mine == 0, "C05.invoke.sep: exactly N references are reserved, before the first invoker becomes runnable, one per function");
    OBLIGATION(g_waits == 1 && g_started_at_wait == SEP_N, "C05.invoke.sep: the caller waits once, after all invokers were started: the invokers (locals of this function) are finished before it returns");
    VACUITY_END();
}
void h_inv_sep_n(void) {
    mk_fns();
    FN_PACK rest; rest.base = g_base + 3; rest.n = IN_n = nondet_size_t(); __CPROVER_assume(rest.n >= 1 && rest.n < ((size_t)1 << 61));
    invoke_sep_n(&W, &C, &FN[0], &FN[1], &FN[2], rest);
    OBLIGATION(g_sub_allocs == 1 && g_sub_spawns == 1, "C05.invoke.sep: the first three functions go to exactly one sub-root task, spawned once");
    OBLIGATION(SUB->self_invoked_functor == &FN[0] && SUB->f2_invoker.my_function == &FN[1] && SUB->f3_invoker.my_function == &FN[2] && SUB->root_wait_ctx == &W && SUB->my_execution_context == &C,
               "C05.invoke.sep: that sub-root is bound to f1, f2 and f3 (one each), to the root wait context and the context");
    OBLIGATION(g_rest_calls == 1 && g_rest_pack.base == rest.base && g_rest_pack.n == rest.n, "C05.invoke.sep: the remaining functions are passed on unchanged, once (none dropped, none repeated, none of f1..f3 again)");
    OBLIGATION(g_sub_spawns_at_rest == 1, "C05.invoke.sep: the sub-root is runnable before the blocking wait of the rest starts (it holds a root reference: the wait could never end otherwise)");
    OBLIGATION(g_reserves == 1 && g_releases == 0 && g_mine == 0 && g_started_total == 0, "C05.invoke.sep: one root reference is reserved for the sub-root before it is spawned; the functions themselves are not started here");
    VACUITY_END();
}
void h_inv_impl(void) {
    mk_fns(); g_plain_wait = true;
    FN_PACK fs; fs.base = g_base + 1; fs.n = IN_n = nondet_size_t();
    bool own = nondet_bool();
    if (own) { __CPROVER_assume(fs.n >= 1); parallel_invoke_impl_own(&FN[0], fs); }        /* parallel_invoke(f_1..f_N) arrives as (f_N, f_1..f_N-1): invoke_helper rotates the last argument to the front */
    else { __CPROVER_assume(fs.n >= 2); parallel_invoke_impl_ctx(&C, fs); }
    OBLIGATION(g_all_calls == 1 && g_all_pack.base == fs.base && g_all_pack.n == fs.n && g_all_extra == (own ? &FN[0] : NULL), "C05.invoke.impl: every function of the call (and nothing else) is passed on to invoke_recursive_separation, once");
    OBLIGATION(g_all_refs == 0, "C05.invoke.impl: the root wait context starts at zero");
    OBLIGATION(own ? (g_all_c != NULL && g_all_traits == PARALLEL_INVOKE) : g_all_c == &C, "C05.invoke.impl: the functions run in the user's context if one was given, else in a fresh one");
    VACUITY_END();
}
#endif /* INV_SEP */
#endif /* INVOKE */

#ifdef AFF
/* ================================================================== partitioner.h: constructor chains of the partition types, affinity map, check_being_stolen
   struct part is the flattened hierarchy adaptive_mode < proportional_mode < linear_affinity_mode < dynamic_grainsize_mode < affinity_partition_type (auto: adaptive_mode < dynamic_grainsize_mode;
   static: ... < linear_affinity_mode); base-class initialisers are the INIT_<class>_<base>_{0,s,p} macros, bound per job to the sliced base constructors. */
typedef void task;
typedef unsigned short slot_id;
#define no_slot ((slot_id)~0)
typedef struct task_group_context { int id; } task_group_context;
typedef struct execution_data { task_group_context *context; } execution_data;
struct part { size_t my_divisor; int my_delay; depth_t my_max_depth; size_t my_head; size_t my_max_affinity; slot_id *my_array; };
struct affinity_partitioner_base { slot_id *my_array; size_t my_size; };
struct tree_node_ { int m_ref_count; bool m_child_stolen; bool is_wait_node; };
struct start_task { struct tree_node_ *my_parent; };
#include "part_consts.inc"
#undef PART_FACTOR
#if defined(KIND_AFFINITY)
#define PART_FACTOR AFFINITY_FACTOR
#else
#define PART_FACTOR 1u
#endif
int g_P, g_tid; size_t g_k;
static int STUB_max_concurrency(void) { return g_P; }                 /* trusted: constant while one partition object is built, >= 1 */
static int STUB_current_thread_index(void) { return g_tid; }          /* trusted: not_initialized, or the caller's slot index < max_concurrency() */
static bool STUB_is_peer_stolen(void) { return nondet_bool(); }
unsigned g_allocs, g_frees, g_fills; size_t g_alloc_bytes, g_fill_n; slot_id g_fill_val; void *g_freed, *g_fill_arr;
static void *STUB_cache_aligned_allocate(size_t n) { g_allocs++; g_alloc_bytes = n; void *p = malloc(n); __CPROVER_assume(p != NULL); return p; }
static void STUB_cache_aligned_deallocate(void *p) { g_frees++; g_freed = p; free(p); }
static void STUB_fill_n(slot_id *a, size_t n, slot_id v) { g_fills++; g_fill_arr = a; g_fill_n = n; g_fill_val = v; if (g_k < n) a[g_k] = v; }   /* std::fill_n, stated for the arbitrary index g_k */
static void mk_part(struct part *p) { p->my_divisor = nondet_size_t(); p->my_max_depth = nondet_uchar(); p->my_delay = nondet_int(); p->my_head = nondet_size_t(); p->my_max_affinity = nondet_size_t(); p->my_array = NULL; }
#include "partitioner_fns.inc"
#define INIT_am_my_divisor_1(s, e) ((s)->my_divisor = (e))
#define INIT_pm_adaptive_mode_0(s) adaptive_ctor_0(s)
#define INIT_pm_adaptive_mode_s(s, src) adaptive_ctor_s((s), &(src))
#define INIT_pm_adaptive_mode_p(s, src, so) adaptive_ctor_p((s), &(src), &(so))
#define INIT_la_proportional_mode_0(s) proportional_ctor_0(s)
#define INIT_la_proportional_mode_s(s, src) proportional_ctor_s((s), &(src))
#define INIT_la_proportional_mode_p(s, src, so) proportional_ctor_p((s), &(src), &(so))
#define INIT_la_my_head_1(s, e) ((s)->my_head = (e))
#define INIT_la_my_max_affinity_1(s, e) ((s)->my_max_affinity = (e))
#if defined(KIND_AUTO)
#define INIT_dg_Mode_0(s) adaptive_ctor_0(s)
#define INIT_dg_Mode_s(s, src) adaptive_ctor_s((s), &(src))
#define INIT_dg_Mode_p(s, src, so) adaptive_ctor_p((s), &(src), &(so))
#else
#define INIT_dg_Mode_0(s) linear_ctor_0(s)
#define INIT_dg_Mode_s(s, src) linear_ctor_s((s), &(src))
#define INIT_dg_Mode_p(s, src, so) linear_ctor_p((s), &(src), &(so))
#endif
#define INIT_dg_my_delay_1(s, e) ((s)->my_delay = (e))
#define INIT_dg_my_max_depth_1(s, e) ((s)->my_max_depth = (e))
#define INIT_ap_dynamic_grainsize_mode_0(s) dyn_ctor_0(s)
#define INIT_ap_dynamic_grainsize_mode_s(s, src) dyn_ctor_s((s), &(src))
#define INIT_ap_dynamic_grainsize_mode_p(s, src, so) dyn_ctor_p((s), &(src), &(so))
#define INIT_ap_my_array_1(s, e) ((s)->my_array = (e))
#define INIT_au_dynamic_grainsize_mode_0(s) dyn_ctor_0(s)
#define INIT_au_dynamic_grainsize_mode_s(s, src) dyn_ctor_s((s), &(src))
#define INIT_st_linear_affinity_mode_0(s) linear_ctor_0(s)
#define INIT_st_linear_affinity_mode_p(s, src, so) linear_ctor_p((s), &(src), &(so))
unsigned g_spawn_aff, g_spawn_any; slot_id g_spawn_slot; task *g_spawn_t; task_group_context *g_spawn_c;
#define SPAWN_AFF(t, c, id) (g_spawn_aff++, g_spawn_t = (t), g_spawn_c = (c), g_spawn_slot = (id))
#define SPAWN_ANY(t, c) (g_spawn_any++, g_spawn_t = (t), g_spawn_c = (c))
bool g_stolen; unsigned g_marks; struct start_task *g_mark_t;
static bool STUB_is_stolen_task(const execution_data *ed) { return g_stolen; }
static void STUB_mark_task_stolen(struct start_task *t) { g_marks++; g_mark_t = t;
    OBLIGATION(!t->my_parent->is_wait_node, "C05.part.stolen: mark_task_stolen casts the parent to tree_node: it is only applied to a task whose parent really is a tree node (never the root task under its wait node)"); }
#define ATOMIC_LOAD(x) (x)
#include "part_ctors.inc"
#define AMAX ((size_t)1 << 16)
/* representation invariant of a linear-affinity partition object: its window of reserved map indices is [head, head+divisor) (mod max_affinity) */
#define INV_LIN(p) ((p)->my_max_affinity >= 1 && (p)->my_max_affinity <= AMAX && (p)->my_head < (p)->my_max_affinity && (p)->my_divisor <= (p)->my_max_affinity)
#define MULT(p) ((p)->my_divisor % PART_FACTOR == 0)          /* holds for the root and along proportional splits; a demand split (halving) ends it, see the assumptions */
static void mk_P(void) { g_P = nondet_int(); __CPROVER_assume(g_P >= 1 && g_P <= 4096); g_tid = nondet_int(); __CPROVER_assume(g_tid == TASK_ARENA_not_initialized || (g_tid >= 0 && g_tid < g_P)); g_k = nondet_size_t();
    g_allocs = g_frees = g_fills = g_spawn_aff = g_spawn_any = g_marks = 0; }
int IN_P, IN_tid; size_t IN_div, IN_head, IN_max;
#if defined(KIND_AFFINITY)
void h_aff_ctor(void) {
    mk_P(); IN_P = g_P; IN_tid = g_tid;
    struct affinity_partitioner_base ap; size_t old = nondet_size_t(); __CPROVER_assume(old <= AMAX);          /* the partitioner object is reused across loops, possibly in arenas of different size */
    slot_id seen = nondet_ushort();
    if (old == 0) { ap.my_array = NULL; ap.my_size = 0; } else { ap.my_array = malloc(old * sizeof(slot_id)); __CPROVER_assume(ap.my_array != NULL); ap.my_size = old; if (g_k < old) ap.my_array[g_k] = seen; }
    slot_id *old_arr = ap.my_array;
    struct part self; mk_part(&self);
    affinity_ctor_0(&self, &ap);
    size_t want = (size_t)AFFINITY_FACTOR * (size_t)g_P;
    size_t entries = g_allocs ? g_alloc_bytes / sizeof(slot_id) : old;                  /* allocated length of the map the partitioner now points to */
    OBLIGATION(g_allocs <= 1 && ap.my_array != NULL && (g_allocs ? (g_frees == (old ? 1 : 0) && (!old || g_freed == (void *)old_arr)) : (g_frees == 0 && ap.my_array == old_arr)),
               "C05.aff.ctor: the map is either kept, or replaced by one fresh allocation after the old one was freed exactly once");
    OBLIGATION(ap.my_size == entries && entries >= want, "C05.aff.ctor: my_size is the allocated number of entries, at least factor * max_concurrency");
    if (g_allocs) OBLIGATION(g_fills == 1 && g_fill_arr == (void *)ap.my_array && g_fill_n == entries && g_fill_val == no_slot, "C05.aff.ctor: every entry of a fresh map is initialised (no_slot)");
    else OBLIGATION(g_k >= old || ap.my_array[g_k] == seen, "C05.aff.ctor: a map that is kept keeps its contents");
    OBLIGATION(self.my_array == ap.my_array && self.my_max_affinity <= ap.my_size, "C05.aff.ctor: the partition object indexes the map it was given, and its index space my_max_affinity lies inside the map");
    OBLIGATION(self.my_divisor == self.my_max_affinity && self.my_divisor / PART_FACTOR >= 1 && INV_LIN(&self) && MULT(&self), "C05.aff.ctor: the root object owns its whole index space (a multiple of factor, at least one group), its head lies inside it");
    OBLIGATION(self.my_max_depth < __TBB_RANGE_POOL_CAPACITY && self.my_delay >= DELAY_begin && self.my_delay <= DELAY_pass, "C05.aff.ctor: the initial depth budget is below the pool capacity; the delay phase is a legal one");
    VACUITY_END();
}
static void mk_lin(struct part *p) {                   /* an arbitrary affinity partition object with its map */
    mk_P(); mk_part(p);
    __CPROVER_assume(INV_LIN(p) && p->my_delay >= DELAY_begin && p->my_delay <= DELAY_pass);
    p->my_array = malloc(p->my_max_affinity * sizeof(slot_id)); __CPROVER_assume(p->my_array != NULL);
    IN_div = p->my_divisor; IN_head = p->my_head; IN_max = p->my_max_affinity;
}
void h_aff_split(void) {
    struct part par, c; mk_lin(&par); mk_part(&c);
    size_t d = par.my_divisor, h = par.my_head, m = par.my_max_affinity; depth_t dep = par.my_max_depth; slot_id *arr = par.my_array;
    bool prop = nondet_bool();
    if (prop) {
        __CPROVER_assume(proportional_is_divisible(&par) && MULT(&par));          /* execute() only splits while the partition is divisible */
        struct proportional_split so = proportional_get_split(&par);
        affinity_ctor_p(&c, &par, &so);
        OBLIGATION(c.my_divisor + par.my_divisor == d && c.my_divisor >= PART_FACTOR && par.my_divisor >= PART_FACTOR, "C05.aff.split: a proportional split hands over part of the reserved indices and conserves their number; both sides keep at least one slot group");
        OBLIGATION(MULT(&c) && MULT(&par), "C05.aff.split: along proportional splits the number of reserved indices stays a multiple of factor");
    } else {
        affinity_ctor_s(&c, &par);
        OBLIGATION(c.my_divisor == d / 2 && par.my_divisor == d / 2, "C05.aff.split: a demand split halves the reserved indices on both sides (a task with one index keeps none and hands none over)");
    }
    OBLIGATION(par.my_head == h && c.my_head == (h + par.my_divisor) % m, "C05.aff.split: the child's window of map indices starts right behind what the parent keeps: windows [head, head+divisor) do not overlap");
    OBLIGATION(c.my_max_affinity == m && par.my_max_affinity == m && c.my_array == arr && par.my_array == arr && c.my_max_depth == dep, "C05.aff.split: the child shares the map and its size, and inherits the depth budget");
    OBLIGATION(INV_LIN(&c) && INV_LIN(&par), "C05.aff.split: on both sides head stays inside the map and divisor within its size (head + divisor does not overflow)");
    VACUITY_END();
}
void h_aff_note(void) {
    struct part p; mk_lin(&p);
    slot_id id = nondet_ushort(), seen = nondet_ushort();
    if (g_k < p.my_max_affinity) p.my_array[g_k] = seen;
    affinity_note_affinity(&p, id);                    /* CBMC's bounds check covers my_array[my_head] */
    OBLIGATION(g_k >= p.my_max_affinity || g_k == p.my_head || p.my_array[g_k] == seen, "C05.aff.note: note_affinity touches no map entry other than the object's own one (index my_head, inside the map)");
    task *t = nondet_ptr(); task_group_context c;
    affinity_spawn_task(&p, t, &c);                    /* bounds check covers the read of my_array[my_head] */
    OBLIGATION(g_spawn_aff + g_spawn_any == 1 && g_spawn_t == t && g_spawn_c == &c, "C05.aff.spawn: spawn_task spawns the given task exactly once, in the given context, whatever the affinity hint");
    VACUITY_END();
}
#endif
#if defined(KIND_AUTO)
void h_auto_ctor(void) {
    mk_P(); IN_P = g_P; struct part self, c; mk_part(&self); mk_part(&c);
    auto_ctor_0(&self);
    OBLIGATION(self.my_divisor >= 1 && self.my_delay >= DELAY_begin && self.my_delay <= DELAY_pass && self.my_max_depth < __TBB_RANGE_POOL_CAPACITY, "C05.auto.ctor: the root object starts with at least one division (it is never taken for a stolen leaf), a legal delay phase and a depth budget below the pool capacity");
    self.my_divisor = IN_div = nondet_size_t(); self.my_max_depth = nondet_uchar(); size_t d = self.my_divisor; depth_t dep = self.my_max_depth;
    auto_ctor_s(&c, &self);
    OBLIGATION(c.my_divisor == d / 2 && self.my_divisor == d / 2 && c.my_max_depth == dep && self.my_max_depth == dep, "C05.auto.split: a split halves the divisor on both sides; the child gets the parent's depth budget (align_depth subtracts the offered depth from it)");
    VACUITY_END();
}
#endif
#if defined(KIND_STATIC)
void h_static_ctor(void) {
    mk_P(); IN_P = g_P; IN_tid = g_tid; struct part self, c; mk_part(&self); mk_part(&c);
    static_ctor_0(&self);
    OBLIGATION(self.my_divisor == self.my_max_affinity && self.my_divisor >= 1 && INV_LIN(&self), "C05.static.ctor: the root object owns its whole index space (at least one division), its head lies inside it");
    mk_part(&self); __CPROVER_assume(INV_LIN(&self) && MULT(&self) && proportional_is_divisible(&self));
    size_t d = IN_div = self.my_divisor, h = IN_head = self.my_head, m = IN_max = self.my_max_affinity;
    struct proportional_split so = proportional_get_split(&self);
    static_ctor_p(&c, &self, &so);
    OBLIGATION(c.my_divisor + self.my_divisor == d && c.my_divisor >= 1 && self.my_divisor >= 1, "C05.static.split: the split conserves the number of divisions and leaves at least one on each side");
    OBLIGATION(self.my_head == h && c.my_head == (h + self.my_divisor) % m && c.my_max_affinity == m && INV_LIN(&c) && INV_LIN(&self), "C05.static.split: the child's slots start right behind the parent's; both stay inside [0, max_affinity)");
    task *t = nondet_ptr(); task_group_context cx; size_t cd = c.my_divisor;
    linear_spawn_task(&c, t, &cx);
    OBLIGATION(g_spawn_aff + g_spawn_any == 1 && g_spawn_t == t && g_spawn_c == &cx && g_spawn_aff == (cd != 0 ? 1 : 0), "C05.static.spawn: spawn_task spawns the given task exactly once");
    VACUITY_END();
}
#endif
#if !defined(KIND_STATIC)
void h_check_being_stolen(void) {
    mk_P(); struct part p; mk_part(&p); execution_data ed; struct tree_node_ par; struct start_task t; t.my_parent = &par;
    par.is_wait_node = nondet_bool(); par.m_ref_count = nondet_int(); par.m_child_stolen = false;
    __CPROVER_assume(par.m_ref_count >= 1 && (!par.is_wait_node || par.m_ref_count == 1));       /* wait_node(): node{nullptr, 1}; tree nodes start at 2 and only count down (job sfor.offer_work, C06 fold_tree) */
    g_stolen = nondet_bool(); __CPROVER_assume(!(par.is_wait_node && g_stolen) || true);
    size_t d = IN_div = p.my_divisor; depth_t dep = p.my_max_depth;
    __CPROVER_assume(dep <= 253);                      /* listed assumption: the 8-bit depth budget does not wrap */
    bool r = dyn_check_being_stolen(&p, &t, &ed);
    OBLIGATION(p.my_divisor == d || d / PART_FACTOR == 0, "C05.part.stolen: check_being_stolen leaves the divisor of a task that still has divisions alone");
    OBLIGATION(g_marks <= 1 && (g_marks == 0 || (g_stolen && !par.is_wait_node)), "C05.part.stolen: only a task that really runs on another thread marks its parent, and the parent marked is a tree node (the root task, whose parent is the wait node, never does)");
    OBLIGATION(p.my_max_depth >= dep && (!r || p.my_max_depth > dep), "C05.part.stolen: the depth budget never shrinks or wraps; a task reported as stolen gets a larger one");
    VACUITY_END();
}
#endif
#endif /* AFF */

#ifdef NDR
/* ================================================================== blocked_nd_range.h (N = ND_N dimensions of blocked_range<size_t>) */
#ifndef ND_N
#define ND_N 3
#endif
struct blocked_nd_range { struct blocked_range my_dims[ND_N]; };
#define ARR_BEGIN(a) (&(a)[0])
#define ARR_END(a) (&(a)[0] + ND_N)
#define INIT_nd_my_dims_1(s, src) do { for (unsigned i_ = 0; i_ < ND_N; ++i_) (s)->my_dims[i_] = (src)[i_]; } while (0)      /* std::array copy */
#define SPLIT_T int
#ifdef ND_SMALL
#define ND_SUFFIX " (bounded)"
#else
#define ND_SUFFIX ""
#endif
/* models of the two standard algorithms (trusted: any_of = "some element satisfies"; max_element = the first of the greatest elements, libstdc++'s loop) */
static bool STD_any_of(struct blocked_range *first, struct blocked_range *last, bool (*pred)(struct blocked_range *)) { for (; first != last; ++first) if (pred(first)) return true; return false; }
static bool STD_all_of(struct blocked_range *first, struct blocked_range *last, bool (*pred)(struct blocked_range *)) { for (; first != last; ++first) if (!pred(first)) return false; return true; }
static bool STD_none_of(struct blocked_range *first, struct blocked_range *last, bool (*pred)(struct blocked_range *)) { return !STD_any_of(first, last, pred); }
#ifdef ND_ANY_CHOICE
/* structure jobs: whatever element the comparison selects (any comparator) */
static struct blocked_range *STD_max_element(struct blocked_range *first, struct blocked_range *last, bool (*comp)(struct blocked_range *, struct blocked_range *)) {
    unsigned k = nondet_unsigned(); __CPROVER_assume(k < ND_N); return first + k; }
#else
static struct blocked_range *STD_max_element(struct blocked_range *first, struct blocked_range *last, bool (*comp)(struct blocked_range *, struct blocked_range *)) {
    if (first == last) return last;
    struct blocked_range *result = first;
    while (++first != last) if (comp(result, first)) result = first;
    return result;
}
#endif
static struct blocked_nd_range *g_nd_r; unsigned g_dim_calls, g_dim_k; bool g_dim_bad;
static Value dim_do_split(struct blocked_range *dim, int how) {
    g_dim_calls++; g_dim_k = (unsigned)(dim - g_nd_r->my_dims);
#ifndef ND_ANY_CHOICE
    OBLIGATION(blocked_range_is_divisible(dim), "C05.nd: the dimension handed to do_split is itself divisible" ND_SUFFIX);      /* == the in-code assertion of blocked_range::do_split */
#endif
    __CPROVER_assume(blocked_range_is_divisible(dim));                  /* structure jobs: for every choice of a divisible dimension (that the choice is divisible is the job nd.dim.*) */
    if (how == 0) return blocked_range_do_split_s(dim);
    /* contract of blocked_range::do_split(r, proportional_split&) (job br.propsplit): the split point lies strictly inside */
    Value m = nondet_size_t(); __CPROVER_assume(dim->my_begin < m && m < dim->my_end); dim->my_end = m; return m;
}
#define DIM_DO_SPLIT(dim, s) dim_do_split((dim), (s))
#include "nd_range.inc"
size_t IN_db[4], IN_de[4], IN_dg[4];
static void mk_nd(struct blocked_nd_range *x) {
    for (unsigned j = 0; j < ND_N; ++j) {
        Value b = IN_db[j] = nondet_size_t(), e = IN_de[j] = nondet_size_t(); size_t g = IN_dg[j] = nondet_size_t();
        __CPROVER_assume(b <= e && g > 0);
        blocked_range_ctor(&x->my_dims[j], b, e, g);
    }
}
void h_nd_any_of(void) {
    struct blocked_nd_range x; mk_nd(&x);
    bool d = false, em = false;
    for (unsigned j = 0; j < ND_N; ++j) { d = d || (x.my_dims[j].my_grainsize < x.my_dims[j].my_end - x.my_dims[j].my_begin); em = em || !(x.my_dims[j].my_begin < x.my_dims[j].my_end); }
    OBLIGATION(blocked_nd_range_is_divisible(&x) == d, "C05.nd: an N-dimensional range is divisible iff at least one of its dimensions is");
    OBLIGATION(blocked_nd_range_empty(&x) == em, "C05.nd: an N-dimensional range is empty iff at least one of its dimensions is");
    VACUITY_END();
}
void h_nd_split(void) {
    struct blocked_nd_range r, r0, n; mk_nd(&r);
    __CPROVER_assume(blocked_nd_range_is_divisible(&r));
    r0 = r; g_nd_r = &r; g_dim_calls = 0; g_dim_bad = false;
    int how = nondet_bool() ? 1 : 0;
    if (how) blocked_nd_range_ctor_p(&n, &r, how); else blocked_nd_range_ctor_s(&n, &r, how);
    OBLIGATION(g_dim_calls == 1 && g_dim_k < ND_N, "C05.nd: exactly one dimension is split");
    unsigned k = g_dim_k;
    for (unsigned j = 0; j < ND_N; ++j) {
        if (j != k) OBLIGATION(r.my_dims[j].my_begin == r0.my_dims[j].my_begin && r.my_dims[j].my_end == r0.my_dims[j].my_end && n.my_dims[j].my_begin == r0.my_dims[j].my_begin && n.my_dims[j].my_end == r0.my_dims[j].my_end,
                               "C05.nd: both halves keep every other dimension whole");
        else OBLIGATION(r.my_dims[j].my_begin == r0.my_dims[j].my_begin && n.my_dims[j].my_end == r0.my_dims[j].my_end && r.my_dims[j].my_end == n.my_dims[j].my_begin
                        && r.my_dims[j].my_begin < r.my_dims[j].my_end && n.my_dims[j].my_begin < n.my_dims[j].my_end,
                        "C05.nd: in the split dimension the two halves are adjacent, non-empty and cover the parent's extent: the halves are disjoint and tile the parent (the new range gets the very dimension that was cut off the old one)");
        OBLIGATION(r.my_dims[j].my_grainsize == r0.my_dims[j].my_grainsize && n.my_dims[j].my_grainsize == r0.my_dims[j].my_grainsize, "C05.nd: grainsizes are inherited by both halves");
    }
    VACUITY_END();
}
void h_nd_dim(void) {
    struct blocked_nd_range r, n; mk_nd(&r);
    __CPROVER_assume(blocked_nd_range_is_divisible(&r));
#ifdef ND_SMALL
    for (unsigned j = 0; j < ND_N; ++j) __CPROVER_assume(IN_de[j] - IN_db[j] <= ND_SMALL && IN_dg[j] <= ND_SMALL);
#endif
    g_nd_r = &r; g_dim_calls = 0; g_dim_bad = false;
    blocked_nd_range_ctor_s(&n, &r, 0);
    OBLIGATION(g_dim_calls == 1, "C05.nd: exactly one dimension is split" ND_SUFFIX);
    VACUITY_END();
}
#endif /* NDR */

#ifdef SFOR
/* ================================================================== parallel_for.h: struct start_for (the task of parallel_for) + node / tree_node / wait_node constructors.
   Range, Body and the partition object are opaque here (identity only): splitting a blocked_range is br.*, nd.*; the partition constructors are aff.*; what the partitioner does with
   run_body / offer_work is exec.*, wb.*; fold_tree (join-tree unwinding, release of the wait) is proved under C06 (job reduce.fold_tree). */
typedef void task;
typedef struct Range { size_t id; } Range;
typedef struct Body { int id; } Body;
typedef struct small_object_allocator { void *pool; } small_object_allocator;
typedef struct split_type { int d; } split_type; typedef unsigned short slot_id;
typedef struct Partition { int divisor; int tag; } Partition; typedef struct Partitioner { int d; } Partitioner;
typedef struct task_group_context { int traits; } task_group_context;
typedef struct execution_data { task_group_context *context; } execution_data;
typedef struct wait_context { int refs; } wait_context;
typedef struct node { struct node *my_parent; int m_ref_count; small_object_allocator m_allocator; bool m_child_stolen; wait_context m_wait; } node;
typedef node wait_node; typedef node tree_node;
struct start_for { Range my_range; Body my_body; node *my_parent; Partition my_partition; small_object_allocator my_allocator; };
static split_type g_split_tag;
#define SPLIT_TAG g_split_tag
#define PARALLEL_FOR 5
#define ALLOCATOR_INIT(a) ((a).pool = NULL)
#define CONTEXT_CTOR(c, t) ((c).traits = (t))
#define INIT_n_my_parent_1(s, e) ((s)->my_parent = (e))
#define INIT_n_m_ref_count_1(s, e) ((s)->m_ref_count = (e))
#define INIT_n_node_2(s, p, r) node_ctor((s), (p), (r))
#define INIT_n_m_allocator_1(s, a) ((s)->m_allocator = (a))
#define INIT_n_m_child_stolen_1(s, e) ((s)->m_child_stolen = (e))
#define INIT_n_m_wait_1(s, e) ((s)->m_wait.refs = (e))
#define INIT_sf_my_range_1(s, r) Range_copy_ctor(&(s)->my_range, &(r))
#define INIT_sf_my_range_2(s, r, so) Range_split_ctor(&(s)->my_range, &(r), (so))
#define INIT_sf_my_body_1(s, b) Body_copy_ctor(&(s)->my_body, &(b))
#define INIT_sf_my_parent_1(s, e) ((s)->my_parent = (e))
#define INIT_sf_my_partition_1(s, p) Partition_ctor(&(s)->my_partition, &(p))
#define INIT_sf_my_partition_2(s, p, so) Partition_split_ctor(&(s)->my_partition, &(p), &(so))
#define INIT_sf_my_allocator_1(s, a) ((s)->my_allocator = (a))
#define STUB_get_range_split_object(so) (&(so))
int g_rcopies, g_rsplits, g_bcopies, g_psplits, g_pctors, g_aligns; Range *g_rsplit_dst, *g_rsplit_src, *g_rcopy_dst; const Range *g_rcopy_src; const Body *g_bcopy_src; Body *g_bcopy_dst; void *g_rsplit_obj, *g_psplit_obj; Partition *g_psplit_dst, *g_psplit_src, *g_align_p; unsigned char g_align_d;
static void Range_copy_ctor(Range *dst, const Range *src) { g_rcopies++; g_rcopy_dst = dst; g_rcopy_src = src; dst->id = src->id; }
static void Range_split_ctor(Range *dst, Range *src, void *so) { g_rsplits++; g_rsplit_dst = dst; g_rsplit_src = src; g_rsplit_obj = so; dst->id = nondet_size_t(); src->id = nondet_size_t(); }      /* Range(r, split): *dst = the right part, *src shrinks to the left part */
static bool range_empty_(const Range *r) { return r->id == 0; }
#define Range_empty(r) range_empty_(&(r))
static void Body_copy_ctor(Body *dst, const Body *src) { g_bcopies++; g_bcopy_dst = dst; g_bcopy_src = src; dst->id = src->id; }
static void Partition_ctor(Partition *dst, Partitioner *p) { g_pctors++; dst->divisor = nondet_int(); dst->tag = 0; }
static void Partition_split_ctor(Partition *dst, Partition *src, split_type *so) { g_psplits++; g_psplit_dst = dst; g_psplit_src = src; g_psplit_obj = so; dst->divisor = nondet_int(); src->divisor = nondet_int(); }
static void Partition_align_depth(Partition *p, unsigned char d) { g_aligns++; g_align_p = p; g_align_d = d; }
int g_notes, g_stolen_checks, g_pexec, g_dtor, g_folds, g_deallocs, g_spawns, g_waits, g_run4s, g_task_allocs, g_node_allocs, g_body_calls; bool g_same_aff; slot_id g_slot, g_note_slot; node *g_parent_at_exit; void *g_pool0;
static struct start_for g_new_task; static node g_new_node;
static struct start_for T; static node P, P2; static Range g_r; static Body g_body; static Partitioner g_partitioner; static task_group_context g_ctx;
static struct start_for *alloc_task(small_object_allocator *a) { g_task_allocs++; return &g_new_task; }
static node *alloc_node(small_object_allocator *a) { g_node_allocs++; return &g_new_node; }
void node_ctor(struct node *self, struct node *parent, int ref_count);
void tree_node_ctor(struct node *self, struct node *parent, int ref_count, small_object_allocator *alloc);
void wait_node_ctor(struct node *self);
void start_for_ctor_root(struct start_for *self, const Range *range, const Body *body, Partitioner *partitioner, small_object_allocator *alloc);
void start_for_ctor_split(struct start_for *self, struct start_for *parent_, split_type *split_obj, small_object_allocator *alloc);
void start_for_ctor_demand(struct start_for *self, struct start_for *parent_, const Range *r, unsigned char d, small_object_allocator *alloc);
#define WAIT_NODE_CTOR(w) wait_node_ctor(&(w))
#define NEW_start_for_root(a, r, b, p, a2) ({ struct start_for *t_ = alloc_task(&(a)); start_for_ctor_root(t_, &(r), &(b), &(p), &(a2)); t_; })
#define NEW_start_for_split(a, ed, par, so, a2) ({ struct start_for *t_ = alloc_task(&(a)); start_for_ctor_split(t_, &(par), &(so), &(a2)); t_; })
#define NEW_start_for_demand(a, ed, par, r, d, a2) ({ struct start_for *t_ = alloc_task(&(a)); start_for_ctor_demand(t_, &(par), &(r), (d), &(a2)); t_; })
#define NEW_tree_node(a, ed, parent, rc, a2) ({ node *n_ = alloc_node(&(a)); tree_node_ctor(n_, (parent), (rc), &(a2)); n_; })
static bool STUB_is_same_affinity(execution_data *ed) { return g_same_aff; }
static slot_id STUB_execution_slot(execution_data *ed) { return g_slot; }
static task_group_context *STUB_context(execution_data *ed) { return ed->context; }
static void Partition_note_affinity(Partition *p, slot_id s) { g_notes++; g_note_slot = s; OBLIGATION(p == &T.my_partition, "C05.sfor.execute: the affinity note goes to this task's own partition object"); }
static bool Partition_check_being_stolen(Partition *p, struct start_for *t, execution_data *ed) { g_stolen_checks++; OBLIGATION(p == &T.my_partition && t == &T && g_pexec == 0, "C05.sfor.execute: the stolen check is made on this task, before its range is processed"); return nondet_bool(); }
static void Partition_execute(Partition *p, struct start_for *t, Range *r, execution_data *ed) {
    OBLIGATION(t == &T && r == &T.my_range && p == &T.my_partition, "C05.sfor.execute: the partitioner works on this task and this task's own range");
    g_pexec++;
    if (nondet_bool()) T.my_parent = &P2;            /* offer_work() may hang this task under a new tree node */
    g_parent_at_exit = T.my_parent;
}
static void STUB_task_dtor(struct start_for *t) { g_dtor++; g_pool0 = t->my_allocator.pool; t->my_parent = NULL; t->my_allocator.pool = NULL; }   /* the task object is dead: its fields are poisoned */
static void STUB_fold_tree(node *parent, const execution_data *ed) { g_folds++; OBLIGATION(parent == g_parent_at_exit && parent != NULL, "C05.sfor.finalize: completion is reported to the node this task hangs under NOW (read before the task is destroyed)"); OBLIGATION(g_dtor == 1, "C05.sfor.finalize: the task is destroyed before its completion is reported"); }
static void STUB_deallocate(small_object_allocator *a, struct start_for *t, const execution_data *ed) { g_deallocs++; OBLIGATION(t == &T && a->pool == g_pool0 && g_dtor == 1, "C05.sfor.finalize: the task is freed once, after its destruction, with the allocator it was created from"); }
static void Partition_spawn_task(Partition *p, struct start_for *t, task_group_context *c) {
    g_spawns++;
    OBLIGATION(t == &g_new_task && p == &g_new_task.my_partition && c == &g_ctx, "C05.sfor.offer_work: the task spawned is the new right child, through its own partition object, in the context of the running task");
    OBLIGATION(g_node_allocs == 1 && t->my_parent == &g_new_node && T.my_parent == &g_new_node && g_new_node.m_ref_count == 2, "C05.sfor.offer_work: when the right child becomes visible to thieves both children already hang under the new tree node, whose count is 2");
}
struct start_for *g_ew_task; void *g_ew_c1, *g_ew_c2, *g_ew_w;
#define EXECUTE_AND_WAIT(t, c1, w, c2) do { g_waits++; g_ew_task = &(t); g_ew_c1 = &(c1); g_ew_w = &(w); g_ew_c2 = &(c2); \
    OBLIGATION(g_ew_task == &g_new_task && g_ew_task->my_range.id == g_r.id && g_rcopies == 1 && g_rcopy_src == &g_r && g_bcopies == 1 && g_bcopy_src == &g_body && g_ew_task->my_body.id == g_body.id, "C05.sfor.run: the root task covers the caller's whole range with a copy of the caller's body"); \
    OBLIGATION(g_ew_task->my_parent != NULL && g_ew_task->my_parent->my_parent == NULL && g_ew_task->my_parent->m_ref_count == 1 && g_ew_w == (void *)&g_ew_task->my_parent->m_wait && g_ew_task->my_parent->m_wait.refs == 1, \
               "C05.sfor.run: the root task hangs under a wait node (no parent, count 1) and the caller waits on that node's wait_context (released once by fold_tree when the count reaches 0)"); \
    OBLIGATION(g_ew_c1 == (void *)&g_ctx && g_ew_c2 == (void *)&g_ctx, "C05.sfor.run: the loop runs and is waited for in the caller's context"); } while (0)
void *g_r4_range, *g_r4_body, *g_r4_part; task_group_context *g_r4_ctx; int g_r4_traits;
#define RUN4(r, b, p, c) do { g_run4s++; g_r4_range = (void *)&(r); g_r4_body = (void *)&(b); g_r4_part = &(p); g_r4_ctx = &(c); g_r4_traits = (c).traits; } while (0)
const Body *g_inv_body; Range *g_inv_range;
#define BODY_INVOKE(b, r) (g_body_calls++, g_inv_body = &(b), g_inv_range = &(*(r)))
#include "start_for.inc"
static void reset_ghost(void) { g_rcopies = g_rsplits = g_bcopies = g_psplits = g_pctors = g_aligns = g_notes = g_stolen_checks = g_pexec = g_dtor = g_folds = g_deallocs = g_spawns = g_waits = g_run4s = g_task_allocs = g_node_allocs = g_body_calls = 0; }
static void mk_task(void) {    /* an arbitrary task that is about to run: the root, a left child, or a right child created by offer_work_impl */
    reset_ghost(); T.my_parent = &P; T.my_allocator.pool = nondet_ptr(); T.my_range.id = nondet_size_t(); T.my_body.id = nondet_int();
    P.my_parent = nondet_bool() ? &P2 : NULL; P.m_ref_count = nondet_bool() ? 1 : 2; P2.my_parent = NULL; P2.m_ref_count = 1; g_parent_at_exit = &P;
    g_same_aff = nondet_bool(); g_slot = nondet_ushort();
}
void h_sfor_execute(void) {
    mk_task(); execution_data ed; ed.context = &g_ctx;
    task *r = start_for_execute(&T, &ed);
    OBLIGATION(g_pexec == 1 && g_stolen_checks == 1, "C05.sfor.execute: the task's range is handed to the partitioner exactly once");
    OBLIGATION(g_folds == 1 && g_dtor == 1 && g_deallocs == 1 && r == NULL, "C05.sfor.execute: the finished task reports completion to its parent exactly once (one fold_tree per task: the wait is released exactly once, by the last one) and is destroyed and freed once");
    VACUITY_END();
}
void h_sfor_cancel(void) {
    mk_task(); execution_data ed; ed.context = &g_ctx;
    task *r = start_for_cancel(&T, &ed);
    OBLIGATION(g_pexec == 0 && g_body_calls == 0, "C05.sfor.cancel: a cancelled task processes nothing");
    OBLIGATION(g_folds == 1 && g_dtor == 1 && g_deallocs == 1 && r == NULL, "C05.sfor.cancel: a cancelled task still reports completion to its parent exactly once (the count must reach 0 for the wait to be released)");
    VACUITY_END();
}
static void offer_post(bool demand, Range *r) {
    struct start_for *R = &g_new_task; node *NN = &g_new_node;
    OBLIGATION(g_task_allocs == 1 && g_node_allocs == 1 && g_spawns == 1, "C05.sfor.offer_work: a split creates exactly one right sibling and one tree node, and exactly the right sibling is spawned");
    OBLIGATION(NN->my_parent == &P && NN->m_ref_count == 2 && !NN->m_child_stolen, "C05.sfor.offer_work: the new tree node takes this task's place under the old parent, counts two children and starts with the stolen flag clear");
    OBLIGATION(T.my_parent == NN && R->my_parent == NN, "C05.sfor.offer_work: both children hang under the new tree node");
    OBLIGATION(g_bcopies == 1 && g_bcopy_dst == &R->my_body && g_bcopy_src == &T.my_body, "C05.sfor.offer_work: the right sibling works with a copy of this task's body");
    if (!demand) OBLIGATION(g_rsplits == 1 && g_rsplit_dst == &R->my_range && g_rsplit_src == &T.my_range && g_rcopies == 0 && g_psplits == 1 && g_psplit_dst == &R->my_partition && g_psplit_src == &T.my_partition,
                            "C05.sfor.offer_work: the right sibling's range is the part split off this task's own range (each element stays in exactly one of the two); the partition object is split alongside");
    else OBLIGATION(g_rcopies == 1 && g_rcopy_dst == &R->my_range && g_rcopy_src == r && g_rsplits == 0 && g_psplits == 1 && g_psplit_dst == &R->my_partition && g_psplit_src == &T.my_partition && g_psplit_obj == (void *)&g_split_tag,
                    "C05.sfor.offer_work: the right sibling gets exactly the range handed over by the range pool, and a partition object split off this task's");
    OBLIGATION(P.m_ref_count == 2 && P.my_parent == NULL, "C05.sfor.offer_work: the old parent is not touched (the new node inherits this task's reference)");
}
static void mk_splitter(void) { reset_ghost(); T.my_parent = &P; T.my_range.id = nondet_size_t(); T.my_body.id = nondet_int(); P.m_ref_count = 2; P.my_parent = NULL; }
void h_sfor_offer_split(void) {
    mk_splitter(); execution_data ed; ed.context = &g_ctx; split_type so;
    start_for_offer_work_impl_split(&T, &ed, &T, &so);
    offer_post(false, NULL);
    OBLIGATION(g_rsplit_obj == (void *)&so && g_psplit_obj == (void *)&so && g_aligns == 0, "C05.sfor.offer_work: range and partition are split by the same split object");
    VACUITY_END();
}
void h_sfor_offer_demand(void) {
    mk_splitter(); execution_data ed; ed.context = &g_ctx; Range r; r.id = nondet_size_t(); unsigned char d = nondet_uchar();
    start_for_offer_work_impl_demand(&T, &ed, &T, &r, d);
    offer_post(true, &r);
    OBLIGATION(g_new_task.my_range.id == r.id, "C05.sfor.offer_work: the handed-over range is copied unchanged");
    OBLIGATION(g_aligns == 1 && g_align_p == &g_new_task.my_partition && g_align_d == d, "C05.sfor.offer_work: the right sibling's depth budget is aligned by the depth of the piece it received");
    VACUITY_END();
}
void h_sfor_run4(void) {
    reset_ghost(); g_r.id = nondet_size_t(); g_body.id = nondet_int();
    start_for_run4(&g_r, &g_body, &g_partitioner, &g_ctx);
    OBLIGATION(g_r.id == 0 ? (g_waits == 0 && g_task_allocs == 0 && g_body_calls == 0) : (g_waits == 1 && g_task_allocs == 1), "C05.sfor.run: an empty range starts nothing (the body is not applied at all); otherwise exactly one root task is run and waited for");
    VACUITY_END();
}
void h_sfor_run3(void) {
    reset_ghost(); g_r.id = nondet_size_t();
    start_for_run3(&g_r, &g_body, &g_partitioner);
    OBLIGATION(g_run4s == 1 && g_r4_range == (void *)&g_r && g_r4_body == (void *)&g_body && g_r4_part == (void *)&g_partitioner && g_r4_ctx != NULL && g_r4_traits == PARALLEL_FOR,
               "C05.sfor.run: without a context the same range, body and partitioner are run once in a fresh bound context");
    VACUITY_END();
}
void h_sfor_run_body(void) {
    mk_task(); Range r; r.id = nondet_size_t();
    start_for_run_body(&T, &r);
    OBLIGATION(g_body_calls == 1 && g_inv_body == &T.my_body && g_inv_range == &r, "C05.sfor.run_body: the task's own body copy is applied once to exactly the subrange handed in");
    VACUITY_END();
}
#endif /* SFOR */

#ifdef ND
/* ------------------------------------------------------------------ 2-D / 3-D dimension choice */
#define SPLIT_T int
bool g_dim_bad; unsigned g_dim_calls;
static Value dim_do_split(struct blocked_range *dim) {
    g_dim_calls++;
    if (!blocked_range_is_divisible(dim)) g_dim_bad = true;   /* the in-code assertion of blocked_range::do_split */
    return dim->my_begin;
}
#define DIM_DO_SPLIT(dim, s) dim_do_split(dim)
#include "brange_nd.inc"
Value IN_rb, IN_re, IN_cb, IN_ce, IN_pb, IN_pe; size_t IN_rg, IN_cg, IN_pg;
static void mk_dim(struct blocked_range *d, Value *ib, Value *ie, size_t *ig) {
    Value b = *ib = nondet_size_t(), e = *ie = nondet_size_t(); size_t g = *ig = nondet_size_t();
    __CPROVER_assume(b <= e && g > 0);
    blocked_range_ctor(d, b, e, g);
}
void h_br2d(void) {
    struct blocked_range2d r, n;
    mk_dim(&r.my_rows, &IN_rb, &IN_re, &IN_rg); mk_dim(&r.my_cols, &IN_cb, &IN_ce, &IN_cg);
    __CPROVER_assume(blocked_range2d_is_divisible(&r));
#ifdef ND_SMALL
    __CPROVER_assume(IN_re - IN_rb <= ((size_t)1 << 12) && IN_ce - IN_cb <= ((size_t)1 << 12) && IN_rg <= ((size_t)1 << 12) && IN_cg <= ((size_t)1 << 12));
#endif
    n = r; g_dim_bad = false; g_dim_calls = 0;
    blocked_range2d_do_split(&n, &r, 0);
    OBLIGATION(g_dim_calls == 1, "C05.2d: exactly one dimension is split");
    OBLIGATION(!g_dim_bad, "C05.2d: the dimension handed to do_split is itself divisible");
    VACUITY_END();
}
void h_br3d(void) {
    struct blocked_range3d r, n;
    mk_dim(&r.my_pages, &IN_pb, &IN_pe, &IN_pg); mk_dim(&r.my_rows, &IN_rb, &IN_re, &IN_rg); mk_dim(&r.my_cols, &IN_cb, &IN_ce, &IN_cg);
    __CPROVER_assume(blocked_range3d_is_divisible(&r));
#ifdef ND_SMALL
    __CPROVER_assume(IN_re - IN_rb <= ((size_t)1 << 12) && IN_ce - IN_cb <= ((size_t)1 << 12) && IN_pe - IN_pb <= ((size_t)1 << 12)
                     && IN_rg <= ((size_t)1 << 12) && IN_cg <= ((size_t)1 << 12) && IN_pg <= ((size_t)1 << 12));
#endif
    n = r; g_dim_bad = false; g_dim_calls = 0;
    blocked_range3d_do_split(&n, &r, 0);
    OBLIGATION(g_dim_calls == 1, "C05.3d: exactly one dimension is split");
    OBLIGATION(!g_dim_bad, "C05.3d: the dimension handed to do_split is itself divisible");
    VACUITY_END();
}
#endif

#ifdef PFOR
/* ------------------------------------------------------------------ parallel_for(first,last,step) */
#define WIDE long          /* every claimed Index type is at most 32 bits wide, so 64-bit arithmetic is exact */
#if defined(IT_schar)
#define IDX_MAX ((WIDE)SCHAR_MAX)
#elif defined(IT_uchar)
#define IDX_MAX ((WIDE)UCHAR_MAX)
#elif defined(IT_short)
#define IDX_MAX ((WIDE)SHRT_MAX)
#elif defined(IT_int)
#define IDX_MAX ((WIDE)INT_MAX)
#elif defined(IT_ushort)
#define IDX_MAX ((WIDE)USHRT_MAX)
#elif defined(IT_unsigned)
#define IDX_MAX ((WIDE)UINT_MAX)
#endif
bool g_threw, g_pf_called; Index g_rb, g_re; struct pf_body g_body;
#define VERIF_THROW(id) do { g_threw = true; return; } while (0)
struct pf_body;
static void STUB_parallel_for(struct blocked_range *r, void *b);
Index g_k; bool g_inv_called; Index g_inv_val;
static void STUB_invoke(Index k) { g_inv_called = true; g_inv_val = k; }
#define LOOP_pf_body_1
#include "pfor.inc"
static void STUB_parallel_for(struct blocked_range *r, void *b) { g_pf_called = true; g_rb = r->my_begin; g_re = r->my_end; g_body = *(struct pf_body *)b; }
Index IN_first, IN_last, IN_step; bool IN_ctx; Index IN_kk;
void h_pfor(void) {
    Index first = IN_first = nondet_u64(), last = IN_last = nondet_u64(), step = IN_step = nondet_u64();
    IN_ctx = nondet_bool();
    g_threw = g_pf_called = false;
    if (IN_ctx) parallel_for_impl_ctx(first, last, step); else parallel_for_impl(first, last, step);
    OBLIGATION(g_threw == (step <= 0), "C05.pfor: a non-positive step is rejected");
    if (step > 0) {
        WIDE span = (WIDE)last - (WIDE)first;
        OBLIGATION(g_pf_called == (span > 0), "C05.pfor: the loop runs iff first < last");
        if (span > 0) {
            /* N = ceil(span/step) without dividing: (N-1)*step < span <= N*step.  Only claimed when N is representable in Index. */
            WIDE N = (WIDE)g_re;
            bool representable = span <= IDX_MAX * (WIDE)step;   /* ceil(span/step) <= IDX_MAX */
            /* F3 domain: the span itself does not fit Index although the iteration count does (signed Index only) */
            bool span_fits = span <= IDX_MAX;
            if (representable && span_fits) {
                OBLIGATION(g_rb == 0 && g_re > 0, "C05.pfor: iteration space starts at 0 and is non-empty");
                OBLIGATION((N - 1) * (WIDE)step < span && span <= N * (WIDE)step, "C05.pfor: number of iterations == ceil((last-first)/step)");
                OBLIGATION(g_body.my_begin == first && g_body.my_step == step, "C05.pfor: body wrapper carries first and step");
                /* one arbitrary iteration k of the space is handed the value first + k*step */
                Index k = IN_kk = nondet_u64();
                __CPROVER_assume(k >= 0 && k < g_re);
                struct blocked_range one; blocked_range_ctor(&one, k, k + 1, 1);
                g_inv_called = false;
                pf_body_call(&g_body, &one);
                OBLIGATION(g_inv_called && (WIDE)g_inv_val == (WIDE)first + (WIDE)k * (WIDE)step, "C05.pfor: iteration k is applied to first + k*step");
            }
            if (representable && !span_fits) {
                OBLIGATION(g_rb == 0 && g_re > 0 && (N - 1) * (WIDE)step < span && span <= N * (WIDE)step,
                           "C05.pfor[span > Index max]: number of iterations == ceil((last-first)/step) when last-first overflows Index but the count fits");
            }
        }
    }
    VACUITY_END();
}
#endif
