/* C05 harnesses.  *.inc files are generated from /repo on every run (specs/C05/spec.py). */
#include "verif.h"
#define unsigned_SP_char unsigned char
#define signed_SP_char signed char
#define unsigned_SP_short unsigned short
typedef unsigned char depth_t;
#define MaxCapacity 8
#define __TBB_DEMAND_DEPTH_ADD 1
#ifndef PART_FACTOR
#define PART_FACTOR 1u
#endif
#define DESTROY(p) ((void)0)   /* destructor of a trivially destructible range */
enum { DELAY_begin = 0, DELAY_run, DELAY_pass };

#include "psplit.inc"
#include "brange.inc"

#if defined(VT_int)
#define WIDE long
#define NO_OVERFLOW(b, e) ((long)(e) - (long)(b) <= (long)INT_MAX)
#else
#define NO_OVERFLOW(b, e) 1
#endif

#if !defined(PFOR) && !defined(ND)
/* ------------------------------------------------------------------ blocked_range split */
Value IN_b, IN_e; size_t IN_g;
static void mk_range(struct blocked_range *r) {
    Value b = IN_b = nondet_u64(), e = IN_e = nondet_u64(); size_t g = IN_g = nondet_size_t();
    __CPROVER_assume(!(e < b) && g > 0 && NO_OVERFLOW(b, e));
    blocked_range_ctor(r, b, e, g);
}
void h_br_split(void) {
    struct blocked_range r, n;
    mk_range(&r);
    __CPROVER_assume(blocked_range_is_divisible(&r));
    size_t n0 = blocked_range_size(&r), g = IN_g;
    blocked_range_ctor_s(&n, &r);
    OBLIGATION(r.my_begin == IN_b && n.my_end == IN_e, "C05.split: the two halves start/end where the original did");
    OBLIGATION(r.my_end == n.my_begin, "C05.split: halves are adjacent: no element lost, none in both");
    OBLIGATION(!blocked_range_empty(&r) && !blocked_range_empty(&n), "C05.split: both halves are non-empty");
    OBLIGATION(blocked_range_size(&r) == n0 / 2 && blocked_range_size(&n) == n0 - n0 / 2, "C05.split: sizes are floor(n/2) and ceil(n/2)");
    OBLIGATION(r.my_grainsize == g && n.my_grainsize == g, "C05.split: grainsize is inherited by both halves");
    OBLIGATION(blocked_range_size(&r) >= g / 2 + (g & 1) && blocked_range_size(&n) >= g / 2 + (g & 1), "C05.split: halves of a divisible range are >= ceil(grain/2) (simple-partitioner lower bound)");
    VACUITY_END();
}
size_t IN_left, IN_right;
void h_br_propsplit(void) {
    struct blocked_range r, n; struct proportional_split p;
    mk_range(&r);
    __CPROVER_assume(blocked_range_is_divisible(&r));
    size_t l = IN_left = nondet_size_t(), rt = IN_right = nondet_size_t();
    __CPROVER_assume(rt >= 1 && rt <= l && l - rt <= 1 && l <= ((size_t)1 << 32));   /* what get_split() produces */
    proportional_split_ctor(&p, l, rt);
    size_t n0 = blocked_range_size(&r);
    blocked_range_ctor_p(&n, &r, &p);
    OBLIGATION(r.my_begin == IN_b && n.my_end == IN_e && r.my_end == n.my_begin, "C05.propsplit: halves adjacent and covering");
    OBLIGATION(IN_b < r.my_end && r.my_end < IN_e, "C05.propsplit: split point strictly inside: both parts non-empty");
    OBLIGATION(blocked_range_size(&r) + blocked_range_size(&n) == n0, "C05.propsplit: sizes add up");
    VACUITY_END();
}

/* ------------------------------------------------------------------ partitioner divisor arithmetic */
static bool STUB_is_peer_stolen(void) { return nondet_bool(); }
#include "partitioner.inc"
size_t IN_div; unsigned char IN_depth;
static void mk_part(struct part *p) {
    p->my_divisor = IN_div = nondet_size_t(); p->my_max_depth = IN_depth = nondet_uchar();
    p->my_delay = nondet_int(); __CPROVER_assume(p->my_delay >= DELAY_begin && p->my_delay <= DELAY_pass);
    p->my_head = nondet_size_t(); p->my_max_affinity = nondet_size_t();
}
void h_adaptive_split(void) {
    struct part src, self; mk_part(&src); self = src;
    size_t d = src.my_divisor;
    self.my_divisor = adaptive_do_split(&self, &src);
    OBLIGATION(src.my_divisor == d / 2 && self.my_divisor == d / 2, "C05.part: adaptive split halves the divisor on both sides");
    OBLIGATION(src.my_divisor + self.my_divisor <= d, "C05.part: divisor never grows by splitting");
    VACUITY_END();
}
void h_proportional(void) {
    struct part src, self; mk_part(&src); self = src;
    size_t d = src.my_divisor;
    __CPROVER_assume(d % PART_FACTOR == 0);                   /* established by the constructors and preserved (proved below) */
    __CPROVER_assume(src.my_max_affinity >= 1 && src.my_head < src.my_max_affinity && d <= src.my_max_affinity);
    __CPROVER_assume(proportional_is_divisible(&src));
    struct proportional_split s = proportional_get_split(&src);
    OBLIGATION(s.my_right >= 1 && s.my_right <= s.my_left && s.my_left - s.my_right <= 1, "C05.part: get_split yields 1 <= right <= left <= right+1");
    OBLIGATION(s.my_left + s.my_right == d / PART_FACTOR, "C05.part: proportion sums to the divisor");
    size_t portion = proportional_do_split(&self, &src, &s);
    self.my_divisor = portion;
    OBLIGATION(portion + src.my_divisor == d, "C05.part: proportional split conserves the divisor");
    OBLIGATION(portion >= PART_FACTOR && src.my_divisor >= PART_FACTOR, "C05.part: both sides keep at least one unit (no underflow)");
    OBLIGATION(portion % PART_FACTOR == 0 && src.my_divisor % PART_FACTOR == 0, "C05.part: divisors stay multiples of factor");
    linear_affinity_ctor_p(&self, &src, &s);                  /* CBMC div-by-zero check covers the % my_max_affinity */
    OBLIGATION(self.my_head < self.my_max_affinity && self.my_max_affinity == src.my_max_affinity, "C05.part: affinity head stays inside the affinity array");
    VACUITY_END();
}
void h_auto_is_divisible(void) {
    struct part p; mk_part(&p);
    size_t d = p.my_divisor; depth_t dep = p.my_max_depth;
    bool r = auto_is_divisible(&p);
    OBLIGATION(r == (d > 1 || (d == 1 && dep > 0)), "C05.part: auto partitioner divisible iff divisor>1 or one depth-paid split is left");
    OBLIGATION(p.my_max_depth <= dep && (d > 1 ? (p.my_divisor == d && p.my_max_depth == dep) : 1), "C05.part: depth never wraps below zero");
    OBLIGATION(!(r && d <= 1) || (p.my_divisor == 0 && p.my_max_depth == dep - 1), "C05.part: the depth-paid split is taken once");
    VACUITY_END();
}
void h_check_for_demand(void) {
    struct part p; mk_part(&p);
    size_t d = p.my_divisor; depth_t dep = p.my_max_depth; int dl = p.my_delay;
    bool r = dyn_check_for_demand(&p, 0);
    OBLIGATION(!r || dl == DELAY_pass, "C05.part: demand is only reported in the pass phase");
    OBLIGATION(p.my_divisor == d || (p.my_divisor == 0 && d == 1), "C05.part: check_for_demand only ever clears a divisor of one");
    OBLIGATION(dl != DELAY_begin || p.my_delay == DELAY_pass, "C05.part: begin -> pass");
    if (dep < 255) OBLIGATION(p.my_max_depth >= dep, "C05.part: depth only grows on demand");
    depth_t base = nondet_uchar(); __CPROVER_assume(base <= p.my_max_depth);
    depth_t before = p.my_max_depth;
    dyn_align_depth(&p, base);
    OBLIGATION(p.my_max_depth == before - base, "C05.part: align_depth subtracts without wrapping");
    VACUITY_END();
}

/* ------------------------------------------------------------------ range_vector */
#define LOOP_split_to_fill_1
#include "range_vector.inc"
/* representation invariant: circular buffer of `size` adjacent non-empty ranges; back (head) is the LEFTMOST */
static bool rv_inv(struct range_vector *v, Value B, Value E, size_t G) {
    if (!(v->my_size <= MaxCapacity && v->my_head < MaxCapacity && v->my_tail < MaxCapacity)) return false;
    if (v->my_size == 0) return B == E;
    if (v->my_head != (v->my_tail + v->my_size - 1) % MaxCapacity) return false;
    Value hi = E;
    for (unsigned k = 0; k < MaxCapacity; ++k) {
        if (k < v->my_size) {
            struct blocked_range *s = &v->my_pool[(v->my_tail + k) % MaxCapacity];
            if (!(s->my_end == hi && s->my_begin < s->my_end && s->my_grainsize == G)) return false;
            hi = s->my_begin;
        }
    }
    return hi == B;
}
unsigned char IN_op, IN_maxd;
void h_rv_ops(void) {
    struct range_vector v; Value B = IN_b = nondet_size_t(), E = IN_e = nondet_size_t(); size_t G = IN_g = nondet_size_t();
    __CPROVER_assume(G > 0);
#ifdef RV_TAIL
    v.my_tail = RV_TAIL;
#endif
#ifdef RV_SIZE
    v.my_size = RV_SIZE; v.my_head = (RV_TAIL + RV_SIZE - 1) % MaxCapacity;
#endif
    __CPROVER_assume(rv_inv(&v, B, E, G) && v.my_size >= 1);
#ifdef RV_OP
    unsigned char op = IN_op = RV_OP;
#else
    unsigned char op = IN_op = nondet_uchar();
#endif
    depth_t maxd = IN_maxd = nondet_uchar();
    depth_t size0 = v.my_size;
    if (op == 0) {
        range_vector_split_to_fill(&v, maxd);
        OBLIGATION(rv_inv(&v, B, E, G), "C05.pool: split_to_fill keeps the pool an ordered tiling of the same range");
        OBLIGATION(v.my_size >= size0 && v.my_size <= MaxCapacity, "C05.pool: split_to_fill never exceeds the capacity");
        OBLIGATION(v.my_size == MaxCapacity || !range_vector_is_divisible(&v, maxd), "C05.pool: fills until full or the back is not divisible / max depth reached");
    } else if (op == 1) {
        struct blocked_range *bk = range_vector_back(&v);
        Value b = bk->my_begin, e = bk->my_end;
        OBLIGATION(b == B && b < e, "C05.pool: back() is the leftmost, non-empty part");
        range_vector_pop_back(&v);
        OBLIGATION(rv_inv(&v, e, E, G), "C05.pool: pop_back removes exactly the back range");
    } else {
        struct blocked_range *fr = range_vector_front(&v);
        Value b = fr->my_begin, e = fr->my_end;
        OBLIGATION(e == E && b < e, "C05.pool: front() is the rightmost, non-empty part");
        range_vector_pop_front(&v);
        OBLIGATION(rv_inv(&v, B, b, G), "C05.pool: pop_front removes exactly the front range");
    }
    VACUITY_END();
}
void h_rv_ctor(void) {
    struct blocked_range r; mk_range(&r); __CPROVER_assume(!blocked_range_empty(&r));
    struct range_vector v; range_vector_ctor(&v, &r);
    OBLIGATION(rv_inv(&v, IN_b, IN_e, IN_g) && v.my_size == 1 && v.my_depth[0] == 0, "C05.pool: the pool starts as the one given range at depth 0");
    VACUITY_END();
}

/* ------------------------------------------------------------------ execute loops, ghost accounting */
struct start_for { int dummy; };
Value g_B0, g_E0, g_hi; size_t g_G; unsigned long g_nsplits; bool g_ran; Value g_run_b, g_run_e; unsigned long g_nrun;
/* offer_work: constructs the right-hand task's range with the REAL splitting constructor (contract: only divisible ranges) */
static void start_offer_work_split(struct start_for *st, struct blocked_range *range) {
    OBLIGATION(blocked_range_is_divisible(range), "C05.exec: a range that is not divisible is never split");
    struct blocked_range right;
    blocked_range_ctor_s(&right, range);
    OBLIGATION(right.my_end == g_hi && right.my_begin == range->my_end && right.my_begin < right.my_end, "C05.exec: offered chunk is the non-empty top part of what was left");
    g_hi = right.my_begin; g_nsplits++;
}
static void start_run_body(struct start_for *st, struct blocked_range *range) {
    OBLIGATION(!blocked_range_empty(range), "C05.exec: the body is never given an empty range");
    g_ran = true; g_run_b = range->my_begin; g_run_e = range->my_end; g_nrun++;
}
#define EXEC_INV (range->my_begin == g_B0 && range->my_end == g_hi && range->my_grainsize == g_G && g_B0 < g_hi && g_hi <= g_E0 \
                  && (g_nsplits == 0 || (size_t)(g_hi - g_B0) >= g_G / 2 + (g_G & 1)))
#define LOOP_simple_execute_1 __CPROVER_assigns(range->my_end, g_hi, g_nsplits) __CPROVER_loop_invariant(EXEC_INV) __CPROVER_decreases((size_t)(g_hi - g_B0))
#ifdef AUTO_PART
#define PART_IS_DIVISIBLE(p) auto_is_divisible(p)
#define PART_SPLIT_T int
#define PART_GET_SPLIT(p) 0
struct part g_right_part;
static void part_offer_work(struct start_for *st, struct blocked_range *range, struct part *self) {
    start_offer_work_split(st, range);
    g_right_part = *self; g_right_part.my_divisor = adaptive_do_split(&g_right_part, self);   /* adaptive_mode(src, split) */
}
#define PART_OFFER_WORK(st, r, p, s) part_offer_work(st, r, p)
#define PART_WORK_BALANCE(p, st, r) start_run_body(st, r)
#define LOOP_base_execute_1 __CPROVER_assigns(range->my_end, g_hi, g_nsplits, self->my_divisor, self->my_max_depth, g_right_part) \
        __CPROVER_loop_invariant(EXEC_INV && (size_t)(g_hi - g_B0) > g_G) __CPROVER_decreases((size_t)(g_hi - g_B0))
#else
#define PART_IS_DIVISIBLE(p) 0
#define PART_SPLIT_T int
#define PART_GET_SPLIT(p) 0
#define PART_OFFER_WORK(st, r, p, s) ((void)0)
#define PART_WORK_BALANCE(p, st, r) ((void)0)
#define LOOP_base_execute_1
#endif
static bool STUB_is_cancelled(void) { return nondet_bool(); }
#ifdef WB
/* work_balance: ghost accounting over the pool: everything handed out (run or offered) so far is [g_B0,g_lo) U [g_top,g_E0) */
Value g_lo, g_top;
static void wb_run_body(struct start_for *st, struct blocked_range *r) {
    OBLIGATION(r->my_begin < r->my_end, "C05.wb: the body is never given an empty range");
    OBLIGATION(r->my_begin == g_lo, "C05.wb: the chunk run is the next not-yet-covered part from the bottom");
    g_lo = r->my_end; g_nrun++;
}
static void start_offer_work_range(struct start_for *st, struct blocked_range *r, depth_t d) {
    OBLIGATION(r->my_begin < r->my_end, "C05.wb: an offered chunk is non-empty");
    OBLIGATION(r->my_end == g_top, "C05.wb: the chunk offered is the topmost not-yet-covered part");
    g_top = r->my_begin;
}
#define start_run_body wb_run_body
#define PART_CHECK_FOR_DEMAND(p) dyn_check_for_demand(p, 0)
#define S(k) range_pool.my_pool[(range_pool.my_tail + (k)) % MaxCapacity]
#define SLOT_OK(k, hi) ((k) >= range_pool.my_size || (S(k).my_end == (hi) && S(k).my_begin < S(k).my_end && S(k).my_grainsize == g_G))
#define LO(k, hi) ((k) < range_pool.my_size ? S(k).my_begin : (hi))
#define WB_INV (range_pool.my_size >= 1 && range_pool.my_size <= MaxCapacity && range_pool.my_head < MaxCapacity && range_pool.my_tail < MaxCapacity \
    && range_pool.my_head == (range_pool.my_tail + range_pool.my_size - 1) % MaxCapacity \
    && SLOT_OK(0, g_top) && SLOT_OK(1, LO(0, g_top)) && SLOT_OK(2, LO(1, LO(0, g_top))) && SLOT_OK(3, LO(2, LO(1, LO(0, g_top)))) \
    && SLOT_OK(4, LO(3, LO(2, LO(1, LO(0, g_top))))) && SLOT_OK(5, LO(4, LO(3, LO(2, LO(1, LO(0, g_top)))))) \
    && SLOT_OK(6, LO(5, LO(4, LO(3, LO(2, LO(1, LO(0, g_top))))))) && SLOT_OK(7, LO(6, LO(5, LO(4, LO(3, LO(2, LO(1, LO(0, g_top)))))))) \
    && LO(7, LO(6, LO(5, LO(4, LO(3, LO(2, LO(1, LO(0, g_top)))))))) == g_lo && g_B0 <= g_lo && g_lo < g_top && g_top <= g_E0)
#define LOOP_work_balance_1 __CPROVER_assigns(range_pool, g_lo, g_top, g_nrun, self->my_divisor, self->my_max_depth, self->my_delay) __CPROVER_loop_invariant(WB_INV)
#else
#define PART_CHECK_FOR_DEMAND(p) 0
static void start_offer_work_range(struct start_for *st, struct blocked_range *r, depth_t d) {}
#define LOOP_work_balance_1
#endif
#include "execute.inc"

static void mk_exec(struct blocked_range *r) {
    mk_range(r);
    __CPROVER_assume(!blocked_range_empty(r));
    g_B0 = r->my_begin; g_E0 = g_hi = r->my_end; g_G = r->my_grainsize; g_nsplits = 0; g_ran = false; g_nrun = 0;
}
void h_simple_execute(void) {
    struct blocked_range r; struct start_for st; struct part p;
    mk_exec(&r);
    simple_execute(&p, &st, &r);
    OBLIGATION(g_ran && g_nrun == 1 && g_run_b == g_B0 && g_run_e == g_hi, "C05.exec: what is left after the offers is run, once; offers + run tile the original range");
    OBLIGATION((size_t)(g_run_e - g_run_b) <= g_G || g_nsplits == 0 && 0, "C05.exec: simple partitioner runs chunks of at most grainsize");
    OBLIGATION(g_nsplits == 0 || (size_t)(g_run_e - g_run_b) >= g_G / 2 + (g_G & 1), "C05.exec: ... and at least ceil(grainsize/2) once split");
    VACUITY_END();
}
#ifdef AUTO_PART
void h_base_execute(void) {
    struct blocked_range r; struct start_for st; struct part p; mk_part(&p);
    mk_exec(&r);
    base_execute(&p, &st, &r);
    OBLIGATION(g_ran && g_nrun == 1 && g_run_b == g_B0 && g_run_e == g_hi, "C05.exec: offers + remaining work tile the original range (auto partitioner)");
    VACUITY_END();
}
#endif
#ifdef WB
void h_work_balance(void) {
    struct blocked_range r; struct start_for st; struct part p; mk_part(&p);
    mk_exec(&r);
    g_lo = g_B0; g_top = g_E0;
    dyn_work_balance(&p, &st, &r);
    /* on normal exit (not cancelled) everything is covered; on cancellation what was handed out is still a disjoint prefix/suffix */
    OBLIGATION(g_B0 <= g_lo && g_lo <= g_top && g_top <= g_E0, "C05.wb: chunks handed out never overlap");
    VACUITY_END();
}
#endif
#endif /* !PFOR && !ND */

#ifdef ND
/* ------------------------------------------------------------------ 2-D / 3-D dimension choice */
#define SPLIT_T int
bool g_dim_bad; unsigned g_dim_calls;
static Value dim_do_split(struct blocked_range *dim) {
    g_dim_calls++;
    if (!blocked_range_is_divisible(dim)) g_dim_bad = true;   /* the in-code assertion of blocked_range::do_split */
    return dim->my_begin;
}
#define DIM_DO_SPLIT(dim, s) dim_do_split(dim)
#include "brange_nd.inc"
Value IN_rb, IN_re, IN_cb, IN_ce, IN_pb, IN_pe; size_t IN_rg, IN_cg, IN_pg;
static void mk_dim(struct blocked_range *d, Value *ib, Value *ie, size_t *ig) {
    Value b = *ib = nondet_size_t(), e = *ie = nondet_size_t(); size_t g = *ig = nondet_size_t();
    __CPROVER_assume(b <= e && g > 0);
    blocked_range_ctor(d, b, e, g);
}
void h_br2d(void) {
    struct blocked_range2d r, n;
    mk_dim(&r.my_rows, &IN_rb, &IN_re, &IN_rg); mk_dim(&r.my_cols, &IN_cb, &IN_ce, &IN_cg);
    __CPROVER_assume(blocked_range2d_is_divisible(&r));
#ifdef ND_SMALL
    __CPROVER_assume(IN_re - IN_rb <= ((size_t)1 << 12) && IN_ce - IN_cb <= ((size_t)1 << 12) && IN_rg <= ((size_t)1 << 12) && IN_cg <= ((size_t)1 << 12));
#endif
    n = r; g_dim_bad = false; g_dim_calls = 0;
    blocked_range2d_do_split(&n, &r, 0);
    OBLIGATION(g_dim_calls == 1, "C05.2d: exactly one dimension is split");
    OBLIGATION(!g_dim_bad, "C05.2d: the dimension handed to do_split is itself divisible");
    VACUITY_END();
}
void h_br3d(void) {
    struct blocked_range3d r, n;
    mk_dim(&r.my_pages, &IN_pb, &IN_pe, &IN_pg); mk_dim(&r.my_rows, &IN_rb, &IN_re, &IN_rg); mk_dim(&r.my_cols, &IN_cb, &IN_ce, &IN_cg);
    __CPROVER_assume(blocked_range3d_is_divisible(&r));
#ifdef ND_SMALL
    __CPROVER_assume(IN_re - IN_rb <= ((size_t)1 << 12) && IN_ce - IN_cb <= ((size_t)1 << 12) && IN_pe - IN_pb <= ((size_t)1 << 12)
                     && IN_rg <= ((size_t)1 << 12) && IN_cg <= ((size_t)1 << 12) && IN_pg <= ((size_t)1 << 12));
#endif
    n = r; g_dim_bad = false; g_dim_calls = 0;
    blocked_range3d_do_split(&n, &r, 0);
    OBLIGATION(g_dim_calls == 1, "C05.3d: exactly one dimension is split");
    OBLIGATION(!g_dim_bad, "C05.3d: the dimension handed to do_split is itself divisible");
    VACUITY_END();
}
#endif

#ifdef PFOR
/* ------------------------------------------------------------------ parallel_for(first,last,step) */
#define WIDE long          /* every claimed Index type is at most 32 bits wide, so 64-bit arithmetic is exact */
#if defined(IT_schar)
#define IDX_MAX ((WIDE)SCHAR_MAX)
#elif defined(IT_uchar)
#define IDX_MAX ((WIDE)UCHAR_MAX)
#elif defined(IT_short)
#define IDX_MAX ((WIDE)SHRT_MAX)
#elif defined(IT_int)
#define IDX_MAX ((WIDE)INT_MAX)
#elif defined(IT_ushort)
#define IDX_MAX ((WIDE)USHRT_MAX)
#elif defined(IT_unsigned)
#define IDX_MAX ((WIDE)UINT_MAX)
#endif
bool g_threw, g_pf_called; Index g_rb, g_re; struct pf_body g_body;
#define VERIF_THROW(id) do { g_threw = true; return; } while (0)
struct pf_body;
static void STUB_parallel_for(struct blocked_range *r, void *b);
Index g_k; bool g_inv_called; Index g_inv_val;
static void STUB_invoke(Index k) { g_inv_called = true; g_inv_val = k; }
#define LOOP_pf_body_1
#include "pfor.inc"
static void STUB_parallel_for(struct blocked_range *r, void *b) { g_pf_called = true; g_rb = r->my_begin; g_re = r->my_end; g_body = *(struct pf_body *)b; }
Index IN_first, IN_last, IN_step; bool IN_ctx; Index IN_kk;
void h_pfor(void) {
    Index first = IN_first = nondet_u64(), last = IN_last = nondet_u64(), step = IN_step = nondet_u64();
    IN_ctx = nondet_bool();
    g_threw = g_pf_called = false;
    if (IN_ctx) parallel_for_impl_ctx(first, last, step); else parallel_for_impl(first, last, step);
    OBLIGATION(g_threw == (step <= 0), "C05.pfor: a non-positive step is rejected");
    if (step > 0) {
        WIDE span = (WIDE)last - (WIDE)first;
        OBLIGATION(g_pf_called == (span > 0), "C05.pfor: the loop runs iff first < last");
        if (span > 0) {
            /* N = ceil(span/step) without dividing: (N-1)*step < span <= N*step.  Only claimed when N is representable in Index. */
            WIDE N = (WIDE)g_re;
            bool representable = span <= IDX_MAX * (WIDE)step;   /* ceil(span/step) <= IDX_MAX */
            /* F3 domain: the span itself does not fit Index although the iteration count does (signed Index only) */
            bool span_fits = span <= IDX_MAX;
            if (representable && span_fits) {
                OBLIGATION(g_rb == 0 && g_re > 0, "C05.pfor: iteration space starts at 0 and is non-empty");
                OBLIGATION((N - 1) * (WIDE)step < span && span <= N * (WIDE)step, "C05.pfor: number of iterations == ceil((last-first)/step)");
                OBLIGATION(g_body.my_begin == first && g_body.my_step == step, "C05.pfor: body wrapper carries first and step");
                /* one arbitrary iteration k of the space is handed the value first + k*step */
                Index k = IN_kk = nondet_u64();
                __CPROVER_assume(k >= 0 && k < g_re);
                struct blocked_range one; blocked_range_ctor(&one, k, k + 1, 1);
                g_inv_called = false;
                pf_body_call(&g_body, &one);
                OBLIGATION(g_inv_called && (WIDE)g_inv_val == (WIDE)first + (WIDE)k * (WIDE)step, "C05.pfor: iteration k is applied to first + k*step");
            }
            if (representable && !span_fits) {
                OBLIGATION(g_rb == 0 && g_re > 0 && (N - 1) * (WIDE)step < span && span <= N * (WIDE)step,
                           "C05.pfor[span > Index max]: number of iterations == ceil((last-first)/step) when last-first overflows Index but the count fits");
            }
        }
    }
    VACUITY_END();
}
#endif
