"""C03 -- a task's exception surfaces exactly once at the wait, after the group stopped.

What is decided is the bookkeeping AROUND the C++ exception machinery, with every exception edge made explicit:
`catch (...) { H }` blocks and `try_call(B).on_exception/on_completion(H)` lambdas are sliced as they stand; a callee that may throw is followed
by `if (EXC_PENDING()) goto <handler>;` (or `return`), the pending exception being a ghost value set by the callee stub (EXC_... macros)."""
import os
import sys
import re
HERE = os.path.dirname(os.path.abspath(__file__))
sys.path.insert(0, os.path.join(HERE, '..'))
sys.path.insert(0, os.path.join(HERE, '..', '..', 'tools'))
import common
import native
import cxx2c
from cxx2c import Rewriter, slice_block, slice_stmt, tag_loops, ExtractionBreak, load, mask, match_close
from prove import Job

TDH = 'src/tbb/task_dispatcher.h'
TDC = 'src/tbb/task_dispatcher.cpp'
TG = 'src/tbb/task_group_context.cpp'
SCH = 'src/tbb/scheduler_common.h'
TGH = 'include/oneapi/tbb/task_group.h'
ARC = 'src/tbb/arena.cpp'
FGI = 'include/oneapi/tbb/detail/_flow_graph_impl.h'
THH = 'include/oneapi/tbb/detail/_task_handle.h'
TPL = 'include/oneapi/tbb/detail/_template_helpers.h'
PPL = 'src/tbb/parallel_pipeline.cpp'

LWFA = r'd1::task\* task_dispatcher::local_wait_for_all\(d1::task\* t, Waiter& waiter \)'


def need(rel, pat, what):
    """textual side condition on code that is represented by a harness macro (a change there is an extraction break, never a pass)"""
    if not re.search(pat, cxx2c.strip_comments(load(rel))):
        raise ExtractionBreak('%s: %s' % (rel, what))


def handler_rules(rw, t):
    """the catch-all handler of the dispatch loop (shared by the handler-alone slice and the whole exception loop)"""
    t = rw.sub(t, r'global_control::active_value\(global_control::terminate_on_exception\)', 'STUB_terminate_on_exception()', 0, None, name='global_control::active_value(terminate_on_exception) -> stub')
    t = rw.sub(t, r'do_throw_noexcept\(\[\] \{ throw; \}\);', 'EXC_TERMINATE();', 0, None, name='rethrow inside a noexcept function -> EXC_TERMINATE (std::terminate)')
    t = rw.sub(t, r'tbb_exception_ptr::allocate\(\)', 'tbb_exception_ptr_allocate()', 0, None, name='static member call')
    t = rw.atomics(t, ['my_exception'], 0)
    t = rw.sub(t, r'\bed\.context = ([^;]*);', r'SET_ED_CONTEXT(ed, \1);', 0, None, name='ed.context = x -> SET_ED_CONTEXT (accessor)')
    t = rw.sub(t, r'\bed\.context\b', 'ED_CONTEXT(ed)', 0, None, name='ed.context -> ED_CONTEXT (accessor)')
    t = rw.sub(t, r'ED_CONTEXT\(ed\)->cancel_group_execution\(\)', 'cancel_group_execution(ED_CONTEXT(ed))', 0, None, name='d1::task_group_context::cancel_group_execution -> r1 implementation (sliced)')
    t = rw.sub(t, r'\bed\.', 'ed->', 0, None, name='ref')
    return t


def eptr_functions(ctx, rw, sliced):
    """tbb_exception_ptr::allocate / destroy / throw_self"""
    out = []
    need(SCH, r'class tbb_exception_ptr \{\s*std::exception_ptr my_ptr;', 'tbb_exception_ptr no longer consists of one std::exception_ptr my_ptr')
    need(SCH, r'tbb_exception_ptr\(const std::exception_ptr& src\) : my_ptr\(src\) \{\}', 'tbb_exception_ptr constructor no longer copies its argument into my_ptr')
    s = slice_block(TG, r'tbb_exception_ptr\* tbb_exception_ptr::allocate\(\) noexcept')
    sliced.append('%s:%d tbb_exception_ptr::allocate' % (TG, s.line))
    t = rw.sub(s.text, r'tbb_exception_ptr\* tbb_exception_ptr::allocate\(\) noexcept', 'struct tbb_exception_ptr* tbb_exception_ptr_allocate(void)', 1, 1, name='sig')
    t = rw.sub(t, r'new \(eptr\) tbb_exception_ptr\(std::current_exception\(\)\)', 'EPTR_CONSTRUCT(eptr, STUB_current_exception())', 0, None, name='placement new tbb_exception_ptr(std::current_exception()) -> EPTR_CONSTRUCT (constructor text checked)')
    t = rw.sub(t, r'\(tbb_exception_ptr\*\)allocate_memory\(sizeof\(tbb_exception_ptr\)\)', '(struct tbb_exception_ptr*)STUB_allocate_memory(sizeof(struct tbb_exception_ptr))', 0, None, name='callee stub (allocate_memory)')
    t = rw.sub(t, r'(?<!struct )\btbb_exception_ptr\*', 'struct tbb_exception_ptr*', 0, None, name='type')
    t = rw.std(t)
    out.append(t)
    s = slice_block(TG, r'void tbb_exception_ptr::destroy\(\) noexcept')
    sliced.append('%s:%d tbb_exception_ptr::destroy' % (TG, s.line))
    t = rw.sub(s.text, r'void tbb_exception_ptr::destroy\(\) noexcept', 'void tbb_exception_ptr_destroy(struct tbb_exception_ptr* self)', 1, 1, name='sig')
    t = rw.sub(t, r'this->~tbb_exception_ptr\(\);', 'EPTR_DTOR(self);', 0, None, name='explicit destructor call -> EPTR_DTOR')
    t = rw.sub(t, r'deallocate_memory\(this\);', 'STUB_deallocate_memory(self);', 0, None, name='callee stub (deallocate_memory)')
    t = rw.sub(t, r'\bthis\b', 'self', 0, None, name='this')
    t = rw.std(t)
    out.append(t)
    s = slice_block(TG, r'void tbb_exception_ptr::throw_self\(\)')
    sliced.append('%s:%d tbb_exception_ptr::throw_self' % (TG, s.line))
    t = rw.sub(s.text, r'void tbb_exception_ptr::throw_self\(\)', 'void tbb_exception_ptr_throw_self(struct tbb_exception_ptr* self)', 1, 1, name='sig')
    t = rw.sub(t, r'governor::rethrow_exception_broken\(\)', 'STUB_rethrow_exception_broken()', 0, None, name='callee stub')
    t = rw.sub(t, r'fix_broken_rethrow\(\);', 'STUB_fix_broken_rethrow();', 0, None, name='callee stub')
    t = rw.sub(t, r'std::rethrow_exception\(my_ptr\);', '{ EXC_RETHROW_EXCEPTION(self->my_ptr); return; }', 0, None, name='std::rethrow_exception(p) -> pending exception := p; leave')
    t = rw.std(t)
    out.append(t)
    return '\n'.join(out) + '\n'


def cancel_fn(rw, sliced):
    s = slice_block(TG, r'bool task_group_context_impl::cancel_group_execution\(d1::task_group_context& ctx\)')
    sliced.append('%s:%d task_group_context_impl::cancel_group_execution' % (TG, s.line))
    t = rw.sub(s.text, r'bool task_group_context_impl::cancel_group_execution\(d1::task_group_context& ctx\)', 'bool cancel_group_execution(struct tgc* ctx)', 1, 1, name='sig')
    t = rw.sub(t, r'__TBB_ASSERT\(!is_poisoned\(ctx\.my_context_list\), nullptr\);', 'RG_NOP();', 0, None, name='poison check -> RG_NOP')
    t = rw.sub(t, r'\bctx\.', 'ctx->', 0, None, name='ref-param')
    t = rw.atomics(t, ['my_cancellation_requested'], 0)
    t = rw.sub(t, r'governor::get_thread_data\(\)->my_arena->my_threading_control->propagate_task_group_state\(&d1::task_group_context::my_cancellation_requested, ctx, uint32_t\(1\)\);', 'STUB_propagate(ctx, 1);', 0, None, name='callee stub (C04)')
    t = rw.asserts(t, 0)
    t = rw.std(t)
    return t


def context_functions(rw, sliced):
    """task_group_context_impl::reset / destroy / initialize / is_group_execution_cancelled"""
    out = []
    s = slice_block(TG, r'void task_group_context_impl::reset\(d1::task_group_context& ctx\)')
    sliced.append('%s:%d task_group_context_impl::reset' % (TG, s.line))
    t = rw.sub(s.text, r'void task_group_context_impl::reset\(d1::task_group_context& ctx\)', 'void tgc_reset(struct tgc* ctx)', 1, 1, name='sig')
    t = ctx_common(rw, t)
    t = rw.sub(t, r'ctx->my_cancellation_requested = 0;', 'ATOMIC_STORE(ctx->my_cancellation_requested, 0);', 0, None, name='atomic assignment')
    t = rw.number_sites(t, 'reset', by_kind=True)
    out.append(t)
    s = slice_block(TG, r'void task_group_context_impl::destroy\(d1::task_group_context& ctx\)')
    sliced.append('%s:%d task_group_context_impl::destroy' % (TG, s.line))
    t = cxx2c.cpp_resolve(s.text, dict(common.TARGET_MACROS), 'task_group_context_impl::destroy')
    t = rw.sub(t, r'void task_group_context_impl::destroy\(d1::task_group_context& ctx\)', 'void tgc_destroy(struct tgc* ctx)', 1, 1, name='sig')
    t = rw.sub(t, r'ctx\.my_context_list->remove\(ctx\.my_node\);', 'LIST_REMOVE(ctx->my_context_list, ctx);', 0, None, name='context_list::remove')
    t = rw.sub(t, r'd1::cpu_ctl_env\* ctl = reinterpret_cast<d1::cpu_ctl_env\*>\(&ctx\.my_cpu_ctl_env\);', 'RG_NOP();', 0, None, name='fp environment -> RG_NOP')
    t = rw.sub(t, r'ctl->~cpu_ctl_env\(\);', 'RG_NOP();', 0, None, name='fp environment -> RG_NOP')
    t = rw.sub(t, r'ITT_STACK_DESTROY\(ctx\.my_itt_caller\);', 'RG_NOP();', 0, None, name='itt -> RG_NOP')
    t = rw.sub(t, r'poison_pointer\(ctx\.(my_node\.)?(\w+)\);', r'POISON(ctx->\1\2);', 0, None, name='poison_pointer (debug builds only) -> POISON')
    t = rw.sub(t, r'd1::task_group_context::state::(\w+)', r'state_\1', 0, None, name='enum scope')
    t = ctx_common(rw, t)
    t = rw.number_sites(t, 'destroy', by_kind=True)
    out.append(t)
    s = slice_block(TG, r'void task_group_context_impl::initialize\(d1::task_group_context& ctx\)')
    sliced.append('%s:%d task_group_context_impl::initialize' % (TG, s.line))
    t = rw.sub(s.text, r'void task_group_context_impl::initialize\(d1::task_group_context& ctx\)', 'void tgc_initialize(struct tgc* ctx)', 1, 1, name='sig')
    t = rw.sub(t, r'ITT_TASK_GROUP\(&ctx, ctx\.my_name, nullptr\);', 'RG_NOP();', 0, None, name='itt -> RG_NOP')
    t = rw.sub(t, r'(?s)static_assert\(sizeof\(d1::cpu_ctl_env\) <= sizeof\(ctx\.my_cpu_ctl_env\),.*?\);', 'RG_NOP();', 0, None, name='static_assert -> RG_NOP')
    t = rw.sub(t, r'd1::cpu_ctl_env\* ctl = new \(&ctx\.my_cpu_ctl_env\) d1::cpu_ctl_env;', 'RG_NOP();', 0, None, name='fp environment -> RG_NOP')
    t = rw.sub(t, r'ctl->get_env\(\);', 'RG_NOP();', 0, None, name='fp environment -> RG_NOP')
    t = rw.sub(t, r'ctx\.my_cancellation_requested = 0;', 'ATOMIC_STORE(ctx->my_cancellation_requested, 0);', 0, None, name='atomic assignment')
    t = rw.sub(t, r'd1::task_group_context::state::(\w+)', r'state_\1', 0, None, name='enum scope')
    t = rw.sub(t, r'&ctx\.my_node', '&ctx->my_node', 0, None, name='ref-param')
    t = ctx_common(rw, t)
    t = rw.number_sites(t, 'init', by_kind=True)
    out.append(t)
    s = slice_block(TG, r'bool task_group_context_impl::is_group_execution_cancelled\(const d1::task_group_context& ctx\)')
    sliced.append('%s:%d task_group_context_impl::is_group_execution_cancelled' % (TG, s.line))
    t = rw.sub(s.text, r'bool task_group_context_impl::is_group_execution_cancelled\(const d1::task_group_context& ctx\)', 'bool tgc_is_cancelled(struct tgc* ctx)', 1, 1, name='sig')
    t = ctx_common(rw, t)
    t = rw.number_sites(t, 'iscanc', by_kind=True)
    out.append(t)
    return '\n'.join(out) + '\n'


def ctx_common(rw, t):
    t = rw.sub(t, r'__TBB_ASSERT\(!is_poisoned\(ctx\.my_context_list\), nullptr\);', 'RG_NOP();', 0, None, name='poison check -> RG_NOP')
    t = rw.sub(t, r'\bctx\.', 'ctx->', 0, None, name='ref-param')
    t = rw.sub(t, r'auto exception = ', 'struct tbb_exception_ptr* exception = ', 0, None, name='auto')
    t = rw.sub(t, r'exception->destroy\(\);', 'tbb_exception_ptr_destroy(exception);', 0, None, name='method (tbb_exception_ptr::destroy, sliced)')
    t = rw.atomics(t, ['my_exception', 'my_cancellation_requested', 'my_may_have_children', 'my_state'], 0)
    t = rw.asserts(t, 0)
    t = rw.std(t)
    return t


def extract_capture(ctx, sliced, fired):
    rw = Rewriter('capture')
    s = slice_block(TDH, r'catch \(\.\.\.\) \{', within=LWFA)
    sliced.append('%s:%d task_dispatcher::local_wait_for_all: the catch (...) handler of the dispatch loop' % (TDH, s.line))
    t = rw.sub(s.text, r'catch \(\.\.\.\) \{', 'void lwfa_catch_all(execution_data_ext* ed, task* t) {', 1, 1, name='handler block -> function of its own (runs on the explicit edge "the task body threw")')
    t = handler_rules(rw, t)
    t = rw.std(t)
    t = rw.number_sites(t, 'catch', by_kind=True)
    c = cancel_fn(rw, sliced)
    c = rw.number_sites(c, 'cancel', by_kind=True)
    common.write(ctx, 'cancel.inc', c + '\n')
    common.write(ctx, 'handler.inc', t + '\n')
    common.write(ctx, 'eptr.inc', eptr_functions(ctx, rw, sliced))
    common.write(ctx, 'context.inc', context_functions(rw, sliced))
    fired['capture'] = rw.fired


def try_call_edges(rw, t, fname, exit_stmt, thrower=r'(?:d1_wait|d1_execute_and_wait|TASK_ARENA_EXECUTE)\('):
    """try_call([..] { B }).on_completion([..] { H });  ->  { B } { H } if (EXC_PENDING()) <exit>;          (the raii guard runs H on the normal and on the exception edge)
       try_call([..] { B }).on_exception([..] { H });   ->  { B } if (0) { ON_EXC_k: { H } <exit>; }          (H runs on the exception edge only, then the exception propagates)
       Every callee of B that may throw is followed by the explicit edge `if (EXC_PENDING()) goto ON_EXC_k / B_END_k;`.  _template_helpers.h is checked textually."""
    need(TPL, r'void on_exception\( OnExceptionBody on_exception_body \) \{\s*auto guard = make_raii_guard\(on_exception_body\);\s*body\(\);\s*guard\.dismiss\(\);\s*\}', 'try_call_proxy::on_exception changed')
    need(TPL, r'void on_completion\(OnCompletionBody on_completion_body\) \{\s*auto guard = make_raii_guard\(on_completion_body\);\s*body\(\);\s*\}', 'try_call_proxy::on_completion changed')
    need(TPL, r'~raii_guard\(\) \{\s*if \(is_active\) \{\s*my_func\(\);\s*\}\s*\}', 'raii_guard destructor changed')
    k = [0]

    def rep(m):
        k[0] += 1
        body, kind, h = m.group('b'), m.group('kind'), m.group('h')
        lab = ('B_END_%s_%d' if kind == 'completion' else 'ON_EXC_%s_%d') % (fname, k[0])
        body2, n = re.subn(r'(' + thrower + r'[^;]*;)', r'\1 if (EXC_PENDING()) goto %s;' % lab, body)
        if n == 0:
            raise ExtractionBreak('%s: try_call body without a known throwing callee: %r' % (fname, body[:80]))
        if kind == 'completion':
            return '{%s} %s: ; /* on_completion */ {%s} if (EXC_PENDING()) %s' % (body2, lab, h, exit_stmt)
        return '{%s} if (0) { %s: ; /* on_exception */ {%s} %s }' % (body2, lab, h, exit_stmt)
    t, n = re.subn(r'(?s)try_call\(\[[&\w]*\] \{(?P<b>.*?)\}\)\.on_(?P<kind>completion|exception)\(\[[&\w]*\] \{(?P<h>.*?)\}\);', rep, t)
    rw._rec('try_call(B).on_completion/on_exception(H) -> explicit edges', n, 1)
    return t


def d1_context_methods(rw, sliced):
    """inline members of d1::task_group_context that the wait paths go through"""
    out = []
    W = r'class task_group_context : no_copy \{'
    for name, sig, csig in (('is_proxy', r'bool is_proxy\(\) const', 'bool d1tgc_is_proxy(struct tgc* self)'),
                            ('actual_context', r'task_group_context& actual_context\(\) noexcept', 'struct tgc* d1tgc_actual_context(struct tgc* self)'),
                            ('reset', r'void reset\(\)', 'void d1tgc_reset(struct tgc* self)'),
                            ('cancel_group_execution', r'bool cancel_group_execution\(\)', 'bool d1tgc_cancel_group_execution(struct tgc* self)'),
                            ('is_group_execution_cancelled', r'bool is_group_execution_cancelled\(\)', 'bool d1tgc_is_group_execution_cancelled(struct tgc* self)'),
                            ('~task_group_context', r'~task_group_context\(\)', 'void d1tgc_dtor(struct tgc* self)')):
        s = slice_block(TGH, sig, within=W)
        sliced.append('%s:%d d1::task_group_context::%s' % (TGH, s.line, name))
        t = rw.sub(s.text, sig, csig, 1, 1, name='sig')
        t = rw.sub(t, r'my_state\.load\(std::memory_order_relaxed\)', 'self->my_state', 0, None, name='load (my_state of a proxy never changes)')
        t = rw.sub(t, r'state::proxy', 'state_proxy', 0, None, name='enum scope')
        t = rw.sub(t, r'return \*my_actual_context;', 'return self->my_actual_context;', 0, None, name='ref return')
        t = rw.sub(t, r'return \*this;', 'return self;', 0, None, name='ref return')
        t = rw.sub(t, r'(?<![\w.>])my_actual_context\b', 'self->my_actual_context', 0, None, name='field')
        t = rw.sub(t, r'r1::reset\(actual_context\(\)\);', 'tgc_reset(d1tgc_actual_context(self));', 0, None, name='r1 entry point (sliced)')
        t = rw.sub(t, r'r1::cancel_group_execution\(actual_context\(\)\)', 'cancel_group_execution(d1tgc_actual_context(self))', 0, None, name='r1 entry point (sliced)')
        t = rw.sub(t, r'r1::is_group_execution_cancelled\(actual_context\(\)\)', 'tgc_is_cancelled(d1tgc_actual_context(self))', 0, None, name='r1 entry point (sliced)')
        t = rw.sub(t, r'r1::destroy\(\*this\);', 'tgc_destroy(self);', 0, None, name='r1 entry point (sliced)')
        t = rw.sub(t, r'(?<![\w.>])is_proxy\(\)', 'd1tgc_is_proxy(self)', 0, None, name='method')
        t = rw.asserts(t, 0)
        t = rw.std(t)
        out.append(t)
    return '\n'.join(out) + '\n'


def tgb_common(rw, t):
    t = rw.sub(t, r'd1::wait\(m_wait_vertex\.get_context\(\), context\(\)\);', 'd1_wait(TGB_WAIT_CTX(self), tgb_context(self));', 0, None, name='d1::wait (contract: job rethrow.execute_and_wait)')
    t = rw.sub(t, r'execute_and_wait\(t, context\(\), m_wait_vertex\.get_context\(\), context\(\)\);', 'd1_execute_and_wait(&t, tgb_context(self), TGB_WAIT_CTX(self), tgb_context(self));', 0, None, name='d1::execute_and_wait (contract: job rethrow.execute_and_wait)')
    t = rw.sub(t, r'execute_and_wait\(\*acs::release\(h\), context\(\), m_wait_vertex\.get_context\(\), context\(\)\);', 'd1_execute_and_wait(TASK_HANDLE_RELEASE(h), tgb_context(self), TGB_WAIT_CTX(self), tgb_context(self));', 0, None, name='d1::execute_and_wait (contract: job rethrow.execute_and_wait)')
    t = rw.sub(t, r'm_context\.actual_context\(\)', 'd1tgc_actual_context(&self->m_context)', 0, None, name='method')
    t = rw.sub(t, r'(?<![\w.>])m_context\.(is_group_execution_cancelled|reset|cancel_group_execution)\(\)', r'd1tgc_\1(&self->m_context)', 0, None, name='d1::task_group_context method (sliced) on the member context')
    t = rw.sub(t, r'(?<![\w.>])context\(\)\.(is_group_execution_cancelled|reset|cancel_group_execution)\(\)', r'd1tgc_\1(tgb_context(self))', 0, None, name='d1::task_group_context method (sliced) on the actual context')
    t = rw.sub(t, r'm_wait_vertex\.continue_execution\(\)', 'WAIT_CTX_CONTINUE(TGB_WAIT_CTX(self))', 0, None, name='wait_context::continue_execution')
    t = rw.sub(t, r'(?<![\w.>])cancel\(\);', 'tgb_cancel(self);', 0, None, name='method')
    return t


def extract_rethrow(ctx, sliced, fired):
    rw = Rewriter('rethrow')
    out = []
    # ---- r1 entry points and task_dispatcher::execute_and_wait ----------------------------------------------------
    s = slice_block(TDC, r'void task_dispatcher::execute_and_wait\(d1::task\* t, d1::wait_context& wait_ctx, d1::task_group_context& w_ctx\)')
    sliced.append('%s:%d task_dispatcher::execute_and_wait' % (TDC, s.line))
    t = rw.sub(s.text, r'void task_dispatcher::execute_and_wait\(d1::task\* t, d1::wait_context& wait_ctx, d1::task_group_context& w_ctx\)', 'void td_execute_and_wait(task* t, struct wait_context* wait_ctx, struct tgc* w_ctx)', 1, 1, name='sig')
    t = rw.sub(t, r'thread_data\* tls = governor::get_thread_data\(\);', 'struct thread_data* tls = STUB_get_thread_data();', 1, 1, name='callee stub')
    t = rw.sub(t, r'task_dispatcher& local_td = \*tls->my_task_dispatcher;', 'struct task_dispatcher* local_td = tls->my_task_dispatcher;', 1, 1, name='ref')
    t = rw.sub(t, r'task_group_context_impl::bind_to\(\*task_accessor::context\(\*t\), tls\);', 'STUB_bind_to(TASK_CONTEXT(t), tls);', 0, None, name='callee stub (C04 bind.*)')
    t = rw.sub(t, r'task_accessor::isolation\(\*t\) = tls->my_task_dispatcher->m_execute_data_ext\.isolation;', 'TASK_ISOLATION(t) = tls->my_task_dispatcher->m_execute_data_ext.isolation;', 0, None, name='task_accessor')
    t = rw.sub(t, r'external_waiter waiter\{ \*tls->my_arena, wait_ctx \};', 'struct external_waiter waiter; INIT_external_waiter(&waiter, tls->my_arena, wait_ctx);', 1, 1, name='ctor -> INIT')
    t = rw.sub(t, r't = local_td\.local_wait_for_all\(t, waiter\);', 't = STUB_local_wait_for_all(local_td, t, &waiter);', 0, None, name='callee (contract: jobs dispatch.exception_loop + C01/C14 wait contracts)')
    t = rw.sub(t, r'if \(local_td\.m_thread_data->my_inbox\.is_idle_state\(true\)\) \{\s*local_td\.m_thread_data->my_inbox\.set_is_idle\(false\);\s*\}', 'RG_NOP();', 0, None, name='mailbox idle flag -> RG_NOP')
    t = rw.sub(t, r'auto exception = w_ctx\.my_exception\.load\(std::memory_order_acquire\);', 'struct tbb_exception_ptr* exception = ATOMIC_LOAD(w_ctx->my_exception);', 0, None, name='auto + atomic load')
    t = rw.sub(t, r'w_ctx\.is_group_execution_cancelled\(\)', 'd1tgc_is_group_execution_cancelled(w_ctx)', 0, None, name='method')
    t = rw.sub(t, r'exception->throw_self\(\);', '{ tbb_exception_ptr_throw_self(exception); if (EXC_PENDING()) return; }', 0, None, name='method (sliced) + exception edge')
    t = rw.sub(t, r'\bw_ctx\.', 'w_ctx->', 0, None, name='ref-param')
    t = rw.asserts(t, 0)
    t = rw.std(t)
    out.append(t)
    s = slice_block(TDC, r'void __TBB_EXPORTED_FUNC execute_and_wait\(d1::task& t, d1::task_group_context& t_ctx, d1::wait_context& wait_ctx, d1::task_group_context& w_ctx\)')
    sliced.append('%s:%d r1::execute_and_wait' % (TDC, s.line))
    t = rw.sub(s.text, r'void __TBB_EXPORTED_FUNC execute_and_wait\(d1::task& t, d1::task_group_context& t_ctx, d1::wait_context& wait_ctx, d1::task_group_context& w_ctx\)', 'void r1_execute_and_wait(task* t, struct tgc* t_ctx, struct wait_context* wait_ctx, struct tgc* w_ctx)', 1, 1, name='sig')
    t = rw.sub(t, r'task_accessor::context\(t\) = &(\w+);', r'TASK_CONTEXT(t) = \1;', 0, None, name='task_accessor')
    t = rw.sub(t, r'task_dispatcher::execute_and_wait\(&t, wait_ctx, w_ctx\);', '{ td_execute_and_wait(t, wait_ctx, w_ctx); if (EXC_PENDING()) return; }', 0, None, name='static member call + exception edge')
    out.append(rw.std(t))
    s = slice_block(TDC, r'void __TBB_EXPORTED_FUNC wait\(d1::wait_context& wait_ctx, d1::task_group_context& w_ctx\)')
    sliced.append('%s:%d r1::wait' % (TDC, s.line))
    t = rw.sub(s.text, r'void __TBB_EXPORTED_FUNC wait\(d1::wait_context& wait_ctx, d1::task_group_context& w_ctx\)', 'void r1_wait(struct wait_context* wait_ctx, struct tgc* w_ctx)', 1, 1, name='sig')
    t = rw.sub(t, r'task_dispatcher::execute_and_wait\(nullptr, wait_ctx, w_ctx\);', '{ td_execute_and_wait(NULL, wait_ctx, w_ctx); if (EXC_PENDING()) return; }', 0, None, name='static member call + exception edge')
    out.append(rw.std(t))
    t = '\n'.join(out)
    t = rw.number_sites(t, 'eaw', by_kind=True)
    common.write(ctx, 'eaw.inc', t + '\n')
    # ---- task_group_base ------------------------------------------------------------------------------------------
    out = []
    W = r'class task_group_base : no_copy \{'
    s = slice_block(TGH, r'd1::task_group_context& context\(\) noexcept', within=W)
    sliced.append('%s:%d task_group_base::context' % (TGH, s.line))
    t = rw.sub(s.text, r'd1::task_group_context& context\(\) noexcept', 'struct tgc* tgb_context(struct task_group_base* self)', 1, 1, name='sig')
    out.append(rw.std(tgb_common(rw, t)))
    s = slice_block(TGH, r'void cancel\(\)', within=W)
    sliced.append('%s:%d task_group_base::cancel' % (TGH, s.line))
    t = rw.sub(s.text, r'void cancel\(\)', 'void tgb_cancel(struct task_group_base* self)', 1, 1, name='sig')
    out.append(rw.std(tgb_common(rw, t)))
    s = slice_block(TGH, r'task_group_status wait\(\)', within=W)
    sliced.append('%s:%d task_group_base::wait' % (TGH, s.line))
    t = rw.sub(s.text, r'task_group_status wait\(\)', 'int tgb_wait(struct task_group_base* self)', 1, 1, name='sig')
    t = try_call_edges(rw, tgb_common(rw, t), 'wait', 'return EXC_NO_STATUS;')
    out.append(rw.std(t))
    s = slice_block(TGH, r'task_group_status internal_run_and_wait\(const F& f\)', within=W)
    sliced.append('%s:%d task_group_base::internal_run_and_wait(const F&)' % (TGH, s.line))
    t = rw.sub(s.text, r'task_group_status internal_run_and_wait\(const F& f\)', 'int tgb_internal_run_and_wait(struct task_group_base* self, const struct functor* f)', 1, 1, name='sig')
    t = rw.sub(t, r'function_stack_task<F> t\{ f, r1::get_thread_reference_vertex\(&m_wait_vertex\) \};', 'struct function_stack_task t; fst_ctor(&t, f, STUB_get_thread_reference_vertex(&self->m_wait_vertex));', 0, None, name='ctor (sliced)')
    t = try_call_edges(rw, tgb_common(rw, t), 'rw', 'return EXC_NO_STATUS;')
    out.append(rw.std(t))
    s = slice_block(TGH, r'task_group_status internal_run_and_wait\(d2::task_handle&& h\)', within=W)
    sliced.append('%s:%d task_group_base::internal_run_and_wait(task_handle&&)' % (TGH, s.line))
    t = rw.sub(s.text, r'task_group_status internal_run_and_wait\(d2::task_handle&& h\)', 'int tgb_internal_run_and_wait_h(struct task_group_base* self, struct task_handle* h)', 1, 1, name='sig')
    t = rw.sub(t, r'using acs = d2::task_handle_accessor;', 'RG_NOP();', 0, None, name='using -> RG_NOP')
    t = rw.sub(t, r'h != nullptr', 'TASK_HANDLE_NONEMPTY(h)', 0, None, name='task_handle comparison')
    t = rw.sub(t, r'&acs::ctx_of\(h\) == &context\(\)', 'TASK_HANDLE_CTX(h) == tgb_context(self)', 0, None, name='task_handle accessor')
    t = try_call_edges(rw, tgb_common(rw, t), 'rwh', 'return EXC_NO_STATUS;')
    t = rw.asserts(t, 0)
    out.append(rw.std(t))
    s = slice_block(TGH, r'~task_group_base\(\) noexcept\(false\)', within=W)
    sliced.append('%s:%d task_group_base::~task_group_base' % (TGH, s.line))
    t = cxx2c.cpp_resolve(s.text, {'__TBB_CPP17_UNCAUGHT_EXCEPTIONS_PRESENT': 1}, '~task_group_base')
    t = rw.sub(t, r'~task_group_base\(\) noexcept\(false\)', 'void tgb_dtor(struct task_group_base* self)', 1, 1, name='sig')
    t = rw.sub(t, r'std::uncaught_exceptions\(\) > 0', 'STUB_uncaught_exceptions() > 0', 0, None, name='callee stub')
    t = rw.sub(t, r'throw_exception\(exception_id::missing_wait\);', '{ EXC_THROW(EXC_missing_wait); return; }', 0, None, name='throw -> pending exception + leave')
    t = tgb_common(rw, t)
    t = rw.sub(t, r'(d1_wait\([^;]*;)', r'{ \1 if (EXC_PENDING()) return; }', 0, None, name='exception edge after a callee that may throw')
    out.append(rw.std(t))
    # function_stack_task
    W2 = r'class function_stack_task : public d1::task \{'
    s = slice_block(TGH, r'function_stack_task\(const F& f, d1::wait_tree_vertex_interface\* vertex\)', within=W2, ctor=True)
    sliced.append('%s:%d function_stack_task::function_stack_task' % (TGH, s.line))
    t = rw.sub(s.text, r'function_stack_task\(const F& f, d1::wait_tree_vertex_interface\* vertex\) : m_func\(f\), m_wait_tree_vertex\(vertex\) \{', 'void fst_ctor(struct function_stack_task* self, const struct functor* f, struct vertex* vertex) { self->m_func = f; self->m_wait_tree_vertex = vertex;', 1, 1, name='ctor sig + init-list (declared order: m_func, m_wait_tree_vertex)')
    t = rw.sub(t, r'(?<![\w.>])m_wait_tree_vertex->reserve\(\);', 'VERTEX_RESERVE(self->m_wait_tree_vertex);', 0, None, name='wait_tree_vertex_interface::reserve')
    fst = [rw.std(t)]
    s = slice_block(TGH, r'void finalize\(\)', within=W2)
    sliced.append('%s:%d function_stack_task::finalize' % (TGH, s.line))
    t = rw.sub(s.text, r'void finalize\(\)', 'void fst_finalize(struct function_stack_task* self)', 1, 1, name='sig')
    t = rw.sub(t, r'(?<![\w.>])m_wait_tree_vertex->release\(\);', 'VERTEX_RELEASE(self->m_wait_tree_vertex);', 0, None, name='wait_tree_vertex_interface::release')
    fst.append(rw.std(t))
    s = slice_block(TGH, r'task\* execute\(d1::execution_data&\) override', within=W2)
    sliced.append('%s:%d function_stack_task::execute' % (TGH, s.line))
    t = rw.sub(s.text, r'task\* execute\(d1::execution_data&\) override', 'task* fst_execute(struct function_stack_task* self)', 1, 1, name='sig')
    t = rw.sub(t, r'task\* res = d2::task_ptr_or_nullptr\(m_func\);', 'task* res = CALL_BODY(self->m_func); if (EXC_PENDING()) return EXC_NO_TASK;', 0, None, name='user body + exception edge')
    t = rw.sub(t, r'(?<![\w.>])finalize\(\);', 'fst_finalize(self);', 0, None, name='method')
    fst.append(rw.std(t))
    s = slice_block(TGH, r'task\* cancel\(d1::execution_data&\) override', within=W2)
    sliced.append('%s:%d function_stack_task::cancel' % (TGH, s.line))
    t = rw.sub(s.text, r'task\* cancel\(d1::execution_data&\) override', 'task* fst_cancel(struct function_stack_task* self)', 1, 1, name='sig')
    t = rw.sub(t, r'(?<![\w.>])finalize\(\);', 'fst_finalize(self);', 0, None, name='method')
    fst.append(rw.std(t))
    common.write(ctx, 'fst.inc', '\n'.join(fst) + '\n')
    common.write(ctx, 'tgb.inc', '\n'.join(out) + '\n')
    common.write(ctx, 'd1ctx.inc', d1_context_methods(rw, sliced))
    fired['rethrow'] = rw.fired


def extract_loop(ctx, sliced, fired):
    """the `for (;;) { try { <dispatch loop> break; } catch (...) { <handler> } }` statement of local_wait_for_all, as it stands"""
    rw = Rewriter('exception_loop')
    s = slice_block(TDH, r'for \(;;\) \{(?=\s*try \{)', within=LWFA)
    sliced.append('%s:%d task_dispatcher::local_wait_for_all: the exception loop (try { dispatch loop } catch (...) { handler })' % (TDH, s.line))
    t = s.text
    t = rw.sub(t, r'\btry \{', '{ /* try */', 1, 1, name='try { -> block; the callee that may throw gets the explicit edge `goto CATCH_ALL_1`')
    t = rw.sub(t, r'\} catch \(\.\.\.\) \{', '} if (0) { CATCH_ALL_1: EXC_CAUGHT();', 1, 1, name='} catch (...) { -> handler block entered through the explicit edge only')
    t = rw.sub(t, r't = t->execute\(ed\);', '{ TASK_EXECUTE_INTO(t, ed); if (EXC_PENDING()) goto CATCH_ALL_1; }', 0, None, name='t = t->execute(ed) -> call; on the exception edge t is NOT assigned and control goes to the handler')
    t = rw.sub(t, r't = t->cancel\(ed\);', 't = TASK_CANCEL(t, ed);', 0, None, name='virtual call task::cancel')
    t = handler_rules(rw, t)
    t = rw.sub(t, r'ED_CONTEXT\(ed\)->is_group_execution_cancelled\(\)', 'd1tgc_is_group_execution_cancelled(ED_CONTEXT(ed))', 0, None, name='method (sliced)')
    t = rw.call(t, r'\b__TBB_ASSERT(?:_EX)?', lambda m, a: 'RG_NOP()', 0, name='debug assertions about inbox / isolation / thread data (other properties) -> RG_NOP')
    t = rw.sub(t, r'context_guard\.set_ctx\(ED_CONTEXT\(ed\)\);', 'CONTEXT_GUARD_SET(ED_CONTEXT(ed));', 0, None, name='context guard (fp settings, itt)')
    t = rw.sub(t, r'assert_task_valid\(t\);', 'RG_NOP();', 0, None, name='debug check -> RG_NOP')
    t = rw.sub(t, r'assert_pointer_valid<[^;]*>\(ED_CONTEXT\(ed\)\);', 'RG_NOP();', 0, None, name='debug check -> RG_NOP')
    t = rw.sub(t, r'Waiter::postpone_execution\(\*t\)', 'WAITER_postpone_execution(t)', 0, None, name='waiter')
    t = rw.sub(t, r'suppress_unused_warning\(itt_caller\);', 'RG_NOP();', 0, None, name='-> RG_NOP')
    t = rw.sub(t, r'ITT_CALLEE_(ENTER|LEAVE)\([^;]*\);', 'RG_NOP();', 0, None, name='itt -> RG_NOP')
    t = rw.sub(t, r'd1::no_slot', 'no_slot', 0, None, name='ns-strip')
    t = rw.sub(t, r'(?<![\w.>])m_thread_data\b', 'self->m_thread_data', 0, None, name='field')
    t = rw.sub(t, r'(?<![\w.>:])get_critical_task\(t, ed, isolation, critical_allowed\)', 'STUB_get_critical_task(self, t, ed, isolation, critical_allowed)', 0, None, name='callee stub (C16 isolation.get_critical_task)')
    t = rw.sub(t, r'arena_slot& slot = \*self->m_thread_data->my_arena_slot;', 'struct arena_slot* slot = self->m_thread_data->my_arena_slot;', 0, None, name='ref')
    t = rw.sub(t, r'waiter\.continue_execution\(slot, t\)', 'WAITER_continue_execution(waiter, slot, &t)', 0, None, name='waiter')
    t = rw.sub(t, r'slot\.is_task_pool_published\(\)', 'SLOT_is_task_pool_published(slot)', 0, None, name='slot')
    t = rw.sub(t, r'slot\.get_task\(ed, isolation\)', 'STUB_get_task(slot, ed, isolation)', 0, None, name='callee stub (C01 pool.get_task)')
    t = rw.sub(t, r'task_accessor::context\(\*t\)', 'TASK_CONTEXT(t)', 0, None, name='task_accessor')
    t = rw.sub(t, r'task_accessor::isolation\(\*t\)', 'TASK_ISOLATION(t)', 0, None, name='task_accessor')
    t = rw.sub(t, r'(?s)receive_or_steal_task<ITTPossible>\(\s*\*self->m_thread_data, ed, waiter, isolation, dl_guard\.old_properties\.fifo_tasks_allowed,\s*critical_allowed\s*\)', 'STUB_receive_or_steal_task(self, ed, waiter, isolation, dl_old_fifo_tasks_allowed, critical_allowed)', 0, None, name='callee stub (stealing, mailbox, streams)')
    t = rw.sub(t, r'dl_guard\.old_properties\.outermost', 'dl_old_outermost', 0, None, name='guard field')
    t = rw.std(t)
    t = rw.number_sites(t, 'xl', by_kind=True)
    t = tag_loops(t, 'xl', rw)
    hdr = 'task* lwfa_exception_loop(struct task_dispatcher* self, task* t, struct waiter* waiter, execution_data_ext* ed, intptr_t isolation, bool critical_allowed, bool dl_old_outermost, bool dl_old_fifo_tasks_allowed) {\n'
    common.write(ctx, 'xloop.inc', hdr + '    ' + t + '\n    LWFA_AFTER_LOOP(t);\n    return NULL;\n}\n')
    if not re.match(r'\s*__TBB_ASSERT\(t == nullptr, nullptr\);', cxx2c.strip_comments(load(TDH)[s.end:s.end + 400])):
        raise ExtractionBreak('local_wait_for_all: the statement after the exception loop is no longer the assertion t == nullptr')
    fired['exception_loop'] = rw.fired


def extract_arena(ctx, sliced, fired):
    """task_arena_impl::execute with the exception edges explicit (extraction idiom of specs/C01 section DELEG) + delegated_task::execute/cancel/finalize"""
    rw = Rewriter('arena_execute')
    s = slice_block(ARC, r'void task_arena_impl::execute\(d1::task_arena_base& ta, d1::delegate_base& d\)')
    sliced.append('%s:%d task_arena_impl::execute' % (ARC, s.line))
    t = cxx2c.cpp_resolve(s.text, dict(common.TARGET_MACROS, _WIN64=None), 'task_arena_impl::execute')
    t = rw.sub(t, r'void task_arena_impl::execute\(d1::task_arena_base& ta, d1::delegate_base& d\)', 'void task_arena_execute(struct task_arena_base* ta, struct delegate_base* d)', 1, 1, name='sig')
    t = rw.sub(t, r'arena\* a = ta\.my_arena\.load\(std::memory_order_relaxed\);', 'struct arena* a = ta->my_arena;', 1, 1, name='ref-param + load')
    t = rw.sub(t, r'thread_data\* td = governor::get_thread_data\(\);', 'struct thread_data* td = STUB_get_thread_data();', 1, 1, name='callee stub')
    t = rw.sub(t, r'a->occupy_free_slot<\s*false\s*>\(\*td\)', 'STUB_occupy_free_slot(a, td)', 0, None, name='callee (C16 slots.occupy_free_slot)')
    t = rw.sub(t, r'arena::out_of_arena', 'out_of_arena', 0, None, name='ns-strip')
    t = rw.sub(t, r'concurrent_monitor::thread_context waiter\(\(std::uintptr_t\)&d\);', 'struct thread_context waiter; INIT_thread_context(&waiter, (uintptr_t)d);', 0, None, name='ctor -> INIT')
    t = rw.sub(t, r'd1::wait_context wo\((\w+)\);', r'struct wait_context wo; INIT_wait_context(&wo, \1);', 0, None, name='ctor -> INIT')
    t = rw.sub(t, r'task_group_context_impl::copy_fp_settings\(exec_context, \*a->my_default_ctx\);', 'STUB_copy_fp_settings(&exec_context, a->my_default_ctx);', 0, None, name='callee stub')
    t = rw.sub(t, r'delegated_task dt\(d, a->my_exit_monitors, wo\);', 'struct delegated_task dt; INIT_delegated_task(&dt, d, &a->my_exit_monitors, &wo);', 0, None, name='ctor -> INIT')
    t = rw.sub(t, r'a->enqueue_task\(\s*dt, exec_context, \*td\);', 'STUB_enqueue_task(a, &dt, &exec_context, td);', 0, None, name='callee stub (arena::enqueue_task)')
    t = rw.sub(t, r'a->my_exit_monitors\.(prepare_wait|cancel_wait|commit_wait)\(waiter\);', r'MONITOR_\1(&a->my_exit_monitors, &waiter);', 0, None, name='monitor')
    t = rw.sub(t, r'a->my_exit_monitors\.notify_one\(\);', 'MONITOR_notify_one(&a->my_exit_monitors);', 0, None, name='monitor')
    t = rw.sub(t, r'wo\.continue_execution\(\)', 'WAIT_CTX_CONTINUE(&wo)', 0, None, name='wait_context')
    t = rw.sub(t, r'nested_arena_context scope\(\*td, \*a, (\w+)\s*\);', r'NESTED_ARENA_ENTER(td, a, \1);', 0, None, name='RAII scope -> ENTER (C01 delegate.execute)')
    t = rw.sub(t, r'r1::wait\(wo, exec_context\);', '{ STUB_r1_wait(&wo, &exec_context); if (EXC_PENDING()) return; }', 0, None, name='r1::wait (contract: job rethrow.execute_and_wait) + exception edge')
    t = rw.sub(t, r'auto exception = ', 'struct tbb_exception_ptr* exception = ', 0, None, name='auto')
    t = rw.sub(t, r'exec_context\.is_group_execution_cancelled\(\)', 'd1tgc_is_group_execution_cancelled(&exec_context)', 0, None, name='method (sliced)')
    t = rw.sub(t, r'exception->throw_self\(\);', '{ tbb_exception_ptr_throw_self(exception); if (EXC_PENDING()) return; }', 0, None, name='method (sliced) + exception edge')
    t = rw.sub(t, r'governor::is_thread_data_set\(td\)', 'true', 0, None, name='debug predicate')
    t = rw.sub(t, r'context_guard_helper<\s*false\s*> context_guard;', 'RG_NOP();', 0, None, name='RAII context guard')
    t = rw.sub(t, r'context_guard\.set_ctx\(a->my_default_ctx\);', 'CONTEXT_GUARD_SET(a->my_default_ctx);', 0, None, name='context guard')
    t = rw.sub(t, r'(?<![\w.>])d\(\);', '{ CALL_DELEGATE(d); if (EXC_PENDING()) return; }', 0, None, name='delegate call + exception edge (inline path: the exception propagates as thrown)')
    t = rw.atomics(t, ['my_exception'], 0)
    # the delegated call's own context: constructor at the declaration, destructor at every exit of its scope (normal, return, exception edge)
    t = rw.scoped_locks(t, r'd1::task_group_context (\w+)\(d1::task_group_context::isolated\);', 0, None, lock='TGC_CTOR_ISOLATED', unlock='TGC_DTOR')
    t = rw.asserts(t, 0)
    t = rw.std(t)
    t = rw.number_sites(t, 'exec', by_kind=True)
    t = tag_loops(t, 'exec', rw)
    common.write(ctx, 'arena_execute.inc', t + '\n')
    # delegated_task
    out = []
    W = r'class delegated_task : public d1::task \{'
    s = slice_block(ARC, r'void finalize\(\)', within=W)
    sliced.append('%s:%d delegated_task::finalize' % (ARC, s.line))
    t = rw.sub(s.text, r'void finalize\(\)', 'void dt_finalize(struct delegated_task* self)', 1, 1, name='sig')
    t = rw.sub(t, r'm_wait_ctx\.release\(\);', 'WAIT_CTX_RELEASE(self->m_wait_ctx);', 0, None, name='wait_context::release')
    t = rw.sub(t, r'(?s)m_monitor\.notify\(\[this\] \(std::uintptr_t ctx\) \{\s*return ctx == std::uintptr_t\(&m_delegate\);\s*\}\);', 'MONITOR_NOTIFY_KEY(self->m_monitor, (uintptr_t)self->m_delegate);', 0, None, name='monitor notify with key predicate')
    t = rw.sub(t, r'm_completed\.store\(true, std::memory_order_release\);', 'DT_COMPLETED_STORE(self->m_completed, true);', 0, None, name='atomic-store')
    out.append(rw.std(t))
    s = slice_block(ARC, r'd1::task\* execute\(d1::execution_data& ed\) override', within=W)
    sliced.append('%s:%d delegated_task::execute' % (ARC, s.line))
    t = rw.sub(s.text, r'd1::task\* execute\(d1::execution_data& ed\) override', 'task* dt_execute(struct delegated_task* self, execution_data_ext* ed)', 1, 1, name='sig')
    t = rw.sub(t, r'const execution_data_ext& ed_ext = static_cast<const execution_data_ext&>\(ed\);', 'execution_data_ext* ed_ext_ = ed;', 1, 1, name='downcast')
    t = rw.sub(t, r'\bed_ext\.', 'ed_ext_->', 0, None, name='ref')
    t = rw.sub(t, r'(?s)__TBB_ASSERT\(&ed_ext_->task_disp->m_execute_data_ext == &ed,.*?\);', 'RG_NOP();', 0, None, name='assert (C01)')
    t = rw.sub(t, r'ed_ext_->task_disp->get_thread_data\(\)\.my_arena->my_default_ctx', 'ed_ext_->task_disp->m_thread_data->my_arena->my_default_ctx', 0, None, name='accessor')
    t = rw.sub(t, r'ed_ext_->task_disp->allow_fifo_task\(', 'TD_ALLOW_FIFO(ed_ext_->task_disp, ', 0, None, name='method')
    t = rw.sub(t, r'm_delegate\(\);', 'CALL_DELEGATE(self->m_delegate);', 0, None, name='delegate call')
    t = try_call_edges(rw, t, 'dt', 'return EXC_NO_TASK;', thrower=r'CALL_DELEGATE\(')
    t = rw.sub(t, r'(?<![\w.>])finalize\(\);', 'dt_finalize(self);', 0, None, name='method')
    t = rw.sub(t, r'd1::task\*', 'task*', 0, None, name='ns-strip')
    t = rw.asserts(t, 0)
    out.append(rw.std(t))
    s = slice_block(ARC, r'd1::task\* cancel\(d1::execution_data&\) override', within=W)
    sliced.append('%s:%d delegated_task::cancel' % (ARC, s.line))
    t = rw.sub(s.text, r'd1::task\* cancel\(d1::execution_data&\) override', 'task* dt_cancel(struct delegated_task* self)', 1, 1, name='sig')
    t = rw.sub(t, r'(?<![\w.>])finalize\(\);', 'dt_finalize(self);', 0, None, name='method')
    out.append(rw.std(t))
    common.write(ctx, 'delegated_task.inc', '\n'.join(out) + '\n')
    fired['arena_execute'] = rw.fired


def extract_graph(ctx, sliced, fired):
    rw = Rewriter('graph')
    s = slice_block(FGI, r'void wait_for_all\(\) \{', within=r'class graph : no_copy, public graph_proxy \{')
    sliced.append('%s:%d graph::wait_for_all' % (FGI, s.line))
    t = rw.sub(s.text, r'void wait_for_all\(\)', 'void graph_wait_for_all(struct graph* self)', 1, 1, name='sig')
    t = rw.sub(t, r'(?s)my_task_arena->execute\(\[this\] \{\s*d1::wait\(my_wait_context_vertex\.get_context\(\), \*my_context\);\s*\}\);',
               'TASK_ARENA_EXECUTE(self->my_task_arena, d1_wait(GRAPH_WAIT_CTX(self), self->my_context));', 0, None,
               name='task_arena::execute(lambda) -> TASK_ARENA_EXECUTE(arena, call): the functor runs once, its exception is transported to the caller (C01 delegate.*, C03 arena.*)')
    t = try_call_edges(rw, t, 'wfa', 'return;')
    t = rw.sub(t, r'my_context->is_group_execution_cancelled\(\)', 'd1tgc_is_group_execution_cancelled(self->my_context)', 0, None, name='method (sliced)')
    t = rw.sub(t, r'my_context->reset\(\);', 'd1tgc_reset(self->my_context);', 0, None, name='method (sliced)')
    t = rw.sub(t, r'my_context->traits\(\) & task_group_context::concurrent_wait', 'TGC_TRAITS(self->my_context) & tgc_concurrent_wait', 0, None, name='traits()')
    t = rw.sub(t, r'(?<![\w.>])(cancelled|caught_exception)\b', r'self->\1', 0, None, name='field')
    t = rw.std(t)
    common.write(ctx, 'graph.inc', t + '\n')
    need(TGH, r'concurrent_wait = 1 << 2,', 'task_group_context::concurrent_wait is no longer 1 << 2')
    need(TGH, r't \|= ctx\.my_traits\.concurrent_wait \? concurrent_wait : 0;', 'task_group_context::traits() changed')
    fired['graph'] = rw.fired


PFH = 'include/oneapi/tbb/parallel_for.h'


def extract_tasks(ctx, sliced, fired):
    """execute / cancel / finalize of task types whose body is user code: function_task (task_group::run), start_for (parallel_for), stage_task (parallel_pipeline)"""
    rw = Rewriter('tasks')
    out = []
    # ---- d2::function_task + task_handle_task -------------------------------------------------------------------
    W = r'class function_task : public task_handle_task  \{'
    s = slice_block(TGH, r'd1::task\* execute\(d1::execution_data& ed\) override', within=W)
    sliced.append('%s:%d function_task::execute' % (TGH, s.line))
    t = rw.sub(s.text, r'd1::task\* execute\(d1::execution_data& ed\) override', 'task* ft_execute(struct function_task* self, execution_data_ext* ed)', 1, 1, name='sig')
    t = rw.sub(t, r'ed\.context == &this->ctx\(\)', 'ED_CONTEXT(ed) == self->m_ctx', 0, None, name='accessor')
    t = rw.sub(t, r'task\* res = task_ptr_or_nullptr\(m_func\);', 'task* res = CALL_BODY(self->m_func); if (EXC_PENDING()) return EXC_NO_TASK;', 0, None, name='user body + exception edge')
    t = rw.sub(t, r'(?<![\w.>])finalize\(&ed\);', 'tht_finalize(self, ed);', 0, None, name='method (task_handle_task::finalize, sliced)')
    t = rw.asserts(t, 0)
    ft = [rw.std(t)]
    s = slice_block(TGH, r'd1::task\* cancel\(d1::execution_data& ed\) override', within=W)
    sliced.append('%s:%d function_task::cancel' % (TGH, s.line))
    t = rw.sub(s.text, r'd1::task\* cancel\(d1::execution_data& ed\) override', 'task* ft_cancel(struct function_task* self, execution_data_ext* ed)', 1, 1, name='sig')
    t = rw.sub(t, r'(?<![\w.>])finalize\(&ed\);', 'tht_finalize(self, ed);', 0, None, name='method (task_handle_task::finalize, sliced)')
    ft.append(rw.std(t))
    W = r'class task_handle_task : public d1::task \{'
    s = slice_block(THH, r'void finalize\(const d1::execution_data\* ed = nullptr\)', within=W)
    sliced.append('%s:%d task_handle_task::finalize' % (THH, s.line))
    t = rw.sub(s.text, r'void finalize\(const d1::execution_data\* ed = nullptr\)', 'void tht_finalize(struct function_task* self, execution_data_ext* ed)', 1, 1, name='sig')
    t = rw.sub(t, r'm_allocator\.delete_object\(this, \*ed\);', 'ALLOC_DELETE_OBJECT(&self->m_allocator, self, ed);', 0, None, name='small_object_allocator::delete_object = destructor + deallocate (checked textually)')
    t = rw.sub(t, r'm_allocator\.delete_object\(this\);', 'ALLOC_DELETE_OBJECT(&self->m_allocator, self, NULL);', 0, None, name='small_object_allocator::delete_object = destructor + deallocate (checked textually)')
    th = [rw.std(t)]
    s = slice_block(THH, r'~task_handle_task\(\) override', within=W)
    sliced.append('%s:%d task_handle_task::~task_handle_task' % (THH, s.line))
    t = rw.sub(s.text, r'~task_handle_task\(\) override', 'void tht_dtor(struct function_task* self)', 1, 1, name='sig')
    t = rw.sub(t, r'(?<![\w.>])m_wait_tree_vertex->release\(\);', 'VERTEX_RELEASE(self->m_wait_tree_vertex);', 0, None, name='wait_tree_vertex_interface::release')
    th.insert(0, rw.std(t))
    need('include/oneapi/tbb/detail/_small_object_pool.h', r'small_object_allocator alloc = \*this;\s*object->~Type\(\);\s*alloc\.deallocate\(object, ed\);', 'small_object_allocator::delete_object no longer is copy-allocator, destructor, deallocate')
    common.write(ctx, 'function_task.inc', '\n'.join(th + ft) + '\n')
    # ---- start_for --------------------------------------------------------------------------------------------------
    sf = []
    s = slice_block(PFH, r'void start_for<Range, Body, Partitioner>::finalize\(const execution_data& ed\)')
    sliced.append('%s:%d start_for::finalize' % (PFH, s.line))
    t = rw.sub(s.text, r'void start_for<Range, Body, Partitioner>::finalize\(const execution_data& ed\)', 'void sf_finalize(struct start_for* self, execution_data_ext* ed)', 1, 1, name='sig')
    t = rw.sub(t, r'node\* parent = my_parent;', 'struct node* parent = self->my_parent;', 0, None, name='field')
    t = rw.sub(t, r'auto allocator = my_allocator;', 'struct small_object_allocator allocator = self->my_allocator;', 0, None, name='auto + field')
    t = rw.sub(t, r'this->~start_for\(\);', 'SF_DTOR(self);', 0, None, name='explicit destructor call')
    t = rw.sub(t, r'fold_tree<tree_node>\(parent, ed\);', 'STUB_fold_tree(parent, ed);', 0, None, name='callee (C06 fold_tree)')
    t = rw.sub(t, r'allocator\.deallocate\(this, ed\);', 'ALLOC_DEALLOCATE(&allocator, self, ed);', 0, None, name='small_object_allocator::deallocate')
    sf.append(rw.std(t))
    s = slice_block(PFH, r'task\* start_for<Range, Body, Partitioner>::execute\(execution_data& ed\)')
    sliced.append('%s:%d start_for::execute' % (PFH, s.line))
    t = rw.sub(s.text, r'task\* start_for<Range, Body, Partitioner>::execute\(execution_data& ed\)', 'task* sf_execute(struct start_for* self, execution_data_ext* ed)', 1, 1, name='sig')
    t = rw.sub(t, r'is_same_affinity\(ed\)', 'STUB_is_same_affinity(ed)', 0, None, name='callee stub')
    t = rw.sub(t, r'my_partition\.note_affinity\(execution_slot\(ed\)\);', 'RG_NOP();', 0, None, name='affinity note -> RG_NOP')
    t = rw.sub(t, r'my_partition\.check_being_stolen\(\*this, ed\);', 'RG_NOP();', 0, None, name='partitioner bookkeeping (C05) -> RG_NOP')
    t = rw.sub(t, r'my_partition\.execute\(\*this, my_range, ed\);', '{ PARTITION_EXECUTE(self, ed); if (EXC_PENDING()) return EXC_NO_TASK; }', 0, None, name='partitioner::execute (splits, offers work, runs the user body; range copy/split constructors and the body may throw) + exception edge')
    t = rw.sub(t, r'(?<![\w.>])finalize\(ed\);', 'sf_finalize(self, ed);', 0, None, name='method')
    sf.append(rw.std(t))
    s = slice_block(PFH, r'task\* start_for<Range, Body, Partitioner>::cancel\(execution_data& ed\)')
    sliced.append('%s:%d start_for::cancel' % (PFH, s.line))
    t = rw.sub(s.text, r'task\* start_for<Range, Body, Partitioner>::cancel\(execution_data& ed\)', 'task* sf_cancel(struct start_for* self, execution_data_ext* ed)', 1, 1, name='sig')
    t = rw.sub(t, r'(?<![\w.>])finalize\(ed\);', 'sf_finalize(self, ed);', 0, None, name='method')
    sf.append(rw.std(t))
    common.write(ctx, 'start_for.inc', '\n'.join(sf) + '\n')
    # ---- stage_task (parallel_pipeline) ------------------------------------------------------------------------------
    W = r'class stage_task : public d1::task, public task_info \{'
    st = []
    s = slice_block(PPL, r'void finalize\(d1::execution_data& ed\)', within=W)
    sliced.append('%s:%d stage_task::finalize' % (PPL, s.line))
    t = rw.sub(s.text, r'void finalize\(d1::execution_data& ed\)', 'void stg_finalize(struct stage_task* self, execution_data_ext* ed)', 1, 1, name='sig')
    t = rw.sub(t, r'm_allocator\.delete_object\(this, ed\);', 'ALLOC_DELETE_OBJECT(&self->m_allocator, self, ed);', 0, None, name='small_object_allocator::delete_object = destructor + deallocate')
    st.append(rw.std(t))
    s = slice_block(PPL, r'task\* execute\(d1::execution_data& ed\) override', within=W)
    sliced.append('%s:%d stage_task::execute' % (PPL, s.line))
    t = rw.sub(s.text, r'task\* execute\(d1::execution_data& ed\) override', 'task* stg_execute(struct stage_task* self, execution_data_ext* ed)', 1, 1, name='sig')
    t = rw.sub(t, r'if\(!execute_filter\(ed\)\) \{', 'bool more_1 = execute_filter(ed); if (EXC_PENDING()) return EXC_NO_TASK; if(!more_1) {', 0, None, name='condition that calls a thrower -> temporary + exception edge')
    t = rw.sub(t, r'(?<=[;{}])([^;{}]*\bexecute_filter\(ed\)[^;{}]*;)(?! if \(EXC_PENDING)', r'\1 if (EXC_PENDING()) return EXC_NO_TASK;', 0, None, name='exception edge after a statement that calls execute_filter')
    t = rw.sub(t, r'\bexecute_filter\(ed\)', 'STG_EXECUTE_FILTER(self, ed)', 0, None, name='execute_filter (runs the user filter; may throw)')
    t = rw.sub(t, r'return this;', 'return (task*)self;', 0, None, name='this')
    t = rw.sub(t, r'(?<![\w.>])finalize\(ed\);', 'stg_finalize(self, ed);', 0, None, name='method')
    st.append(rw.std(t))
    s = slice_block(PPL, r'task\* cancel\(d1::execution_data& ed\) override', within=W)
    sliced.append('%s:%d stage_task::cancel' % (PPL, s.line))
    t = rw.sub(s.text, r'task\* cancel\(d1::execution_data& ed\) override', 'task* stg_cancel(struct stage_task* self, execution_data_ext* ed)', 1, 1, name='sig')
    t = rw.sub(t, r'(?<![\w.>])finalize\(ed\);', 'stg_finalize(self, ed);', 0, None, name='method')
    st.append(rw.std(t))
    s = slice_block(PPL, r'~stage_task\(\) override', within=W)
    sliced.append('%s:%d stage_task::~stage_task' % (PPL, s.line))
    t = rw.sub(s.text, r'~stage_task\(\) override', 'void stg_dtor(struct stage_task* self)', 1, 1, name='sig')
    t = rw.sub(t, r'(?<![\w.>])my_filter->finalize\(my_object\);', 'FILTER_FINALIZE(self->my_filter, self->my_object);', 0, None, name='base_filter::finalize (destroys the item in flight)')
    t = rw.sub(t, r'my_pipeline\.wait_ctx\.release\(\);', 'WAIT_CTX_RELEASE(&self->my_pipeline->wait_ctx);', 0, None, name='wait_context::release')
    t = rw.sub(t, r'(?<![\w.>])(my_filter|my_object|my_token|my_token_ready|is_valid|my_at_start)\b', r'self->\1', 0, None, name='field (stage_task and its base task_info)')
    st.insert(0, rw.std(t))
    common.write(ctx, 'stage_task.inc', '\n'.join(st) + '\n')
    fired['tasks'] = rw.fired


def extract_misc(ctx, sliced, fired):
    """r1::parallel_pipeline (the waiting call of a pipeline), is_current_task_group_canceling + r1::current_context"""
    rw = Rewriter('misc')
    s = slice_block(PPL, r'void __TBB_EXPORTED_FUNC parallel_pipeline\(d1::task_group_context& cxt, std::size_t max_token, const d1::filter_node& fn\)')
    sliced.append('%s:%d r1::parallel_pipeline' % (PPL, s.line))
    t = rw.sub(s.text, r'void __TBB_EXPORTED_FUNC parallel_pipeline\(d1::task_group_context& cxt, std::size_t max_token, const d1::filter_node& fn\)', 'void r1_parallel_pipeline(struct tgc* cxt, size_t max_token, const struct filter_node* fn)', 1, 1, name='sig')
    t = rw.sub(t, r'pipe\.fill_pipeline\(fn\);', 'PIPE_FILL(&pipe, fn);', 0, None, name='callee stub')
    t = rw.sub(t, r'd1::small_object_allocator alloc\{\};', 'struct small_object_allocator alloc; ALLOC_INIT(&alloc);', 0, None, name='ctor')
    t = rw.sub(t, r'stage_task& st = \*alloc\.new_object<stage_task>\(pipe, alloc\);', 'struct stage_task* st = NEW_STAGE_TASK(&alloc, &pipe);', 0, None, name='new_object<stage_task> (constructor reserves one reference of pipe.wait_ctx: checked textually)')
    t = rw.sub(t, r'r1::execute_and_wait\(st, (\w+), pipe\.wait_ctx, (\w+)\);', r'{ r1_execute_and_wait_stub(st, \1, &pipe.wait_ctx, \2); if (EXC_PENDING()) return; }', 0, None, name='r1::execute_and_wait (contract: job rethrow.execute_and_wait) + exception edge')
    t = rw.scoped_locks(t, r'(?m)(?<=^    )pipeline (\w+)\(cxt, max_token\);', 0, None, lock='PIPELINE_CTOR', unlock='PIPELINE_DTOR')
    t = rw.std(t)
    need(PPL, r'my_at_start\(true\)\s*\{\s*task_info::reset\(\);\s*my_pipeline\.wait_ctx\.reserve\(\);', 'stage_task first-stage constructor no longer reserves the pipeline wait context')
    common.write(ctx, 'pipeline_run.inc', t + '\n')
    out = []
    s = slice_block(TGH, r'inline bool is_current_task_group_canceling\(\)')
    sliced.append('%s:%d is_current_task_group_canceling' % (TGH, s.line))
    t = rw.sub(s.text, r'inline bool is_current_task_group_canceling\(\)', 'bool is_current_task_group_canceling(void)', 1, 1, name='sig')
    t = rw.sub(t, r'task_group_context\* ctx = current_context\(\);', 'struct tgc* ctx = r1_current_context();', 0, None, name='r1 entry point (sliced)')
    t = rw.sub(t, r'ctx->is_group_execution_cancelled\(\)', 'd1tgc_is_group_execution_cancelled(ctx)', 0, None, name='method (sliced)')
    out.append(rw.std(t))
    s = slice_block(TDC, r'd1::task_group_context\* __TBB_EXPORTED_FUNC current_context\(\)')
    sliced.append('%s:%d r1::current_context' % (TDC, s.line))
    t = rw.sub(s.text, r'd1::task_group_context\* __TBB_EXPORTED_FUNC current_context\(\)', 'struct tgc* r1_current_context(void)', 1, 1, name='sig')
    t = rw.sub(t, r'thread_data\* td = governor::get_thread_data\(\);', 'struct thread_data* td = STUB_get_thread_data();', 1, 1, name='callee stub')
    t = rw.sub(t, r'assert_pointers_valid\(td, td->my_task_dispatcher\);', 'RG_NOP();', 0, None, name='debug check -> RG_NOP')
    t = rw.sub(t, r'task_dispatcher\* task_disp', 'struct task_dispatcher* task_disp', 0, None, name='type')
    t = rw.sub(t, r'm_execute_data_ext\.context', 'm_execute_data_ext.context', 0, None, name='field')
    out.insert(0, rw.std(t))
    common.write(ctx, 'canceling.inc', '\n'.join(out) + '\n')
    fired['misc'] = rw.fired


def closed_world(ctx, fired):
    """every writer of task_group_context::my_exception is among the functions under contract (the rely of capture.handler)"""
    known = {(TDH, 'store'): 1, (TG, 'store'): 2, (TG, 'poison'): 1}
    seen = {}
    for top in ('src/tbb', 'include'):
        for dp, _, fs in os.walk(os.path.join(cxx2c.REPO, top)):
            for f in fs:
                if not f.endswith(('.h', '.cpp')):
                    continue
                rel = os.path.relpath(os.path.join(dp, f), cxx2c.REPO)
                txt = cxx2c.strip_comments(load(rel))
                if 'my_exception' not in txt:
                    continue
                n = len(re.findall(r'my_exception\s*(?:\.store|\.exchange|\.compare_exchange\w*|\.fetch_\w+|=(?!=))', txt))
                k = len(re.findall(r'poison_pointer\([^)]*my_exception', txt))
                if n:
                    seen[(rel, 'store')] = n
                if k:
                    seen[(rel, 'poison')] = k
    for key, n in seen.items():
        if known.get(key, 0) < n:
            raise ExtractionBreak('closed world: %s has %d writer(s) of my_exception (%s), the capture.handler rely knows %d' % (key[0], n, key[1], known.get(key, 0)))
    fired['closed-world scan: writers of my_exception'] = {'%s:%s' % k: v for k, v in seen.items()}


def extract(ctx):
    sliced, fired = [], {}
    closed_world(ctx, fired)
    need(TGH, r'enum class state : std::uint8_t \{\s*created,\s*locked,\s*isolated,\s*bound,\s*dead,', 'task_group_context::state order changed')
    need(TGH, r'enum task_group_status \{\s*not_complete,\s*complete,\s*canceled\s*\};', 'task_group_status changed')
    extract_capture(ctx, sliced, fired)
    extract_rethrow(ctx, sliced, fired)
    extract_loop(ctx, sliced, fired)
    extract_arena(ctx, sliced, fired)
    extract_graph(ctx, sliced, fired)
    extract_tasks(ctx, sliced, fired)
    extract_misc(ctx, sliced, fired)
    return sliced, fired


def build(ctx):
    sliced, fired = extract(ctx)
    C = os.path.join(HERE, 'c03.c')
    jobs = [
        Job('capture.handler', C, 'h_capture', route='RG', defines=['CAPTURE'], target='task_dispatcher::local_wait_for_all: catch (...) handler + task_group_context_impl::cancel_group_execution + tbb_exception_ptr::allocate (one thrower against any number of others)', source=TDH),
        Job('eptr.lifecycle', C, 'h_eptr', route='LF', defines=['LIFE'], target='tbb_exception_ptr::allocate / throw_self / destroy', source=TG),
        Job('context.reset', C, 'h_ctx_reset', route='LF', defines=['LIFE'], target='task_group_context_impl::reset (+ tbb_exception_ptr::destroy)', source=TG),
        Job('context.lifetime', C, 'h_ctx_lifetime', route='LF', defines=['LIFE'], target='task_group_context_impl::initialize / reset / destroy / is_group_execution_cancelled, d1::task_group_context::~task_group_context', source=TG),
        Job('rethrow.execute_and_wait', C, 'h_execute_and_wait', route='LF', defines=['EAW'], target='task_dispatcher::execute_and_wait, r1::execute_and_wait, r1::wait (+ tbb_exception_ptr::throw_self)', source=TDC),
        Job('tg.wait', C, 'h_tg_wait', route='LF', defines=['TGWAIT'], target='task_group_base::wait (both edges of try_call/on_completion) + task_group_context::reset/actual_context', source=TGH),
        Job('tg.run_and_wait', C, 'h_tg_run_and_wait', route='LF', defines=['TGWAIT'], target='task_group_base::internal_run_and_wait(const F&)', source=TGH),
        Job('tg.run_and_wait_handle', C, 'h_tg_run_and_wait_h', route='LF', defines=['TGWAIT'], target='task_group_base::internal_run_and_wait(task_handle&&)', source=TGH),
        Job('tg.function_stack_task', C, 'h_fst', route='LF', defines=['TGWAIT'], target='function_stack_task::function_stack_task / execute / cancel / finalize', source=TGH),
        Job('tg.dtor', C, 'h_tg_dtor', route='LF', defines=['TGWAIT', 'DTOR_DOMAIN=0'], target='task_group_base::~task_group_base (no exception in flight, or no exception captured)', source=TGH),
        Job('dispatch.exception_loop', C, 'h_exception_loop', route='LC', loops=True, nloops=3, defines=['XLOOP'], target='task_dispatcher::local_wait_for_all: for(;;){ try { dispatch loop } catch (...) { handler } } (any number of tasks and of throws)', source=TDH, timeout=600),
        Job('arena.execute', C, 'h_arena_execute', route='LC', loops=True, nloops=1, defines=['ARENA'], target='task_arena_impl::execute: exception transport (inline and delegated), lifetime of the delegated context', source=ARC, timeout=600),
        Job('arena.delegated_task', C, 'h_delegated_task', route='LF', defines=['ARENA'], target='delegated_task::execute (both edges of try_call/on_completion) / cancel / finalize', source=ARC),
        Job('graph.wait_for_all', C, 'h_graph_wait', route='LF', defines=['GRAPH'], target='graph::wait_for_all (both edges of try_call/on_exception)', source=FGI),
        Job('finalize.function_task', C, 'h_function_task', route='LF', defines=['TASK_FT'], target='d2::function_task::execute / cancel, task_handle_task::finalize / ~task_handle_task', source=TGH),
        Job('finalize.start_for', C, 'h_start_for', route='LF', defines=['TASK_SF'], target='start_for::execute / cancel / finalize', source=PFH),
        Job('finalize.stage_task', C, 'h_stage_task', route='LF', defines=['TASK_STG'], target='stage_task::execute / cancel / finalize / ~stage_task (parallel_pipeline)', source=PPL),
        Job('pipeline.run', C, 'h_pipeline_run', route='LF', defines=['PIPERUN'], target='r1::parallel_pipeline (waiting call of a pipeline; pipeline object lifetime on both edges)', source=PPL),
        Job('status.is_canceling', C, 'h_is_canceling', route='LF', defines=['CANCELING'], target='is_current_task_group_canceling + r1::current_context', source=TGH),
    ]
    return {
        'jobs': jobs, 'sliced': sliced, 'fired': fired,
        'trusted': [
            'C++ exception machinery (throw, unwinding, catch matching, std::exception_ptr reference counting, std::current_exception / std::rethrow_exception): an exception is an opaque identity; "the callee threw" is a ghost flag set by the callee stub',
            'r1::allocate_memory never returns null (it throws, which inside the noexcept allocate() is std::terminate); deallocate_memory frees',
            'task::cancel overrides and finalizers do not throw; only task::execute (user bodies, range/body copy constructors inside it) throws in the dispatch loop',
            'task::execute leaves m_execute_data_ext.context as it found it, also when it throws (dispatch_loop_guard / delegated_task on_completion: the latter proved in arena.delegated_task)',
            'Waiter::postpone_execution is true only for resume tasks, whose execute does not throw',
            'local_wait_for_all with an external waiter returns only when the wait context reference count is zero (C01 / C14 wait contracts); r1::wait / execute_and_wait as callees are the contract proved in rethrow.execute_and_wait',
            'cancel_group_execution propagation to bound groups (C04); bind_to (C04); get_task / receive_or_steal_task / get_critical_task (C01, C16); fold_tree (C06); stage_task::execute_filter and the token buffers (C07) are stubs with their contracts',
            'task_arena::execute(f) runs f exactly once (C01 delegate.*); the graph job uses it as TASK_ARENA_EXECUTE',
            'small_object_allocator::delete_object = copy the allocator, run the destructor, deallocate (checked textually); try_call / raii_guard semantics (checked textually in _template_helpers.h)',
            'sequentially consistent atomics',
        ],
        'drops': ['try / catch keywords -> blocks + explicit `goto CATCH_ALL_1` / `if (EXC_PENDING()) return` edges after each callee that may throw', 'RAII objects whose destructor matters (exec_context in task_arena_impl::execute, pipeline in parallel_pipeline) -> constructor at the declaration, destructor at every exit of the scope incl. the exception edges (scoped_locks rule); other RAII objects (nested_arena_context, context_guard_helper, dispatch_loop_guard, wait_context, thread_context) dropped',
                  'ITT, poison_pointer (empty in this build), fp-environment capture/copy, mailbox idle flag, debug assertions of the dispatch loop about inbox / isolation / thread data (RG_NOP)', 'memory orders', 'proxy unwrapping kept (actual_context sliced); ed.context behind ED_CONTEXT/SET_ED_CONTEXT accessors',
                  'templates bound: Waiter opaque, F / Range / Body / Partitioner opaque (their calls are stubs that may throw)'],
        'not_decided': ['which dynamic type / object identity survives the transport beyond "the std::exception_ptr stored is the one std::current_exception() returned in the handler"; unwinding itself',
                        '"no body of the group still runs when the call has thrown" beyond: the throw comes after local_wait_for_all returned (wait contract of C01/C14 trusted)',
                        'parallel_reduce / parallel_scan / parallel_for_each / parallel_invoke task types and the reduction join-skip (start_reduce::cancel, zombie bodies): only function_task, function_stack_task, delegated_task, start_for, stage_task are under contract',
                        'stage_task::execute_filter (where my_filter is cleared after parking) is a contract stub; flow-graph node bodies and message object lifetimes',
                        'start_for::run / parallel_* entry points with a context of their own (the context destructor destroying the holder is covered by context.lifetime only in isolation)',
                        'graph::~graph calling wait_for_all (can throw out of a destructor); concurrent_wait contexts (the code itself promises nothing)',
                        'exceptions thrown by task::cancel / destructors, by pipe.fill_pipeline, by allocation inside the library',
                        'resumable tasks (coroutine waiters), nested dispatch loops beyond the save/restore assumption',
                        'liveness: that the wait eventually completes after a throw (only: the thrower\'s reference is released by exactly one cancel())'],
        'assumptions': ['a group is not reset / destroyed / re-initialised while one of its tasks has not been finalized (callers of reset are the wait paths proved here; user calls of reset() concurrently with running tasks are documented misuse)',
                        'one exception capture per cancellation epoch: contexts enter a wait with my_exception == nullptr (fresh, or reset by the previous wait); a user-supplied context that still holds an exception from an earlier call rethrows it again by design',
                        'bypassed tasks belong to the group of the task that returned them (stated in the dispatch loop)',
                        'closed world: the only writers of my_exception are the catch handler of local_wait_for_all, reset, initialize and destroy (scan-enforced)',
                        'graph.wait_for_all: contexts without the concurrent_wait trait for the reuse obligation'],
    }


def replay(ctx, jobname, failure):
    """native recipes on the real library (c03_replay.cpp); the scenario is chosen by the job"""
    if jobname == 'tg.dtor.unwinding':
        scen = ['dtor_unwinding']
    elif jobname.startswith('arena.'):
        scen = ['arena', 'capture']
    elif jobname.startswith('graph.'):
        scen = ['graph']
    elif jobname.startswith('tg.') or jobname.startswith('status.'):
        scen = ['wait_status', 'capture']
    else:
        scen = ['capture', 'wait_status', 'arena', 'graph']
    try:
        exe = native.build([os.path.join(HERE, 'c03_replay.cpp')], os.path.join(ctx.work, 'c03_replay'), link_tbb=True)
    except native.NativeError as e:
        return {'reproduced': False, 'detail': 'native replay does not build against this tree: %s' % str(e)[-300:]}
    rep = {'reproduced': False, 'detail': 'native scenarios %s ran clean on the real library' % scen, 'runs': []}
    for sc in scen:
        rc, out = native.run([exe, sc], timeout=120)
        rep['runs'].append({'cmd': exe + ' ' + sc, 'rc': rc, 'output': out[-600:]})
        m = re.search(r'REPRODUCED (.*)', out)
        if m:
            w = re.search(r'class=(\S+)', m.group(1))
            rep.update(reproduced=True, detail=m.group(1)[:400], witness_class=w.group(1) if w else '')
            break
        if rc == 'timeout':
            rep.update(reproduced=True, detail='class=wait-never-returns scenario %s did not finish in 120 s (a reference of the wait context is never released)' % sc, witness_class='wait-never-returns')
            break
        if isinstance(rc, int) and rc < 0:
            rep.update(reproduced=True, detail='class=crash scenario %s died with signal %d: %s' % (sc, -rc, out[-200:].replace('\n', ' ')), witness_class='crash')
            break
    return rep
