// C03 native replay recipes on the real library (linked against a libtbb built from the current src/tbb).
//   c03_replay dtor_unwinding   task_group destroyed during stack unwinding while a task of the group has thrown and another is still running
//   c03_replay capture          many concurrent throwers in one group: one exception, thrown by the group, surfaces once; the group is reusable; no holder leaks
//   c03_replay wait_status      task_group::wait status / second wait / reuse
//   c03_replay arena            task_arena::execute delegated to a saturated arena: the exception of f surfaces once in the caller
//   c03_replay graph            flow graph: exception surfaces once at wait_for_all, graph reusable
// Prints `REPRODUCED class=<name> ...` when the misbehaviour named by the failed obligation shows on the real code.
#include <oneapi/tbb/task_group.h>
#include <oneapi/tbb/task_arena.h>
#include <oneapi/tbb/parallel_for.h>
#include <oneapi/tbb/flow_graph.h>
#include <oneapi/tbb/global_control.h>
#include <atomic>
#include <thread>
#include <chrono>
#include <cstdio>
#include <cstring>
#include <cstdlib>
#include <csignal>
#include <stdexcept>
#include <exception>
#include <unistd.h>
#include <sys/wait.h>

struct tagged : std::runtime_error { int id; tagged(int i) : std::runtime_error("tagged"), id(i) {} };
static std::atomic<int> live_bodies{0};

static int dtor_unwinding_child() {
    std::atomic<bool> go{false}, started{false};
    try {
        tbb::task_group tg;
        tg.run([&] { started = true; while (!go) std::this_thread::yield(); });          // keeps one reference of the group's wait context
        tg.run([&] { throw tagged(1); });                                              // captured into the group's context
        while (!started) std::this_thread::yield();
        std::this_thread::sleep_for(std::chrono::milliseconds(200));
        std::thread([&] { std::this_thread::sleep_for(std::chrono::milliseconds(200)); go = true; }).detach();
        throw std::logic_error("user exception");                                       // unwinding destroys tg: no wait() was called
    } catch (const std::exception& e) {
        std::printf("caught in the caller: %s\n", e.what());
    }
    std::printf("child survived\n");
    return 0;
}

static int dtor_unwinding() {
    std::fflush(stdout);
    pid_t p = fork();
    if (p == 0) { std::signal(SIGABRT, SIG_DFL); _exit(dtor_unwinding_child()); }
    int st = 0; waitpid(p, &st, 0);
    if (WIFSIGNALED(st) && WTERMSIG(st) == SIGABRT) {
        std::printf("REPRODUCED class=terminate-in-task-group-dtor a task_group destroyed during stack unwinding (no wait() called) with one task still running and one task that threw: "
                    "~task_group_base waits, the wait rethrows the captured task exception out of the destructor while the user's exception is in flight -> std::terminate (SIGABRT)\n");
        return 1;
    }
    std::printf("not reproduced: child status %d\n", st);
    return 0;
}

static int capture() {
    int bad = 0;
    for (int round = 0; round < 200 && !bad; ++round) {
        tbb::task_group tg; std::atomic<int> thrown{0}; const int N = 64;
        for (int i = 0; i < N; ++i) tg.run([&, i] { ++live_bodies; thrown++; --live_bodies; throw tagged(i); });
        int caught = 0, id = -1;
        try { tg.wait(); } catch (const tagged& t) { ++caught; id = t.id; if (live_bodies != 0) { std::printf("REPRODUCED class=body-running-after-throw live=%d\n", live_bodies.load()); bad = 1; } }
        if (thrown > 0 && caught != 1) { std::printf("REPRODUCED class=exception-not-once caught=%d thrown=%d\n", caught, thrown.load()); bad = 1; }
        if (caught && (id < 0 || id >= N)) { std::printf("REPRODUCED class=foreign-exception id=%d\n", id); bad = 1; }
        // reuse: the group must be clean
        std::atomic<int> ran{0}; tg.run([&] { ran++; });
        tbb::task_group_status s = tbb::not_complete;
        try { s = tg.wait(); } catch (...) { std::printf("REPRODUCED class=exception-seen-again round=%d\n", round); bad = 1; }
        if (!bad && (ran != 1 || s != tbb::complete)) { std::printf("REPRODUCED class=group-not-reusable ran=%d status=%d\n", ran.load(), (int)s); bad = 1; }
    }
    if (!bad) std::printf("ok capture\n");
    return bad;
}

static int wait_status() {
    int bad = 0;
    { tbb::task_group tg; tg.run([] {}); if (tg.wait() != tbb::complete) { std::printf("REPRODUCED class=status-complete-expected\n"); bad = 1; } }
    { tbb::task_group tg; std::atomic<bool> go{false}; tg.run([&] { while (!go) std::this_thread::yield(); }); tg.cancel(); go = true;
      if (tg.wait() != tbb::canceled) { std::printf("REPRODUCED class=status-canceled-expected\n"); bad = 1; }
      if (tg.wait() != tbb::complete) { std::printf("REPRODUCED class=second-wait-not-complete\n"); bad = 1; } }
    { tbb::task_group tg; tg.run([] { throw tagged(7); }); int c = 0; try { tg.wait(); } catch (const tagged&) { ++c; }
      try { if (tg.wait() != tbb::complete) { std::printf("REPRODUCED class=second-wait-not-complete-after-exception\n"); bad = 1; } } catch (...) { ++c; }
      if (c != 1) { std::printf("REPRODUCED class=exception-not-once caught=%d\n", c); bad = 1; } }
    if (!bad) std::printf("ok wait_status\n");
    return bad;
}

static int arena() {
    int bad = 0;
    tbb::task_arena a(1, 1);                      // one slot, reserved for an external thread
    std::atomic<bool> inside{false}, leave{false};
    std::thread holder([&] { a.execute([&] { inside = true; while (!leave) std::this_thread::yield(); }); });
    while (!inside) std::this_thread::yield();
    std::thread rel([&] { std::this_thread::sleep_for(std::chrono::milliseconds(100)); leave = true; });
    int c = 0; try { a.execute([] { throw tagged(3); }); } catch (const tagged& t) { if (t.id == 3) ++c; }      // the arena is saturated: delegated
    holder.join(); rel.join();
    if (c != 1) { std::printf("REPRODUCED class=delegated-exception-not-once caught=%d\n", c); bad = 1; }
    if (!bad) std::printf("ok arena\n");
    return bad;
}

static int graph() {
    int bad = 0;
    tbb::flow::graph g;
    tbb::flow::function_node<int, int> n(g, tbb::flow::unlimited, [](int v) -> int { if (v == 1) throw tagged(v); return v; });
    int c = 0; n.try_put(1); try { g.wait_for_all(); } catch (const tagged&) { ++c; }
    if (c != 1 || !g.exception_thrown() || !g.is_cancelled()) { std::printf("REPRODUCED class=graph-exception-not-reported caught=%d\n", c); bad = 1; }
    g.reset(); std::atomic<int> ok{0};
    tbb::flow::function_node<int, int> m(g, tbb::flow::unlimited, [&](int v) -> int { ok++; return v; });
    m.try_put(2); try { g.wait_for_all(); } catch (...) { std::printf("REPRODUCED class=exception-seen-again\n"); bad = 1; }
    if (ok != 1 || g.exception_thrown()) { std::printf("REPRODUCED class=graph-not-reusable ok=%d\n", ok.load()); bad = 1; }
    if (!bad) std::printf("ok graph\n");
    return bad;
}

int main(int argc, char** argv) {
    const char* w = argc > 1 ? argv[1] : "all";
    int r = 0;
    if (!std::strcmp(w, "dtor_unwinding")) return dtor_unwinding();
    if (!std::strcmp(w, "capture") || !std::strcmp(w, "all")) r |= capture();
    if (!std::strcmp(w, "wait_status") || !std::strcmp(w, "all")) r |= wait_status();
    if (!std::strcmp(w, "arena") || !std::strcmp(w, "all")) r |= arena();
    if (!std::strcmp(w, "graph") || !std::strcmp(w, "all")) r |= graph();
    return r;
}
