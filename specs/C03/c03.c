/* C03 harnesses: the bookkeeping around exception capture / transport / rethrow, exception edges explicit.
   An exception is a non-zero int (its identity); std::exception_ptr is that identity (0 = empty).  EXC_PENDING() = "an exception is propagating out of the
   callee that just returned"; the sliced code carries `if (EXC_PENDING()) goto/return` after every callee that may throw (inserted by spec.py, listed in rules_fired). */
#include "verif.h"
#include <stdlib.h>
enum { state_created, state_locked, state_isolated, state_bound, state_dead };   /* order checked by spec.py against task_group.h */
enum { not_complete, complete, canceled };                                        /* task_group_status, order checked by spec.py */
struct tbb_exception_ptr { int my_ptr; };
struct tgc_node { struct tgc_node *my_next_node, *my_prev_node; };
struct tgc_list { int n; };
struct tgc { uint64_t my_cpu_ctl_env; uint32_t my_cancellation_requested; struct { bool fp_settings, concurrent_wait, bound; } my_traits; uint8_t my_may_have_children; uint8_t my_state;
             struct tgc *my_parent; struct tgc_list *my_context_list; struct tgc_node my_node; struct tbb_exception_ptr *my_exception; void *my_itt_caller; };
typedef struct task task;
struct task_dispatcher;
typedef struct execution_data_ext { struct tgc *context; int context_id; intptr_t isolation; int original_slot, affinity_slot; struct task_dispatcher *task_disp; void *wait_ctx; } execution_data_ext;
int g_exc;                                   /* the exception propagating out of the last callee (0 = none) */
#define EXC_PENDING() (g_exc != 0)

#ifndef XLOOP
#define ED_CONTEXT(ed) ((ed)->context)
#define SET_ED_CONTEXT(ed, c) ((ed)->context = (c))
#endif

#ifdef CAPTURE
/* ---- job capture.handler --------------------------------------------------------------------------------------------------------------
   The catch (...) block of the dispatch loop + the real cancel_group_execution + the real tbb_exception_ptr::allocate, run by ONE thrower against any number of
   other throwers / cancellers of the same group (rely/guarantee on the two words my_cancellation_requested and my_exception, sequentially consistent).
   ph = progress of the group's capture: 0 nobody captured, 1 a thrower has won the cancellation and has not stored yet, 2 stored.
   Rely (justified by the guarantees asserted at the sites below, which every thrower runs, and by the wait jobs: reset/destroy run only after the wait completed,
   i.e. not while this thrower's task still holds its reference): the flag is not cleared, ph does not go back, only the pending winner writes my_exception. */
static struct tgc X; static struct tbb_exception_ptr MY_OBJ, OTHER_OBJ;
unsigned long gWin; int ph; bool meWin, meAlloc, meStored, meFreed, meDtor; int g_cur_exc, g_prop_calls, g_terminate_on;
#define CINV (X.my_cancellation_requested <= 1 && gWin <= 1 && (X.my_cancellation_requested == 1) == (gWin == 1) && gWin >= (unsigned long)meWin \
    && ph >= 0 && ph <= 2 && (ph == 0 || X.my_cancellation_requested == 1) && ((X.my_exception != NULL) == (ph == 2)) \
    && ((X.my_exception == &MY_OBJ) == (meStored && !meFreed)) && (X.my_exception == NULL || X.my_exception == &MY_OBJ || X.my_exception == &OTHER_OBJ) && (!meWin || ph >= 1))
static void interfere(void) {
    uint32_t c0 = X.my_cancellation_requested; unsigned long w0 = gWin; int ph0 = ph; struct tbb_exception_ptr *e0 = X.my_exception;
    X.my_cancellation_requested = nondet_u32(); gWin = nondet_ulong(); ph = nondet_int(); X.my_exception = nondet_bool() ? (nondet_bool() ? &OTHER_OBJ : &MY_OBJ) : NULL;
    __CPROVER_assume(CINV);
    __CPROVER_assume(X.my_cancellation_requested >= c0 && gWin >= w0 && ph >= ph0);        /* no reset while a task of the group is unfinished */
    __CPROVER_assume(ph0 != 2 || X.my_exception == e0);                                     /* a captured exception stays until the reset */
    __CPROVER_assume(!meWin || (ph == ph0 && X.my_exception == e0));                       /* only the winner of the cancellation captures */
}
#define ATOMIC_LOAD_AT(site, f) ({ interfere(); (f); })
#define ATOMIC_XCHG_AT(site, f, v) ({ interfere(); uint32_t old_ = (f); (f) = (v); if (old_ == 0) { gWin++; meWin = true; ph = 1; } \
    __CPROVER_assert(CINV, "guarantee: one winner per 0->1 transition of the cancellation flag, the flag is only ever set, at " #site); old_; })
#define ATOMIC_STORE_AT(site, f, v) do { struct tbb_exception_ptr *v_ = (v); interfere(); \
    __CPROVER_assert(meWin, "C03.capture: only the thrower that won the group's cancellation stores an exception (guarantee the other throwers rely on), at " #site); \
    __CPROVER_assert((f) == NULL, "C03.capture: the slot is empty when the exception is stored - a captured exception is never overwritten (it would leak and a second exception would surface), at " #site); \
    (f) = v_; if (v_ == &MY_OBJ) meStored = true; if (v_ != NULL) ph = 2; \
    __CPROVER_assert(CINV, "guarantee: my_exception is non-null only while the group is cancelled, after the store at " #site); } while (0)
static void STUB_propagate(struct tgc *c, uint32_t s) { g_prop_calls++; }
static int STUB_terminate_on_exception(void) { return g_terminate_on; }
#define EXC_TERMINATE() __CPROVER_assume(0)                  /* std::terminate: nothing runs afterwards */
static void *STUB_allocate_memory(size_t n) { __CPROVER_assert(!meAlloc, "C03.capture: one exception object per handled exception"); meAlloc = true; return &MY_OBJ; }   /* r1::allocate_memory never returns null (throws -> terminate inside noexcept) */
static int STUB_current_exception(void) { return g_cur_exc; }
#define EPTR_CONSTRUCT(p, e) ((p)->my_ptr = (e), (p))
#define EPTR_DTOR(p) do { __CPROVER_assert((p) == &MY_OBJ && meAlloc && !meDtor, "C03.capture: an exception object is destructed once"); meDtor = true; (p)->my_ptr = 0; } while (0)
static void STUB_deallocate_memory(void *p) { __CPROVER_assert(p == &MY_OBJ && meDtor && !meFreed, "C03.capture: an exception object is freed once, after its destructor"); meFreed = true; }
static bool STUB_rethrow_exception_broken(void) { return false; }
static void STUB_fix_broken_rethrow(void) {}
#define EXC_RETHROW_EXCEPTION(p) (g_exc = (p))
#include "eptr.inc"
#include "cancel.inc"
#include "handler.inc"
void h_capture(void) {
    X.my_cancellation_requested = nondet_u32(); gWin = nondet_ulong(); ph = nondet_int(); X.my_exception = nondet_bool() ? &OTHER_OBJ : NULL;
    meWin = meAlloc = meStored = meFreed = meDtor = false; g_prop_calls = 0; g_terminate_on = nondet_int(); __CPROVER_assume(CINV);
    g_cur_exc = nondet_int(); __CPROVER_assume(g_cur_exc != 0); g_exc = 0;             /* the exception thrown by the task body is being handled (caught) */
    execution_data_ext ed; ed.context = &X;
    lwfa_catch_all(&ed, (task *)nondet_ptr());
    interfere();
    OBLIGATION(g_terminate_on != 1, "C03.capture: with terminate_on_exception the handler does not continue");
    OBLIGATION(X.my_cancellation_requested == 1, "C03.capture: capturing cancels the group - after the handler the group is cancelled whoever won, so the thrower's own task and all tasks not yet started are cancel()ed instead of run");
    OBLIGATION(!meWin || (X.my_exception == &MY_OBJ && MY_OBJ.my_ptr == g_cur_exc), "C03.capture: the thrower that won the cancellation has ITS exception - the one thrown by this group's work and being handled on this thread - captured in the context (not swallowed)");
    OBLIGATION(meWin || !meAlloc || (meFreed && meDtor), "C03.capture: a thrower that lost the cancellation leaves no exception object behind (nothing stored, nothing leaked)");
    OBLIGATION(meWin || X.my_exception != &MY_OBJ, "C03.capture: a thrower that lost the cancellation does not store");
    OBLIGATION(g_prop_calls == (meWin ? 1 : 0), "C03.capture: only the winner propagates the cancellation to bound groups");
    OBLIGATION(g_exc == 0, "C03.capture: the handler lets no exception escape the dispatch loop (never on a worker thread)");
    VACUITY_END();
}
#endif

#if defined(ARENA)
#define RETHROW_GUARD() __CPROVER_assert(g_done, "C03.rethrow: the delegated call's exception is rethrown in the caller only after the delegated task has finalized")
#endif
#if defined(EAW) || defined(TGWAIT) || defined(GRAPH)
#define RETHROW_GUARD() __CPROVER_assert(g_wait_done, "C03.rethrow: the exception is rethrown only after the wait has completed (no body of the group is running or can still start)")
#endif
#if defined(TGWAIT) || defined(GRAPH)
#define STORE_GUARD(site) __CPROVER_assert(g_wait_done, "C03.reuse: the context is reset only after the wait has completed - never while a task of the group can still run or capture an exception, at " #site)
#endif
#if defined(LIFE) || defined(EAW) || defined(TGWAIT) || defined(ARENA) || defined(GRAPH) || defined(PIPERUN) || defined(CANCELING)
/* ---- sequential sections: ONE exception holder OBJ exists (a group captures at most one exception at a time: job capture.handler); its life is counted --------------------- */
static struct tbb_exception_ptr OBJ; int g_alloc, g_ctor, g_dtor, g_free, g_throws, g_cur_exc; bool g_wait_done, g_done;
static void *STUB_allocate_memory(size_t n) { __CPROVER_assert(n == sizeof(struct tbb_exception_ptr), "C03.eptr: the holder is allocated with its own size"); g_alloc++; return &OBJ; }
static int STUB_current_exception(void) { return g_cur_exc; }
#define EPTR_CONSTRUCT(p, e) (g_ctor++, (p)->my_ptr = (e), (p))
#define EPTR_DTOR(p) do { __CPROVER_assert((p) == &OBJ && g_ctor == 1 && g_dtor == 0, "C03.destroy: the exception holder is destructed exactly once, only after it was constructed"); g_dtor++; (p)->my_ptr = 0; } while (0)
static void STUB_deallocate_memory(void *p) { __CPROVER_assert(p == &OBJ && g_dtor == 1 && g_free == 0, "C03.destroy: the holder's memory is freed exactly once, after its destructor ran"); g_free++; }
static bool STUB_rethrow_exception_broken(void) { return nondet_bool(); }
static void STUB_fix_broken_rethrow(void) {}
#ifndef RETHROW_GUARD
#define RETHROW_GUARD() ((void)0)
#endif
#define EXC_RETHROW_EXCEPTION(p) do { RETHROW_GUARD(); __CPROVER_assert(g_dtor == 0, "C03.rethrow: the holder is alive when its exception is rethrown"); g_throws++; g_exc = (p); } while (0)
#ifndef STORE_GUARD
#define STORE_GUARD(site) ((void)0)
#endif
#ifdef ARENA
static void arena_observe(void);
#define ATOMIC_LOAD_AT(site, f) (arena_observe(), (f))
#else
#define ATOMIC_LOAD_AT(site, f) (f)
#endif
#define ATOMIC_STORE_AT(site, f, v) do { STORE_GUARD(site); (f) = (v); } while (0)
#define ATOMIC_XCHG_AT(site, f, v) ({ uint32_t old_ = (f); (f) = (v); old_; })
int g_prop_calls; static void STUB_propagate(struct tgc *c, uint32_t s) { g_prop_calls++; }
#define POISON(x) ((void)0)                       /* poison_pointer is empty unless TBB_USE_ASSERT */
int g_list_removed;
#define LIST_REMOVE(l, c) (g_list_removed++)
#define state_proxy 255
#define my_actual_context my_parent               /* union { my_parent; my_actual_context; } in task_group.h */
static void life_world(void) { g_alloc = g_ctor = g_dtor = g_free = g_throws = g_prop_calls = g_list_removed = 0; g_exc = 0; g_wait_done = false; g_cur_exc = nondet_int(); __CPROVER_assume(g_cur_exc != 0); }
/* a context as the tasks of its group may leave it (invariant of job capture.handler): cancelled or not; an exception captured only if cancelled; the holder is OBJ with payload g_cur_exc */
static bool g_captured;
static void group_ran(struct tgc *c) {
    if (nondet_bool()) c->my_cancellation_requested = 1;
    if (c->my_exception == NULL && nondet_bool()) { c->my_cancellation_requested = 1; __CPROVER_assume(g_ctor == 0); g_alloc = g_ctor = 1; OBJ.my_ptr = g_cur_exc; c->my_exception = &OBJ; g_captured = true; }
}
static int STUB_terminate_on_exception(void) { return 0; }
#define EXC_TERMINATE() __CPROVER_assume(0)
#include "eptr.inc"
#include "cancel.inc"
#include "context.inc"
#include "d1ctx.inc"
#endif

#ifdef LIFE
/* ---- jobs eptr.lifecycle, context.reset, context.lifetime --------------------------------------------------------------------------------- */
void h_eptr(void) {
    life_world();
    struct tbb_exception_ptr *p = tbb_exception_ptr_allocate();
    OBLIGATION(p == &OBJ && g_alloc == 1 && g_ctor == 1 && p->my_ptr == g_cur_exc, "C03.eptr: allocate() builds exactly one holder and it refers to the exception currently being handled on this thread - one actually thrown by the group's work");
    int n = nondet_int() & 1;
    if (n) { tbb_exception_ptr_throw_self(p);
        OBLIGATION(g_exc == g_cur_exc && g_throws == 1, "C03.rethrow: throw_self rethrows exactly the captured exception");
        OBLIGATION(p->my_ptr == g_cur_exc && g_dtor == 0 && g_free == 0, "C03.rethrow: throw_self leaves the holder intact (the context still owns it)"); }
    tbb_exception_ptr_destroy(p);
    OBLIGATION(g_dtor == 1 && g_free == 1, "C03.destroy: destroy() runs the destructor and frees the memory, each exactly once");
    VACUITY_END();
}
static void any_context(struct tgc *c) {
    c->my_cancellation_requested = 0; c->my_exception = NULL; c->my_state = nondet_bool() ? state_bound : state_isolated; c->my_parent = nondet_ptr(); c->my_context_list = nondet_bool() ? NULL : nondet_ptr();
    if (c->my_context_list) c->my_state = state_bound;
    g_captured = false; group_ran(c);
}
void h_ctx_reset(void) {
    life_world(); struct tgc c; any_context(&c); struct tgc *par = c.my_parent; uint8_t st = c.my_state;
    tgc_reset(&c);
    OBLIGATION(c.my_exception == NULL && c.my_cancellation_requested == 0, "C03.reuse: after reset the group carries neither a captured exception nor a cancellation request (a reused group does not see the old exception again)");
    OBLIGATION(g_dtor == (g_captured ? 1 : 0) && g_free == g_dtor, "C03.destroy: reset destroys the captured exception exactly once (and nothing when none was captured)");
    OBLIGATION(c.my_parent == par && c.my_state == st, "C03.reuse: reset keeps the binding of the context");
    tgc_reset(&c);
    OBLIGATION(g_dtor == (g_captured ? 1 : 0) && g_free == g_dtor, "C03.destroy: a second reset does not destroy the exception again");
    VACUITY_END();
}
void h_ctx_lifetime(void) {
    life_world(); struct tgc c; c.my_traits.fp_settings = nondet_bool(); c.my_exception = nondet_ptr(); c.my_cancellation_requested = nondet_u32();
    tgc_initialize(&c);
    OBLIGATION(c.my_exception == NULL && c.my_cancellation_requested == 0 && c.my_state == state_created, "C03.reuse: a new context starts without exception and without cancellation request");
    g_captured = false; group_ran(&c);
    bool with_reset = nondet_bool();
    if (with_reset) { tgc_reset(&c); if (nondet_bool()) { __CPROVER_assume(!g_captured); group_ran(&c); } }
    OBLIGATION(!tgc_is_cancelled(&c) == (c.my_cancellation_requested == 0), "C03.status: is_group_execution_cancelled reports the cancellation flag");
    d1tgc_dtor(&c);
    OBLIGATION(g_dtor == (g_captured ? 1 : 0) && g_free == g_dtor && g_ctor == g_dtor, "C03.destroy: over the life of a context (initialize, capture, optional reset, destructor) every captured exception object is destroyed exactly once");
    OBLIGATION(c.my_state == state_dead, "C03.destroy: the destructor of a real (non-proxy) context marks it dead");
    VACUITY_END();
}
#endif

#ifdef EAW
/* ---- job rethrow.execute_and_wait: task_dispatcher::execute_and_wait + r1::wait + r1::execute_and_wait ------------------------------------------ */
struct task { struct tgc *ctx; intptr_t isolation; };
struct wait_context { uint64_t m_ref_count; };
struct arena { int d; };
struct task_dispatcher { struct { intptr_t isolation; } m_execute_data_ext; };
struct thread_data { struct task_dispatcher *my_task_dispatcher; struct arena *my_arena; };
struct external_waiter { struct arena *a; struct wait_context *w; };
static struct thread_data TD; static struct task_dispatcher DISP; static struct arena AR; static struct tgc W, TC; static struct wait_context WC; static struct task T;
int g_bound, g_dispatched; bool g_iso_ok;
static struct thread_data *STUB_get_thread_data(void) { return &TD; }
#define TASK_CONTEXT(t) ((t)->ctx)
#define TASK_ISOLATION(t) ((t)->isolation)
static void STUB_bind_to(struct tgc *c, struct thread_data *td) { __CPROVER_assert(g_dispatched == 0, "C03.wait: the task's context is bound before the task is dispatched"); if (c == T.ctx) g_bound++; }
#define INIT_external_waiter(w_, a_, wc_) ((w_)->a = (a_), (w_)->w = (wc_))
/* contract of local_wait_for_all with an external waiter: runs t and whatever else it finds; tasks of the waited group may throw meanwhile (the group's context ends in a state
   allowed by job capture.handler); returns nullptr, and only once the wait context's reference count is zero (C01/C14 wait contracts); no exception escapes (job dispatch.exception_loop) */
static task *STUB_local_wait_for_all(struct task_dispatcher *d, task *t, struct external_waiter *w) {
    __CPROVER_assert(d == &DISP && w->w == &WC && w->a == &AR, "C03.wait: the calling thread's own dispatcher waits on the caller's wait context");
    if (t) { g_dispatched++; g_iso_ok = (t->isolation == DISP.m_execute_data_ext.isolation); }
    group_ran(&W); WC.m_ref_count = 0; g_wait_done = true; return NULL;
}
#endif
#if defined(EAW)
#include "eaw.inc"
void h_execute_and_wait(void) {
    life_world(); TD.my_task_dispatcher = &DISP; TD.my_arena = &AR; DISP.m_execute_data_ext.isolation = nondet_intptr_t();
    W.my_state = state_bound; W.my_cancellation_requested = nondet_bool(); W.my_exception = NULL; g_captured = false; WC.m_ref_count = nondet_u64();
    bool with_task = nondet_bool(); bool same = nondet_bool(); struct tgc *tctx = same ? &W : &TC; TC.my_state = state_bound; T.ctx = NULL; T.isolation = nondet_intptr_t(); g_bound = g_dispatched = 0; g_iso_ok = false;
    if (with_task) r1_execute_and_wait(&T, tctx, &WC, &W); else r1_wait(&WC, &W);
    OBLIGATION(g_wait_done && WC.m_ref_count == 0, "C03.wait: the waiting call neither returns nor throws before the wait has completed");
    OBLIGATION(!with_task || (T.ctx == tctx && g_bound == 1 && g_dispatched == 1 && g_iso_ok), "C03.wait: execute_and_wait runs the root task once, in the context it was given, bound first, under the caller's isolation");
    OBLIGATION(with_task || g_dispatched == 0, "C03.wait: wait() enters the dispatch loop without a task");
    if (g_captured) {
        OBLIGATION(g_throws == 1 && g_exc == g_cur_exc, "C03.rethrow: an exception captured in the waited group's context is rethrown from the waiting call, exactly once, and it is the captured one");
        OBLIGATION(W.my_exception == &OBJ && g_dtor == 0, "C03.rethrow: the holder stays owned by the context (destroyed later by reset or by the context's destructor, exactly once)");
    } else
        OBLIGATION(g_throws == 0 && g_exc == 0 && W.my_exception == NULL, "C03.rethrow: without a captured exception the waiting call returns normally");
    VACUITY_END();
}
#endif

#ifdef TGWAIT
/* ---- jobs tg.wait, tg.run_and_wait, tg.run_and_wait_handle, tg.dtor*, tg.function_stack_task ------------------------------------------------------
   d1_wait / d1_execute_and_wait are the contract proved in job rethrow.execute_and_wait: wait until the reference count is zero, then rethrow the captured exception if there is one. */
struct task { int d; };
struct wait_context { uint64_t m_ref_count; };
struct vertex { struct wait_context m_wait; };
struct functor { int id; };
struct function_stack_task { const struct functor *m_func; struct vertex *m_wait_tree_vertex; };
struct task_handle { task *t; struct tgc *ctx; };
struct task_group_base { struct vertex m_wait_vertex; struct tgc m_context; };
static struct task_group_base G; static struct tgc USER; static struct tgc *A; static struct functor FN; static task HT;
int g_waits, g_reserve, g_release, g_body, g_unc; bool g_work, g_canc_at_end, g_canc_at_wait; task *g_root;
#define TGB_WAIT_CTX(self) (&(self)->m_wait_vertex.m_wait)
#define WAIT_CTX_CONTINUE(w) ((w)->m_ref_count > 0)
#define EXC_NO_STATUS (-1)
#define EXC_NO_TASK ((task *)0)
#define EXC_missing_wait (-7)
#define EXC_THROW(x) (g_exc = (x))
#define VERTEX_RESERVE(v) do { g_reserve++; (v)->m_wait.m_ref_count++; } while (0)
#define VERTEX_RELEASE(v) do { g_release++; (v)->m_wait.m_ref_count--; } while (0)
static struct vertex *STUB_get_thread_reference_vertex(struct vertex *v) { return v; }     /* the per-thread reference vertex forwards to the group's vertex (C14 wait tree) */
static int STUB_uncaught_exceptions(void) { return g_unc; }
#define TASK_HANDLE_NONEMPTY(h) ((h)->t != NULL)
#define TASK_HANDLE_CTX(h) ((h)->ctx)
static task *TASK_HANDLE_RELEASE(struct task_handle *h) { task *t = h->t; h->t = NULL; return t; }
static void wait_core(struct wait_context *wc, struct tgc *c) {
    __CPROVER_assert(wc == &G.m_wait_vertex.m_wait && c == A, "C03.wait: the group waits on its own wait context and on its actual context");
    g_waits++; g_canc_at_wait = (A->my_cancellation_requested != 0);
    if (g_work) group_ran(A);                                  /* outstanding tasks run to completion or are cancelled; any of them may throw */
    g_work = false; wc->m_ref_count = 0; g_wait_done = true; g_canc_at_end = (A->my_cancellation_requested != 0);
    if (A->my_exception != NULL) { g_throws++; g_exc = A->my_exception->my_ptr; }
}
static void d1_wait(struct wait_context *wc, struct tgc *c) { wait_core(wc, c); }
static void d1_execute_and_wait(task *t, struct tgc *tc, struct wait_context *wc, struct tgc *c) {
    __CPROVER_assert(tc == A, "C03.wait: the root task runs in the group's context"); g_root = t; g_work = true; wait_core(wc, c); }
static task *CALL_BODY(const struct functor *f) { g_body++; if (nondet_bool()) { g_exc = g_cur_exc; return NULL; } return nondet_bool() ? &HT : NULL; }
#include "fst.inc"
#include "tgb.inc"
static void tg_world(void) {
    life_world(); g_waits = g_reserve = g_release = g_body = 0; g_root = NULL; g_captured = false;
    bool proxy = nondet_bool(); G.m_context.my_state = proxy ? state_proxy : (nondet_bool() ? state_bound : state_created); G.m_context.my_actual_context = proxy ? &USER : NULL; A = proxy ? &USER : &G.m_context;
    USER.my_state = state_bound; G.m_context.my_cancellation_requested = nondet_bool(); USER.my_cancellation_requested = nondet_bool(); G.m_context.my_exception = NULL; USER.my_exception = NULL;
    G.m_wait_vertex.m_wait.m_ref_count = nondet_u32(); g_work = G.m_wait_vertex.m_wait.m_ref_count > 0; g_unc = nondet_int(); __CPROVER_assume(g_unc >= 0);
}
static void after_wait(int st, const char *unused) {
    OBLIGATION(g_waits == 1 && g_wait_done, "C03.wait: the call waits once and neither returns nor throws before the wait has completed");
    if (g_captured) OBLIGATION(g_exc == g_cur_exc && g_throws == 1, "C03.rethrow: the captured exception leaves the waiting call (exactly one exception, the captured one)");
    else { OBLIGATION(g_exc == 0, "C03.rethrow: without a captured exception the call returns normally");
           OBLIGATION(st == (g_canc_at_end ? canceled : complete), "C03.status: the call returns canceled exactly when the group was cancelled when the wait completed, complete otherwise"); }
    OBLIGATION(A->my_exception == NULL && A->my_cancellation_requested == 0, "C03.reuse: on both edges the group's context is reset - the group is reusable and a later wait does not see the exception again");
    OBLIGATION(g_dtor == (g_captured ? 1 : 0) && g_free == g_dtor, "C03.destroy: the captured exception object is destroyed exactly once (by the reset), also while its exception propagates");
}
void h_tg_wait(void) {
    tg_world();
    int st = tgb_wait(&G);
    after_wait(st, "");
    /* a second wait without new work */
    int d0 = g_dtor; g_exc = 0; g_wait_done = false; g_waits = 0;
    int st2 = tgb_wait(&G);
    OBLIGATION(g_exc == 0 && st2 == complete && g_dtor == d0, "C03.rethrow: the exception surfaces exactly once - a second wait on the same group returns complete and throws nothing");
    VACUITY_END();
}
void h_tg_run_and_wait(void) {
    tg_world(); uint64_t r0 = G.m_wait_vertex.m_wait.m_ref_count;
    int st = tgb_internal_run_and_wait(&G, &FN);
    after_wait(st, "");
    OBLIGATION(g_reserve == 1 && g_root != NULL, "C03.wait: the stack task holds one reference of the group's wait context while it is dispatched");
    VACUITY_END();
}
void h_tg_run_and_wait_h(void) {
    tg_world(); struct task_handle h; h.t = &HT; h.ctx = A;
    int st = tgb_internal_run_and_wait_h(&G, &h);
    after_wait(st, "");
    OBLIGATION(g_root == &HT && h.t == NULL, "C03.wait: the handle's task is released into the dispatch exactly once");
    VACUITY_END();
}
void h_fst(void) {
    tg_world(); G.m_wait_vertex.m_wait.m_ref_count = nondet_u32() >> 1; uint64_t r0 = G.m_wait_vertex.m_wait.m_ref_count; struct function_stack_task t; fst_ctor(&t, &FN, &G.m_wait_vertex);
    OBLIGATION(G.m_wait_vertex.m_wait.m_ref_count == r0 + 1, "C03.finalize: a task holds one reference of its group's wait context from construction on");
    bool cancelled = nondet_bool(); task *nx;
    if (cancelled) nx = fst_cancel(&t);
    else { nx = fst_execute(&t);
        if (g_exc != 0) { OBLIGATION(g_release == 0 && G.m_wait_vertex.m_wait.m_ref_count == r0 + 1, "C03.finalize: a task whose body threw has NOT released its reference - the wait cannot complete before the dispatch loop has captured the exception");
            g_exc = 0; nx = fst_cancel(&t); } }                                        /* the dispatch loop then cancels the group and calls cancel() on the same task (job dispatch.exception_loop) */
    OBLIGATION(g_body == (cancelled ? 0 : 1), "C03.finalize: a task whose group is cancelled is finalized without running the body");
    OBLIGATION(g_release == 1 && G.m_wait_vertex.m_wait.m_ref_count == r0, "C03.finalize: executed, cancelled, or thrown-then-cancelled - the task releases its reference exactly once");
    VACUITY_END();
}
/* ~task_group_base; DTOR_DOMAIN 0: no exception in flight, or none captured by the group; 1: the stack is already unwinding AND a task of the group threw */
void h_tg_dtor(void) {
    tg_world(); uint64_t r0 = G.m_wait_vertex.m_wait.m_ref_count; bool c0 = A->my_cancellation_requested != 0;
    tgb_dtor(&G);
#if DTOR_DOMAIN == 0
    __CPROVER_assume(!(g_unc > 0 && g_captured));
#else
    __CPROVER_assume(g_unc > 0 && g_captured);
#endif
    if (r0 == 0) OBLIGATION(g_waits == 0 && g_exc == 0 && (A->my_cancellation_requested != 0) == c0, "C03.dtor: a group without unfinished tasks is destroyed silently");
    else {
        OBLIGATION(g_waits == 1 && g_wait_done && g_canc_at_wait, "C03.dtor: a group destroyed with unfinished tasks is cancelled first and waited for before the destructor returns or throws");
#if DTOR_DOMAIN == 0
        if (g_captured) OBLIGATION(g_exc == g_cur_exc, "C03.dtor: an exception thrown by the group's work surfaces from the destructor's wait");
        else OBLIGATION(g_exc == (g_unc > 0 ? 0 : EXC_missing_wait), "C03.dtor: the missing wait is reported by missing_wait, except while the stack is already unwinding");
#else
        OBLIGATION(g_exc == 0, "C03.dtor[unwinding]: while the stack is already unwinding no exception leaves the destructor (a second exception in flight is std::terminate)");
#endif
    }
    VACUITY_END();
}
#endif

#ifdef XLOOP
/* ---- job dispatch.exception_loop: the for(;;){ try { dispatch loop } catch (...) { handler } } statement of local_wait_for_all, for any number of iterations ---------------
   Tasks are opaque; execute may throw (then it has NOT finalized the task: jobs tg.function_stack_task / finalize.*).  g_owed = the task whose body threw and that still awaits its cancel().
   Two arbitrary groups X, Y.  Other threads may set and (between tasks, after a completed wait) clear the cancellation flags; the flag of the group of an owed task is not cleared
   (its wait cannot complete while the task holds its reference).
   CBMC cannot dereference a pointer read back from havocked memory (its value set is lost at a loop head), so the current context ed.context and the owed task's context are kept
   as ids (0 none, 1 X, 2 Y) behind the accessors ED_CONTEXT / SET_ED_CONTEXT. */
struct task { int d; };
struct arena_slot { int d; }; struct waiter { int d; };
struct thread_data { int my_arena_index; struct arena_slot *my_arena_slot; };
struct task_dispatcher { struct thread_data *m_thread_data; };
#define no_slot (-1)
static struct tgc X, Y; static struct tbb_exception_ptr MY_OBJ;
task *g_owed; int g_owed_ctx, g_seen_ctx; uint32_t g_seen_flag; unsigned long g_thrown, g_owed_cancels; int g_cur_exc, g_stores; bool g_exec_any;
static task *any_task(void) { task *p = (task *)nondet_ptr(); return p; }
static struct tgc *any_ctx(void) { return nondet_bool() ? &X : &Y; }
#define CTX_OF(i) ((i) == 1 ? &X : (i) == 2 ? &Y : (struct tgc *)NULL)
#define ID_OF(c) ((c) == &X ? 1 : (c) == &Y ? 2 : 0)
#define ED_CONTEXT(ed) CTX_OF((ed)->context_id)
#define SET_ED_CONTEXT(ed, c) ({ struct tgc *c_ = (c); (ed)->context_id = ID_OF(c_); })
static uint32_t flag_load(uint32_t *w) {
    int c = (w == &X.my_cancellation_requested) ? 1 : 2; uint32_t o = *w; *w = nondet_bool();
    if (g_owed != NULL && c == g_owed_ctx) __CPROVER_assume(*w >= o);
    g_seen_flag = *w; g_seen_ctx = c; return *w;
}
#define ATOMIC_LOAD_AT(site, f) flag_load(&(f))
#define ATOMIC_XCHG_AT(site, f, v) ({ uint32_t o_ = flag_load(&(f)); (f) = (v); o_; })
#define ATOMIC_STORE_AT(site, f, v) do { __CPROVER_assert(&(f) == &CTX_OF(g_owed_ctx)->my_exception, "C03.dispatch: the exception is captured into the context of the task that threw"); (f) = (v); g_stores = 1; } while (0)
static void STUB_propagate(struct tgc *c, uint32_t s) {}
static int STUB_terminate_on_exception(void) { return nondet_int(); }
#define EXC_TERMINATE() __CPROVER_assume(0)
static void *STUB_allocate_memory(size_t n) { return &MY_OBJ; }
static int STUB_current_exception(void) { return g_cur_exc; }
#define EPTR_CONSTRUCT(p, e) ((p)->my_ptr = (e), (p))
#define EPTR_DTOR(p) ((void)0)
#define STUB_deallocate_memory(p) ((void)0)
#define STUB_rethrow_exception_broken() (false)
#define STUB_fix_broken_rethrow() ((void)0)
#define EXC_RETHROW_EXCEPTION(p) (g_exc = (p))
#define POISON(x) ((void)0)
#define LIST_REMOVE(l, c) ((void)0)
#define state_proxy 255
#define my_actual_context my_parent
static void task_execute(task **pt, execution_data_ext *ed) {
    __CPROVER_assert(g_owed == NULL, "C03.dispatch: no task body is started while a task whose body threw still awaits its cancel() - in particular that task is never executed again");
    __CPROVER_assert(g_seen_ctx == ed->context_id && g_seen_flag == 0, "C03.dispatch: a task body is started only if its group's cancellation flag was just read as clear (a task of a cancelled group is cancel()ed, not run)");
    g_exec_any = true;
    if (nondet_bool()) { g_exc = nondet_int(); __CPROVER_assume(g_exc != 0); g_owed = *pt; g_owed_ctx = ed->context_id; g_thrown++; return; }
    *pt = nondet_bool() ? NULL : any_task();
}
#define TASK_EXECUTE_INTO(t, ed) task_execute(&(t), (ed))
static task *TASK_CANCEL(task *t, execution_data_ext *ed) {
    __CPROVER_assert(g_seen_ctx == ed->context_id && g_seen_flag != 0, "C03.dispatch: cancel() is chosen only if the group's cancellation flag was just read as set");
    if (t == g_owed) { g_owed = NULL; g_owed_cancels++; }
    return nondet_bool() ? NULL : any_task();
}
#define EXC_CAUGHT() do { __CPROVER_assert(g_exc != 0 && t == g_owed && ed->context_id == g_owed_ctx, "C03.dispatch: the handler is entered with the task that threw and its context still current"); g_cur_exc = g_exc; g_exc = 0; } while (0)
static task *STUB_get_critical_task(struct task_dispatcher *d, task *t, execution_data_ext *ed, intptr_t iso, bool allowed) {
    __CPROVER_assert(g_owed == NULL, "C03.dispatch: no critical task is interposed while a thrower awaits its cancel()");
    if (nondet_bool()) return t;
    SET_ED_CONTEXT(ed, any_ctx()); ed->isolation = nondet_intptr_t(); task *c = any_task(); __CPROVER_assume(c != NULL); return c;
}
static bool WAITER_postpone_execution(task *t) { return t == g_owed ? false : nondet_bool(); }         /* only resume tasks are postponed; their execute does not throw */
static bool WAITER_continue_execution(struct waiter *w, struct arena_slot *s, task **pt) { __CPROVER_assert(*pt == NULL, "TBB_ASSERT: continue_execution is asked without a task in hand"); if (nondet_bool()) return false; if (nondet_bool()) *pt = any_task(); return true; }
#define SLOT_is_task_pool_published(s) nondet_bool()
static task *STUB_get_task(struct arena_slot *s, execution_data_ext *ed, intptr_t iso) { return nondet_bool() ? NULL : any_task(); }
static task *STUB_receive_or_steal_task(struct task_dispatcher *d, execution_data_ext *ed, struct waiter *w, intptr_t iso, bool fifo, bool crit) { task *r = nondet_bool() ? NULL : any_task(); if (r) { SET_ED_CONTEXT(ed, any_ctx()); ed->isolation = nondet_intptr_t(); } return r; }
#define TASK_CONTEXT(t) any_ctx()
#define TASK_ISOLATION(t) nondet_intptr_t()
#define CONTEXT_GUARD_SET(c) ((void)0)
#define LWFA_AFTER_LOOP(t) VERIF_ASSERT((t) == NULL, "t == nullptr after the exception loop")
#define XL_INV (g_exc == 0 && X.my_state == state_bound && Y.my_state == state_bound && X.my_cancellation_requested <= 1 && Y.my_cancellation_requested <= 1 && ed->context_id >= 0 && ed->context_id <= 2 && (t == NULL || ed->context_id != 0) \
    && (g_owed == NULL || (t == g_owed && t != NULL && ed->context_id == g_owed_ctx && g_owed_ctx != 0 && CTX_OF(g_owed_ctx)->my_cancellation_requested == 1)) && g_owed_cancels + (g_owed != NULL ? 1ul : 0ul) == g_thrown)
#define XL_ASSIGNS __CPROVER_assigns(t, __CPROVER_object_whole(ed), g_owed, g_owed_ctx, g_seen_ctx, g_seen_flag, g_thrown, g_owed_cancels, g_cur_exc, g_exc, g_stores, g_exec_any, \
    __CPROVER_object_whole(&X), __CPROVER_object_whole(&Y), MY_OBJ.my_ptr)
#define LOOP_xl_1 XL_ASSIGNS __CPROVER_loop_invariant(XL_INV)
#define LOOP_xl_2 XL_ASSIGNS __CPROVER_loop_invariant(XL_INV)
#define LOOP_xl_3 XL_ASSIGNS __CPROVER_loop_invariant(XL_INV)
#include "eptr.inc"
#include "cancel.inc"
#include "context.inc"
#include "d1ctx.inc"
#include "xloop.inc"
void h_exception_loop(void) {
    static struct task_dispatcher D; static struct thread_data TDA; static struct arena_slot SL; static struct waiter WT; execution_data_ext ed;
    D.m_thread_data = &TDA; TDA.my_arena_slot = &SL; TDA.my_arena_index = nondet_int();
    X.my_state = Y.my_state = state_bound; X.my_cancellation_requested = nondet_bool(); Y.my_cancellation_requested = nondet_bool(); X.my_exception = Y.my_exception = NULL;
    g_owed = NULL; g_owed_ctx = 0; g_thrown = g_owed_cancels = g_stores = 0; g_exc = 0; g_exec_any = false; g_seen_ctx = 0;
    task *t = nondet_bool() ? NULL : any_task(); ed.context = NULL; ed.context_id = t ? (nondet_bool() ? 1 : 2) : 0; ed.isolation = nondet_intptr_t();
    task *r = lwfa_exception_loop(&D, t, &WT, &ed, nondet_intptr_t(), nondet_bool(), nondet_bool(), nondet_bool());
    OBLIGATION(g_exc == 0, "C03.dispatch: no exception escapes the dispatch loop (never on a worker thread, never past the waiting call's own rethrow)");
    OBLIGATION(g_owed == NULL && g_owed_cancels == g_thrown, "C03.dispatch: every task whose body threw was cancel()ed - once - before the loop was left, so its reference is released and the wait can complete; the loop goes on with the remaining tasks instead of dropping them");
    VACUITY_END();
}
#endif

#ifdef ARENA
/* ---- jobs arena.execute, arena.delegated_task: task_arena::execute(f) transports the exception of a delegated f back to the caller ---------------------------------------
   (that f is carried out exactly once, the wait/monitor protocol and the isolation of the delegated context are C01 delegate.*).  The delegated task runs on another thread:
   its body may throw, the dispatch loop there captures into the task's context exec_context (jobs capture.handler, dispatch.exception_loop), cancel() finalizes the task. */
typedef struct task { int d; } task;
struct delegate_base { int id; }; struct monitor { int d; }; struct thread_context { uintptr_t key; }; struct wait_context { int refs; };
struct arena { struct monitor my_exit_monitors; struct tgc *my_default_ctx; };
struct thread_data { struct arena *my_arena; size_t my_arena_index; };
struct task_arena_base { struct arena *my_arena; };
struct task_dispatcher { execution_data_ext m_execute_data_ext; struct thread_data *m_thread_data; bool fifo; };
struct delegated_task { struct delegate_base *m_delegate; struct monitor *m_monitor; struct wait_context *m_wait_ctx; bool m_completed; };
#define out_of_arena (~(size_t)0)
#define no_isolation 0
static struct arena AR, OTHER_ARENA; static struct thread_data TD; static struct tgc DEFCTX, CALLERCTX; static struct delegate_base DG;
static struct tgc *g_exec_ctx; int g_enq, g_calls, g_ctxdtor, g_release, g_notify, g_body_exc; bool g_effect;
static void arena_observe(void) { if (g_done && !g_effect) { group_ran(g_exec_ctx); g_effect = true; } }     /* what the finished delegated task left in its context becomes visible */
static struct thread_data *STUB_get_thread_data(void) { return &TD; }
static size_t STUB_occupy_free_slot(struct arena *a, struct thread_data *td) { return nondet_bool() ? out_of_arena : (nondet_size_t() % 1024); }
#define INIT_thread_context(w, k) ((w)->key = (k))
#define INIT_wait_context(w, n) ((w)->refs = (n))
#define INIT_delegated_task(t, dd, m, w) do { (t)->m_delegate = (dd); (t)->m_monitor = (m); (t)->m_wait_ctx = (w); (t)->m_completed = false; } while (0)
#define TGC_CTOR_ISOLATED(c) struct tgc c; c.my_traits.fp_settings = false; c.my_traits.bound = false; c.my_traits.concurrent_wait = false; tgc_initialize(&c)
#define TGC_DTOR(c) do { g_ctxdtor++; d1tgc_dtor(&c); } while (0)
#define STUB_copy_fp_settings(c, s_) ((void)0)
static void STUB_enqueue_task(struct arena *a, struct delegated_task *t, struct tgc *c, struct thread_data *td) { g_enq++; g_exec_ctx = c; }
#define MONITOR_prepare_wait(m, w) ((void)0)
#define MONITOR_cancel_wait(m, w) ((void)0)
#define MONITOR_commit_wait(m, w) ((void)0)
#define MONITOR_notify_one(m) ((void)0)
static bool wait_ctx_continue(struct wait_context *w) { if (g_enq == 1 && nondet_bool()) g_done = true; return !g_done; }
#define WAIT_CTX_CONTINUE(w) wait_ctx_continue(w)
#define NESTED_ARENA_ENTER(td, a, idx) ((void)0)
/* contract of r1::wait (job rethrow.execute_and_wait): returns or throws only once the wait context is released; throws the exception captured in the context, if any */
static void STUB_r1_wait(struct wait_context *w, struct tgc *c) { g_done = true; arena_observe(); if (c->my_exception != NULL) { g_throws++; g_exc = c->my_exception->my_ptr; } }
#define CONTEXT_GUARD_SET(c) ((void)0)
static void CALL_DELEGATE(struct delegate_base *dd) { g_calls++; if (nondet_bool()) g_exc = g_body_exc; }
#define WAIT_CTX_RELEASE(w) do { g_release++; (w)->refs--; } while (0)
#define MONITOR_NOTIFY_KEY(m, k) (g_notify++)
#define DT_COMPLETED_STORE(x, v) ((x) = (v))
#define EXC_NO_TASK ((task *)0)
static bool TD_ALLOW_FIFO(struct task_dispatcher *d, bool v) { bool o = d->fifo; d->fifo = v; return o; }
#define LOOP_exec_1 __CPROVER_assigns(index2, g_done, g_effect, g_captured, g_alloc, g_ctor, OBJ.my_ptr, g_throws, g_exc, exec_context.my_cancellation_requested, exec_context.my_exception) \
    __CPROVER_loop_invariant(g_enq == 1 && index2 == out_of_arena && !g_effect && !g_captured && g_exc == 0 && g_throws == 0 && g_ctor == 0 && g_alloc == 0 && exec_context.my_exception == NULL && exec_context.my_cancellation_requested == 0)
#include "arena_execute.inc"
#include "delegated_task.inc"
static void arena_world(void) { life_world(); AR.my_default_ctx = &DEFCTX; g_enq = g_calls = g_ctxdtor = g_release = g_notify = 0; g_done = g_effect = g_captured = false; g_exec_ctx = NULL; g_body_exc = nondet_int(); __CPROVER_assume(g_body_exc != 0); }
void h_arena_execute(void) {
    arena_world(); struct task_arena_base ta; ta.my_arena = &AR; TD.my_arena = nondet_bool() ? &AR : &OTHER_ARENA; TD.my_arena_index = nondet_size_t() % 1024;
    task_arena_execute(&ta, &DG);
    if (g_enq == 0) {
        OBLIGATION(g_calls == 1 && g_throws == 0 && (g_exc == 0 || g_exc == g_body_exc), "C03.arena: run inline, an exception of f leaves execute() as thrown, once");
    } else {
        OBLIGATION(g_enq == 1 && g_calls == 0 && g_done, "C03.arena: execute() returns or throws only after the delegated task has finalized");
        if (g_captured) OBLIGATION(g_exc == g_cur_exc && g_throws == 1, "C03.arena: the exception the delegated f threw (captured in the delegated task's own context) is rethrown in the caller, exactly once");
        else OBLIGATION(g_exc == 0 && g_throws == 0, "C03.arena: without a captured exception execute() returns normally");
        OBLIGATION(g_ctxdtor == 1 && g_dtor == (g_captured ? 1 : 0) && g_free == g_dtor, "C03.destroy: on every edge the delegated call's context is destroyed once, and with it the captured exception object - exactly once, after the rethrow");
    }
    VACUITY_END();
}
void h_delegated_task(void) {
    arena_world(); struct wait_context wo; wo.refs = 1; struct delegated_task dt; INIT_delegated_task(&dt, &DG, &AR.my_exit_monitors, &wo);
    struct task_dispatcher disp; TD.my_arena = &AR; disp.m_thread_data = &TD; disp.m_execute_data_ext.context = &CALLERCTX; disp.m_execute_data_ext.isolation = no_isolation; disp.m_execute_data_ext.task_disp = &disp; disp.fifo = nondet_bool(); bool fifo0 = disp.fifo;
    bool cancelled = nondet_bool();
    if (cancelled) dt_cancel(&dt);
    else { dt_execute(&dt, &disp.m_execute_data_ext);
        if (g_exc != 0) {
            OBLIGATION(g_release == 0 && wo.refs == 1 && !dt.m_completed, "C03.finalize: a delegated task whose function threw has NOT released the caller's wait - the caller cannot look for the exception before the dispatch loop has captured it");
            OBLIGATION(disp.m_execute_data_ext.context == &CALLERCTX && disp.fifo == fifo0, "C03.finalize: also on the exception edge the executing thread's own context and FIFO permission are restored (the handler captures into the delegated task's context, not the arena's default one)");
            g_exc = 0; dt_cancel(&dt); } }
    OBLIGATION(g_calls == (cancelled ? 0 : 1), "C03.finalize: the delegated function is called once when executed and not at all when cancelled");
    OBLIGATION(g_release == 1 && g_notify == 1 && dt.m_completed && wo.refs == 0, "C03.finalize: executed, cancelled, or thrown-then-cancelled - the delegated task finalizes exactly once");
    VACUITY_END();
}
#endif

#ifdef GRAPH
/* ---- job graph.wait_for_all ------------------------------------------------------------------------------------------------------------------------ */
struct wait_context { uint64_t m_ref_count; };
struct graph { struct wait_context my_wait_context; struct tgc *my_context; bool cancelled, caught_exception; void *my_task_arena; };
static struct graph GR; static struct tgc GC; int g_waits, g_arena_calls; bool g_work, g_canc_at_end;
#define GRAPH_WAIT_CTX(self) (&(self)->my_wait_context)
#define tgc_concurrent_wait (1 << 2)
#define TGC_TRAITS(c) ((c)->my_traits.concurrent_wait ? tgc_concurrent_wait : 0)
/* contract of d1::wait (job rethrow.execute_and_wait) */
static void d1_wait(struct wait_context *wc, struct tgc *c) {
    __CPROVER_assert(wc == &GR.my_wait_context && c == &GC, "C03.wait: the graph waits on its own wait context and context");
    g_waits++; if (g_work) group_ran(c); g_work = false; wc->m_ref_count = 0; g_wait_done = true; g_canc_at_end = (c->my_cancellation_requested != 0);
    if (c->my_exception != NULL) { g_throws++; g_exc = c->my_exception->my_ptr; }
}
/* task_arena::execute(f): f runs exactly once (C01 delegate.*); an exception of f leaves execute() in the caller (job arena.execute) */
#define TASK_ARENA_EXECUTE(a, call) do { g_arena_calls++; call; } while (0)
#include "graph.inc"
void h_graph_wait(void) {
    life_world(); g_waits = g_arena_calls = 0; g_captured = false; GR.my_context = &GC; GR.cancelled = nondet_bool(); GR.caught_exception = nondet_bool();
    GC.my_state = state_bound; GC.my_cancellation_requested = nondet_bool(); GC.my_exception = NULL; GC.my_traits.concurrent_wait = nondet_bool();
    GR.my_wait_context.m_ref_count = nondet_u32(); g_work = GR.my_wait_context.m_ref_count > 0;
    graph_wait_for_all(&GR);
    OBLIGATION(g_waits == 1 && g_arena_calls == 1 && g_wait_done, "C03.wait: wait_for_all waits once, inside the graph's arena, and neither returns nor throws before the wait has completed");
    if (g_captured) {
        OBLIGATION(g_exc == g_cur_exc && g_throws == 1, "C03.rethrow: an exception thrown by a node body leaves wait_for_all, exactly once, and it is the captured one");
        OBLIGATION(GR.caught_exception && GR.cancelled, "C03.status: exception_thrown() and is_cancelled() report the exception");
        OBLIGATION(GC.my_exception == NULL && GC.my_cancellation_requested == 0 && g_dtor == 1 && g_free == 1, "C03.reuse: on the exception edge the graph's context is reset (the captured exception object destroyed exactly once): the graph is reusable");
    } else {
        OBLIGATION(g_exc == 0 && !GR.caught_exception, "C03.rethrow: without a captured exception wait_for_all returns normally and reports none");
        OBLIGATION(GR.cancelled == g_canc_at_end, "C03.status: is_cancelled() reports exactly whether the graph was cancelled when the wait completed");
        OBLIGATION(GC.my_traits.concurrent_wait || (GC.my_exception == NULL && GC.my_cancellation_requested == 0), "C03.reuse: the context is reset (unless it is a concurrent_wait context, where the code promises nothing)");
        OBLIGATION(g_dtor == 0, "C03.destroy: nothing is destroyed when nothing was captured");
    }
    VACUITY_END();
}
#endif

#if defined(TASK_FT) || defined(TASK_SF) || defined(TASK_STG)
/* ---- jobs finalize.*: execute / cancel / finalize of task types whose body is user code.  For each: cancelled -> finalized once without running the body; executed -> body once,
   finalized once; body threw -> NOT finalized by execute (the reference is still held while the dispatch loop captures), then finalized once by the cancel() the loop calls. */
typedef struct task { int d; } task;
struct vertex { uint64_t refs; }; struct small_object_allocator { int pool; }; struct functor { int id; }; struct wait_context { uint64_t refs; };
int g_body, g_objdtor, g_dealloc, g_release, g_fold, g_item_fin, g_cur_exc; bool g_dealloc_ok;
#define EXC_NO_TASK ((task *)0)
#define VERTEX_RELEASE(v) do { g_release++; (v)->refs--; } while (0)
#define WAIT_CTX_RELEASE(w) do { g_release++; (w)->refs--; } while (0)
static void alloc_deallocate(struct small_object_allocator *a, void *obj, void *self, int pool0) {
    __CPROVER_assert(obj == self && g_objdtor == 1 && g_dealloc == 0, "C03.destroy: the task's memory is returned exactly once, after its destructor ran");
    __CPROVER_assert(a->pool == pool0, "C03.destroy: the memory goes back to the allocator the task was created with (read before the task was destroyed)"); g_dealloc++; }
static void tasks_world(void) { g_body = g_objdtor = g_dealloc = g_release = g_fold = g_item_fin = 0; g_exc = 0; g_cur_exc = nondet_int(); __CPROVER_assume(g_cur_exc != 0); }
#define FINAL_OBLIGATIONS(cancelled, refs_now, refs0) do { \
    OBLIGATION(g_body == ((cancelled) ? 0 : 1), "C03.finalize: a task whose group is cancelled is finalized without running the body; otherwise the body runs once"); \
    OBLIGATION(g_objdtor == 1 && g_dealloc == 1 && g_release == 1 && (refs_now) == (refs0) - 1, "C03.finalize: executed, cancelled, or thrown-then-cancelled - the task is destroyed exactly once and releases its wait reference exactly once"); } while (0)
#endif

#ifdef TASK_FT
struct function_task { struct vertex *m_wait_tree_vertex; struct tgc *m_ctx; struct small_object_allocator m_allocator; const struct functor *m_func; };
static struct function_task FT; static struct vertex VX; static struct tgc CX; static struct functor FN; static task NEXT;
void tht_dtor(struct function_task *self);
#define ALLOC_DELETE_OBJECT(a, obj, ed) do { struct small_object_allocator al_ = *(a); __CPROVER_assert(g_objdtor == 0, "C03.destroy: the task is destructed once"); g_objdtor++; tht_dtor(obj); (obj)->m_allocator.pool = -1; alloc_deallocate(&al_, (obj), &FT, 7); } while (0)
static task *CALL_BODY(const struct functor *f) { g_body++; if (nondet_bool()) { g_exc = g_cur_exc; return NULL; } return nondet_bool() ? &NEXT : NULL; }
#include "function_task.inc"
void h_function_task(void) {
    tasks_world(); VX.refs = nondet_u64(); __CPROVER_assume(VX.refs >= 1); uint64_t r0 = VX.refs; FT.m_wait_tree_vertex = &VX; FT.m_ctx = &CX; FT.m_allocator.pool = 7; FT.m_func = &FN;
    execution_data_ext ed; ed.context = &CX; bool cancelled = nondet_bool(); task *nx;
    if (cancelled) nx = ft_cancel(&FT, &ed);
    else { nx = ft_execute(&FT, &ed);
        if (g_exc != 0) { OBLIGATION(g_objdtor == 0 && g_release == 0 && VX.refs == r0, "C03.finalize: a task whose body threw has NOT been finalized by execute - its wait reference is still held while the dispatch loop captures the exception");
            g_exc = 0; nx = ft_cancel(&FT, &ed); } }
    FINAL_OBLIGATIONS(cancelled, VX.refs, r0);
    VACUITY_END();
}
#endif

#ifdef TASK_SF
struct node { int d; };
struct start_for { struct node *my_parent; struct small_object_allocator my_allocator; };
static struct start_for SF; static struct node PARENT; uint64_t g_tree_refs;
#define SF_DTOR(self) do { __CPROVER_assert(g_objdtor == 0, "C03.destroy: the task is destructed once"); g_objdtor++; (self)->my_parent = NULL; (self)->my_allocator.pool = -1; } while (0)      /* members are dead after the destructor */
static void STUB_fold_tree(struct node *n, execution_data_ext *ed) { __CPROVER_assert(n == &PARENT, "C03.finalize: the join tree is folded from the task's own parent (read before the task was destroyed)"); g_fold++; g_release++; g_tree_refs--; }   /* C06 fold_tree: releases this task's reference on its parent */
#define ALLOC_DEALLOCATE(a, obj, ed) alloc_deallocate((a), (obj), &SF, 7)
#define STUB_is_same_affinity(ed) nondet_bool()
static void PARTITION_EXECUTE(struct start_for *self, execution_data_ext *ed) { g_body++; if (nondet_bool()) g_exc = g_cur_exc; }
#include "start_for.inc"
void h_start_for(void) {
    tasks_world(); g_tree_refs = nondet_u64(); __CPROVER_assume(g_tree_refs >= 1); uint64_t r0 = g_tree_refs; SF.my_parent = &PARENT; SF.my_allocator.pool = 7;
    execution_data_ext ed; bool cancelled = nondet_bool(); task *nx;
    if (cancelled) nx = sf_cancel(&SF, &ed);
    else { nx = sf_execute(&SF, &ed);
        if (g_exc != 0) { OBLIGATION(g_objdtor == 0 && g_fold == 0 && g_tree_refs == r0, "C03.finalize: a task whose body (or range copy/split) threw has NOT been finalized by execute - the join tree still counts it while the dispatch loop captures the exception");
            g_exc = 0; nx = sf_cancel(&SF, &ed); } }
    FINAL_OBLIGATIONS(cancelled, g_tree_refs, r0);
    OBLIGATION(g_fold == 1, "C03.finalize: the cancel path still folds the join tree, exactly once");
    VACUITY_END();
}
#endif

#ifdef TASK_STG
struct filter { int d; }; struct pipeline { struct wait_context wait_ctx; };
struct stage_task { struct pipeline *my_pipeline; struct filter *my_filter; void *my_object; uint64_t my_token; bool my_token_ready, is_valid, my_at_start; struct small_object_allocator m_allocator; };   /* my_token.. my_at_start: arbitrary (is_valid is set only by input_buffer::try_put_token, it says nothing about ownership of my_object) */
static struct stage_task STG; static struct pipeline PIPE; static struct filter FIL; static int ITEM; bool g_task_owns_item;
void stg_dtor(struct stage_task *self);
#define ALLOC_DELETE_OBJECT(a, obj, ed) do { struct small_object_allocator al_ = *(a); __CPROVER_assert(g_objdtor == 0, "C03.destroy: the task is destructed once"); g_objdtor++; stg_dtor(obj); (obj)->m_allocator.pool = -1; alloc_deallocate(&al_, (obj), &STG, 7); } while (0)
#define FILTER_FINALIZE(f, o) do { __CPROVER_assert(g_task_owns_item && (o) == &ITEM && g_item_fin == 0, "C03.destroy: an item is finalized by the task only while the task owns it, once"); g_item_fin++; } while (0)
/* contract of stage_task::execute_filter (not sliced here; token bookkeeping is C07): runs the user filter(s).  It may throw (the task then still owns its current item, or none);
   return false: the item was parked in the next serial filter's buffer (my_filter = nullptr: the buffer owns it now), or the input ended (no item); return true: the task is recycled */
static bool STG_EXECUTE_FILTER(struct stage_task *self, execution_data_ext *ed) {
    g_body++;
    if (nondet_bool()) { g_exc = g_cur_exc; self->my_filter = &FIL; if (nondet_bool()) { self->my_object = &ITEM; g_task_owns_item = true; } else { self->my_object = NULL; g_task_owns_item = false; } return false; }
    if (nondet_bool()) { if (nondet_bool()) { self->my_object = &ITEM; self->my_filter = NULL; g_task_owns_item = false; } else { self->my_object = NULL; g_task_owns_item = false; } return false; }
    self->my_object = nondet_bool() ? &ITEM : NULL; g_task_owns_item = self->my_object != NULL; self->my_filter = &FIL; return true;
}
#include "stage_task.inc"
void h_stage_task(void) {
    tasks_world(); PIPE.wait_ctx.refs = nondet_u64(); __CPROVER_assume(PIPE.wait_ctx.refs >= 1); uint64_t r0 = PIPE.wait_ctx.refs; STG.my_pipeline = &PIPE; STG.m_allocator.pool = 7;
    STG.my_filter = &FIL; g_task_owns_item = nondet_bool(); STG.my_object = g_task_owns_item ? &ITEM : NULL; bool owned_in = g_task_owns_item;
    STG.my_token = nondet_u64(); STG.my_token_ready = nondet_bool(); STG.is_valid = nondet_bool(); STG.my_at_start = nondet_bool();
    execution_data_ext ed; bool cancelled = nondet_bool(); task *nx; bool recycled = false;
    if (cancelled) nx = stg_cancel(&STG, &ed);
    else { nx = stg_execute(&STG, &ed);
        if (g_exc != 0) { OBLIGATION(g_objdtor == 0 && g_release == 0 && PIPE.wait_ctx.refs == r0, "C03.finalize: a stage task whose filter threw has NOT been finalized by execute - the pipeline's wait still counts it while the dispatch loop captures the exception");
            g_exc = 0; nx = stg_cancel(&STG, &ed); }
        else if (nx != NULL) { recycled = true; OBLIGATION(nx == (task *)&STG && g_objdtor == 0 && g_release == 0, "C03.finalize: a recycled stage task is handed back to the dispatcher alive"); nx = stg_cancel(&STG, &ed); } }   /* (the pipeline was cancelled meanwhile) */
    FINAL_OBLIGATIONS(cancelled, PIPE.wait_ctx.refs, r0);
    OBLIGATION(g_item_fin == (g_task_owns_item ? 1 : 0), "C03.destroy: the item the task still owns when it dies (cancelled, or its filter threw) is finalized exactly once; an item parked in a buffer is not touched");
    VACUITY_END();
}
#endif

#ifdef PIPERUN
/* ---- job pipeline.run: r1::parallel_pipeline ---------------------------------------------------------------------------------------------------------- */
struct wait_context { uint64_t refs; }; struct small_object_allocator { int pool; }; struct filter_node { int d; };
struct pipeline { struct wait_context wait_ctx; struct tgc *my_context; size_t tokens; bool alive; };
struct stage_task { struct pipeline *my_pipeline; };
static struct stage_task ST; static struct tgc UC; int g_pipe_ctor, g_pipe_dtor, g_waits; bool g_work;
#define PIPELINE_CTOR(p) struct pipeline p; p.wait_ctx.refs = 0; p.my_context = cxt; p.tokens = max_token; p.alive = true; g_pipe_ctor++
#define PIPELINE_DTOR(p) do { __CPROVER_assert(p.alive && g_wait_done, "C03.destroy: the pipeline (filters, buffers) is destroyed once and only after the wait has completed - no stage task can still touch it"); p.alive = false; g_pipe_dtor++; } while (0)
#define PIPE_FILL(p, fn) ((void)0)
#define ALLOC_INIT(a) ((a)->pool = 7)
static struct stage_task *NEW_STAGE_TASK(struct small_object_allocator *a, struct pipeline *p) { ST.my_pipeline = p; p->wait_ctx.refs++; return &ST; }      /* the first-stage constructor reserves one reference (checked textually) */
/* contract of r1::execute_and_wait (job rethrow.execute_and_wait) */
static void r1_execute_and_wait_stub(struct stage_task *t, struct tgc *tc, struct wait_context *wc, struct tgc *c) {
    __CPROVER_assert(t == &ST && tc == &UC && c == &UC && wc == &t->my_pipeline->wait_ctx && wc->refs == 1, "C03.wait: the first stage task runs in the caller's context and the call waits on the pipeline's own wait context, which counts that task");
    g_waits++; group_ran(c); wc->refs = 0; g_wait_done = true; if (c->my_exception != NULL) { g_throws++; g_exc = c->my_exception->my_ptr; }
}
#include "pipeline_run.inc"
void h_pipeline_run(void) {
    life_world(); g_pipe_ctor = g_pipe_dtor = g_waits = 0; g_captured = false; UC.my_state = state_bound; UC.my_cancellation_requested = nondet_bool(); UC.my_exception = NULL;
    struct filter_node fn;
    r1_parallel_pipeline(&UC, nondet_size_t(), &fn);
    OBLIGATION(g_waits == 1 && g_wait_done, "C03.wait: parallel_pipeline waits once and neither returns nor throws before the wait has completed");
    OBLIGATION(g_captured ? (g_exc == g_cur_exc && g_throws == 1) : g_exc == 0, "C03.rethrow: an exception thrown by a filter leaves parallel_pipeline exactly once (none otherwise)");
    OBLIGATION(g_pipe_ctor == 1 && g_pipe_dtor == 1, "C03.destroy: on both edges the pipeline object is destroyed exactly once");
    OBLIGATION(UC.my_exception == (g_captured ? &OBJ : NULL) && g_dtor == 0, "C03.reuse: the caller's context keeps the exception holder (a user-supplied context is reset by its owner; a context of the call's own is destroyed with it: job context.lifetime)");
    VACUITY_END();
}
#endif

#ifdef CANCELING
/* ---- job status.is_canceling ------------------------------------------------------------------------------------------------------------------------- */
struct task_dispatcher { struct { bool outermost; } m_properties; execution_data_ext m_execute_data_ext; };
struct thread_data { struct task_dispatcher *my_task_dispatcher; };
static struct thread_data TD; static struct task_dispatcher DISP; static struct tgc CC, UA;
static struct thread_data *STUB_get_thread_data(void) { return &TD; }
#include "canceling.inc"
void h_is_canceling(void) {
    life_world(); TD.my_task_dispatcher = &DISP; DISP.m_properties.outermost = nondet_bool(); bool proxy = nondet_bool();
    CC.my_state = proxy ? state_proxy : state_bound; CC.my_actual_context = proxy ? &UA : NULL; UA.my_state = state_bound; CC.my_cancellation_requested = nondet_bool(); UA.my_cancellation_requested = nondet_bool();
    DISP.m_execute_data_ext.context = &CC;
    bool r = is_current_task_group_canceling();
    OBLIGATION(r == (!DISP.m_properties.outermost && (proxy ? UA.my_cancellation_requested : CC.my_cancellation_requested) != 0), "C03.status: is_current_task_group_canceling() is true exactly when a task is running on this thread and the (actual) context of that task has been cancelled");
    VACUITY_END();
}
#endif
