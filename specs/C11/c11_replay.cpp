// Replay of failed C11 obligations on the REAL concurrent_vector (private members via -fno-access-control).
// usage: c11_replay <job> IN_x=<v> ...   prints "REPRODUCED class=<c> <detail>" or "NOT-REPRODUCED"
#include <oneapi/tbb/concurrent_vector.h>
#include <cstdio>
#include <cstdlib>
#include <cstring>
#include <csetjmp>
#include <csignal>
#include <map>
#include <string>
#include <thread>
#include <chrono>
#include <new>
#include <unistd.h>
#include <functional>
#include <vector>
static std::map<std::string, unsigned long long> in;
static bool has(const char* k) { return in.count(k) != 0; }
static unsigned long long get(const char* k, unsigned long long d = 0) { return has(k) ? in[k] : d; }
static sigjmp_buf jb;
static void on_segv(int) { siglongjmp(jb, 1); }

// ---- failing allocator for the API-level scenario of at()
static int fail_at = -1, calls = 0;
template <class T> struct FA {
    using value_type = T;
    FA() = default; template <class U> FA(const FA<U>&) {}
    T* allocate(std::size_t n) { ++calls; if (calls == fail_at) throw std::bad_alloc(); return (T*)::operator new(n * sizeof(T)); }
    void deallocate(T* p, std::size_t) { ::operator delete(p); }
    template <class U> bool operator==(const FA<U>&) const { return true; }
    template <class U> bool operator!=(const FA<U>&) const { return false; }
};

static int replay_at() {
    // API scenario: fill the embedded table's reach, make the long-table allocation fail, then at() past the embedded table
    using V = tbb::concurrent_vector<long, FA<long>>;
    V v;
    v.grow_by(8);
    fail_at = calls + 1;
    bool threw_ba = false;
    try { v.push_back(7); } catch (std::bad_alloc&) { threw_ba = true; }
    fail_at = -1;
    size_t sz = ((V::base_type&)v).my_size.load();  /* size() clamps to capacity(); at() tests my_size */
    signal(SIGSEGV, on_segv); signal(SIGBUS, on_segv);
    for (size_t i = 8; i < sz; ++i) {
        size_t k = V::base_type::segment_index_of(i);
        auto& b = (V::base_type&)v; size_t nseg = b.number_of_segments(b.my_segment_table.load());
        if (sigsetjmp(jb, 1)) {
            std::printf("REPRODUCED class=at-reads-past-embedded-table grow_by(8); push_back with the long-table allocation failing (size counter=%zu); at(%zu): segment index %zu >= %zu table entries -> SIGSEGV instead of std::out_of_range\n", sz, i, k, nseg);
            return 0;
        }
        try {
            long& r = v.at(i); volatile long x = r; (void)x;
            if (k >= nseg) {
                std::printf("REPRODUCED class=at-reads-past-embedded-table grow_by(8); failing push_back; at(%zu) returned an element although segment %zu is outside the %zu-entry active table\n", i, k, nseg);
                return 0;
            }
        } catch (std::out_of_range&) {
        }
    }
    // white-box: the verifier's own input
    if (has("IN_index")) {
        using W = tbb::concurrent_vector<int>;
        W w;
        size_t idx = get("IN_index"), size = get("IN_size");
        w.my_size.store(size);
        size_t k = W::base_type::segment_index_of(idx), nseg = get("IN_emb", 1) ? 3 : 64;
        if (get("IN_emb", 1)) {
            int res = 0;
            if (sigsetjmp(jb, 1)) { res = 2; }
            else { try { int& r = w.at(idx); volatile int x = r; (void)x; res = 1; } catch (std::out_of_range&) { res = 0; } }
            w.my_size.store(0);
            if (res && k >= nseg) {
                std::printf("REPRODUCED class=at-reads-past-embedded-table white-box: size()=%zu embedded table, at(%zu) %s although segment %zu >= %zu entries\n", size, idx, res == 2 ? "crashed" : "returned", k, nseg);
                return 0;
            }
        }
        w.my_size.store(0);
    }
    std::printf("NOT-REPRODUCED\n");
    return 0;
}

static int replay_g2al() {
    using V = tbb::concurrent_vector<char>;
    struct C { unsigned long long o, n; };
    std::vector<C> grid;
    unsigned long long o = get("IN_old"), n = get("IN_new");
    if (has("IN_new") && n <= (1ull << 33) && o <= n) grid.push_back({o, n});
    grid.push_back({0, 1ull << 31}); grid.push_back({1, (1ull << 32) + 1}); grid.push_back({0, (1ull << 31) - 1});
    for (auto c : grid) {
        V* v = new V;
        if (c.o) v->grow_by(c.o, 'o');
        static volatile unsigned long long wo, wn; wo = c.o; wn = c.n;
        std::thread wd([&] {
            for (int i = 0; i < 150; ++i) { std::this_thread::sleep_for(std::chrono::milliseconds(100)); if (wn == 0) return; }
            std::printf("REPRODUCED class=grow_to_at_least-no-construct size()==%llu; grow_to_at_least(%llu,'x') did not return within 15 s: the size counter is already %zu but nothing was constructed and the caller spins waiting for segments nobody allocates\n", wo, wn, ((V::base_type&)*v).my_size.load());
            std::fflush(stdout); _exit(0);
        });
        v->grow_to_at_least(c.n, 'x');
        wn = 0; wd.join();
        bool ok = v->size() >= c.n && (*v)[c.n - 1] == 'x' && (*v)[c.o] == 'x';
        if (!ok) { std::printf("REPRODUCED class=grow_to_at_least-no-construct size()==%llu; grow_to_at_least(%llu,'x') returned but elements [%llu,%llu) are not constructed\n", c.o, c.n, c.o, c.n); return 0; }
        delete v;
    }
    std::printf("NOT-REPRODUCED\n");
    return 0;
}

static int replay_seg() {
    using V = tbb::concurrent_vector<int>; using B = V::base_type;
    auto bad = [&](size_t i) {
        size_t k = B::segment_index_of(i);
        if (!(k < 64 && B::segment_base(k) <= i && i - B::segment_base(k) < B::segment_size(k))) return true;
        for (size_t j = 0; j < 64; ++j) if (j != k && B::segment_base(j) <= i && i - B::segment_base(j) < B::segment_size(j)) return true;
        return false;
    };
    std::vector<size_t> c; if (has("IN_i")) c.push_back(get("IN_i"));
    for (int b = 0; b < 64; ++b) for (long d = -2; d <= 2; ++d) c.push_back((size_t(1) << b) + size_t(d));
    for (size_t i : c) if (bad(i)) { std::printf("REPRODUCED class=segment-map index %zu: segment_index_of=%zu base=%zu size=%zu\n", i, B::segment_index_of(i), B::segment_base(B::segment_index_of(i)), B::segment_size(B::segment_index_of(i))); return 0; }
    for (size_t k = 0; k + 1 < 64; ++k) if (B::segment_base(k + 1) != B::segment_base(k) + B::segment_size(k)) { std::printf("REPRODUCED class=segment-map tiling broken at segment %zu\n", k); return 0; }
    std::printf("NOT-REPRODUCED\n"); return 0;
}

static int replay_growby() {
    using V = tbb::concurrent_vector<int>;
    unsigned long long d = has("IN_delta") ? get("IN_delta") : 5; if (d > 1000000) d = 5;
    for (unsigned long long first : {0ull, 1ull, 3ull, 8ull}) {
        V v; if (first) v.grow_by(first, 1);
        auto it = v.grow_by(d, 2);
        size_t start = it - v.begin();
        bool ok = start == first && v.size() == first + d;
        for (size_t i = 0; ok && i < first; ++i) ok = v[i] == 1;
        for (size_t i = first; ok && i < first + d; ++i) ok = v[i] == 2;
        if (!ok) { std::printf("REPRODUCED class=grow_by-range size()==%llu; grow_by(%llu) returned range starting at %zu, size()=%zu\n", first, d, start, v.size()); return 0; }
    }
    std::printf("NOT-REPRODUCED\n"); return 0;
}

static int replay_nes() {
    using V = tbb::concurrent_vector<int>; using B = V::base_type;
    V v; std::vector<std::pair<size_t, size_t>> c;
    if (has("IN_size")) c.push_back({get("IN_size"), get("IN_seg")});
    for (size_t s = 0; s < 40; ++s) for (long d = -1; d <= 1; ++d) { c.push_back({B::segment_base(s) + d, s}); c.push_back({B::segment_base(s) + B::segment_size(s) + d, s}); }
    for (auto p : c) {
        size_t sz = p.first, s = p.second; if (s >= 63) continue;
        v.my_size.store(sz); size_t r = v.number_of_elements_in_segment(s); v.my_size.store(0);
        size_t b = B::segment_base(s), n = B::segment_size(s), e = sz <= b ? 0 : (sz - b < n ? sz - b : n);
        if (r != e) { std::printf("REPRODUCED class=nes size()=%zu segment %zu: number_of_elements_in_segment=%zu expected %zu\n", sz, s, r, e); return 0; }
    }
    std::printf("NOT-REPRODUCED\n"); return 0;
}

static int replay_subscript() {
    using V = tbb::concurrent_vector<int>;
    // element addresses must not move while the vector grows, and must be distinct
    V v; std::vector<int*> addr;
    for (int round = 0; round < 12; ++round) {
        size_t n = v.size(); v.grow_by(n + 1, 7);
        for (size_t i = 0; i < addr.size(); ++i) if (&v[i] != addr[i]) { std::printf("REPRODUCED class=address element %zu moved after growth to %zu\n", i, v.size()); return 0; }
        for (size_t i = addr.size(); i < v.size(); ++i) { addr.push_back(&v[i]); if (v[i] != 7) { std::printf("REPRODUCED class=address element %zu not constructed\n", i); return 0; } }
    }
    std::printf("NOT-REPRODUCED\n"); return 0;
}

// ---- exception guard of internal_loop_construct -----------------------------------------------------------------------------
#include <atomic>
#include <stdexcept>
#include <sys/wait.h>
namespace guard {
enum : int { TAG_PRE = 11, TAG_A = 22, TAG_B = 33 };
std::atomic<int> throw_at{-1}, a_copies{0};
std::atomic<bool> parked{false}, release{false}, park{false};
struct Injected : std::runtime_error { Injected() : std::runtime_error("injected constructor failure") {} };
struct Elem {
    int tag; int val;
    Elem(int t, int v) : tag(t), val(v) {}
    Elem(const Elem& o) : tag(o.tag), val(o.val) {
        if (o.tag == TAG_A) {
            int n = a_copies.fetch_add(1);
            if (n == throw_at.load()) {
                if (park.load()) { parked.store(true); while (!release.load()) std::this_thread::yield(); }
                throw Injected();
            }
        }
    }
};
using Vec = tbb::concurrent_vector<Elem>;
static void reset(int k, bool p) { throw_at = k; a_copies = 0; parked = false; release = false; park = p; }
// call A (grow_by / grow_by(first,last) / grow_to_at_least) owns [pre, pre+na) and throws at its k-th element while call B, which owns the range
// right above, has already constructed its elements: B's elements must keep their values
static bool foreign_range(bool iter, size_t pre, size_t na, int k, size_t nb, char* msg) {
    Vec v; if (pre) v.grow_by(pre, Elem(TAG_PRE, 1));
    throw_at = -1;
    std::vector<Elem> src(na, Elem(TAG_A, 2));
    reset(k, true);
    bool threw = false;
    std::thread ta([&] { try { if (iter) v.grow_by(src.begin(), src.end()); else v.grow_by(na, Elem(TAG_A, 2)); } catch (const Injected&) { threw = true; } });
    while (!parked.load()) std::this_thread::yield();
    std::thread tb([&] { v.grow_by(nb, Elem(TAG_B, 3)); });
    tb.join();
    release = true; ta.join();
    for (size_t i = 0; i < pre + size_t(k); ++i) if (threw && v[i].tag != (i < pre ? TAG_PRE : TAG_A)) {
        std::sprintf(msg, "class=guard-zero-fills-foreign-range %s: call A owns [%zu,%zu), its constructor throws at index %zu: element %zu, constructed before the throw%s, was zero-filled by the exception guard (reads tag %d)",
                     iter ? "grow_by(first,last)" : "grow_by(n,value)", pre, pre + na, pre + size_t(k), i, i < pre ? " by an earlier call" : "", v[i].tag);
        return true;
    }
    size_t bad = 0, first_bad = 0;
    for (size_t i = pre + na; i < pre + na + nb; ++i) if (v[i].tag != TAG_B || v[i].val != 3) { if (!bad) first_bad = i; ++bad; }
    if (bad && threw) {
        std::sprintf(msg, "class=guard-zero-fills-foreign-range %s: call A owns [%zu,%zu), its constructor throws at index %zu while call B has constructed [%zu,%zu): %zu of B's elements were zero-filled by A's exception guard (first: index %zu reads tag %d, expected %d)",
                     iter ? "grow_by(first,last)" : "grow_by(n,value)", pre, pre + na, pre + size_t(k), pre + na, pre + na + nb, bad, first_bad, v[first_bad].tag, int(TAG_B));
        return true;
    }
    return false;
}
// single-threaded: constructor throws at the k-th element of a call whose range spans several not yet allocated segments.  Run in a child (may crash).
static int in_child(const std::function<int()>& f) {
    std::fflush(stdout);
    pid_t pid = fork();
    if (pid == 0) { _exit(f()); }
    int st = 0; waitpid(pid, &st, 0);
    if (WIFSIGNALED(st)) return 1000 + WTERMSIG(st);
    return WEXITSTATUS(st);
}
static int ctor_throw_scenario(bool iter, size_t pre, size_t n, int k) {
    // exit code: 0 ok, 3 = damaged/unzeroed state detected
    Vec v; for (size_t i = 0; i < pre; ++i) v.push_back(Elem(TAG_PRE, 1));
    throw_at = -1;
    std::vector<Elem> src(n, Elem(TAG_A, 2));
    reset(k, false);
    bool threw = false;
    try { if (iter) v.grow_by(src.begin(), src.end()); else v.grow_by(n, Elem(TAG_A, 2)); } catch (const Injected&) { threw = true; }
    if (!threw) return 4;
    for (size_t i = 0; i < pre; ++i) if (v[i].tag != TAG_PRE) return 3;
    for (size_t i = pre; i < pre + size_t(k); ++i) if (v[i].tag != TAG_A || v[i].val != 2) return 3;      // constructed before the throw: must be intact
    auto& b = (Vec::base_type&)v; auto tab = b.get_table();
    for (size_t i = pre + k; i < pre + n; ++i) {                                                           // not constructed: zero-filled where storage exists
        size_t s = Vec::base_type::segment_index_of(i);
        Elem* seg = tab[s].load();
        if (seg > (Elem*)1 && (seg[i].tag != 0 || seg[i].val != 0)) return 5;
    }
    return 0;
}
struct CT { size_t pre, n; int k; };
static bool ctor_throw(bool iter, bool with_holes, char* msg) {
    // with_holes: the call's range spans segments it has not allocated yet when the constructor throws; otherwise the first block covers the whole range
    static const CT holes[] = {{1, 30, 1}, {2, 40, 0}, {1, 100, 3}, {3, 13, 1}}, contiguous[] = {{0, 8, 3}, {0, 100, 0}, {0, 100, 99}, {5, 3, 1}, {1, 1, 0}, {2, 2, 1}, {0, 1, 0}};
    const CT* grid = with_holes ? holes : contiguous; size_t ng = with_holes ? 4 : 7;
    for (size_t g = 0; g < ng; ++g) {
        CT c = grid[g];
        int rc = in_child([&] { return ctor_throw_scenario(iter, c.pre, c.n, c.k); });
        if (rc >= 1000) {
            std::sprintf(msg, "class=guard-writes-unallocated-segment %zu x push_back, then %s of %zu elements whose constructor throws at element #%d (index %zu): the exception guard zero-fills through a segment that is not allocated%s -> signal %d instead of the exception reaching the caller",
                         c.pre, iter ? "grow_by(first,last)" : "grow_by(n,value)", c.n, c.k, c.pre + c.k, with_holes ? " yet" : "", rc - 1000);
            return true;
        }
        if (rc == 3 || rc == 5 || rc == 4) {
            std::sprintf(msg, "class=loop-construct-state %zu x push_back, then %s of %zu elements whose constructor throws at element #%d: %s", c.pre, iter ? "grow_by(first,last)" : "grow_by(n,value)", c.n, c.k,
                         rc == 3 ? "an element constructed before the throw lost its value" : rc == 5 ? "a not constructed slot in allocated storage below size() was not zero-filled" : "the exception did not reach the caller");
            return true;
        }
    }
    return false;
}
// no exception: every element of the call constructed exactly once with the requested value, at a stable address
static int g_ctor_count = 0;
struct Cnt { int v; Cnt(int x) : v(x) {} Cnt(const Cnt& o) : v(o.v) { ++g_ctor_count; } };
static bool plain_growth(bool iter, char* msg) {
    for (size_t pre : {size_t(0), size_t(1), size_t(3), size_t(8), size_t(100)}) for (size_t n : {size_t(1), size_t(2), size_t(7), size_t(64), size_t(1000)}) {
        tbb::concurrent_vector<Cnt> v; for (size_t i = 0; i < pre; ++i) v.push_back(Cnt(1));
        std::vector<Cnt> src; for (size_t i = 0; i < n; ++i) src.push_back(Cnt(int(100 + i)));
        g_ctor_count = 0;
        auto it = iter ? v.grow_by(src.begin(), src.end()) : v.grow_by(n, Cnt(100));
        bool ok = size_t(g_ctor_count) == n && size_t(it - v.begin()) == pre && v.size() == pre + n;
        for (size_t i = 0; ok && i < pre; ++i) ok = v[i].v == 1;
        for (size_t i = 0; ok && i < n; ++i) ok = v[pre + i].v == (iter ? int(100 + i) : 100);
        if (!ok) { std::sprintf(msg, "class=loop-construct-state %zu x push_back, then %s of %zu elements: %d constructor calls, returned index %zu, size() %zu, or an element does not hold the requested value", pre, iter ? "grow_by(first,last)" : "grow_by(n,value)", n, g_ctor_count, size_t(it - v.begin()), v.size()); return true; }
    }
    return false;
}
// allocation failure in the middle of a call's range: the last segment was allocated eagerly by internal_grow
static int dt_garbage = 0;
struct D { unsigned v; D(unsigned x) : v(x) {} D(const D& o) : v(o.v) {} ~D() { if (v != 0 && v != 7) ++dt_garbage; } };
template <class T> struct FA2 {
    using value_type = T;
    FA2() = default; template <class U> FA2(const FA2<U>&) {}
    T* allocate(std::size_t n) { ++calls; if (calls == fail_at) throw std::bad_alloc(); void* p = ::operator new(n * sizeof(T)); std::memset(p, 0xCC, n * sizeof(T)); return (T*)p; }
    void deallocate(T* p, std::size_t) { ::operator delete(p); }
    template <class U> bool operator==(const FA2<U>&) const { return true; }
    template <class U> bool operator!=(const FA2<U>&) const { return false; }
};
static bool alloc_failure(bool iter, char* msg) {
    struct C { size_t pre, n; int nth; } grid[] = {{1, 30, 3}, {1, 30, 2}, {2, 100, 3}, {3, 61, 2}};
    for (auto c : grid) {
        dt_garbage = 0; size_t sz = 0;
        {
            tbb::concurrent_vector<D, FA2<D>> v;
            for (size_t i = 0; i < c.pre; ++i) v.push_back(D(7));
            std::vector<D> src(c.n, D(7));
            fail_at = calls + c.nth; bool ba = false;
            try { if (iter) v.grow_by(src.begin(), src.end()); else v.grow_by(c.n, D(7)); } catch (std::bad_alloc&) { ba = true; }
            fail_at = -1; sz = ((tbb::concurrent_vector<D, FA2<D>>::base_type&)v).my_size.load();
            dt_garbage = 0;
            if (!ba) continue;
        }   // ~concurrent_vector
        if (dt_garbage) {
            std::sprintf(msg, "class=alloc-failure-leaves-unconstructed-slots %zu x push_back, then %s of %zu elements with the %d. segment allocation of that call failing (bad_alloc reaches the caller, size counter %zu): ~concurrent_vector ran ~T on %d slots that were never constructed nor zero-filled (allocator fills fresh memory with 0xCC)",
                         c.pre, iter ? "grow_by(first,last)" : "grow_by(n,value)", c.n, c.nth, sz, dt_garbage);
            return true;
        }
    }
    return false;
}
}  // namespace guard

// ---- segment table entries: create_segment ----------------------------------------------------------------------------------
namespace segs {
static thread_local int role = 0;            // 1 = parks inside allocate, then throws bad_alloc; 2 = parks inside allocate, then succeeds
static std::atomic<int> parked1{0}, parked2{0}, rel1{0}, rel2{0};
static std::atomic<long> n_alloc{0}, n_free{0}, n_bad_free{0};
template <class T> struct PA {
    using value_type = T;
    PA() = default; template <class U> PA(const PA<U>&) {}
    T* allocate(std::size_t n) {
        if (role == 1) { parked1 = 1; while (!rel1) std::this_thread::yield(); throw std::bad_alloc(); }
        if (role == 2) { parked2 = 1; while (!rel2) std::this_thread::yield(); }
        ++n_alloc; std::size_t* p = (std::size_t*)::operator new(n * sizeof(T) + 16); p[0] = n; p[1] = 0x5E65E65E; return (T*)(p + 2);
    }
    void deallocate(T* q, std::size_t n) { std::size_t* p = (std::size_t*)q - 2; if (p[1] != 0x5E65E65E || p[0] != n) ++n_bad_free; p[1] = 0; ++n_free; ::operator delete(p); }
    template <class U> bool operator==(const PA<U>&) const { return true; }
    template <class U> bool operator!=(const PA<U>&) const { return false; }
};
using V = tbb::concurrent_vector<int, PA<int>>;
static void reset() { parked1 = parked2 = rel1 = rel2 = 0; n_alloc = n_free = n_bad_free = 0; }
// thread A (index 0) and thread C (index 1) are both inside the first-block allocation; B (index 2) owns segment 1, publishes it and constructs its element;
// then A's allocation throws: B's published segment must stay reachable
static bool failtag(char* msg) {
    reset();
    V v; bool a_ba = false, c_ba = false;
    std::thread ta([&] { role = 1; try { v.push_back(10); } catch (std::bad_alloc&) { a_ba = true; } });
    while (!parked1) std::this_thread::yield();
    std::thread tc([&] { role = 2; try { v.push_back(11); } catch (std::bad_alloc&) { c_ba = true; } });
    while (!parked2) std::this_thread::yield();
    auto it = v.push_back(12); int* addr = &*it; size_t idx = size_t(it - v.begin());
    auto tab = ((V::base_type&)v).get_table(); int* seg_before = tab[1].load();
    rel1 = 1; ta.join(); rel2 = 1; tc.join();
    int* seg_after = tab[1].load();
    if (seg_after != seg_before) {
        bool threw = false; try { (void)v.at(idx); } catch (std::exception&) { threw = true; }
        std::sprintf(msg, "class=failure-tag-overwrites-foreign-segment empty vector, my_first_block==1: threads A (index 0) and C (index 1) are inside the first-block allocation, thread B's push_back gets index %zu, allocates and publishes segment 1 (entry %p) and constructs its element; then A's allocation throws bad_alloc: A's failure handler stores the failure tag into embedded entries 1 and 2 (entry 1 now %p): B's live element at %p (value %d) is unreachable (at(%zu) %s) and its segment is leaked",
                     idx, (void*)seg_before, (void*)seg_after, (void*)addr, *addr, idx, threw ? "throws" : "returns");
        return true;
    }
    return false;
}
// election: two threads allocate the first block at the same time; the loser must free its block, entries must agree, nothing leaks
static bool election(char* msg) {
    for (int round = 0; round < 3; ++round) {
        reset();
        {
            V v;
            std::thread tc([&] { role = 2; v.push_back(11); });
            while (!parked2) std::this_thread::yield();
            v.push_back(12);                      // main wins the election while tc is parked inside allocate
            if (round) v.grow_by(size_t(5) << round, 7);
            rel2 = 1; tc.join();
            size_t n = v.size(); long sum = 0; for (size_t i = 0; i < n; ++i) sum += v[i];
            if (!((v[0] == 12 && v[1] == 11) || (v[0] == 11 && v[1] == 12))) { std::sprintf(msg, "class=segment-publication two concurrent push_back into an empty vector: elements read %d,%d", v[0], v[1]); return true; }
        }
        if (n_alloc != n_free || n_bad_free) { std::sprintf(msg, "class=segment-publication two threads allocate the first block concurrently: %ld allocations, %ld frees, %ld frees of a wrong block/size after destruction", n_alloc.load(), n_free.load(), n_bad_free.load()); return true; }
    }
    return false;
}
// grow_to_at_least(n) with n <= size(): must not return while a segment below n is still being allocated by its owner
static bool g2al_waits(char* msg) {
    for (size_t pre : {size_t(2), size_t(4), size_t(8)}) {
        reset();
        V v; v.grow_by(pre, 1);                                     // segments up to index pre-1 exist
        std::thread ta([&] { role = 2; v.grow_by(pre, 2); });       // owns [pre, 2*pre): its first index opens a new segment; parks inside that allocation
        while (!parked2) std::this_thread::yield();
        std::atomic<bool> done{false};
        std::thread tb([&] { v.grow_to_at_least(2 * pre); done = true; });
        std::this_thread::sleep_for(std::chrono::milliseconds(300));
        bool early = done.load();
        rel2 = 1; ta.join(); tb.join();
        if (early) {
            std::sprintf(msg, "class=g2al-returns-before-segments-allocated size()==%zu after another call claimed [%zu,%zu) whose segment allocation is still in progress: grow_to_at_least(%zu) returned although the segment of index %zu is not allocated yet (v[%zu] would dereference a null segment)",
                         2 * pre, pre, 2 * pre, 2 * pre, pre, pre);
            return true;
        }
    }
    return false;
}
}  // namespace segs
static int replay_segs(const std::string& job) {
    char msg[1400]; bool hit;
    if (job.find("failtag") != std::string::npos) hit = segs::failtag(msg);
    else hit = segs::election(msg);
    if (hit) std::printf("REPRODUCED %s\n", msg); else std::printf("NOT-REPRODUCED\n");
    return 0;
}

static int replay_ilc(const std::string& job) {
    char msg[1024];
    bool iter = job.size() > 5 && job.compare(job.size() - 5, 5, ".iter") == 0;
    bool hit = false;
    struct C { size_t pre, na; int k; size_t nb; } grid[] = {{0, 4, 2, 4}, {10, 5, 2, 20}, {100, 3, 0, 1000}, {2, 4, 3, 6}};
    auto foreign = [&](bool it) { for (auto c : grid) if (guard::foreign_range(it, c.pre, c.na, c.k, c.nb, msg)) return true; return false; };
    if (job.find("guard.range") != std::string::npos) hit = foreign(iter) || foreign(!iter);
    else if (job.find("guard.alloc.hole") != std::string::npos) hit = guard::ctor_throw(iter, true, msg) || guard::ctor_throw(!iter, true, msg);
    else if (job.find("guard.alloc") != std::string::npos) hit = guard::ctor_throw(iter, false, msg) || foreign(iter);
    else if (job.find("prealloc") != std::string::npos) hit = guard::alloc_failure(iter, msg) || guard::alloc_failure(!iter, msg);
    else hit = guard::plain_growth(iter, msg) || guard::ctor_throw(iter, false, msg) || foreign(iter);   // ilc.loop.*
    if (hit) std::printf("REPRODUCED %s\n", msg); else std::printf("NOT-REPRODUCED\n");
    return 0;
}

int main(int argc, char** argv) {
    std::string job = argc > 1 ? argv[1] : "";
    for (int i = 2; i < argc; ++i) { char* e = std::strchr(argv[i], '='); if (e) in[std::string(argv[i], e - argv[i])] = std::strtoull(e + 1, 0, 0); }
    if (job.rfind("grow.", 0) == 0 || job.rfind("push.", 0) == 0) {
        char msg[1024];
        if (guard::plain_growth(false, msg) || guard::plain_growth(true, msg) || guard::ctor_throw(false, false, msg)) { std::printf("REPRODUCED %s\n", msg); return 0; }
        return replay_growby();
    }
    if (job.rfind("ilc.", 0) == 0) return replay_ilc(job);
    if (job.rfind("seg.create", 0) == 0 || job.rfind("seg.enable", 0) == 0 || job.rfind("table.extend", 0) == 0 || job.rfind("subscript.growing", 0) == 0) return replay_segs(job);
    if (job.rfind("reserve", 0) == 0) {
        using V = tbb::concurrent_vector<int>;
        for (size_t pre : {size_t(0), size_t(1), size_t(2), size_t(3), size_t(8), size_t(9), size_t(100)}) for (size_t n : {size_t(1), size_t(2), size_t(3), size_t(4), size_t(8), size_t(9), size_t(16), size_t(17), size_t(1000), size_t(4096), size_t(4097)}) {
            V v; std::vector<int*> addr; for (size_t i = 0; i < pre; ++i) { v.push_back(int(i)); }
            for (size_t i = 0; i < pre; ++i) addr.push_back(&v[i]);
            v.reserve(n);
            bool ok = v.size() == pre && v.capacity() >= n && v.capacity() >= pre;
            for (size_t i = 0; ok && i < pre; ++i) ok = &v[i] == addr[i] && v[i] == int(i);
            size_t cap = v.capacity(); for (size_t i = pre; ok && i < n; ++i) { v.push_back(7); ok = v.capacity() == cap || i >= cap; }
            if (!ok) { std::printf("REPRODUCED class=reserve %zu x push_back; reserve(%zu): size()=%zu capacity()=%zu, an element moved, or a later push_back below n had to allocate\n", pre, n, v.size(), v.capacity()); return 0; }
        }
        std::printf("NOT-REPRODUCED\n"); return 0;
    }
    if (job.rfind("g2al.waits", 0) == 0) { char msg[1024]; if (segs::g2al_waits(msg)) std::printf("REPRODUCED %s\n", msg); else std::printf("NOT-REPRODUCED\n"); return 0; }
    if (job.rfind("at.", 0) == 0) return replay_at();
    if (job.rfind("g2al", 0) == 0) return replay_g2al();
    if (job.rfind("seg.", 0) == 0) return replay_seg();
    if (job.rfind("gbd", 0) == 0 || job.rfind("afb", 0) == 0) return replay_growby();
    if (job.rfind("nes", 0) == 0) return replay_nes();
    if (job.rfind("subscript", 0) == 0 || job.rfind("table", 0) == 0) return replay_subscript();
    std::printf("NOT-REPRODUCED (no recipe for %s)\n", job.c_str());
    return 0;
}
