// Replay of failed C11 obligations on the REAL concurrent_vector (private members via -fno-access-control).
// usage: c11_replay <job> IN_x=<v> ...   prints "REPRODUCED class=<c> <detail>" or "NOT-REPRODUCED"
#include <oneapi/tbb/concurrent_vector.h>
#include <cstdio>
#include <cstdlib>
#include <cstring>
#include <csetjmp>
#include <csignal>
#include <map>
#include <string>
#include <thread>
#include <chrono>
#include <new>
#include <unistd.h>
static std::map<std::string, unsigned long long> in;
static bool has(const char* k) { return in.count(k) != 0; }
static unsigned long long get(const char* k, unsigned long long d = 0) { return has(k) ? in[k] : d; }
static sigjmp_buf jb;
static void on_segv(int) { siglongjmp(jb, 1); }

// ---- failing allocator for the API-level scenario of at()
static int fail_at = -1, calls = 0;
template <class T> struct FA {
    using value_type = T;
    FA() = default; template <class U> FA(const FA<U>&) {}
    T* allocate(std::size_t n) { ++calls; if (calls == fail_at) throw std::bad_alloc(); return (T*)::operator new(n * sizeof(T)); }
    void deallocate(T* p, std::size_t) { ::operator delete(p); }
    template <class U> bool operator==(const FA<U>&) const { return true; }
    template <class U> bool operator!=(const FA<U>&) const { return false; }
};

static int replay_at() {
    // API scenario: fill the embedded table's reach, make the long-table allocation fail, then at() past the embedded table
    using V = tbb::concurrent_vector<long, FA<long>>;
    V v;
    v.grow_by(8);
    fail_at = calls + 1;
    bool threw_ba = false;
    try { v.push_back(7); } catch (std::bad_alloc&) { threw_ba = true; }
    fail_at = -1;
    size_t sz = ((V::base_type&)v).my_size.load();  /* size() clamps to capacity(); at() tests my_size */
    signal(SIGSEGV, on_segv); signal(SIGBUS, on_segv);
    for (size_t i = 8; i < sz; ++i) {
        size_t k = V::base_type::segment_index_of(i);
        auto& b = (V::base_type&)v; size_t nseg = b.number_of_segments(b.my_segment_table.load());
        if (sigsetjmp(jb, 1)) {
            std::printf("REPRODUCED class=at-reads-past-embedded-table grow_by(8); push_back with the long-table allocation failing (size counter=%zu); at(%zu): segment index %zu >= %zu table entries -> SIGSEGV instead of std::out_of_range\n", sz, i, k, nseg);
            return 0;
        }
        try {
            long& r = v.at(i); volatile long x = r; (void)x;
            if (k >= nseg) {
                std::printf("REPRODUCED class=at-reads-past-embedded-table grow_by(8); failing push_back; at(%zu) returned an element although segment %zu is outside the %zu-entry active table\n", i, k, nseg);
                return 0;
            }
        } catch (std::out_of_range&) {
        }
    }
    // white-box: the verifier's own input
    if (has("IN_index")) {
        using W = tbb::concurrent_vector<int>;
        W w;
        size_t idx = get("IN_index"), size = get("IN_size");
        w.my_size.store(size);
        size_t k = W::base_type::segment_index_of(idx), nseg = get("IN_emb", 1) ? 3 : 64;
        if (get("IN_emb", 1)) {
            int res = 0;
            if (sigsetjmp(jb, 1)) { res = 2; }
            else { try { int& r = w.at(idx); volatile int x = r; (void)x; res = 1; } catch (std::out_of_range&) { res = 0; } }
            w.my_size.store(0);
            if (res && k >= nseg) {
                std::printf("REPRODUCED class=at-reads-past-embedded-table white-box: size()=%zu embedded table, at(%zu) %s although segment %zu >= %zu entries\n", size, idx, res == 2 ? "crashed" : "returned", k, nseg);
                return 0;
            }
        }
        w.my_size.store(0);
    }
    std::printf("NOT-REPRODUCED\n");
    return 0;
}

static int replay_g2al() {
    using V = tbb::concurrent_vector<char>;
    struct C { unsigned long long o, n; };
    std::vector<C> grid;
    unsigned long long o = get("IN_old"), n = get("IN_new");
    if (has("IN_new") && n <= (1ull << 33) && o <= n) grid.push_back({o, n});
    grid.push_back({0, 1ull << 31}); grid.push_back({1, (1ull << 32) + 1}); grid.push_back({0, (1ull << 31) - 1});
    for (auto c : grid) {
        V* v = new V;
        if (c.o) v->grow_by(c.o, 'o');
        static volatile unsigned long long wo, wn; wo = c.o; wn = c.n;
        std::thread wd([&] {
            for (int i = 0; i < 150; ++i) { std::this_thread::sleep_for(std::chrono::milliseconds(100)); if (wn == 0) return; }
            std::printf("REPRODUCED class=grow_to_at_least-no-construct size()==%llu; grow_to_at_least(%llu,'x') did not return within 15 s: the size counter is already %zu but nothing was constructed and the caller spins waiting for segments nobody allocates\n", wo, wn, ((V::base_type&)*v).my_size.load());
            std::fflush(stdout); _exit(0);
        });
        v->grow_to_at_least(c.n, 'x');
        wn = 0; wd.join();
        bool ok = v->size() >= c.n && (*v)[c.n - 1] == 'x' && (*v)[c.o] == 'x';
        if (!ok) { std::printf("REPRODUCED class=grow_to_at_least-no-construct size()==%llu; grow_to_at_least(%llu,'x') returned but elements [%llu,%llu) are not constructed\n", c.o, c.n, c.o, c.n); return 0; }
        delete v;
    }
    std::printf("NOT-REPRODUCED\n");
    return 0;
}

static int replay_seg() {
    using V = tbb::concurrent_vector<int>; using B = V::base_type;
    auto bad = [&](size_t i) {
        size_t k = B::segment_index_of(i);
        if (!(k < 64 && B::segment_base(k) <= i && i - B::segment_base(k) < B::segment_size(k))) return true;
        for (size_t j = 0; j < 64; ++j) if (j != k && B::segment_base(j) <= i && i - B::segment_base(j) < B::segment_size(j)) return true;
        return false;
    };
    std::vector<size_t> c; if (has("IN_i")) c.push_back(get("IN_i"));
    for (int b = 0; b < 64; ++b) for (long d = -2; d <= 2; ++d) c.push_back((size_t(1) << b) + size_t(d));
    for (size_t i : c) if (bad(i)) { std::printf("REPRODUCED class=segment-map index %zu: segment_index_of=%zu base=%zu size=%zu\n", i, B::segment_index_of(i), B::segment_base(B::segment_index_of(i)), B::segment_size(B::segment_index_of(i))); return 0; }
    for (size_t k = 0; k + 1 < 64; ++k) if (B::segment_base(k + 1) != B::segment_base(k) + B::segment_size(k)) { std::printf("REPRODUCED class=segment-map tiling broken at segment %zu\n", k); return 0; }
    std::printf("NOT-REPRODUCED\n"); return 0;
}

static int replay_growby() {
    using V = tbb::concurrent_vector<int>;
    unsigned long long d = has("IN_delta") ? get("IN_delta") : 5; if (d > 1000000) d = 5;
    for (unsigned long long first : {0ull, 1ull, 3ull, 8ull}) {
        V v; if (first) v.grow_by(first, 1);
        auto it = v.grow_by(d, 2);
        size_t start = it - v.begin();
        bool ok = start == first && v.size() == first + d;
        for (size_t i = 0; ok && i < first; ++i) ok = v[i] == 1;
        for (size_t i = first; ok && i < first + d; ++i) ok = v[i] == 2;
        if (!ok) { std::printf("REPRODUCED class=grow_by-range size()==%llu; grow_by(%llu) returned range starting at %zu, size()=%zu\n", first, d, start, v.size()); return 0; }
    }
    std::printf("NOT-REPRODUCED\n"); return 0;
}

static int replay_nes() {
    using V = tbb::concurrent_vector<int>; using B = V::base_type;
    V v; std::vector<std::pair<size_t, size_t>> c;
    if (has("IN_size")) c.push_back({get("IN_size"), get("IN_seg")});
    for (size_t s = 0; s < 40; ++s) for (long d = -1; d <= 1; ++d) { c.push_back({B::segment_base(s) + d, s}); c.push_back({B::segment_base(s) + B::segment_size(s) + d, s}); }
    for (auto p : c) {
        size_t sz = p.first, s = p.second; if (s >= 63) continue;
        v.my_size.store(sz); size_t r = v.number_of_elements_in_segment(s); v.my_size.store(0);
        size_t b = B::segment_base(s), n = B::segment_size(s), e = sz <= b ? 0 : (sz - b < n ? sz - b : n);
        if (r != e) { std::printf("REPRODUCED class=nes size()=%zu segment %zu: number_of_elements_in_segment=%zu expected %zu\n", sz, s, r, e); return 0; }
    }
    std::printf("NOT-REPRODUCED\n"); return 0;
}

static int replay_subscript() {
    using V = tbb::concurrent_vector<int>;
    // element addresses must not move while the vector grows, and must be distinct
    V v; std::vector<int*> addr;
    for (int round = 0; round < 12; ++round) {
        size_t n = v.size(); v.grow_by(n + 1, 7);
        for (size_t i = 0; i < addr.size(); ++i) if (&v[i] != addr[i]) { std::printf("REPRODUCED class=address element %zu moved after growth to %zu\n", i, v.size()); return 0; }
        for (size_t i = addr.size(); i < v.size(); ++i) { addr.push_back(&v[i]); if (v[i] != 7) { std::printf("REPRODUCED class=address element %zu not constructed\n", i); return 0; } }
    }
    std::printf("NOT-REPRODUCED\n"); return 0;
}

int main(int argc, char** argv) {
    std::string job = argc > 1 ? argv[1] : "";
    for (int i = 2; i < argc; ++i) { char* e = std::strchr(argv[i], '='); if (e) in[std::string(argv[i], e - argv[i])] = std::strtoull(e + 1, 0, 0); }
    if (job.rfind("at.", 0) == 0) return replay_at();
    if (job.rfind("g2al", 0) == 0) return replay_g2al();
    if (job.rfind("seg.", 0) == 0) return replay_seg();
    if (job.rfind("gbd", 0) == 0 || job.rfind("afb", 0) == 0) return replay_growby();
    if (job.rfind("nes", 0) == 0) return replay_nes();
    if (job.rfind("subscript", 0) == 0 || job.rfind("table", 0) == 0) return replay_subscript();
    std::printf("NOT-REPRODUCED (no recipe for %s)\n", job.c_str());
    return 0;
}
