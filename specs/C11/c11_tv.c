/* translation validation, C side: the extracted text compiled natively */
#include "verif.h"
#include "cv.h"
#define ATOMIC_LOAD(x) (x)
#include "log2.inc"
#include "seg.inc"
#include "nes.inc"
size_t x_segment_index_of(size_t i) { return segment_index_of(i); }
size_t x_segment_base(size_t k) { return segment_base(k); }
size_t x_segment_size(size_t k) { return segment_size(k); }
size_t x_nes(size_t size, size_t seg) { struct cv v; v.my_size = size; return cv_number_of_elements_in_segment(&v, seg); }
