// translation validation, C++ side: the real header (private members via -fno-access-control)
#include <oneapi/tbb/concurrent_vector.h>
#include <cstdio>
#include <cstdlib>
#include <cstdint>
#include <random>
extern "C" { size_t x_segment_index_of(size_t); size_t x_segment_base(size_t); size_t x_segment_size(size_t); size_t x_nes(size_t, size_t); }
using V = tbb::concurrent_vector<int>;
static unsigned long cases = 0; static int bad = 0;
static void cmp(const char* what, size_t a, size_t b, size_t real, size_t ext) {
    ++cases;
    if (real != ext && bad++ < 5) std::printf("MISMATCH %s(%zu,%zu): real=%zu extracted=%zu\n", what, a, b, real, ext);
}
int main(int argc, char** argv) {
    unsigned long seed = argc > 1 ? std::strtoul(argv[1], 0, 0) : 1, n = argc > 2 ? std::strtoul(argv[2], 0, 0) : 10000;
    std::mt19937_64 rng(seed);
    V v;
    auto one = [&](size_t i) {
        cmp("segment_index_of", i, 0, V::base_type::segment_index_of(i), x_segment_index_of(i));
        size_t k = i % 64;
        cmp("segment_base", k, 0, V::base_type::segment_base(k), x_segment_base(k));
        cmp("segment_size", k, 0, V::base_type::segment_size(k), x_segment_size(k));
        v.my_size.store(i);
        cmp("number_of_elements_in_segment", i, k, v.number_of_elements_in_segment(k), x_nes(i, k));
        v.my_size.store(0);
    };
    for (int b = 0; b < 64; ++b) for (long d = -2; d <= 2; ++d) one((size_t(1) << b) + size_t(d));
    one(0); one(SIZE_MAX);
    for (unsigned long t = 0; t < n; ++t) { size_t x = rng(); one(x >> (rng() % 64)); }
    std::printf("SAMPLE segment_index_of(%zu)=%zu base=%zu size=%zu\n", size_t(1000), x_segment_index_of(1000), x_segment_base(9), x_segment_size(9));
    std::printf("cases=%lu mismatches=%d\n", cases, bad);
    return bad ? 1 : 0;
}
