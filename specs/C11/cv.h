/* C view of segment_table<int, A, concurrent_vector<int,A>, 3>.  Member order and the constants are
   checked against the real headers by spec.py (require(...)) on every run. */
#ifndef CV_H
#define CV_H
#include <stdlib.h>
typedef size_t size_type;
typedef size_t segment_index_type;
typedef int value_type;
typedef value_type *segment_type;          /* std::atomic<T*> accessed through ATOMIC_* only */
typedef segment_type *segment_table_type;  /* atomic_segment* */
#define pointers_per_embedded_table ((size_type)3)
#define pointers_per_long_table ((size_type)(sizeof(size_type) * 8))
#define segment_allocation_failure_tag ((segment_type)1)
#define cv_allow_table_extending 1
struct cv {
    segment_table_type my_segment_table;
    segment_type *my_embedded_table;       /* real: atomic_segment my_embedded_table[3]; kept as its own 3-element object */
    size_type my_first_block;
    size_type my_size;
    bool my_segment_table_allocation_failed;
};
typedef struct { struct cv *v; size_type idx; } iterator;
#define ITER(vec, i) ((iterator){ (vec), (i) })
#endif
