"""C11 -- concurrent_vector growth hands out disjoint ranges and never moves elements."""
import os
import sys
HERE = os.path.dirname(os.path.abspath(__file__))
sys.path.insert(0, os.path.join(HERE, '..'))
sys.path.insert(0, os.path.join(HERE, '..', '..', 'tools'))
import common
import native
from cxx2c import Rewriter, slice_block, slice_stmt, tag_loops, ExtractionBreak, load
from prove import Job
import re
import json

ST = 'include/oneapi/tbb/detail/_segment_table.h'
CV = 'include/oneapi/tbb/concurrent_vector.h'
TYPES = ['size_type', 'segment_index_type', 'uintptr_t', 'size_t']


def require(rel, pat, what):
    if not re.search(pat, load(rel)):
        raise ExtractionBreak('%s: expected declaration not found (%s): %r' % (rel, what, pat))


def extract(ctx):
    sliced, fired = [], {}
    log2_txt, f = common.log2_c(ctx, sliced)
    fired['log2'] = f
    common.write(ctx, 'log2.inc', log2_txt)

    # layout facts the harness struct relies on (member order of segment_table)
    require(ST, r'std::atomic<segment_table_type> my_segment_table;\s*atomic_segment my_embedded_table\[pointers_per_embedded_table\];\s*(//[^\n]*\n\s*)*std::atomic<size_type> my_first_block;\s*(//[^\n]*\n\s*)*std::atomic<size_type> my_size;',
            'segment_table member order: my_segment_table, my_embedded_table[], my_first_block, my_size')
    require(ST, r'static constexpr size_type pointers_per_long_table = sizeof\(size_type\) \* 8;', 'pointers_per_long_table')
    require(CV, r'static constexpr std::size_t embedded_table_num_segments = 3;', 'embedded_table_num_segments == 3')
    require(CV, r'static constexpr bool allow_table_extending = true;', 'allow_table_extending')
    require(ST, r'const segment_type segment_allocation_failure_tag = reinterpret_cast<segment_type>\(1\);', 'failure tag')
    require(ST, r'static constexpr size_type embedded_table_size = segment_size\(pointers_per_embedded_table\);', 'embedded_table_size')
    require(CV, r'static constexpr size_type default_first_block_size = 1;', 'default_first_block_size == 1')

    # ---- segment arithmetic ------------------------------------------------
    rw = Rewriter('seg')
    out = []
    for name in ('segment_index_of', 'segment_base', 'segment_size'):
        s = slice_block(ST, r'static constexpr \w+ %s\( size_type index \)' % name)
        sliced.append('%s:%d %s' % (s.rel, s.line, name))
        t = rw.sub(s.text, r'static constexpr (\w+) %s\( size_type index \)' % name, r'static \1 %s(size_type index)' % name, 1, 1, name='sig')
        t = rw.sub(t, r'tbb::detail::log2\(', 'tbb_log2(', 0, name='ns-strip')
        t = rw.fcasts(t, TYPES)
        out.append(t)
    common.write(ctx, 'seg.inc', '\n'.join(out) + '\n')
    fired['seg'] = rw.fired

    # ---- table queries (segment_table) -------------------------------------
    rw = Rewriter('table')
    out = []
    s = slice_block(ST, r'size_type number_of_segments\( segment_table_type table \) const')
    sliced.append('%s:%d number_of_segments' % (s.rel, s.line))
    t = rw.sub(s.text, r'size_type number_of_segments\( segment_table_type table \) const', 'static size_type st_number_of_segments(const struct cv* self, segment_table_type table)', 1, 1, name='sig')
    t = rw.fields(t, ['my_embedded_table'], 1)
    out.append(t)
    for name, ret in (('capacity', r'size_type capacity\(\) const noexcept'),
                      ('find_last_allocated_segment', r'size_type find_last_allocated_segment\( segment_table_type table \) const noexcept')):
        s = slice_block(ST, ret)
        sliced.append('%s:%d %s' % (s.rel, s.line, name))
        if name == 'capacity':
            t = rw.sub(s.text, ret, 'static size_type st_capacity(const struct cv* self)', 1, 1, name='sig')
            t = rw.sub(t, r'get_table\(\)', 'st_get_table(self)', 1, 1, name='method')
        else:
            t = rw.sub(s.text, ret, 'static size_type st_find_last_allocated_segment(const struct cv* self, segment_table_type table)', 1, 1, name='sig')
        t = rw.sub(t, r'number_of_segments\(', 'st_number_of_segments(self, ', 1, 1, name='method')
        t = rw.atomics(t, ['table'], 1)
        t = rw.ptr_rel(t, 'segment_allocation_failure_tag', 1)
        t = tag_loops(t, name, rw, expect=1)
        out.append(t)
    common.write(ctx, 'table.inc', '\n'.join(out) + '\n')
    fired['table'] = rw.fired

    # ---- subscript: base internal_subscript<allow> and at() ------------------
    rw = Rewriter('subscript')
    s = slice_block(ST, r'value_type& internal_subscript\( size_type index \)')
    sliced.append('%s:%d segment_table::internal_subscript<allow_out_of_range_access>' % (s.rel, s.line))
    t = rw.sub(s.text, r'value_type& internal_subscript\( size_type index \)',
               'value_type* st_internal_subscript(struct cv* self, size_type index, const bool allow_out_of_range_access)', 1, 1,
               name='sig (ref-return -> pointer; template bool -> parameter)')
    t = rw.sub(t, r'derived_type::allow_table_extending', 'cv_allow_table_extending', 1, 1, name='bind-template(derived_type)')
    t = rw.atomics(t, ['my_segment_table', 'table'], 3)
    t = rw.fields(t, ['my_segment_table'], 1)
    t = rw.sub(t, r'extend_table_if_necessary\(table,', 'st_extend_table_if_necessary(self, &table,', 1, 1, name='method+ref-param')
    t = rw.sub(t, r'enable_segment\(segment,', 'st_enable_segment(self, &segment,', 1, 1, name='method+ref-param')
    t = rw.sub(t, r'(st_extend_table_if_necessary\(self, &table,[^;]*;|st_enable_segment\(self, &segment,[^;]*;)', r'\1 EXC_EDGE(NULL);', 2, 2, name='callee may throw: exception edge made explicit (EXC_EDGE)')
    t = rw.sub(t, r'throw_exception\(exception_id::(\w+)\);', r'VERIF_THROW(\1);', 1, 1, name='throw')
    t = rw.sub(t, r'return segment\[([^\];]*)\];', r'return &segment[\1];', 1, 1, name='ref-return')
    t = rw.asserts(t, 1)
    t = rw.std(t)
    sub_base = t
    s = slice_block(CV, r'(?<!const_)reference internal_subscript_with_exceptions\( size_type index \)')
    sliced.append('%s:%d concurrent_vector::internal_subscript_with_exceptions (at)' % (s.rel, s.line))
    t = rw.sub(s.text, r'reference internal_subscript_with_exceptions\( size_type index \)',
               'value_type* cv_internal_subscript_with_exceptions(struct cv* self, size_type index)', 1, 1, name='sig')
    t = rw.this_arrow(t, 3)
    t = rw.atomics(t, ['my_size', 'my_segment_table'], 2)
    t = rw.sub(t, r'tbb::detail::throw_exception\(exception_id::(\w+)\);', r'VERIF_THROW(\1);', 3, 3, name='throw')
    t = rw.sub(t, r'self->segment_index_of\(', 'segment_index_of(', 1, 1, name='static-method')
    t = rw.sub(t, r'base_type::number_of_segments\(table\)', 'st_number_of_segments(self, table)', 1, 1, name='method')
    t = rw.sub(t, r'self->segment_allocation_failure_tag', 'segment_allocation_failure_tag', 1, 1, name='field-const')
    t = rw.ptr_rel(t, 'segment_allocation_failure_tag', 1)
    t = rw.sub(t, r'return base_type::template internal_subscript<false>\(index\);',
               'return st_internal_subscript(self, index, false);', 1, 1, name='method+template-arg')
    at_txt = t
    s = slice_block(CV, r'(?<!const_)reference internal_subscript\( size_type index \)')
    sliced.append('%s:%d concurrent_vector::internal_subscript' % (s.rel, s.line))
    t = rw.sub(s.text, r'reference internal_subscript\( size_type index \)', 'value_type* cv_internal_subscript(struct cv* self, size_type index)', 1, 1, name='sig')
    t = rw.this_arrow(t, 1)
    t = rw.atomics(t, ['my_size'], 1)
    t = rw.asserts(t, 1)
    t = rw.sub(t, r'return base_type::template internal_subscript<false>\(index\);', 'return st_internal_subscript(self, index, false);', 1, 1, name='method+template-arg')
    common.write(ctx, 'subscript.inc', sub_base + '\n' + at_txt + '\n' + t + '\n')
    fired['subscript'] = rw.fired

    # ---- growth ---------------------------------------------------------------
    rw = Rewriter('grow')
    s = slice_block(CV, r'iterator internal_grow_to_at_least\( size_type new_size, const Args&\.\.\. args \)')
    sliced.append('%s:%d concurrent_vector::internal_grow_to_at_least' % (s.rel, s.line))
    t = rw.sub(s.text, r'iterator internal_grow_to_at_least\( size_type new_size, const Args&\.\.\. args \)',
               'iterator cv_internal_grow_to_at_least(struct cv* self, size_type new_size)', 1, 1, name='sig + bind-pack(empty)')
    t = rw.this_arrow(t, 8)
    t = rw.sub(t, r'spin_wait_while_eq\(self->my_segment_table, self->my_embedded_table\);', 'SPIN_WAIT_WHILE_EQ(self->my_segment_table, self->my_embedded_table);', 1, 1, name='spin-wait')
    t = rw.sub(t, r'self->get_table\(\)\[seg_idx\]\.load\([^)]*\)', 'ATOMIC_LOAD(cv_get_table(self)[seg_idx])', 2, 2, name='atomic-load(table entry)')
    t = rw.sub(t, r'self->get_table\(\)', 'cv_get_table(self)', 1, 1, name='method')
    t = rw.atomics(t, ['my_size'], 2)
    t = rw.sub(t, r'return iterator\(\*this, 0\);', 'return ITER(self, 0);', 1, 1, name='iterator-ctor')
    t = rw.sub(t, r'return iterator\(\*this, size\(\)\);', 'return ITER(self, cv_size(self));', 1, 1, name='iterator-ctor')
    t = rw.sub(t, r'return internal_grow\(old_size, new_size, args\.\.\.\);', 'return cv_internal_grow(self, old_size, new_size);', 1, 1, name='method + bind-pack(empty)')
    t = rw.sub(t, r'self->segment_index_of\(', 'segment_index_of(', 1, 1, name='static-method')
    t = rw.sub(t, r'self->pointers_per_embedded_table', 'pointers_per_embedded_table', 1, 1, name='field-const')
    t = rw.sub(t, r'atomic_backoff backoff\(true\);', 'RG_NOP();', 1, 1, name='drop-call->RG_NOP')
    t = rw.sub(t, r'backoff\.pause\(\);', 'RG_NOP();', 1, 1, name='drop-call->RG_NOP')
    t = rw.sub(t, r'(?s)#if TBB_USE_DEBUG.*?#endif', '', 1, 1, name='drop #if TBB_USE_DEBUG block')
    t = rw.casts(t, 0)
    t = rw.fcasts(t, TYPES + ['segment_index_type'])
    t = rw.std(t)
    t = tag_loops(t, 'g2al', rw, expect=3)
    g2al = t
    s = slice_block(CV, r'iterator internal_grow_by_delta\( size_type delta, const Args&\.\.\. args \)')
    sliced.append('%s:%d concurrent_vector::internal_grow_by_delta' % (s.rel, s.line))
    t = rw.sub(s.text, r'iterator internal_grow_by_delta\( size_type delta, const Args&\.\.\. args \)',
               'iterator cv_internal_grow_by_delta(struct cv* self, size_type delta)', 1, 1, name='sig + bind-pack(empty)')
    t = rw.this_arrow(t, 1)
    t = rw.atomics(t, ['my_size'], 1)
    t = rw.sub(t, r'return end\(\);', 'return ITER(self, cv_size(self));', 1, 1, name='iterator-ctor')
    t = rw.sub(t, r'return internal_grow\(start_idx, end_idx, args\.\.\.\);', 'return cv_internal_grow(self, start_idx, end_idx);', 1, 1, name='method + bind-pack(empty)')
    t = rw.fcasts(t, TYPES)
    t = rw.number_sites(t, 'gbd', expect=1)
    gbd = t
    s = slice_block(CV, r'size_type number_of_elements_in_segment\( segment_index_type seg_index \)')
    sliced.append('%s:%d concurrent_vector::number_of_elements_in_segment' % (s.rel, s.line))
    t = rw.sub(s.text, r'size_type number_of_elements_in_segment\( segment_index_type seg_index \)',
               'size_type cv_number_of_elements_in_segment(struct cv* self, segment_index_type seg_index)', 1, 1, name='sig')
    t = rw.this_arrow(t, 3)
    t = rw.atomics(t, ['my_size'], 1)
    t = rw.sub(t, r'self->(segment_base|segment_size)\(', r'\1(', 2, name='static-method')
    t = rw.std(t)
    nes = t
    s = slice_block(ST, r'void assign_first_block_if_necessary\(segment_index_type index\)')
    sliced.append('%s:%d segment_table::assign_first_block_if_necessary' % (s.rel, s.line))
    t = rw.sub(s.text, r'void assign_first_block_if_necessary\(segment_index_type index\)',
               'void st_assign_first_block_if_necessary(struct cv* self, segment_index_type index)', 1, 1, name='sig')
    t = rw.this_arrow(t, 2)
    t = rw.atomics(t, ['my_first_block'], 2)
    t = rw.number_sites(t, 'afb', expect=2)
    afb = t
    common.write(ctx, 'grow.inc', g2al + '\n')
    common.write(ctx, 'nes.inc', nes + '\n')
    common.write(ctx, 'gbd.inc', gbd + '\n')
    common.write(ctx, 'afb.inc', afb + '\n')
    fired['grow'] = rw.fired
    extract_ilc(ctx, sliced, fired)
    extract_segments(ctx, sliced, fired)
    return sliced, fired


GUARD_RX = {'args': r'(?s)auto value_guard = make_raii_guard\( \[&\] \{(.*?)\}\);',
            'iter': r'(?s)\)\s*\.on_exception\( \[&\] \{(.*?)\}\);'}
ILC_SIG = {'args': r'void internal_loop_construct\( segment_table_type table, size_type start_idx, size_type end_idx, const Args&\.\.\. args \)',
           'iter': r'void internal_loop_construct\( segment_table_type table, size_type start_idx, size_type end_idx, ForwardIterator first, ForwardIterator \)'}


def extract_ilc(ctx, sliced, fired):
    """concurrent_vector::internal_loop_construct (both overloads).  The exception guard (a lambda handed to make_raii_guard /
    try_call(...).on_exception) is sliced as a block of its own (`ilcg_<ovl>`, by-reference captures -> parameters); in the
    loop function the guard object becomes a flag, and every callee that may throw is followed by an explicit exception edge."""
    rw = Rewriter('ilc')
    guards, loops = [], []
    for ovl in ('args', 'iter'):
        s = slice_block(CV, ILC_SIG[ovl])
        sliced.append('%s:%d concurrent_vector::internal_loop_construct (%s overload) + its exception guard' % (s.rel, s.line, 'const Args&...' if ovl == 'args' else 'ForwardIterator'))
        t = s.text
        gm = re.search(GUARD_RX[ovl], t)
        if not gm:
            raise ExtractionBreak('internal_loop_construct(%s): exception guard lambda not found' % ovl)
        rw.fired['guard lambda sliced (%s)' % ovl] = 1
        # ---- the guard body: captures this, table, start_idx, idx by reference (read only) and end_idx by reference (written)
        g = 'static void ilcg_%s(struct cv* self, segment_table_type table, size_type start_idx, size_type idx, size_type *end_idx_ref) {%s}\n' % (ovl, gm.group(1))
        g = rw.sub(g, r'\bend_idx\b', '(*end_idx_ref)', 0, name='by-reference capture end_idx -> pointer parameter')
        g = rw.sub(g, r'this->find_last_allocated_segment\(', 'st_find_last_allocated_segment(self, ', 0, name='method')
        g = rw.sub(g, r'this->segment_size\(', 'st_segment_size(', 0, name='static-method (renamed: a local of the same name shadows it)')
        g = rw.sub(g, r'zero_unconstructed_elements\(&this->internal_subscript\(([^;]*?)\), ([^;]*?)\);', r'STUB_zero_unconstructed_elements(SLOT_ADDR(self, \1), \2);', 0,
                   name='&internal_subscript(i) -> SLOT_ADDR(self, i) (ref-return -> pointer); zero_unconstructed_elements -> memset stub')
        g = rw.std(g)
        g = tag_loops(g, 'ilcg_' + ovl, rw)
        guards.append(g)
        # ---- the loop function
        if ovl == 'args':
            t = rw.sub(t, ILC_SIG[ovl], 'static void cv_ilc_args(struct cv* self, segment_table_type table, size_type start_idx, size_type end_idx)', 1, 1, name='sig + bind-pack(Args:=const value_type&)')
            t = rw.sub(t, r'static_assert\(sizeof\.\.\.\(Args\) < 2, "Too many parameters"\);', 'RG_NOP();', 1, 1, name='static_assert -> RG_NOP')
            t = rw.sub(t, GUARD_RX[ovl], 'bool value_guard_active = true; /* raii_guard: body = ilcg_args, run at scope exit while active */', 1, 1, name='raii guard object -> flag (body sliced as ilcg_args)')
            t = rw.sub(t, r'value_guard\.dismiss\(\);', 'value_guard_active = false;', 0, name='guard.dismiss()')
            t = rw.sub(t, r'segment_table_allocator_traits::construct\(base_type::get_allocator\(\), ([^;]*?), args\.\.\.\);',
                       r'STUB_construct(self, \1); if (EXC_PENDING()) { if (value_guard_active) ILC_GUARD_args(self, table, start_idx, idx, &end_idx); EXC_RETHROW(); }', 0,
                       name='callee stub (element constructor; may throw: the exception edge runs the active guard and leaves)')
            # normal scope exit of the guard object: end of the for body
            k_ = t.rstrip().rfind('}')
            k_ = t[:k_].rstrip().rfind('}')
            t = t[:k_] + '    if (value_guard_active) ILC_GUARD_args(self, table, start_idx, idx, &end_idx); /* ~raii_guard */\n        ' + t[k_:]
            rw.fired['raii guard destructor at scope exit'] = 1
        else:
            t = rw.sub(t, ILC_SIG[ovl], 'static void cv_ilc_iter(struct cv* self, segment_table_type table, size_type start_idx, size_type end_idx, size_type first)', 1, 1, name='sig + bind-template(ForwardIterator:=position in the source sequence)')
            t = rw.sub(t, r'(?s)try_call\( \[&\] \{(.*?)\} \)\.on_exception\( \[&\] \{.*?\}\);', r'{ \1 if (EXC_PENDING()) { ILC_GUARD_iter(self, table, start_idx, idx, &end_idx); EXC_RETHROW(); } }', 0,
                       name='try_call(body).on_exception(handler) -> { body; if (exception pending) { handler (sliced as ilcg_iter); rethrow } }')
            t = rw.sub(t, r'\*\s*(first\+\+|\+\+first|first\b)', r'(\1)', 0, name='iterator dereference -> position (the j-th value of the source sequence is represented by j)')
            t = rw.sub(t, r'segment_table_allocator_traits::construct\(base_type::get_allocator\(\), ([^;]*?), ([^;,]*?)\);', r'STUB_construct_from(self, \1, \2);', 0,
                       name='callee stub (element constructor from the value at an iterator position; may throw)')
        t = rw.sub(t, r'auto element_address = &base_type::template internal_subscript<true>\(([^;]*?)\);', r'value_type* element_address = STUB_subscript_growing(self, \1); EXC_PROPAGATE();', 0,
                   name='callee stub (internal_subscript<true>: allocates or waits; may throw bad_alloc: exception edge made explicit)')
        t = rw.std(t)
        t = tag_loops(t, 'ilc_' + ovl, rw, expect=1)
        loops.append(t)
    common.write(ctx, 'ilc_guard.inc', '\n'.join(guards))
    common.write(ctx, 'ilc_loop.inc', '\n'.join(loops))
    fired['ilc'] = rw.fired


def build(ctx):
    sliced, fired = extract(ctx)
    J = lambda *a, **k: Job(*a, cfile=os.path.join(HERE, 'c11.c'), **k)
    jobs = [
        J('seg.bijection', entry='h_seg_bijection', route='LF', target='segment_table::segment_index_of/segment_base/segment_size', source=ST),
        J('seg.tiling', entry='h_seg_tiling', route='LF', target='segment_table::segment_base/segment_size', source=ST),
        J('table.number_of_segments', entry='h_number_of_segments', route='LF', target='segment_table::number_of_segments', source=ST),
        J('table.capacity', entry='h_capacity', route='LW', unwind=66, target='segment_table::capacity', source=ST),
        J('table.find_last_allocated_segment', entry='h_find_last', route='LW', unwind=66, target='segment_table::find_last_allocated_segment', source=ST),
        J('at.bounds', entry='h_at', route='LF', target='concurrent_vector::internal_subscript_with_exceptions + segment_table::internal_subscript<false>', source=CV),
        J('subscript.address', entry='h_subscript', route='LF', target='concurrent_vector::internal_subscript + segment_table::internal_subscript<false>', source=CV),
        J('g2al.decision', entry='h_g2al', route='LC', loops=True, nloops=3, target='concurrent_vector::internal_grow_to_at_least', source=CV),
        J('g2al.waits', entry='h_g2al_waits', route='RG', defines=['G2W'], loops=True, nloops=3, target='concurrent_vector::internal_grow_to_at_least: wait for segments allocated by other calls', source=CV),
        J('gbd.disjoint', entry='h_gbd', route='RG', defines=['RG_MODE'], target='concurrent_vector::internal_grow_by_delta', source=CV),
        J('nes.count', entry='h_nes', route='LF', target='concurrent_vector::number_of_elements_in_segment', source=CV),
        J('afb.once', entry='h_afb', route='RG', defines=['RG_MODE'], target='segment_table::assign_first_block_if_necessary', source=ST),
    ]
    for ovl in ('args', 'iter'):
        src = CV + ' internal_loop_construct(%s) exception guard' % ('const Args&...' if ovl == 'args' else 'ForwardIterator')
        d = ['ILCG', 'OVL_' + ovl.upper()]
        jobs += [
            J('ilc.guard.range.' + ovl, entry='h_ilc_guard', route='LC', loops=True, nloops=1, unwind=66, defines=d + ['ILCG_RANGE'],
              target='exception guard of concurrent_vector::internal_loop_construct (%s overload): zero-fill range arithmetic, any table contents' % ovl, source=src),
            J('ilc.guard.alloc.contiguous.' + ovl, entry='h_ilc_guard', route='LC', loops=True, nloops=1, unwind=66, defines=d,
              target='exception guard of concurrent_vector::internal_loop_construct (%s overload) + internal_subscript: every segment of the call up to the last allocated one is allocated' % ovl, source=src),
            J('ilc.guard.alloc.hole.' + ovl, entry='h_ilc_guard', route='LC', loops=True, nloops=1, unwind=66, defines=d + ['ILCG_HOLE'],
              target='exception guard of concurrent_vector::internal_loop_construct (%s overload) + internal_subscript: an unallocated segment lies between the failing index and the last allocated segment' % ovl, source=src),
            J('ilc.loop.' + ovl, entry='h_ilc_loop', route='LC', loops=True, nloops=1, defines=['ILCL', 'OVL_' + ovl.upper()],
              target='concurrent_vector::internal_loop_construct (%s overload): construction loop, exception edges of allocation and constructor, guard activation/dismissal' % ovl, source=CV),
            J('ilc.loop.prealloc.' + ovl, entry='h_ilc_loop', route='LC', loops=True, nloops=1, defines=['ILCL', 'ILCL_PREALLOC', 'OVL_' + ovl.upper()],
              target='concurrent_vector::internal_loop_construct (%s overload): a segment allocation fails while a higher segment of the call is already allocated' % ovl, source=CV),
        ]
    jobs += [
        J('seg.create', entry='h_create_segment', route='RG', defines=['SEGRG'], loops=True, nloops=3, target='concurrent_vector::create_segment (first-block election, owner-allocates, waiters; allocation failure tagging)', source=CV),
        J('seg.create.failtag', entry='h_create_segment', route='RG', defines=['SEGRG', 'SEG_FAILTAG'], loops=True, nloops=3,
          target='concurrent_vector::create_segment: first-block allocation fails while the embedded table is active and my_first_block < 3', source=CV),
        J('seg.enable', entry='h_enable_segment', route='RG', defines=['SEGRG', 'SEG_ENABLE'], target='segment_table::enable_segment (against the contract of create_segment; CAS publication of a returned allocation)', source=ST),
        J('table.extend', entry='h_extend_table', route='RG', defines=['EXTRG'], loops=True, nloops=1, unwind=66,
          target='segment_table::extend_table_if_necessary + concurrent_vector::allocate_long_table (embedded -> long switch by one CAS)', source=ST),
        J('subscript.growing', entry='h_subscript_growing', route='LF', defines=['GROW'], unwind=66, target='segment_table::internal_subscript<true> (operator[] of the base / growth path; against the contracts of extend_table_if_necessary and enable_segment)', source=ST),
        J('reserve.segments', entry='h_reserve', route='LC', defines=['GROW', 'RESERVE'], loops=True, nloops=1, target='concurrent_vector::reserve + segment_table::reserve', source=CV),
        J('grow.internal_grow', entry='h_internal_grow', route='LF', defines=['GROW'], unwind=66, target='concurrent_vector::internal_grow (against the contracts of its callees)', source=CV),
        J('push.emplace_back', entry='h_emplace_back', route='RG', defines=['RG_MODE'], target='concurrent_vector::internal_emplace_back (push_back / emplace_back)', source=CV),
    ]
    return {
        'jobs': jobs, 'sliced': sliced, 'fired': fired,
        'trusted': ['__builtin_clzl as modelled by CBMC (cross-checked natively against the real header in TV)',
                    'sequentially consistent atomics', 'cxx2c rewriter up to translation validation',
                    'contract composition: each function is proved against the contracts of its callees, and every callee contract used as a stub is itself a job: '
                    'internal_grow_by_delta/internal_grow_to_at_least -> internal_grow (grow.internal_grow) -> assign_first_block_if_necessary (afb.once), extend_table_if_necessary (table.extend), '
                    'enable_segment (seg.enable) -> create_segment (seg.create), internal_loop_construct (ilc.loop.*) -> internal_subscript<true> (subscript.growing), exception guard (ilc.guard.*); reserve (reserve.segments) -> internal_subscript<true>; the non-growing branch of internal_grow_to_at_least (g2al.waits)',
                    'element constructor / segment allocator / table allocator: stubs that either succeed (allocator: returns a fresh non-null address) or throw, nondeterministically',
                    'zero_unconstructed_elements(p, n) == memset of the n slots at p (stub records the slots)',
                    'segment_element_allocator_traits::deallocate / destroy_and_deallocate_table / deallocate_segment: stubs that record (pointer, size)',
                    'spin_wait_while_eq(loc, v): returns only once loc != v (termination not claimed)',
                    'try_call(body).on_exception(h) == run body; if it throws run h and rethrow; try_call(body).on_completion(h) == run body, run h on both edges; raii_guard == run the body at scope exit unless dismissed (detail/_template_helpers.h:190-246, read, not extracted)'],
        'drops': ['template headers (value_type:=int, Args...:=one const value_type& / empty pack, ForwardIterator:=position in the source sequence)', 'references -> pointers (incl. by-reference lambda captures -> parameters of the sliced lambda body)',
                  'std::atomic<T> -> T via ATOMIC_* / ENTRY_* macros, memory orders dropped', '__TBB_ASSERT -> proof obligation', 'throw_exception -> VERIF_THROW / EXC_THROW marker + path cut',
                  'C++ exceptions -> a pending-exception flag; every callee that may throw is followed by an explicit edge (EXC_PROPAGATE / goto on_completion / guard body + EXC_RETHROW)',
                  'lambdas handed to make_raii_guard / try_call().on_exception()/on_completion(): body sliced and placed at the edges where C++ runs it', 'atomic_backoff -> RG_NOP()', 'allocator object declarations -> RG_NOP()', 'static_assert -> RG_NOP()',
                  '#if TBB_USE_DEBUG block of internal_grow_to_at_least', 'iterator construction -> ITER(vector, index) / ITER2(vector, index, address) record', 'CRTP self()->f() -> cv_f(self, ...)'],
        'not_decided': ['termination of every spin loop (waits for a segment whose owner failed before tagging it, or whose table extension threw after entry 0 was published, spin for ever: liveness, not claimed)',
                        'stale embedded snapshot in the exception guard: when the table pointer internal_grow took is the embedded table and another thread has since made the long table active, find_last_allocated_segment(snapshot) may miss segments that exist only in the long table; ilc.guard.complete is proved for snapshot == active table only (suspected window between the two store loops of the first-block winner; not reproduced natively)',
                        'environment invariant that links the embedded and the long table across threads (every first-block entry is non-null in the embedded table before the copy is taken): used as rely, argued in the report, not proved',
                        'grow_to_at_least(n) waits for segments to be ALLOCATED, not for their elements to be constructed (the code makes no such guarantee); my_segment_table is held fixed during g2al.waits',
                        'interleavings are covered by rely/guarantee on one table entry / my_segment_table / my_size / my_first_block under SC; no proof that the stated relies are complete beyond the writers sliced here (create_segment, enable_segment, extend_table_if_necessary, allocate_long_table, internal_grow_by_delta, internal_emplace_back, assign_first_block_if_necessary); of the non-concurrent operations only reserve is under contract (reserve.segments); clear, shrink_to_fit/internal_compact, resize, swap, assignment, copy/move are not',
                        'values stored by the element constructor (only which slot is constructed, how often, from which position of the source sequence)',
                        'copy_segment / move_segment exception handlers, internal_resize, destroy_elements, internal_compact'],
        'assumptions': ['atomics are sequentially consistent', 'value_type is a trivially copyable type (int)',
                        'RG rely for my_size during concurrent growth: my_size only grows (resize/clear/shrink are documented as not concurrency-safe)',
                        'my_size does not wrap around 2^64; vectors hold at most 2^63 elements (segment 63 is never allocated, my_first_block <= 63)',
                        'closed world (scan-enforced): every store/CAS on a table entry or on my_segment_table in concurrent_vector.h / _segment_table.h lies in create_segment, enable_segment, extend_table_if_necessary (under contract) or in a constructor / clear / move / swap / shrink_to_fit helper (documented as not concurrency-safe)',
                        'RG rely for a table entry: written only while NULL and only by its owner (first-block election winner / holder of the segment\'s first index); unique index ownership comes from gbd.disjoint / push.emplace_back',
                        'RG rely for my_segment_table: embedded -> one long table, once; my_segment_table_allocation_failed: false -> true',
                        'a biased segment address (allocation - segment_base(k) elements) is neither 0 nor 1',
                        'table entries do not change while the exception guard runs (they can only turn from NULL to allocated, which turns a hole into storage)',
                        'the callers of internal_loop_construct pass the range they claimed from my_size (start < end <= my_size) and a table that covers end (internal_grow: proved in grow.internal_grow)'],
    }


def tv(ctx):
    """Translation validation: the extracted C, compiled natively, against the real header on the same inputs."""
    obj = native.compile_obj(os.path.join(HERE, 'c11_tv.c'), os.path.join(ctx.work, 'c11_tv.o'), includes=[ctx.work, HERE])
    exe = native.build([os.path.join(HERE, 'c11_tv.cpp'), obj], os.path.join(ctx.work, 'c11_tv'), flags=['-fno-access-control'], includes=[ctx.work, HERE], link_tbb=True)
    n = 20000 if ctx.tier == 'quick' else 2000000
    rc, out = native.run([exe, str(ctx.seed), str(n)], timeout=600)
    if rc != 0 and 'MISMATCH' not in out:
        raise native.NativeError('tv run failed rc=%s: %s' % (rc, out[-500:]))
    mism = [l for l in out.splitlines() if l.startswith('MISMATCH')]
    m = re.search(r'cases=(\d+)', out)
    return {'cases': int(m.group(1)) if m else 0, 'mismatches': mism,
            'note': 'segment_index_of/segment_base/segment_size/number_of_elements_in_segment: extracted C vs real segment_table<int,...> on boundary + seeded random inputs',
            'samples': [l for l in out.splitlines() if l.startswith('SAMPLE')][:5]}


def replay(ctx, jobname, failure):
    """Replay a failed obligation on the real concurrent_vector."""
    exe = os.path.join(ctx.work, 'c11_replay')
    if not os.path.exists(exe):   # ctx.work is emptied at the start of every run: the program is built once per run from the current tree
        native.build([os.path.join(HERE, 'c11_replay.cpp')], exe + '.tmp', flags=['-fno-access-control'], link_tbb=True)
        os.replace(exe + '.tmp', exe)
    ins = failure.get('inputs', {}) or {}
    args = [exe, jobname] + ['%s=%s' % (k, v) for k, v in sorted(ins.items())]
    rc, out = native.run(args, timeout=60, mem=12 << 30)
    rep = {'cmd': ' '.join(args), 'rc': rc, 'output': out[-1500:], 'reproduced': False, 'detail': ''}
    m = re.search(r'(?<!NOT-)REPRODUCED (.*)', out)
    if m:
        rep['reproduced'] = True
        rep['detail'] = m.group(1)
        w = re.search(r'class=(\S+)', m.group(1))
        rep['witness_class'] = w.group(1) if w else None
    elif rc == 'timeout':
        rep['detail'] = 'replay timed out without a verdict'
    else:
        rep['detail'] = 'native search found no failing input'
    return rep


WRITE_RX = r'(\btable|my_embedded_table|my_segment_table|embedded_table|\w*segment_table)\b(\[[^\]]*\])?\.(store|compare_exchange_strong|compare_exchange_weak|exchange|fetch_\w+)\('
WRITERS = {   # closed world for the rely on table entries / my_segment_table: (signature, ctor?, role)
    CV: [(r'segment_type create_segment\( segment_table_type table, segment_index_type seg_index, size_type index \)', False, 'proved'),
         (r'segment_type nullify_segment\( segment_table_type table, size_type segment_index \)', False, 'not concurrent (clear / resize / destructor)'),
         (r'void internal_compact\(\)', False, 'not concurrent (shrink_to_fit)')],
    ST: [(r'void enable_segment\( segment_type& segment, segment_table_type table, segment_index_type seg_index, size_type index \)', False, 'proved'),
         (r'void extend_table_if_necessary\(segment_table_type& table, size_type start_index, size_type end_index\)', False, 'proved'),
         (r'segment_table\( const allocator_type& alloc = allocator_type\(\) \)', True, 'constructor'),
         (r'segment_table\( const segment_table& other \)', True, 'constructor'),
         (r'segment_table\( const segment_table& other, const allocator_type& alloc \)', True, 'constructor'),
         (r'segment_table\( segment_table&& other \)', True, 'constructor'),
         (r'segment_table\( segment_table&& other, const allocator_type& alloc \)', True, 'constructor'),
         (r'void clear_table\(\)', False, 'not concurrent (clear / destructor)'),
         (r'void internal_move\( segment_table&& other \)', False, 'not concurrent (move)'),
         (r'void internal_swap_fields\( segment_table& other \)', False, 'not concurrent (swap)'),
         (r'void zero_table\( segment_table_type table, size_type count \)', False, 'not concurrent (constructors / clear)')],
}


def closed_world_writers(rw):
    """every store / CAS on a table entry or on my_segment_table lies in a function that is under contract here or is documented as not
    concurrency-safe; a writer in any other function is an extraction break (the rely of the RG jobs would no longer be what the code does)"""
    from cxx2c import mask
    n = 0
    for rel, fns in WRITERS.items():
        spans = []
        for sig, ctor, role in fns:
            s = slice_block(rel, sig, ctor=ctor)
            spans.append((s.start, s.end, role))
        m = mask(load(rel))
        for h in re.finditer(WRITE_RX, m):
            if not any(a <= h.start() < b for a, b, _ in spans):
                ln = m.count('\n', 0, h.start()) + 1
                raise ExtractionBreak('%s:%d: a write to the segment table (%s) outside the functions the rely/guarantee proofs know (closed-world scan)' % (rel, ln, h.group(0)))
            n += 1
    rw.fired['closed-world scan: writers of table entries / my_segment_table'] = n


def extract_segments(ctx, sliced, fired):
    """create_segment / enable_segment / extend_table_if_necessary / allocate_long_table: rely/guarantee on the table entries and on my_segment_table."""
    rw = Rewriter('segrg')
    closed_world_writers(rw)
    # ---- concurrent_vector::create_segment
    s = slice_block(CV, r'segment_type create_segment\( segment_table_type table, segment_index_type seg_index, size_type index \)')
    sliced.append('%s:%d concurrent_vector::create_segment' % (s.rel, s.line))
    t = rw.sub(s.text, r'segment_type create_segment\( segment_table_type table, segment_index_type seg_index, size_type index \)',
               'static segment_type cv_create_segment(struct cv* self, segment_table_type table, segment_index_type seg_index, size_type index)', 1, 1, name='sig')
    t = rw.sub(t, r'segment_element_allocator_type segment_allocator\(base_type::get_allocator\(\)\);', 'RG_NOP();', 0, name='allocator object declaration -> RG_NOP')
    # try_call(body).on_exception(handler): the body is one allocation; its exception edge runs the handler and rethrows
    t = rw.sub(t, r'(?s)try_call\( \[&\] \{(.*?)\} \)\.on_exception\( \[&\] \{(.*?)\}\);', r'{ \1 if (EXC_PENDING()) { { \2 } EXC_RETHROW(NULL); } }', 0,
               name='try_call(body).on_exception(handler) -> { body; if (exception pending) { handler; rethrow } }')
    # try_call(body).on_completion(handler): handler runs on both edges; a throwing callee in the body jumps to it
    t = rw.sub(t, r'(?s)try_call\( \[&\] \{(.*?)\} \)\.on_completion\( \[&\] \{(.*?)\}\);', r'{ \1 on_completion_1: { \2 } if (EXC_PENDING()) EXC_RETHROW(NULL); }', 0,
               name='try_call(body).on_completion(handler) -> { body; on_completion: handler; if (exception pending) rethrow }')
    t = rw.sub(t, r'new_segment = segment_element_allocator_traits::allocate\(segment_allocator,\s*([^;]*?)\);(?=\s*new_segment -=)', r'ASSIGN_UNLESS_THROWN(new_segment, STUB_segment_allocate(self, \1)); if (EXC_PENDING()) goto on_completion_1;', 0,
               name='callee stub (allocator; may throw: the exception edge skips the rest of the body and runs the completion handler)')
    t = rw.sub(t, r'new_segment = segment_element_allocator_traits::allocate\(segment_allocator,\s*([^;]*?)\);', r'ASSIGN_UNLESS_THROWN(new_segment, STUB_segment_allocate(self, \1));', 0,
               name='callee stub (allocator; may throw: no assignment then)')
    t = rw.sub(t, r'segment_element_allocator_traits::deallocate\(segment_allocator, ([^;]*?)\);', r'STUB_segment_deallocate(self, \1);', 0, name='callee stub (deallocate)')
    t = rw.sub(t, r'spin_wait_while_eq\(([^;]*?), segment_type\(nullptr\)\);', r'SPIN_WAIT_WHILE_EQ_AT(\1, NULL);', 0, name='spin-wait')
    t = rw.sub(t, r'this->extend_table_if_necessary\(table,\s*0,\s*first_block_size\);', 'st_extend_table_if_necessary(self, &table, 0, first_block_size); EXC_PROPAGATE(NULL);', 0,
               name='method + ref-param (may throw: exception edge made explicit)')
    t = rw.atomics(t, ['my_first_block', 'table', 'my_embedded_table'], 1)
    t = rw.sub(t, r'this->(segment_size|segment_base|segment_allocation_failure_tag|pointers_per_embedded_table)\b', r'\1', 1, name='static-method / constant')
    t = rw.this_arrow(t, 1)
    t = rw.asserts(t, 0)
    t = rw.fcasts(t, TYPES)
    t = rw.std(t)
    t = rw.number_sites(t, 'cs', by_kind=True)
    t = rw.sub(t, r'\bATOMIC_(LOAD|STORE|CAS)_AT\((\w+), ((?:self->)?\w+)\[([^\]]*)\]', r'ENTRY_\1_AT(\2, \3, \4', 1, name='atomic op on table[i] -> ENTRY_<op>_AT(site, table, i, ...) (lvalue split into array and index)')
    t = rw.sub(t, r'\bSPIN_WAIT_WHILE_EQ_AT\(((?:self->)?\w+)\[([^\]]*)\]', r'ENTRY_SPIN_WAIT_WHILE_EQ_AT(\1, \2', 0, name='spin-wait on table[i] -> ENTRY_SPIN_WAIT_WHILE_EQ_AT(table, i, ...)')
    t = tag_loops(t, 'cs', rw)
    common.write(ctx, 'create_segment.inc', t + '\n')
    # ---- segment_table::enable_segment
    s = slice_block(ST, r'void enable_segment\( segment_type& segment, segment_table_type table, segment_index_type seg_index, size_type index \)')
    sliced.append('%s:%d segment_table::enable_segment' % (s.rel, s.line))
    t = rw.sub(s.text, r'void enable_segment\( segment_type& segment, segment_table_type table, segment_index_type seg_index, size_type index \)',
               'void st_enable_segment(struct cv* self, segment_type* segment_ref, segment_table_type table, segment_index_type seg_index, size_type index)', 1, 1, name='sig (reference parameter -> pointer)')
    t = rw.sub(t, r'(?<![\w.>])segment\b(?!_)', '(*segment_ref)', 1, name='ref-param')
    t = rw.sub(t, r'self\(\)->create_segment\(table, seg_index, index\);', 'cv_create_segment(self, table, seg_index, index); EXC_PROPAGATE();', 1, 1, name='CRTP call (may throw: exception edge made explicit)')
    t = rw.sub(t, r'self\(\)->deallocate_segment\(([^;]*?)\);', r'STUB_deallocate_segment(self, \1);', 0, name='CRTP call -> callee stub')
    t = rw.atomics(t, ['table'], 1)
    t = rw.sub(t, r'"If create_segment returned nullptr, the element should be stored in the table"', '"If create_segment returned nullptr the element should be stored in the table"', 0, name='(assert message: comma removed)')
    t = rw.asserts(t, 0)
    t = rw.std(t)
    t = rw.number_sites(t, 'en', by_kind=True)
    t = rw.sub(t, r'\bATOMIC_(LOAD|STORE|CAS)_AT\((\w+), ((?:self->)?\w+)\[([^\]]*)\]', r'ENTRY_\1_AT(\2, \3, \4', 1, name='atomic op on table[i] -> ENTRY_<op>_AT(site, table, i, ...)')
    common.write(ctx, 'enable_segment.inc', t + '\n')
    # ---- segment_table::extend_table_if_necessary + concurrent_vector::allocate_long_table
    s = slice_block(ST, r'void extend_table_if_necessary\(segment_table_type& table, size_type start_index, size_type end_index\)')
    sliced.append('%s:%d segment_table::extend_table_if_necessary' % (s.rel, s.line))
    t = rw.sub(s.text, r'void extend_table_if_necessary\(segment_table_type& table, size_type start_index, size_type end_index\)',
               'void st_extend_table_if_necessary(struct cv* self, segment_table_type* table_ref, size_type start_index, size_type end_index)', 1, 1, name='sig (reference parameter -> pointer)')
    t = rw.sub(t, r'(?s)try_call\(\[&\] \{(.*?)\}\)\.on_exception\(\[&\] \{(.*?)\}\);', r'{ \1 on_exception_1: if (EXC_PENDING()) { { \2 } EXC_RETHROW(); } }', 0,
               name='try_call(body).on_exception(handler) -> { body; on_exception: if (exception pending) { handler; rethrow } }')
    t = rw.sub(t, r'self\(\)->allocate_long_table\(my_embedded_table, start_index\);', 'cv_allocate_long_table(self, self->my_embedded_table, start_index); if (EXC_PENDING()) goto on_exception_1;', 0,
               name='CRTP call (may throw: the exception edge skips the rest of the body)')
    t = rw.sub(t, r'destroy_and_deallocate_table\(([^;]*?)\);', r'STUB_destroy_and_deallocate_table(self, \1);', 0, name='callee stub (destroy_and_deallocate_table)')
    t = rw.sub(t, r'throw_exception\(exception_id::bad_alloc\);', '{ EXC_THROW(bad_alloc); return; }', 0, name='throw -> pending-exception flag + return')
    t = rw.sub(t, r'atomic_backoff backoff;', 'RG_NOP();', 0, name='drop-call->RG_NOP')
    t = rw.sub(t, r'backoff\.pause\(\);', 'RG_NOP();', 0, name='drop-call->RG_NOP')
    t = rw.sub(t, r'(?<![\w.>])table\b(?!_ref)', '(*table_ref)', 1, name='ref-param')
    t = rw.atomics(t, ['my_segment_table', 'my_segment_table_allocation_failed'], 1)
    t = rw.fields(t, ['my_segment_table', 'my_segment_table_allocation_failed', 'my_embedded_table'], 1)
    t = rw.sub(t, r'self->self->', 'self->', 0, name='(idempotence)')
    t = rw.std(t)
    t = rw.number_sites(t, 'ext', by_kind=True)
    t = tag_loops(t, 'ext', rw, expect=1)
    ext = t
    s = slice_block(CV, r'segment_table_type allocate_long_table\( const typename base_type::atomic_segment\* embedded_table, size_type start_index \)')
    sliced.append('%s:%d concurrent_vector::allocate_long_table' % (s.rel, s.line))
    t = rw.sub(s.text, r'segment_table_type allocate_long_table\( const typename base_type::atomic_segment\* embedded_table, size_type start_index \)',
               'static segment_table_type cv_allocate_long_table(struct cv* self, segment_table_type embedded_table, size_type start_index)', 1, 1, name='sig')
    t = rw.sub(t, r'spin_wait_while_eq\(embedded_table\[i\], segment_type\(nullptr\)\);', 'SPIN_WAIT_WHILE_EQ_AT(embedded_table[i], NULL);', 0, name='spin-wait')
    t = rw.sub(t, r'this->get_table\(\)', 'ATOMIC_LOAD(self->my_segment_table)', 0, name='method get_table() -> atomic load of my_segment_table')
    t = rw.sub(t, r'segment_table_allocator_traits::allocate\(base_type::get_allocator\(\), ([^;]*?)\);', r'STUB_table_allocate(self, \1); EXC_PROPAGATE(NULL);', 0, name='callee stub (allocator; may throw: exception edge made explicit)')
    t = rw.sub(t, r'segment_table_allocator_traits::construct\(base_type::get_allocator\(\), &([^;,]*?),\s*([^;]*?)\);', r'STUB_construct_entry(&\1, \2);', 0, name='callee stub (construct an atomic entry = plain store into the private table)')
    t = rw.atomics(t, ['embedded_table'], 0)
    t = rw.sub(t, r'this->(segment_base|embedded_table_size|pointers_per_long_table|pointers_per_embedded_table)\b', r'\1', 1, name='static-method / constant')
    t = rw.asserts(t, 0)
    t = rw.fcasts(t, TYPES)
    t = rw.std(t)
    t = rw.number_sites(t, 'alt', by_kind=True)
    t = tag_loops(t, 'alt', rw, expect=3)
    common.write(ctx, 'extend_table.inc', t + '\n' + ext + '\n')
    # ---- concurrent_vector::internal_grow / internal_emplace_back
    s = slice_block(CV, r'iterator internal_grow\( size_type start_idx, size_type end_idx, const Args&\.\.\. args \)')
    sliced.append('%s:%d concurrent_vector::internal_grow' % (s.rel, s.line))
    t = rw.sub(s.text, r'iterator internal_grow\( size_type start_idx, size_type end_idx, const Args&\.\.\. args \)',
               'iterator cv_internal_grow_body(struct cv* self, size_type start_idx, size_type end_idx)', 1, 1, name='sig + bind-pack')
    t = rw.sub(t, r'this->assign_first_block_if_necessary\(([^;]*?)\);', r'st_assign_first_block_if_necessary(self, \1);', 0, name='method')
    t = rw.sub(t, r'this->get_table\(\)', 'ATOMIC_LOAD(self->my_segment_table)', 0, name='method get_table() -> atomic load of my_segment_table')
    t = rw.sub(t, r'this->extend_table_if_necessary\(table, ([^;]*?)\);', r'st_extend_table_if_necessary(self, &table, \1); EXC_PROPAGATE(ITER(self, 0));', 0, name='method + ref-param (may throw)')
    t = rw.sub(t, r'base_type::enable_segment\(segment, ([^;]*?)\);', r'st_enable_segment(self, &segment, \1); EXC_PROPAGATE(ITER(self, 0));', 0, name='method + ref-param (may throw)')
    t = rw.sub(t, r'internal_loop_construct\(([^;]*?), args\.\.\.\);', r'STUB_internal_loop_construct(self, \1); EXC_PROPAGATE(ITER(self, 0));', 0, name='method + bind-pack (may throw)')
    t = rw.sub(t, r'return iterator\(\*this, ([^;,]*?), &base_type::template internal_subscript<false>\(([^;]*?)\)\);', r'return ITER2(self, \1, st_internal_subscript(self, \2, false));', 1, 1, name='iterator-ctor + method+template-arg')
    t = rw.atomics(t, ['my_first_block', 'table'], 1)
    t = rw.sub(t, r'this->(segment_index_of|segment_base)\(', r'\1(', 1, name='static-method')
    t = rw.this_arrow(t, 0)
    t = rw.fcasts(t, TYPES)
    t = rw.std(t)
    grow = t
    s = slice_block(CV, r'iterator internal_emplace_back\( Args&&\.\.\. args \)')
    sliced.append('%s:%d concurrent_vector::internal_emplace_back (push_back / emplace_back)' % (s.rel, s.line))
    t = rw.sub(s.text, r'iterator internal_emplace_back\( Args&&\.\.\. args \)', 'iterator cv_internal_emplace_back(struct cv* self)', 1, 1, name='sig + bind-pack')
    gm = re.search(r'(?s)auto value_guard = make_raii_guard\(\[&\] \{(.*?)\}\);', t)
    if not gm:
        raise ExtractionBreak('internal_emplace_back: value_guard = make_raii_guard([&]{...}) not found')
    t = rw.sub(t, r'(?s)auto value_guard = make_raii_guard\(\[&\] \{.*?\}\);', 'bool value_guard_active = true; /* raii_guard: body inlined at the exception edge and at scope exit */', 1, 1, name='raii guard object -> flag')
    gbody = gm.group(1).strip()
    t = rw.sub(t, r'value_guard\.dismiss\(\);', 'value_guard_active = false;', 0, name='guard.dismiss()')
    t = rw.sub(t, r'segment_table_allocator_traits::construct\(base_type::get_allocator\(\), ([^;]*?), std::forward<Args>\(args\)\.\.\.\);',
               lambda m: 'STUB_construct(self, %s); if (EXC_PENDING()) { if (value_guard_active) { %s } EXC_RETHROW(ITER(self, 0)); }' % (m.group(1), gbody), 0,
               name='callee stub (element constructor; may throw: the exception edge runs the active guard body and leaves)')
    t = rw.sub(t, r'return iterator\(\*this, ([^;,]*?), ([^;,]*?)\);', lambda m: 'if (value_guard_active) { %s } /* ~raii_guard */ return ITER2(self, %s, %s);' % (gbody, m.group(1), m.group(2)), 1, 1, name='iterator-ctor + raii guard destructor at scope exit')
    t = rw.sub(t, r'zero_unconstructed_elements\(', 'STUB_zero_unconstructed_elements(', 0, name='memset stub')
    t = rw.sub(t, r'auto element_address = &base_type::template internal_subscript<true>\(([^;]*?)\);', r'value_type* element_address = STUB_subscript_growing(self, \1); EXC_PROPAGATE(ITER(self, 0));', 0,
               name='callee stub (internal_subscript<true>; may throw bad_alloc)')
    t = rw.sub(t, r'this->assign_first_block_if_necessary\(([^;]*?)\);', r'st_assign_first_block_if_necessary(self, \1);', 0, name='method')
    t = rw.atomics(t, ['my_size'], 0)
    t = rw.this_arrow(t, 0)
    t = rw.std(t)
    t = rw.number_sites(t, 'eb', by_kind=True)
    # ---- reserve: concurrent_vector::reserve + segment_table::reserve
    s = slice_block(CV, r'void reserve\( size_type n \)')
    sliced.append('%s:%d concurrent_vector::reserve' % (s.rel, s.line))
    r1 = rw.sub(s.text, r'void reserve\( size_type n \)', 'void cv_reserve(struct cv* self, size_type n)', 1, 1, name='sig')
    r1 = rw.sub(r1, r'tbb::detail::throw_exception\(exception_id::reservation_length_error\);', '{ EXC_THROW(reservation_length_error); return; }', 0, name='throw -> pending-exception flag + return')
    r1 = rw.sub(r1, r'max_size\(\)', 'cv_max_size(self)', 0, name='method')
    r1 = rw.sub(r1, r'this->assign_first_block_if_necessary\(([^;]*?)\);', r'st_assign_first_block_if_necessary(self, \1);', 0, name='method')
    r1 = rw.sub(r1, r'base_type::reserve\(n\);', 'st_reserve(self, n);', 0, name='base method')
    r1 = rw.sub(r1, r'this->(segment_index_of)\(', r'\1(', 0, name='static-method')
    s = slice_block(ST, r'void reserve\( size_type n \)')
    sliced.append('%s:%d segment_table::reserve' % (s.rel, s.line))
    r2 = rw.sub(s.text, r'void reserve\( size_type n \)', 'void st_reserve(struct cv* self, size_type n)', 1, 1, name='sig')
    r2 = rw.sub(r2, r'allocator_traits_type::max_size\(my_segment_table_allocator\)', 'cv_max_size(self)', 0, name='allocator max_size -> stub')
    r2 = rw.sub(r2, r'throw_exception\(exception_id::reservation_length_error\);', '{ EXC_THROW(reservation_length_error); return; }', 0, name='throw -> pending-exception flag + return')
    r2 = rw.sub(r2, r'internal_subscript<true>\(([^;]*?)\);', r'STUB_subscript_growing(self, \1); EXC_PROPAGATE();', 0, name='callee stub (internal_subscript<true>; may throw)')
    r2 = rw.atomics(r2, ['my_size'], 1)
    r2 = rw.fields(r2, ['my_size'], 1)
    r2 = tag_loops(r2, 'reserve', rw, expect=1)
    common.write(ctx, 'reserve.inc', rw.std(r2) + '\n' + rw.std(r1) + '\n')
    common.write(ctx, 'grow2.inc', grow + '\n')
    common.write(ctx, 'emplace_back.inc', t + '\n')
    fired['segrg'] = rw.fired
