"""C11 -- concurrent_vector growth hands out disjoint ranges and never moves elements."""
import os
import sys
HERE = os.path.dirname(os.path.abspath(__file__))
sys.path.insert(0, os.path.join(HERE, '..'))
sys.path.insert(0, os.path.join(HERE, '..', '..', 'tools'))
import common
import native
from cxx2c import Rewriter, slice_block, slice_stmt, tag_loops, ExtractionBreak, load
from prove import Job
import re
import json

ST = 'include/oneapi/tbb/detail/_segment_table.h'
CV = 'include/oneapi/tbb/concurrent_vector.h'
TYPES = ['size_type', 'segment_index_type', 'uintptr_t', 'size_t']


def require(rel, pat, what):
    if not re.search(pat, load(rel)):
        raise ExtractionBreak('%s: expected declaration not found (%s): %r' % (rel, what, pat))


def extract(ctx):
    sliced, fired = [], {}
    log2_txt, f = common.log2_c(ctx, sliced)
    fired['log2'] = f
    common.write(ctx, 'log2.inc', log2_txt)

    # layout facts the harness struct relies on (member order of segment_table)
    require(ST, r'std::atomic<segment_table_type> my_segment_table;\s*atomic_segment my_embedded_table\[pointers_per_embedded_table\];\s*(//[^\n]*\n\s*)*std::atomic<size_type> my_first_block;\s*(//[^\n]*\n\s*)*std::atomic<size_type> my_size;',
            'segment_table member order: my_segment_table, my_embedded_table[], my_first_block, my_size')
    require(ST, r'static constexpr size_type pointers_per_long_table = sizeof\(size_type\) \* 8;', 'pointers_per_long_table')
    require(CV, r'static constexpr std::size_t embedded_table_num_segments = 3;', 'embedded_table_num_segments == 3')
    require(CV, r'static constexpr bool allow_table_extending = true;', 'allow_table_extending')
    require(ST, r'const segment_type segment_allocation_failure_tag = reinterpret_cast<segment_type>\(1\);', 'failure tag')
    require(ST, r'static constexpr size_type embedded_table_size = segment_size\(pointers_per_embedded_table\);', 'embedded_table_size')

    # ---- segment arithmetic ------------------------------------------------
    rw = Rewriter('seg')
    out = []
    for name in ('segment_index_of', 'segment_base', 'segment_size'):
        s = slice_block(ST, r'static constexpr \w+ %s\( size_type index \)' % name)
        sliced.append('%s:%d %s' % (s.rel, s.line, name))
        t = rw.sub(s.text, r'static constexpr (\w+) %s\( size_type index \)' % name, r'static \1 %s(size_type index)' % name, 1, 1, name='sig')
        t = rw.sub(t, r'tbb::detail::log2\(', 'tbb_log2(', 0, name='ns-strip')
        t = rw.fcasts(t, TYPES)
        out.append(t)
    common.write(ctx, 'seg.inc', '\n'.join(out) + '\n')
    fired['seg'] = rw.fired

    # ---- table queries (segment_table) -------------------------------------
    rw = Rewriter('table')
    out = []
    s = slice_block(ST, r'size_type number_of_segments\( segment_table_type table \) const')
    sliced.append('%s:%d number_of_segments' % (s.rel, s.line))
    t = rw.sub(s.text, r'size_type number_of_segments\( segment_table_type table \) const', 'static size_type st_number_of_segments(const struct cv* self, segment_table_type table)', 1, 1, name='sig')
    t = rw.fields(t, ['my_embedded_table'], 1)
    out.append(t)
    for name, ret in (('capacity', r'size_type capacity\(\) const noexcept'),
                      ('find_last_allocated_segment', r'size_type find_last_allocated_segment\( segment_table_type table \) const noexcept')):
        s = slice_block(ST, ret)
        sliced.append('%s:%d %s' % (s.rel, s.line, name))
        if name == 'capacity':
            t = rw.sub(s.text, ret, 'static size_type st_capacity(const struct cv* self)', 1, 1, name='sig')
            t = rw.sub(t, r'get_table\(\)', 'st_get_table(self)', 1, 1, name='method')
        else:
            t = rw.sub(s.text, ret, 'static size_type st_find_last_allocated_segment(const struct cv* self, segment_table_type table)', 1, 1, name='sig')
        t = rw.sub(t, r'number_of_segments\(', 'st_number_of_segments(self, ', 1, 1, name='method')
        t = rw.atomics(t, ['table'], 1)
        t = rw.ptr_rel(t, 'segment_allocation_failure_tag', 1)
        t = tag_loops(t, name, rw, expect=1)
        out.append(t)
    common.write(ctx, 'table.inc', '\n'.join(out) + '\n')
    fired['table'] = rw.fired

    # ---- subscript: base internal_subscript<allow> and at() ------------------
    rw = Rewriter('subscript')
    s = slice_block(ST, r'value_type& internal_subscript\( size_type index \)')
    sliced.append('%s:%d segment_table::internal_subscript<allow_out_of_range_access>' % (s.rel, s.line))
    t = rw.sub(s.text, r'value_type& internal_subscript\( size_type index \)',
               'value_type* st_internal_subscript(struct cv* self, size_type index, const bool allow_out_of_range_access)', 1, 1,
               name='sig (ref-return -> pointer; template bool -> parameter)')
    t = rw.sub(t, r'derived_type::allow_table_extending', 'cv_allow_table_extending', 1, 1, name='bind-template(derived_type)')
    t = rw.atomics(t, ['my_segment_table', 'table'], 3)
    t = rw.fields(t, ['my_segment_table'], 1)
    t = rw.sub(t, r'extend_table_if_necessary\(table,', 'st_extend_table_if_necessary(self, &table,', 1, 1, name='method+ref-param')
    t = rw.sub(t, r'enable_segment\(segment,', 'st_enable_segment(self, &segment,', 1, 1, name='method+ref-param')
    t = rw.sub(t, r'throw_exception\(exception_id::(\w+)\);', r'VERIF_THROW(\1);', 1, 1, name='throw')
    t = rw.sub(t, r'return segment\[index\];', 'return &segment[index];', 1, 1, name='ref-return')
    t = rw.asserts(t, 1)
    t = rw.std(t)
    sub_base = t
    s = slice_block(CV, r'(?<!const_)reference internal_subscript_with_exceptions\( size_type index \)')
    sliced.append('%s:%d concurrent_vector::internal_subscript_with_exceptions (at)' % (s.rel, s.line))
    t = rw.sub(s.text, r'reference internal_subscript_with_exceptions\( size_type index \)',
               'value_type* cv_internal_subscript_with_exceptions(struct cv* self, size_type index)', 1, 1, name='sig')
    t = rw.this_arrow(t, 3)
    t = rw.atomics(t, ['my_size', 'my_segment_table'], 2)
    t = rw.sub(t, r'tbb::detail::throw_exception\(exception_id::(\w+)\);', r'VERIF_THROW(\1);', 3, 3, name='throw')
    t = rw.sub(t, r'self->segment_index_of\(', 'segment_index_of(', 1, 1, name='static-method')
    t = rw.sub(t, r'base_type::number_of_segments\(table\)', 'st_number_of_segments(self, table)', 1, 1, name='method')
    t = rw.sub(t, r'self->segment_allocation_failure_tag', 'segment_allocation_failure_tag', 1, 1, name='field-const')
    t = rw.ptr_rel(t, 'segment_allocation_failure_tag', 1)
    t = rw.sub(t, r'return base_type::template internal_subscript<false>\(index\);',
               'return st_internal_subscript(self, index, false);', 1, 1, name='method+template-arg')
    at_txt = t
    s = slice_block(CV, r'(?<!const_)reference internal_subscript\( size_type index \)')
    sliced.append('%s:%d concurrent_vector::internal_subscript' % (s.rel, s.line))
    t = rw.sub(s.text, r'reference internal_subscript\( size_type index \)', 'value_type* cv_internal_subscript(struct cv* self, size_type index)', 1, 1, name='sig')
    t = rw.this_arrow(t, 1)
    t = rw.atomics(t, ['my_size'], 1)
    t = rw.asserts(t, 1)
    t = rw.sub(t, r'return base_type::template internal_subscript<false>\(index\);', 'return st_internal_subscript(self, index, false);', 1, 1, name='method+template-arg')
    common.write(ctx, 'subscript.inc', sub_base + '\n' + at_txt + '\n' + t + '\n')
    fired['subscript'] = rw.fired

    # ---- growth ---------------------------------------------------------------
    rw = Rewriter('grow')
    s = slice_block(CV, r'iterator internal_grow_to_at_least\( size_type new_size, const Args&\.\.\. args \)')
    sliced.append('%s:%d concurrent_vector::internal_grow_to_at_least' % (s.rel, s.line))
    t = rw.sub(s.text, r'iterator internal_grow_to_at_least\( size_type new_size, const Args&\.\.\. args \)',
               'iterator cv_internal_grow_to_at_least(struct cv* self, size_type new_size)', 1, 1, name='sig + bind-pack(empty)')
    t = rw.this_arrow(t, 8)
    t = rw.sub(t, r'spin_wait_while_eq\(self->my_segment_table, self->my_embedded_table\);', 'SPIN_WAIT_WHILE_EQ(self->my_segment_table, self->my_embedded_table);', 1, 1, name='spin-wait')
    t = rw.sub(t, r'self->get_table\(\)\[seg_idx\]\.load\([^)]*\)', 'ATOMIC_LOAD(cv_get_table(self)[seg_idx])', 2, 2, name='atomic-load(table entry)')
    t = rw.sub(t, r'self->get_table\(\)', 'cv_get_table(self)', 1, 1, name='method')
    t = rw.atomics(t, ['my_size'], 2)
    t = rw.sub(t, r'return iterator\(\*this, 0\);', 'return ITER(self, 0);', 1, 1, name='iterator-ctor')
    t = rw.sub(t, r'return iterator\(\*this, size\(\)\);', 'return ITER(self, cv_size(self));', 1, 1, name='iterator-ctor')
    t = rw.sub(t, r'return internal_grow\(old_size, new_size, args\.\.\.\);', 'return cv_internal_grow(self, old_size, new_size);', 1, 1, name='method + bind-pack(empty)')
    t = rw.sub(t, r'self->segment_index_of\(', 'segment_index_of(', 1, 1, name='static-method')
    t = rw.sub(t, r'self->pointers_per_embedded_table', 'pointers_per_embedded_table', 1, 1, name='field-const')
    t = rw.sub(t, r'atomic_backoff backoff\(true\);', 'RG_NOP();', 1, 1, name='drop-call->RG_NOP')
    t = rw.sub(t, r'backoff\.pause\(\);', 'RG_NOP();', 1, 1, name='drop-call->RG_NOP')
    t = rw.sub(t, r'(?s)#if TBB_USE_DEBUG.*?#endif', '', 1, 1, name='drop #if TBB_USE_DEBUG block')
    t = rw.casts(t, 0)
    t = rw.fcasts(t, TYPES + ['segment_index_type'])
    t = rw.std(t)
    t = tag_loops(t, 'g2al', rw, expect=3)
    g2al = t
    s = slice_block(CV, r'iterator internal_grow_by_delta\( size_type delta, const Args&\.\.\. args \)')
    sliced.append('%s:%d concurrent_vector::internal_grow_by_delta' % (s.rel, s.line))
    t = rw.sub(s.text, r'iterator internal_grow_by_delta\( size_type delta, const Args&\.\.\. args \)',
               'iterator cv_internal_grow_by_delta(struct cv* self, size_type delta)', 1, 1, name='sig + bind-pack(empty)')
    t = rw.this_arrow(t, 1)
    t = rw.atomics(t, ['my_size'], 1)
    t = rw.sub(t, r'return end\(\);', 'return ITER(self, cv_size(self));', 1, 1, name='iterator-ctor')
    t = rw.sub(t, r'return internal_grow\(start_idx, end_idx, args\.\.\.\);', 'return cv_internal_grow(self, start_idx, end_idx);', 1, 1, name='method + bind-pack(empty)')
    t = rw.fcasts(t, TYPES)
    t = rw.number_sites(t, 'gbd', expect=1)
    gbd = t
    s = slice_block(CV, r'size_type number_of_elements_in_segment\( segment_index_type seg_index \)')
    sliced.append('%s:%d concurrent_vector::number_of_elements_in_segment' % (s.rel, s.line))
    t = rw.sub(s.text, r'size_type number_of_elements_in_segment\( segment_index_type seg_index \)',
               'size_type cv_number_of_elements_in_segment(struct cv* self, segment_index_type seg_index)', 1, 1, name='sig')
    t = rw.this_arrow(t, 3)
    t = rw.atomics(t, ['my_size'], 1)
    t = rw.sub(t, r'self->(segment_base|segment_size)\(', r'\1(', 2, name='static-method')
    t = rw.std(t)
    nes = t
    s = slice_block(ST, r'void assign_first_block_if_necessary\(segment_index_type index\)')
    sliced.append('%s:%d segment_table::assign_first_block_if_necessary' % (s.rel, s.line))
    t = rw.sub(s.text, r'void assign_first_block_if_necessary\(segment_index_type index\)',
               'void st_assign_first_block_if_necessary(struct cv* self, segment_index_type index)', 1, 1, name='sig')
    t = rw.this_arrow(t, 2)
    t = rw.atomics(t, ['my_first_block'], 2)
    t = rw.number_sites(t, 'afb', expect=2)
    afb = t
    common.write(ctx, 'grow.inc', g2al + '\n')
    common.write(ctx, 'nes.inc', nes + '\n')
    common.write(ctx, 'gbd.inc', gbd + '\n')
    common.write(ctx, 'afb.inc', afb + '\n')
    fired['grow'] = rw.fired
    return sliced, fired


def build(ctx):
    sliced, fired = extract(ctx)
    J = lambda *a, **k: Job(*a, cfile=os.path.join(HERE, 'c11.c'), **k)
    jobs = [
        J('seg.bijection', entry='h_seg_bijection', route='LF', target='segment_table::segment_index_of/segment_base/segment_size', source=ST),
        J('seg.tiling', entry='h_seg_tiling', route='LF', target='segment_table::segment_base/segment_size', source=ST),
        J('table.number_of_segments', entry='h_number_of_segments', route='LF', target='segment_table::number_of_segments', source=ST),
        J('table.capacity', entry='h_capacity', route='LW', unwind=66, target='segment_table::capacity', source=ST),
        J('table.find_last_allocated_segment', entry='h_find_last', route='LW', unwind=66, target='segment_table::find_last_allocated_segment', source=ST),
        J('at.bounds', entry='h_at', route='LF', target='concurrent_vector::internal_subscript_with_exceptions + segment_table::internal_subscript<false>', source=CV),
        J('subscript.address', entry='h_subscript', route='LF', target='concurrent_vector::internal_subscript + segment_table::internal_subscript<false>', source=CV),
        J('g2al.decision', entry='h_g2al', route='LC', loops=True, nloops=3, target='concurrent_vector::internal_grow_to_at_least', source=CV),
        J('gbd.disjoint', entry='h_gbd', route='RG', defines=['RG_MODE'], target='concurrent_vector::internal_grow_by_delta', source=CV),
        J('nes.count', entry='h_nes', route='LF', target='concurrent_vector::number_of_elements_in_segment', source=CV),
        J('afb.once', entry='h_afb', route='RG', defines=['RG_MODE'], target='segment_table::assign_first_block_if_necessary', source=ST),
    ]
    return {
        'jobs': jobs, 'sliced': sliced, 'fired': fired,
        'trusted': ['__builtin_clzl as modelled by CBMC (cross-checked natively against the real header in TV)',
                    'concurrent_vector::internal_grow (stub that records its arguments; its body -- lambdas, try_call -- is out of reach)',
                    'segment_table::extend_table_if_necessary / enable_segment (declared, unreachable with allow_out_of_range_access=false)',
                    'sequentially consistent atomics', 'cxx2c rewriter up to translation validation'],
        'drops': ['template headers (value_type:=int, Args...:=empty pack)', 'references -> pointers', 'std::atomic<T> -> T via ATOMIC_* macros, memory orders dropped',
                  '__TBB_ASSERT -> proof obligation', 'throw_exception -> VERIF_THROW marker + path cut', 'atomic_backoff -> RG_NOP()',
                  '#if TBB_USE_DEBUG block of internal_grow_to_at_least', 'iterator construction -> ITER(vector, index) record'],
        'not_decided': ['waits for segments allocated by other threads', 'embedded->long table switch race (extend_table_if_necessary: lambdas, try_call)',
                        'create_segment / internal_loop_construct / internal_grow bodies (lambdas, RAII guards, exceptions)',
                        'constructor-throws zero-fill', 'termination of the spin loops'],
        'assumptions': ['atomics are sequentially consistent', 'value_type is a trivially copyable type (int)',
                        'RG rely for my_size during concurrent growth: my_size only grows (resize/clear/shrink are documented as not concurrency-safe)',
                        'my_size does not wrap around 2^64'],
    }


def tv(ctx):
    """Translation validation: the extracted C, compiled natively, against the real header on the same inputs."""
    obj = native.compile_obj(os.path.join(HERE, 'c11_tv.c'), os.path.join(ctx.work, 'c11_tv.o'), includes=[ctx.work, HERE])
    exe = native.build([os.path.join(HERE, 'c11_tv.cpp'), obj], os.path.join(ctx.work, 'c11_tv'), flags=['-fno-access-control'], includes=[ctx.work, HERE], link_tbb=True)
    n = 20000 if ctx.tier == 'quick' else 2000000
    rc, out = native.run([exe, str(ctx.seed), str(n)], timeout=600)
    if rc != 0 and 'MISMATCH' not in out:
        raise native.NativeError('tv run failed rc=%s: %s' % (rc, out[-500:]))
    mism = [l for l in out.splitlines() if l.startswith('MISMATCH')]
    m = re.search(r'cases=(\d+)', out)
    return {'cases': int(m.group(1)) if m else 0, 'mismatches': mism,
            'note': 'segment_index_of/segment_base/segment_size/number_of_elements_in_segment: extracted C vs real segment_table<int,...> on boundary + seeded random inputs',
            'samples': [l for l in out.splitlines() if l.startswith('SAMPLE')][:5]}


def replay(ctx, jobname, failure):
    """Replay a failed obligation on the real concurrent_vector."""
    exe = native.build([os.path.join(HERE, 'c11_replay.cpp')], os.path.join(ctx.work, 'c11_replay'), flags=['-fno-access-control'], link_tbb=True)
    ins = failure.get('inputs', {}) or {}
    args = [exe, jobname] + ['%s=%s' % (k, v) for k, v in sorted(ins.items())]
    rc, out = native.run(args, timeout=60, mem=12 << 30)
    rep = {'cmd': ' '.join(args), 'rc': rc, 'output': out[-1500:], 'reproduced': False, 'detail': ''}
    m = re.search(r'REPRODUCED (.*)', out)
    if m:
        rep['reproduced'] = True
        rep['detail'] = m.group(1)
        w = re.search(r'class=(\S+)', m.group(1))
        rep['witness_class'] = w.group(1) if w else None
    elif rc == 'timeout':
        rep['detail'] = 'replay timed out without a verdict'
    else:
        rep['detail'] = 'native search found no failing input'
    return rep
