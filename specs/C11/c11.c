/* C11 harnesses.  The *.inc files are generated from /repo on every run by specs/C11/spec.py. */
#include "verif.h"
#include "cv.h"

/* ---------------------------------------------------------------- sequential atomics for LF/LC targets */
#if defined(G2W)
/* grow_to_at_least's wait: a table entry that is still NULL may be published by its owner at any moment (NULL -> non-null, once); applied when the entry is read */
void *g2w_touch(void *p);
#define ATOMIC_LOAD(x) (*(__typeof__(&(x)))g2w_touch(&(x)))
static bool cas_sz(size_t *f, size_t *e, size_t d) { if (*f == *e) { *f = d; return true; } *e = *f; return false; }
#define ATOMIC_CAS(f, e, d) cas_sz(&(f), e, d)
#elif !defined(RG_MODE)
#define ATOMIC_LOAD(x) (x)
static bool cas_sz(size_t *f, size_t *e, size_t d) { if (*f == *e) { *f = d; return true; } *e = *f; return false; }
#define ATOMIC_CAS(f, e, d) cas_sz(&(f), e, d)
#endif
/* unrelated pointers compared as integers (what the compiled code does) */
#define PTR_LE(a, b) ((uintptr_t)(a) <= (uintptr_t)(b))
#define PTR_GT(a, b) ((uintptr_t)(a) > (uintptr_t)(b))

#include "log2.inc"
#include "seg.inc"

/* ---------------------------------------------------------------- segment arithmetic (all 2^64 indices) */
size_t IN_i, IN_j, IN_k;
void h_seg_bijection(void) {
    size_t i = IN_i = nondet_size_t();
    size_t k = segment_index_of(i);
    OBLIGATION(k < pointers_per_long_table, "C11.seg: segment index < 64 for every index");
    OBLIGATION(segment_base(k) <= i, "C11.seg: base(index_of(i)) <= i");
    OBLIGATION(i - segment_base(k) < segment_size(k), "C11.seg: i lies inside segment index_of(i)");
    size_t j = IN_j = nondet_size_t();
    __CPROVER_assume(j < pointers_per_long_table);
    if (segment_base(j) <= i && i - segment_base(j) < segment_size(j))
        OBLIGATION(j == k, "C11.seg: no other segment contains i (segments are disjoint)");
    VACUITY_END();
}
void h_seg_tiling(void) {
    size_t k = IN_k = nondet_size_t();
    __CPROVER_assume(k < pointers_per_long_table);
    OBLIGATION(segment_base(0) == 0, "C11.seg: first segment starts at 0");
    OBLIGATION(segment_size(k) >= 2, "C11.seg: every segment is non-empty");
    if (k + 1 < pointers_per_long_table)
        OBLIGATION(segment_base(k + 1) == segment_base(k) + segment_size(k), "C11.seg: segments tile the index space without gap or overlap");
    else
        OBLIGATION(segment_base(k) + (segment_size(k) - 1) == SIZE_MAX, "C11.seg: last segment ends at SIZE_MAX");
    OBLIGATION(segment_index_of(segment_base(k)) == (k == 0 ? 0 : k), "C11.seg: index_of(base(k)) == k");
    VACUITY_END();
}

/* ---------------------------------------------------------------- table queries */
static segment_table_type st_get_table(const struct cv *self) { return self->my_segment_table; }
#define LOOP_capacity_1
#define LOOP_find_last_allocated_segment_1
#include "table.inc"

static segment_type g_emb[3];
static segment_type g_long[64];
static void mk_vector(struct cv *v, bool embedded) {
    v->my_embedded_table = g_emb; /* the embedded array is its own object so that an index >= 3 is out of bounds */
    v->my_segment_table = embedded ? g_emb : g_long;
    v->my_first_block = nondet_size_t();
    v->my_size = nondet_size_t();
    v->my_segment_table_allocation_failed = nondet_bool();
}
/* table contents: every entry unallocated (NULL), failed (tag) or some pointer -- statics are zero-initialised, so this must be explicit */
static void any_tables(void) {
    for (int s = 0; s < 64; ++s) {
        g_long[s] = nondet_bool() ? segment_allocation_failure_tag : (segment_type)nondet_ptr();
        if (s < 3) g_emb[s] = nondet_bool() ? segment_allocation_failure_tag : (segment_type)nondet_ptr();
    }
}
bool IN_emb;
void h_number_of_segments(void) {
    struct cv v; mk_vector(&v, IN_emb = nondet_bool());
    size_t n = st_number_of_segments(&v, v.my_segment_table);
    OBLIGATION(n == (IN_emb ? 3 : 64), "C11.table: number_of_segments is the real length of the active table");
    VACUITY_END();
}
static bool valid_seg(segment_type s) { return (uintptr_t)s > (uintptr_t)1; }
void h_capacity(void) {
    struct cv v; mk_vector(&v, IN_emb = nondet_bool()); any_tables();
    __CPROVER_assume(!valid_seg(g_long[63]));   /* vectors of less than 2^63 elements: segment 63 is never allocated */
    size_t n = IN_emb ? 3 : 64, first_bad = n;
    for (size_t s = 0; s < n; ++s) if (!valid_seg(v.my_segment_table[s])) { first_bad = s; break; }
    size_t c = st_capacity(&v);
    OBLIGATION(c == segment_base(first_bad), "C11.table: capacity == base of the first unallocated/failed segment");
    VACUITY_END();
}
void h_find_last(void) {
    struct cv v; mk_vector(&v, IN_emb = nondet_bool()); any_tables();
    size_t n = IN_emb ? 3 : 64, last = 0;
    for (size_t s = 0; s < n; ++s) if (valid_seg(v.my_segment_table[s])) last = s + 1;
    size_t c = st_find_last_allocated_segment(&v, v.my_segment_table);
    OBLIGATION(c == last && c <= n, "C11.table: find_last_allocated_segment == 1 + last allocated index");
    VACUITY_END();
}

/* ---------------------------------------------------------------- subscript / at() */
#ifdef GROW
bool g_exc;
#define EXC_EDGE(r) do { if (g_exc) return r; } while (0)   /* a callee of internal_subscript<true> threw */
#else
#define EXC_EDGE(r)
#endif
bool g_threw;
#define VERIF_THROW(id) do { g_threw = true; return NULL; } while (0)
void st_extend_table_if_necessary(struct cv *self, segment_table_type *table, size_type start, size_type end);
void st_enable_segment(struct cv *self, segment_type *segment, segment_table_type table, size_type seg_index, size_type index);
#include "subscript.inc"

size_t IN_index, IN_size;
void h_at(void) {
    struct cv v; mk_vector(&v, IN_emb = nondet_bool()); any_tables();
    v.my_size = IN_size = nondet_size_t();
    size_t i = IN_index = nondet_size_t();
    g_threw = false;
    value_type *r = cv_internal_subscript_with_exceptions(&v, i);
    /* CBMC's own bounds checks on table[seg_index] are the "every table read is at an index < number_of_segments" obligation */
    OBLIGATION(i < IN_size || g_threw, "C11.at: an index >= size() throws");
    if (!g_threw) {
        size_t k = segment_index_of(i);
        OBLIGATION(k < (IN_emb ? 3 : 64), "C11.at: a returned element lives in a segment the active table has");
        OBLIGATION(valid_seg(v.my_segment_table[k]), "C11.at: a returned element lives in an allocated segment");
        if (k < (IN_emb ? 3 : 64)) OBLIGATION(r == v.my_segment_table[k] + i, "C11.at: at(i) returns the address of element i in its segment");
    }
    VACUITY_END();
}

size_t IN_fb;
void h_subscript(void) {
    struct cv v; mk_vector(&v, false);
    size_t i = IN_index = nondet_size_t();
    size_t fb = IN_fb = nondet_size_t();
    __CPROVER_assume(fb < 40);
    v.my_first_block = fb;
    v.my_size = nondet_size_t();
    __CPROVER_assume(i < v.my_size);
    size_t k = segment_index_of(i);
    __CPROVER_assume(k < 40); /* bound: CBMC object size limit; stated in evidence */
    value_type *alloc, *expect;
    if (k < fb) {   /* first block: one allocation of segment_size(first_block) elements shared by segments [0, first_block) */
        alloc = malloc(segment_size(fb) * sizeof(value_type)); __CPROVER_assume(alloc != NULL);
        g_long[k] = alloc;
        expect = alloc + i;
    } else {        /* own segment, stored biased by -segment_base(k) (enable_segment / create_segment) */
        alloc = malloc(segment_size(k) * sizeof(value_type)); __CPROVER_assume(alloc != NULL);
        g_long[k] = alloc - segment_base(k);
        expect = alloc + (i - segment_base(k));
    }
    value_type *r = cv_internal_subscript(&v, i);
    OBLIGATION(r == expect, "C11.addr: address of element i depends on i and its segment's allocation only");
    OBLIGATION(__CPROVER_r_ok(r, sizeof(value_type)), "C11.addr: element i lies inside its segment's allocation");
    VACUITY_END();
}

/* ---------------------------------------------------------------- growth decisions */
bool g_grow_called; size_t g_lo, g_hi;
static iterator cv_internal_grow(struct cv *self, size_t lo, size_t hi) { g_grow_called = true; g_lo = lo; g_hi = hi; return ITER(self, lo); }
static segment_table_type cv_get_table(struct cv *self) { return self->my_segment_table; }
static size_t cv_size(struct cv *self) { return self->my_size; }
/* contract of spin_wait_while_eq: returns only once the location differs from the value */
#define SPIN_WAIT_WHILE_EQ(loc, val) do { loc = g_long; __CPROVER_assume((loc) != (val)); } while (0)
#define LOOP_g2al_1 __CPROVER_assigns(old_size, self->my_size) __CPROVER_loop_invariant(1)
#ifdef G2W
size_t g2w_s;   /* ghost: one arbitrary segment index */
void *g2w_touch(void *p) {
    if (__CPROVER_same_object(p, g_long) || __CPROVER_same_object(p, g_emb)) {
        segment_type *e = (segment_type *)p;
        if (*e == NULL && nondet_bool()) { segment_type x = (segment_type)nondet_ptr(); __CPROVER_assume(x != NULL); *e = x; }
    }
    return p;
}
#define G2W_T (self->my_segment_table)
#define LOOP_g2al_2 __CPROVER_assigns(seg_idx, __CPROVER_object_whole(g_long), __CPROVER_object_whole(g_emb)) \
    __CPROVER_loop_invariant(seg_idx <= end_segment + 1 && (g2w_s < seg_idx ? G2W_T[g2w_s] != NULL : 1))
#define LOOP_g2al_3 __CPROVER_assigns(__CPROVER_object_whole(g_long), __CPROVER_object_whole(g_emb)) __CPROVER_loop_invariant(g2w_s < seg_idx ? G2W_T[g2w_s] != NULL : 1)
#else
#define LOOP_g2al_2 __CPROVER_assigns(seg_idx) __CPROVER_loop_invariant(seg_idx <= end_segment + 1)
#define LOOP_g2al_3 __CPROVER_loop_invariant(1)
#endif
#if !defined(RG_MODE) && !defined(ILCG) && !defined(ILCL) && !defined(SEGRG) && !defined(GROW) && !defined(EXTRG)
#include "grow.inc"
#include "nes.inc"
size_t IN_old, IN_new;
void h_g2al(void) {
    struct cv v; mk_vector(&v, IN_emb = nondet_bool());
    size_t n = IN_new = nondet_size_t();
    size_t old = IN_old = v.my_size;
    g_grow_called = false;
    iterator it = cv_internal_grow_to_at_least(&v, n);
    /* the call that moved size from old to n must construct exactly [old, n) */
    OBLIGATION((old < n) == g_grow_called, "C11.g2al: internal_grow called iff old_size < new_size");
    OBLIGATION(!g_grow_called || (g_lo == old && g_hi == n), "C11.g2al: constructs exactly the range this call added");
    OBLIGATION(n == 0 || v.my_size >= n, "C11.g2al: size() >= n afterwards");
    VACUITY_END();
}
#ifdef G2W
void h_g2al_waits(void) {
    struct cv v; mk_vector(&v, IN_emb = nondet_bool()); any_tables();
    size_t n = IN_new = nondet_size_t();
    size_t old = IN_old = v.my_size;
    __CPROVER_assume(n != 0 && old >= n && n <= ((size_t)1 << 63));      /* the branch that does not grow: another call already moved size() to n or beyond */
    size_t es = segment_index_of(n - 1);
    __CPROVER_assume(IN_emb ? es < 3 : 1);                                /* the active table stays what it is during the wait (its switch is table.extend's concern) */
    g2w_s = IN_k = nondet_size_t(); __CPROVER_assume(g2w_s <= es);
    g_grow_called = false;
    cv_internal_grow_to_at_least(&v, n);
    OBLIGATION(!g_grow_called, "C11.g2al: a call that did not move size() constructs nothing");
    OBLIGATION(v.my_segment_table[g2w_s] != NULL, "C11.g2al: grow_to_at_least(n) returns only after every segment that holds an index below n is published (allocated or marked failed)");
    VACUITY_END();
}
#endif
size_t IN_seg;
void h_nes(void) {
    struct cv v; mk_vector(&v, false);
    size_t sz = IN_size = v.my_size;
    size_t s = IN_seg = nondet_size_t();
    __CPROVER_assume(s < 63); /* vectors of < 2^63 elements */
    size_t r = cv_number_of_elements_in_segment(&v, s);
    size_t b = segment_base(s), n = segment_size(s);
    size_t expect = sz <= b ? 0 : (sz - b < n ? sz - b : n);
    OBLIGATION(r == expect, "C11.nes: number_of_elements_in_segment == |segment ∩ [0,size)|");
    VACUITY_END();
}
#endif

/* ---------------------------------------------------------------- RG: my_size / my_first_block */
#ifdef RG_MODE
/* ghost: one arbitrary claim made by some other thread through the same fetch_add */
bool o_made; size_t o_lo, o_hi;
size_t my_lo, my_hi; bool my_made;
struct cv *g_v;
#define RG_INV ((!o_made || (o_lo <= o_hi && o_hi <= g_v->my_size)) && (!my_made || my_hi <= g_v->my_size))
static void interfere(void) {
    /* rely: other threads only grow my_size (each by its own fetch_add / successful CAS); never past SIZE_MAX */
    size_t grow1 = nondet_size_t(), d = nondet_size_t(), grow2 = nondet_size_t();
    __CPROVER_assume(grow1 <= SIZE_MAX - g_v->my_size); g_v->my_size += grow1;
    if (!o_made && nondet_bool()) { __CPROVER_assume(d <= SIZE_MAX - g_v->my_size); o_lo = g_v->my_size; g_v->my_size += d; o_hi = g_v->my_size; o_made = true; }
    __CPROVER_assume(grow2 <= SIZE_MAX - g_v->my_size); g_v->my_size += grow2;
}
#define ATOMIC_FETCH_ADD_AT(site, f, d) ({ interfere(); size_t old_ = (f); __CPROVER_assume((d) <= SIZE_MAX - old_); (f) = old_ + (d); \
      my_lo = old_; my_hi = old_ + (d); my_made = true; __CPROVER_assert(RG_INV, "guarantee INV at " #site); old_; })
#include "gbd.inc"
size_t IN_delta;
void h_gbd(void) {
    struct cv v; mk_vector(&v, false); g_v = &v;
    o_made = nondet_bool(); o_lo = nondet_size_t(); o_hi = nondet_size_t(); my_made = false;
    __CPROVER_assume(RG_INV);
    size_t delta = IN_delta = nondet_size_t();
    g_grow_called = false;
    cv_internal_grow_by_delta(&v, delta);
    interfere();
    OBLIGATION(g_grow_called == (delta != 0), "C11.gbd: constructs iff delta != 0");
    if (g_grow_called) {
        OBLIGATION(g_lo == my_lo && g_hi == my_hi && g_hi - g_lo == delta, "C11.gbd: constructs exactly the range its fetch_add claimed, of length delta");
        OBLIGATION(!o_made || o_hi <= g_lo || g_hi <= o_lo, "C11.gbd: the claimed range is disjoint from every other thread's claimed range");
        OBLIGATION(g_hi <= v.my_size, "C11.gbd: the claimed range lies below size()");
    }
    VACUITY_END();
}
/* my_first_block: 0 -> index exactly once */
size_t fb_first;   /* ghost: the first non-zero value ever stored */
#define FB_INV (g_v->my_first_block == fb_first)
static void interfere_fb(void) {
    /* rely: others only ever CAS 0 -> non-zero */
    if (g_v->my_first_block == 0 && nondet_bool()) { size_t x = nondet_size_t(); g_v->my_first_block = x; fb_first = x; }
}
#undef ATOMIC_LOAD_AT
#define ATOMIC_LOAD_AT(site, f) ({ interfere_fb(); (f); })
#define ATOMIC_CAS_AT(site, f, e, d) ({ interfere_fb(); size_t o_ = (f); bool r_ = (o_ == *(e)); if (r_) { (f) = (d); fb_first = (d); } else *(e) = o_; \
      __CPROVER_assert(o_ == 0 || (f) == o_, "guarantee at " #site ": a non-zero first block is never changed"); r_; })
#include "afb.inc"
size_t IN_fbidx;
void h_afb(void) {
    struct cv v; mk_vector(&v, false); g_v = &v; fb_first = v.my_first_block;
    size_t before = v.my_first_block;
    size_t idx = IN_fbidx = nondet_size_t();
    st_assign_first_block_if_necessary(&v, idx);
    interfere_fb();
    OBLIGATION(before == 0 || v.my_first_block == before, "C11.afb: an assigned first block never changes");
    OBLIGATION(idx == 0 || v.my_first_block != 0, "C11.afb: after the call the first block is assigned");
    VACUITY_END();
}
/* ---- internal_emplace_back (push_back / emplace_back): claims one index by my_size++ and constructs it; guard zero-fills that one slot */
bool g_exc;
#define EXC_PENDING() (g_exc)
#define EXC_RETHROW(r) return r
#define EXC_PROPAGATE(r) do { if (g_exc) return r; } while (0)
#define ATOMIC_POSTINC_AT(site, f) ATOMIC_FETCH_ADD_AT(site, f, (size_t)1)
#define ATOMIC_PREINC_AT(site, f) (ATOMIC_FETCH_ADD_AT(site, f, (size_t)1) + 1)
#define default_first_block_size ((size_type)1)   /* static constexpr size_type default_first_block_size = 1; (checked by spec.py) */
typedef struct { struct cv *v; size_type idx; value_type *addr; } iterator2;
#undef ITER
#define ITER(vec, i) ((iterator){ (vec), (i) })
size_t e_sub_idx; unsigned e_sub_calls, e_ctor_calls, e_zero_calls; value_type *e_zero_p; size_t e_zero_n; value_type *e_ctor_p; int e_fail;
static value_type e_cell; value_type *e_ret_addr; size_t e_ret_idx; bool e_returned;
#define ITER2(vec, i, a) (e_returned = true, e_ret_idx = (i), e_ret_addr = (a), (iterator){ (vec), (i) })
static value_type *STUB_subscript_growing(struct cv *self, size_type idx) { if (e_sub_calls < 2) e_sub_calls++; e_sub_idx = idx; if (nondet_bool()) { g_exc = true; e_fail = 1; return NULL; } return &e_cell; }
static void STUB_construct(struct cv *self, value_type *p) { if (e_ctor_calls < 2) e_ctor_calls++; e_ctor_p = p; if (nondet_bool()) { g_exc = true; e_fail = 2; } }
static void STUB_zero_unconstructed_elements(value_type *p, size_type n) { if (e_zero_calls < 2) e_zero_calls++; e_zero_p = p; e_zero_n = n; }
#include "emplace_back.inc"
void h_emplace_back(void) {
    struct cv v; mk_vector(&v, false); g_v = &v; fb_first = v.my_first_block;
    o_made = nondet_bool(); o_lo = nondet_size_t(); o_hi = nondet_size_t(); my_made = false;
    __CPROVER_assume(RG_INV);
    g_exc = false; e_sub_calls = e_ctor_calls = e_zero_calls = 0; e_fail = 0; e_returned = false;
    cv_internal_emplace_back(&v);
    interfere();
    OBLIGATION(my_made && my_hi - my_lo == 1, "C11.push: push_back claims exactly one index by its fetch_add on size");
    OBLIGATION(!o_made || o_hi <= my_lo || my_hi <= o_lo, "C11.push: the claimed index belongs to no other thread's claimed range");
    OBLIGATION(my_hi <= v.my_size, "C11.push: the claimed index lies below size()");
    OBLIGATION(e_sub_calls == 1 && e_sub_idx == my_lo, "C11.push: the element address is computed for exactly the claimed index");
    OBLIGATION(v.my_first_block != 0, "C11.push: the first block is assigned before the first segment is created");
    OBLIGATION(g_exc == (e_fail != 0), "C11.push: push_back throws iff the allocation or the constructor threw");
    if (e_fail == 1) OBLIGATION(e_ctor_calls == 0 && e_zero_calls == 0, "C11.push: after a failed segment allocation nothing is constructed or written");
    else {
        OBLIGATION(e_ctor_calls == 1 && e_ctor_p == &e_cell, "C11.push: exactly one element is constructed, at the address of the claimed index");
        if (e_fail == 2) OBLIGATION(e_zero_calls == 1 && e_zero_p == &e_cell && e_zero_n == 1, "C11.push: when the constructor throws exactly the claimed slot is zero-filled (the vector stays destructible), nothing else");
        else OBLIGATION(e_zero_calls == 0 && e_returned && e_ret_idx == my_lo && e_ret_addr == &e_cell, "C11.push: on success nothing is zero-filled and the iterator designates the claimed index and its address");
    }
    VACUITY_END();
}
#endif

/* ================================================================ exception guard of internal_loop_construct (both overloads) */
#if defined(ILCG) || defined(ILCL)
bool g_exc;                       /* an exception is in flight */
#define EXC_PENDING() (g_exc)
#define EXC_RETHROW() return
#define EXC_PROPAGATE() do { if (g_exc) return; } while (0)
size_t g_k;                       /* ghost index: one arbitrary slot of the vector (facts about it hold for every slot) */
bool g_zeroed_k;                  /* ghost: slot g_k has been zero-filled by the guard */
static value_type g_cell;
/* table contents: every entry is unallocated (NULL), failed (tag) or allocated */
static void havoc_tables(void) {
    for (size_t s = 0; s < 3; ++s) { uintptr_t x = nondet_uintptr_t(); __CPROVER_assume(x <= 2); g_emb[s] = (segment_type)x; }
    for (size_t s = 0; s < 64; ++s) { uintptr_t x = nondet_uintptr_t(); __CPROVER_assume(x <= 2); g_long[s] = (segment_type)x; }
}
#endif

#ifdef ILCG
/* The guard body (lambda) as sliced.  State it sees:
     table  -- the table pointer internal_grow took (after extend_table_if_necessary(table, start_idx, end_idx)); either the active table or,
               when another thread switched to the long table afterwards, the embedded table (then end_idx <= embedded_table_size)
     idx    -- the index whose constructor threw; internal_subscript<true>(idx) had returned normally, so its segment is allocated
     end_idx-- the end of the range this call claimed by fetch_add / CAS on my_size (so end_idx <= my_size, and my_size only grows)     */
size_t G_idx, G_end0, g_sub_index;
struct cv *g_v;
size_t G_nseg;
static size_type st_segment_size(size_type k) { return segment_size(k); }   /* the guard has a local named segment_size */
#ifdef ILCG_RANGE
#define SLOT_ADDR(self, i) (g_sub_index = (i), &g_cell)                       /* pure range arithmetic: no table access */
#else
#define SLOT_ADDR(self, i) (g_sub_index = (i), cv_internal_subscript((self), (i)))   /* the real internal_subscript: table read is bounds-checked, its __TBB_ASSERTs are obligations */
#endif
static void STUB_zero_unconstructed_elements(value_type *p, size_type count) {   /* memset(p, 0, count * sizeof(T)) on the slots [i, i+count) whose address was just computed */
    size_t i = g_sub_index;
    OBLIGATION(i >= G_idx && i < G_end0 && count <= G_end0 - i,
               "C11.guard.range: the exception guard zero-fills only slots of its own call's range [failing index, end of the range handed out to this call)");
#ifndef ILCG_RANGE
    OBLIGATION(count == 0 || (segment_index_of(i) < G_nseg && valid_seg(g_v->my_segment_table[segment_index_of(i)])),
               "C11.guard.alloc: the exception guard writes only to slots whose segment is allocated");
#endif
    if (i <= g_k && g_k - i < count) g_zeroed_k = true;
}
#define GUARD_LOOP __CPROVER_assigns(i, g_sub_index, g_zeroed_k) \
    __CPROVER_loop_invariant(i >= idx && (i <= *end_idx_ref || i == idx) && g_zeroed_k == (idx <= g_k && g_k < i)) \
    __CPROVER_decreases(i < *end_idx_ref ? *end_idx_ref - i : 0)
#define LOOP_ilcg_args_1 GUARD_LOOP
#define LOOP_ilcg_iter_1 GUARD_LOOP
#include "ilc_guard.inc"
#ifdef OVL_ITER
#define THE_GUARD ilcg_iter
#else
#define THE_GUARD ilcg_args
#endif
bool IN_stale;
void h_ilc_guard(void) {
    struct cv v; bool emb = IN_emb = nondet_bool(); mk_vector(&v, emb); havoc_tables(); g_v = &v;
    size_t nseg = G_nseg = emb ? 3 : 64;
    segment_table_type snap = v.my_segment_table;
    bool stale = IN_stale = nondet_bool();
    size_t idx = IN_index = nondet_size_t(), end0 = IN_j = nondet_size_t();
    __CPROVER_assume(idx < end0 && end0 <= v.my_size);                    /* the claimed range lies below my_size */
    __CPROVER_assume(v.my_size <= ((size_t)1 << 63) && !valid_seg(g_long[63])); /* vectors of at most 2^63 elements: segment 63 (2^63 elements) is never allocated */
    __CPROVER_assume(segment_index_of(end0 - 1) < nseg);                  /* internal_grow extended the table for end_idx before constructing */
    if (stale) {                                                          /* the snapshot is the embedded table although the long table is active */
        __CPROVER_assume(!emb && end0 <= 8);
        snap = g_emb;
    }
    size_t last_snap = 0;
    for (size_t s = 0; s < (snap == g_emb ? 3 : 64); ++s) if (valid_seg(snap[s])) last_snap = s + 1;
#ifndef ILCG_RANGE
    __CPROVER_assume(valid_seg(v.my_segment_table[segment_index_of(idx)])); /* internal_subscript<true>(idx) returned normally */
    if (stale) for (size_t s = 0; s < 3; ++s) __CPROVER_assume(g_emb[s] == NULL || g_emb[s] == g_long[s]);   /* embedded entries were copied when the long table was made */
    bool hole = false;   /* an unallocated or failed segment among the segments of this call's range that the guard's bound covers */
    size_t s_idx = segment_index_of(idx), s_end = segment_index_of(end0 - 1);
    for (size_t s = 0; s < nseg; ++s)
        if (s_idx <= s && s <= s_end && s < last_snap && !valid_seg(v.my_segment_table[s])) hole = true;
#ifdef ILCG_HOLE
    __CPROVER_assume(hole);
#else
    __CPROVER_assume(!hole);
#endif
#endif
    g_k = nondet_size_t(); g_zeroed_k = false; G_idx = idx; G_end0 = end0;
    IN_k = nondet_size_t(); __CPROVER_assume(IN_k <= idx);   /* start_idx of the call */
    size_t end = end0;
    THE_GUARD(&v, snap, IN_k, idx, &end);
    OBLIGATION(!g_zeroed_k || (idx <= g_k && g_k < end0), "C11.guard.range: no slot outside [failing index, end of this call's range) is zero-filled");
#if !defined(ILCG_RANGE) && !defined(ILCG_HOLE)
    if (!stale && idx <= g_k && g_k < end0 && valid_seg(v.my_segment_table[segment_index_of(g_k)]))
        OBLIGATION(g_zeroed_k, "C11.guard.complete: every not-yet-constructed slot of this call that lies in an allocated segment is zero-filled (the vector stays destructible)");
#endif
    VACUITY_END();
}
#endif

/* ================================================================ internal_loop_construct (both overloads): construction loop + exception edges */
#ifdef ILCL
/* callee contracts
     internal_subscript<true>(idx) -- returns the address of slot idx after making sure its segment is allocated (allocates it when idx is the segment's
                                      first index, waits for the owner otherwise), or throws bad_alloc when that allocation failed (segment tagged failed)
     element constructor           -- may throw; constructs nothing then
     the exception guard           -- contract proved by ilc.guard.range / ilc.guard.alloc.contiguous: zero-fills exactly the slots of [idx, end_idx)
                                      that lie in allocated segments */
size_t G_start, G_end0;
unsigned g_constructed_k;         /* ghost: how often slot g_k was constructed */
bool g_alloc_k;                   /* ghost: the segment of slot g_k is allocated when the call leaves */
size_t g_total;                   /* ghost: number of successful constructions */
size_t g_addr_idx; bool g_addr_valid;
int g_fail_kind; size_t g_fail_idx;   /* 0 none, 1 allocation failed in internal_subscript<true>, 2 element constructor threw */
unsigned g_guard_runs; size_t g_guard_idx, g_guard_end; segment_table_type g_guard_table;
size_t g_first0; bool g_values_in_order;
static value_type *STUB_subscript_growing(struct cv *self, size_type idx) {
    if (nondet_bool()) {
        g_exc = true; g_fail_kind = 1; g_fail_idx = idx; g_addr_valid = false;
        if (segment_index_of(idx) == segment_index_of(g_k)) __CPROVER_assume(!g_alloc_k);   /* the segment whose allocation failed is not allocated */
        return NULL;
    }
    if (idx == g_k) __CPROVER_assume(g_alloc_k);                                             /* a slot whose address was handed out lies in an allocated segment */
    g_addr_idx = idx; g_addr_valid = true; return &g_cell;
}
static void construct_at(value_type *p) {
    OBLIGATION(g_addr_valid && p == &g_cell, "C11.loop: an element is constructed at the address internal_subscript returned for its own index");
    size_t i = g_addr_idx;
    g_addr_valid = false;   /* one construction per address computation */
    if (nondet_bool()) { g_exc = true; g_fail_kind = 2; g_fail_idx = i; return; }
    OBLIGATION(G_start <= i && i < G_end0, "C11.loop: only indices of the range handed out to this call are constructed");
    if (i == g_k) { OBLIGATION(g_constructed_k == 0, "C11.loop: no index is constructed twice"); g_constructed_k++; }
    g_total++;
}
static void STUB_construct(struct cv *self, value_type *p) { construct_at(p); }
static void STUB_construct_from(struct cv *self, value_type *p, size_type pos) {
    OBLIGATION(!g_addr_valid || pos - g_first0 == g_addr_idx - G_start, "C11.loop: element start+j is constructed from the j-th value of the source sequence [first,last)");
    if (g_addr_valid && pos - g_first0 != g_addr_idx - G_start) g_values_in_order = false;
    construct_at(p);
}
static void guard_contract(struct cv *self, segment_table_type table, size_type start_idx, size_type idx, size_type *end_idx_ref) {
    OBLIGATION(g_exc, "C11.loop: the exception guard runs only while a constructor's exception is in flight (it is dismissed after every successful construction)");
    if (g_guard_runs < 2) g_guard_runs++;
    g_guard_idx = idx; g_guard_end = *end_idx_ref; g_guard_table = table;
    if (idx <= g_k && g_k < *end_idx_ref && g_alloc_k) g_zeroed_k = true;
    size_t e = nondet_size_t(); __CPROVER_assume(e <= *end_idx_ref); *end_idx_ref = e;   /* the guard may lower the captured end_idx */
}
#define ILC_GUARD_args guard_contract
#define ILC_GUARD_iter guard_contract
#define ILC_INV (!g_exc && end_idx == G_end0 && start_idx == G_start && start_idx <= idx && idx <= end_idx && g_guard_runs == 0 && !g_zeroed_k && g_fail_kind == 0 \
                 && g_total == idx - start_idx && g_constructed_k == ((start_idx <= g_k && g_k < idx) ? 1u : 0u) && g_values_in_order)
#define ILC_ASSIGNS idx, end_idx, g_exc, g_fail_kind, g_fail_idx, g_addr_valid, g_addr_idx, g_total, g_constructed_k, g_guard_runs, g_guard_idx, g_guard_end, g_guard_table, g_zeroed_k, g_values_in_order
#define LOOP_ilc_args_1 __CPROVER_assigns(ILC_ASSIGNS) __CPROVER_loop_invariant(ILC_INV) __CPROVER_decreases(end_idx - idx)
#define LOOP_ilc_iter_1 __CPROVER_assigns(ILC_ASSIGNS, first) __CPROVER_loop_invariant(ILC_INV && first - g_first0 == idx - start_idx) __CPROVER_decreases(end_idx - idx)
#include "ilc_loop.inc"
void h_ilc_loop(void) {
    struct cv v; mk_vector(&v, IN_emb = nondet_bool());
    size_t start = IN_i = nondet_size_t(), end0 = IN_j = nondet_size_t();
    __CPROVER_assume(start < end0);            /* internal_grow is called with a non-empty range (delta != 0, old_size < new_size) */
    G_start = start; G_end0 = end0;
    g_k = nondet_size_t(); g_alloc_k = nondet_bool(); g_constructed_k = 0; g_zeroed_k = false; g_total = 0; g_addr_valid = false;
    g_exc = false; g_fail_kind = 0; g_guard_runs = 0; g_values_in_order = true;
    g_first0 = nondet_size_t();
    segment_table_type table = v.my_segment_table;
#ifdef OVL_ITER
    cv_ilc_iter(&v, table, start, end0, g_first0);
#else
    cv_ilc_args(&v, table, start, end0);
#endif
    bool in_range = start <= g_k && g_k < end0;
    OBLIGATION(g_exc == (g_fail_kind != 0), "C11.loop: the call leaves with an exception iff an allocation or a constructor threw");
    OBLIGATION(g_values_in_order, "C11.loop: element start+j is constructed from the j-th value of the source sequence");
    if (!g_exc) {
        OBLIGATION(g_constructed_k == (in_range ? 1u : 0u) && g_total == end0 - start, "C11.loop: every index of the range handed out to this call is constructed exactly once and no other index");
        OBLIGATION(g_guard_runs == 0 && !g_zeroed_k, "C11.loop: the exception guard does not run (nothing is zero-filled) when no constructor threw");
    } else {
        size_t f = g_fail_idx;
        OBLIGATION(start <= f && f < end0 && g_total == f - start && g_constructed_k == ((start <= g_k && g_k < f) ? 1u : 0u),
                   "C11.loop: when index f fails exactly the indices [start, f) of this call have been constructed, each once");
        if (g_fail_kind == 2)
            OBLIGATION(g_guard_runs == 1 && g_guard_idx == f && g_guard_end == end0 && g_guard_table == table,
                       "C11.loop: a throwing constructor at index f runs the exception guard exactly once, for the rest [f, end) of this call's own range");
#ifdef ILCL_PREALLOC   /* domain: the allocation for index f failed although a segment of this call above it is already allocated (internal_grow allocates the last one eagerly) */
        __CPROVER_assume(g_fail_kind == 1 && in_range && g_k >= f && g_alloc_k);
#else
        __CPROVER_assume(!(g_fail_kind == 1 && in_range && g_k >= f && g_alloc_k));
#endif
        if (in_range && g_alloc_k)
            OBLIGATION(g_constructed_k == 1 || g_zeroed_k,
                       "C11.loop.destructible: when the call leaves with an exception every slot of its range that lies in an allocated segment is constructed or zero-filled");
    }
    VACUITY_END();
}
#endif

/* ================================================================ RG on the segment table entries: create_segment */
#ifdef SEGRG
/* One table entry is one shared word.  Protocol (rely == what every thread's guarantee states):
     - an entry is written only while it is still NULL, and only by the thread that owns it; afterwards it never changes
     - owner of entry s >= first_block : the thread that holds index segment_base(s) (unique: fetch_add hands out disjoint ranges, gbd.disjoint)
     - owner of entries s <  first_block: the thread whose CAS on entry 0 succeeded (first-block election)
   Memory model: ONE arbitrary entry (G_tab, G_s) is tracked exactly (value g_val, interference applied whenever it is accessed); every guarantee is asserted
   for that entry, hence for every entry.  Reads of any other entry return an arbitrary value (any interleaving of the other threads), except that an entry
   only this thread may write and has not written yet reads as NULL.                                                                                      */
bool g_exc;
#define EXC_PENDING() (g_exc)
#define EXC_RETHROW(r) return r
#define EXC_PROPAGATE(r) do { if (g_exc) return r; } while (0)
#define ASSIGN_UNLESS_THROWN(lhs, call) do { segment_type tmp_ = (call); if (!EXC_PENDING()) (lhs) = tmp_; } while (0)
size_t G_fb, G_seg, G_index; bool G_owner, g_won;    /* my call: first block, requested segment, my index, "I hold the segment's first index"; ghost: I won the first-block election */
bool IN_alloc_fails;
unsigned g_allocs, g_frees; segment_type g_my_alloc; size_t g_my_alloc_n;
segment_table_type G_tab; size_t G_s; segment_type g_val; bool g_w;   /* the tracked entry, its value, "this call has written it" */
segment_type g_val_cas; bool g_w_cas;                                 /* ghost: the tracked entry right after this call won the CAS on entry 0 */
segment_table_type G_table0; bool g_req_published;
#define IS_G(tab, s) ((tab) == G_tab && (s) == G_s)
#define IN_TABLE(tab, s) ((tab) == g_emb ? (s) < 3 : ((tab) == g_long && (s) < 64))
static bool i_own(size_t s) { return s < G_fb ? g_won : (G_owner && s == G_seg); }
static void interfere_g(void) {
    if (g_w) return;                                               /* I published it: nobody changes it any more */
    if (i_own(G_s)) {                                              /* only I may write it and I have not yet: still NULL (entry 0 of the first block is the election itself) */
        if (!(G_s == 0 && 0 < G_fb)) __CPROVER_assume(g_val == NULL);
        return;
    }
    if (g_val == NULL && nondet_bool()) { segment_type x = (segment_type)nondet_ptr(); __CPROVER_assume(x != NULL); g_val = x; }
}
static segment_type entry_read(segment_table_type tab, size_t s) {
    __CPROVER_assert(IN_TABLE(tab, s), "C11.seg: every access to a segment table lies inside that table");
    if (IS_G(tab, s)) { interfere_g(); return g_val; }
    segment_type x = (segment_type)nondet_ptr();
    if (i_own(s) && !(s == 0 && 0 < G_fb)) __CPROVER_assume(x == NULL);
    if (g_req_published && tab == G_table0 && s == G_seg) __CPROVER_assume(x != NULL);   /* create_segment returned: the requested entry is published (and published entries never change) */
    return x;
}
#define ENTRY_LOAD_AT(site, tab, i) entry_read((tab), (i))
#define ENTRY_STORE_AT(site, tab, i, v) do { segment_table_type t_ = (tab); size_t s_ = (i); segment_type v_ = (v); \
    __CPROVER_assert(IN_TABLE(t_, s_), "C11.seg: every access to a segment table lies inside that table"); \
    if (IS_G(t_, s_)) { interfere_g(); segment_type old_ = g_val; g_val = v_; g_w = true; \
        __CPROVER_assert(i_own(s_), "guarantee at " #site ": a table entry is written only by the thread that owns its segment (first-block winner, or holder of the segment's first index)"); \
        __CPROVER_assert(old_ == NULL || old_ == v_, "guarantee at " #site ": a published table entry is never changed (segment addresses never change)"); } } while (0)
static bool entry_cas(segment_table_type tab, size_t s, segment_type *expected, segment_type desired) {
    segment_type cur = entry_read(tab, s);
    if (tab == G_table0 && s == G_seg && (cur == *expected ? desired : cur) != NULL) g_req_published = true;   /* whoever won, the entry is non-null from now on */
    if (cur == *expected) { if (IS_G(tab, s)) { g_val = desired; g_w = true; } g_won = true; g_val_cas = g_val; g_w_cas = g_w; return true; }
    *expected = cur; return false;
}
/* the CAS on entry 0 IS the election for the first block: legal for any thread while 0 < first_block; success makes the caller the owner */
#define ENTRY_CAS_AT(site, tab, i, e, d) ({ size_t s_ = (i); segment_type exp_ = *(e); bool r_ = entry_cas((tab), s_, (e), (d)); \
    if (r_) { __CPROVER_assert(CAS_LEGAL(s_), "guarantee at " #site ": only an entry whose owner is decided by this CAS (entry 0: the first-block election) is written by CAS"); \
              __CPROVER_assert(exp_ == NULL, "guarantee at " #site ": a published table entry is never changed (segment addresses never change)"); } r_; })
#define ENTRY_SPIN_WAIT_WHILE_EQ_AT(tab, i, val) do { segment_type x_ = entry_read((tab), (i)); __CPROVER_assume(x_ != (val)); } while (0)
/* my_first_block: assigned before any segment is created and never changed afterwards (afb.once) */
#define ATOMIC_LOAD_AT(site, f) (f)
static segment_type STUB_segment_allocate(struct cv *self, size_type n) {
    if (g_allocs < 2) g_allocs++;
    if (IN_alloc_fails) { g_exc = true; return NULL; }
    g_my_alloc = (segment_type)nondet_ptr(); __CPROVER_assume(g_my_alloc != NULL && g_my_alloc != segment_allocation_failure_tag);
    if (G_seg >= G_fb) __CPROVER_assume(g_my_alloc - segment_base(G_seg) != NULL && g_my_alloc - segment_base(G_seg) != segment_allocation_failure_tag);   /* the biased address is not 0 or 1 (listed assumption) */
    g_my_alloc_n = n; return g_my_alloc;
}
static void STUB_segment_deallocate(struct cv *self, segment_type p, size_type n) {
    OBLIGATION(g_allocs == 1 && !IN_alloc_fails && p == g_my_alloc && n == g_my_alloc_n && g_frees == 0, "C11.seg: a thread frees only the block it allocated itself, once, with the size it asked for");
    if (g_frees < 2) g_frees++;
}
/* contract of extend_table_if_necessary(table, 0, end) (table.extend job): afterwards `table` is the active table, which is the long table when
   end > embedded_table_size; it may throw bad_alloc */
bool IN_extend_throws;
void st_extend_table_if_necessary(struct cv *self, segment_table_type *table, size_type start, size_type end) {
    if (*table == self->my_embedded_table && end > 8) {
        if (IN_extend_throws) { g_exc = true; return; }
        self->my_segment_table = g_long; *table = g_long;
    }
}
/* the three store loops of the election winner: the tracked entry holds the stored value once the loop has passed it, and its value at the election before */
#define W1(n) (G_tab == table && 1 <= G_s && G_s < (n) && G_s < end_segment)
#define W2(n) (G_tab == table && 1 <= G_s && G_s < (n) && G_s < first_block)
#define W3(n) (G_tab == self->my_embedded_table && 1 <= G_s && G_s < (n) && G_s < first_block && G_s < pointers_per_embedded_table)
#define G_IS(written, v) ((written) ? (g_val == (v) && g_w && g_val_cas == NULL) : (g_val == g_val_cas && g_w == g_w_cas))
size_t IN_s, IN_sgx; bool IN_gemb;
#ifndef SEG_ENABLE
#define CAS_LEGAL(s) ((s) == 0 && 0 < G_fb)
#define LOOP_cs_1 __CPROVER_assigns(i, g_val, g_w) __CPROVER_loop_invariant(i >= 1 && g_won && G_IS(W1(i), segment_allocation_failure_tag)) __CPROVER_decreases(i < end_segment ? end_segment - i : 0)
#define LOOP_cs_2 __CPROVER_assigns(i, g_val, g_w) __CPROVER_loop_invariant(i >= 1 && g_won && G_IS(W2(i), new_segment)) __CPROVER_decreases(i < first_block ? first_block - i : 0)
#define LOOP_cs_3 __CPROVER_assigns(i, g_val, g_w) __CPROVER_loop_invariant(i >= 1 && g_won && G_IS(W2(first_block) || W3(i), new_segment)) __CPROVER_decreases(i < first_block ? first_block - i : 0)
#include "create_segment.inc"
void h_create_segment(void) {
    struct cv v; bool emb = IN_emb = nondet_bool(); mk_vector(&v, emb);
    size_t fb = IN_fb = nondet_size_t(); __CPROVER_assume(fb <= 63); v.my_first_block = fb; G_fb = fb;   /* first_block = 1 + a segment index of a vector of less than 2^63 elements */
    size_t seg = IN_sgx = nondet_size_t(), index = IN_index = nondet_size_t();
    __CPROVER_assume(seg == segment_index_of(index));            /* enable_segment(segment, table, segment_index_of(index), index) */
    __CPROVER_assume(seg < (emb ? 3 : 64));                      /* internal_subscript<true> extended the table for index before looking at the entry */
    __CPROVER_assume(seg < 63);                                  /* vectors of less than 2^63 elements */
    G_seg = seg; G_index = index; g_won = false; g_exc = false; g_allocs = g_frees = 0;
    IN_alloc_fails = nondet_bool(); IN_extend_throws = nondet_bool();
    G_owner = seg >= fb && index == segment_base(seg);
    /* the tracked entry: any entry of either table, any value the protocol allows */
    IN_gemb = nondet_bool(); G_tab = IN_gemb ? g_emb : g_long; G_s = IN_s = nondet_size_t(); __CPROVER_assume(G_s < (IN_gemb ? 3 : 64));
    g_val = (segment_type)nondet_ptr(); g_w = false;
    segment_type before = g_val;
#ifdef SEG_FAILTAG   /* domain: the first-block allocation fails while the table is the embedded one and the first block is shorter than the embedded table */
    __CPROVER_assume(IN_alloc_fails && emb && fb < 3 && seg < fb);
#else
    __CPROVER_assume(!(IN_alloc_fails && emb && fb < 3 && seg < fb));
#endif
    segment_table_type table0 = v.my_segment_table;
    segment_type r = cv_create_segment(&v, table0, seg, index);
    OBLIGATION(r == NULL, "C11.seg: concurrent_vector::create_segment publishes the segment itself and returns nullptr");
    OBLIGATION(g_exc == ((IN_alloc_fails && g_allocs == 1) || (g_exc && IN_extend_throws)), "C11.seg: create_segment throws iff its own allocation (or the table extension) failed");
    bool owner = G_owner;
    if (seg >= fb) {
        OBLIGATION(g_allocs == (owner ? 1 : 0) && g_frees == 0, "C11.seg: a segment outside the first block is allocated by exactly one thread, the holder of its first index; nobody else allocates and nothing is freed");
        if (owner && IS_G(table0, seg)) {
            if (!IN_alloc_fails) OBLIGATION(g_val == g_my_alloc - segment_base(seg) && g_my_alloc_n == segment_size(seg) && !g_exc,
                                            "C11.seg: the owner publishes its allocation of segment_size(k) elements, biased by -segment_base(k), in the entry of segment k");
            else OBLIGATION(g_val == segment_allocation_failure_tag && g_exc, "C11.seg: when the owner's allocation fails the entry is tagged as failed (waiters throw instead of spinning) and bad_alloc propagates");
        }
    } else {
        OBLIGATION(g_allocs <= 1, "C11.seg: a thread allocates the first block at most once");
        if (g_won && !IN_alloc_fails) {
            OBLIGATION(g_frees == 0 && g_my_alloc_n == segment_size(fb), "C11.seg: the first-block winner keeps its allocation of segment_size(first_block) elements");
            if (!g_exc) {
                segment_table_type tw = (table0 == g_emb && segment_size(fb) > 8) ? g_long : table0;
                if (G_tab == tw && 1 <= G_s && G_s < fb) OBLIGATION(g_val == g_my_alloc, "C11.seg: every segment below my_first_block shares the winner's one allocation (entry k == the block's address, unbiased)");
                if (IS_G(table0, 0)) OBLIGATION(g_val == g_my_alloc, "C11.seg: entry 0 holds the winner's allocation");
                if (G_tab == g_emb && 1 <= G_s && G_s < fb) OBLIGATION(g_val == g_my_alloc, "C11.seg: the embedded table's first-block entries are filled too (threads may wait on an embedded snapshot)");
            }
        }
        if (!g_won && g_allocs == 1 && !IN_alloc_fails) OBLIGATION(g_frees == 1, "C11.seg: the loser of the first-block election frees its own allocation");
        if (g_allocs == 0) OBLIGATION(g_frees == 0, "C11.seg: a thread that did not allocate frees nothing");
    }
    if (!g_exc && IS_G(table0, seg)) { interfere_g(); OBLIGATION(g_val != NULL, "C11.seg: create_segment returns normally only after the entry of the requested segment is published"); }
    if (before != NULL) OBLIGATION(g_val == before, "C11.seg: an entry that was published before the call is unchanged");
    VACUITY_END();
}
#else  /* SEG_ENABLE: segment_table::enable_segment against the contract of create_segment */
/* create_segment, two contracts:
     vector  (IN_generic == 0, proved by seg.create): publishes the entry itself (or waits for its owner) and returns nullptr; or throws
     generic (IN_generic == 1, the segment_table contract used by other containers): returns a fresh allocation and leaves publication to enable_segment's CAS */
#define CAS_LEGAL(s) ((s) == G_seg)
bool IN_generic, IN_cs_throws; segment_type g_fresh; unsigned g_dealloc_calls; segment_type g_dealloc_p; size_t g_dealloc_seg;
static segment_type cv_create_segment(struct cv *self, segment_table_type table, segment_index_type seg_index, size_type index) {
    if (IN_cs_throws) { g_exc = true; return NULL; }
    if (IN_generic) { g_fresh = (segment_type)nondet_ptr(); __CPROVER_assume(g_fresh != NULL && g_fresh - segment_base(seg_index) != NULL); return g_fresh; }
    g_req_published = true;
    if (IS_G(table, seg_index)) { interfere_g(); __CPROVER_assume(g_val != NULL); }
    return NULL;
}
static void STUB_deallocate_segment(struct cv *self, segment_type p, size_t seg_index) { if (g_dealloc_calls < 2) g_dealloc_calls++; g_dealloc_p = p; g_dealloc_seg = seg_index; }
#define EXC_PROPAGATE0() do { if (g_exc) return; } while (0)
#undef EXC_PROPAGATE
#define EXC_PROPAGATE(...) do { if (g_exc) return __VA_ARGS__; } while (0)
#include "enable_segment.inc"
void h_enable_segment(void) {
    struct cv v; bool emb = IN_emb = nondet_bool(); mk_vector(&v, emb);
    size_t seg = IN_sgx = nondet_size_t(), index = IN_index = nondet_size_t();
    __CPROVER_assume(seg == segment_index_of(index) && seg < (emb ? 3 : 64) && seg < 63);
    G_fb = 0; G_seg = seg; G_index = index; G_owner = false; g_won = false; g_exc = false;
    IN_generic = nondet_bool(); IN_cs_throws = nondet_bool(); g_dealloc_calls = 0; g_req_published = false;
    IN_gemb = nondet_bool(); G_tab = IN_gemb ? g_emb : g_long; G_s = IN_s = nondet_size_t(); __CPROVER_assume(G_s < (IN_gemb ? 3 : 64));
    g_val = (segment_type)nondet_ptr(); g_w = false;
    segment_type before = g_val;
    segment_table_type table0 = G_table0 = v.my_segment_table;
    segment_type out = (segment_type)nondet_ptr();
    st_enable_segment(&v, &out, table0, seg, index);
    OBLIGATION(g_exc == IN_cs_throws, "C11.seg: enable_segment throws iff create_segment threw");
    if (!g_exc) {
        OBLIGATION(out != NULL, "C11.seg: the segment pointer handed back by enable_segment is never null");
        if (IS_G(table0, seg)) OBLIGATION(out == g_val, "C11.seg: the segment pointer handed back by enable_segment is the published entry of that segment");
        if (IN_generic) {
            if (IS_G(table0, seg)) {
                OBLIGATION((g_dealloc_calls == 0) == (g_w && g_val == g_fresh - segment_base(seg)), "C11.seg: the CAS winner publishes its allocation biased by -segment_base(k) and keeps it; the loser frees its own allocation");
                OBLIGATION(g_dealloc_calls <= 1 && (g_dealloc_calls == 0 || (g_dealloc_p == g_fresh && g_dealloc_seg == seg)), "C11.seg: the loser frees exactly its own allocation, once");
            }
        } else OBLIGATION(g_dealloc_calls == 0, "C11.seg: nothing is freed when create_segment published the segment itself");
    }
    if (before != NULL) OBLIGATION(g_val == before, "C11.seg: an entry that was published before the call is unchanged");
    VACUITY_END();
}
#endif
#endif

/* ================================================================ RG on my_segment_table: extend_table_if_necessary + allocate_long_table */
#ifdef EXTRG
/* shared words: my_segment_table (embedded -> ONE long table, once, never back), my_segment_table_allocation_failed (false -> true), the three embedded
   entries (NULL -> published, once).  interfere_all() = any number of steps of any number of other threads under that rely.                          */
bool g_exc;
#define EXC_PENDING() (g_exc)
#define EXC_THROW(x) (g_exc = true)
#define EXC_RETHROW() return
#define EXC_PROPAGATE(r) do { if (g_exc) return r; } while (0)
struct cv *g_v;
static segment_type g_newtab[64];                 /* the long table this call allocates (private until its CAS succeeds) */
unsigned g_tab_allocs, g_tab_frees; bool IN_alloc_fails, g_i_published, g_flag_set_by_me;
segment_type g_copied[3]; bool g_copied_valid[3]; /* ghost: what this call read from the embedded entries when it filled its table */
static void interfere_emb(int s) { if (g_emb[s] == NULL && nondet_bool()) { segment_type x = (segment_type)nondet_ptr(); __CPROVER_assume(x != NULL); g_emb[s] = x; } }
static void interfere_all(void) {
    if (g_v->my_segment_table == g_emb && nondet_bool()) g_v->my_segment_table = g_long;     /* another thread published ITS long table */
    if (nondet_bool()) g_v->my_segment_table_allocation_failed = true;
    interfere_emb(0); interfere_emb(1); interfere_emb(2);
}
#define W_INV (g_v->my_segment_table == g_emb || g_v->my_segment_table == g_long || (g_i_published && g_v->my_segment_table == g_newtab))
#define ATOMIC_LOAD_AT(site, f) (*({ interfere_all(); &(f); }))
#define ATOMIC_STORE_AT(site, f, v) do { interfere_all(); (f) = (v); g_flag_set_by_me = true; } while (0)
#define ATOMIC_CAS_AT(site, f, e, d) ({ interfere_all(); segment_table_type old_ = (f), d_ = (d); bool r_ = (old_ == *(e)); \
    if (r_) { (f) = d_; g_i_published = true; \
        __CPROVER_assert(old_ == g_emb, "guarantee at " #site ": my_segment_table is only ever switched from the embedded table to a long table (one CAS, never back, never twice)"); \
        __CPROVER_assert(d_ == g_newtab && g_tab_allocs == 1 && g_tab_frees == 0, "guarantee at " #site ": the table published is the fully built long table this call allocated (never null, never a freed one)"); \
    } else *(e) = old_; \
    __CPROVER_assert(W_INV, "guarantee at " #site ": the active table is the embedded table or the one published long table"); r_; })
#define SPIN_WAIT_WHILE_EQ_AT(f, val) do { interfere_all(); __CPROVER_assume((f) != (val)); } while (0)
static segment_table_type STUB_table_allocate(struct cv *self, size_type n) {
    if (g_tab_allocs < 2) g_tab_allocs++;
    OBLIGATION(n == 64, "C11.table: the long table has pointers_per_long_table entries");
    if (IN_alloc_fails) { g_exc = true; return NULL; }
    for (int s = 0; s < 64; ++s) g_newtab[s] = (segment_type)nondet_ptr();   /* fresh memory: arbitrary contents */
    return g_newtab;
}
static size_t g_construct_next;
static void STUB_construct_entry(segment_type *p, segment_type v) {
    size_t s = g_construct_next++;
    OBLIGATION(p == &g_newtab[s] && s < 64, "C11.table: every entry of the new table is constructed exactly once, in order");
    if (s < 3) { OBLIGATION(v == g_emb[s], "C11.table: entry k < 3 of the new table is the embedded entry k as read at this moment"); g_copied[s] = v; g_copied_valid[s] = true; }
    *p = v;
}
static void STUB_destroy_and_deallocate_table(struct cv *self, segment_table_type tab, size_type n) {
    OBLIGATION(tab == g_newtab && n == 64 && g_tab_allocs == 1 && !g_i_published && g_tab_frees == 0, "C11.table: only the loser of the switch frees its own, never published, table, once");
    if (g_tab_frees < 2) g_tab_frees++;
}
#define embedded_table_size segment_size(pointers_per_embedded_table)   /* static constexpr size_type embedded_table_size = segment_size(pointers_per_embedded_table); (checked by spec.py) */
#define LOOP_alt_1
#define LOOP_alt_2
#define LOOP_alt_3
#define LOOP_ext_1 __CPROVER_assigns(*table_ref, g_exc, self->my_segment_table, self->my_segment_table_allocation_failed, __CPROVER_object_whole(g_emb)) \
    __CPROVER_loop_invariant(!g_exc && W_INV && !g_i_published && g_tab_allocs == 0 && (*table_ref == g_emb || *table_ref == self->my_segment_table))
#include "extend_table.inc"
size_t IN_start, IN_end; bool IN_stale;
void h_extend_table(void) {
    struct cv v; bool emb = IN_emb = nondet_bool(); mk_vector(&v, emb); g_v = &v;
    for (int s = 0; s < 3; ++s) g_emb[s] = (segment_type)nondet_ptr();
    v.my_segment_table_allocation_failed = nondet_bool();
    g_exc = false; g_tab_allocs = g_tab_frees = 0; g_i_published = false; g_flag_set_by_me = false; g_construct_next = 0;
    IN_alloc_fails = nondet_bool();
    size_t start = IN_start = nondet_size_t(), end = IN_end = nondet_size_t();
    segment_table_type tbl = v.my_segment_table;                                 /* the caller's snapshot: the active table, or the embedded one while a long one is already active */
    bool stale = IN_stale = nondet_bool(); if (stale) { __CPROVER_assume(!emb); tbl = g_emb; }
    bool need = tbl == g_emb && end > 8;
    size_t gs = IN_k = nondet_size_t(); __CPROVER_assume(gs < 64);
    st_extend_table_if_necessary(&v, &tbl, start, end);
    interfere_all();
    OBLIGATION(W_INV, "C11.table: the active table is the embedded table or the one published long table");
    if (!need) OBLIGATION(!g_exc && g_tab_allocs == 0 && !g_i_published && tbl == (stale ? g_emb : (emb ? g_emb : g_long)), "C11.table: nothing happens when the caller's table already covers end_index");
    else {
        if (!g_exc) OBLIGATION(tbl != g_emb && tbl == v.my_segment_table, "C11.table: after extend_table_if_necessary(end_index > embedded_table_size) the caller's table is the active long table");
        OBLIGATION(g_tab_allocs <= 1 && (g_tab_allocs == 0 || IN_alloc_fails || (g_i_published != (g_tab_frees == 1))), "C11.table: a long table allocated by this call is either published by its one CAS or freed, never both, never neither");
        if (g_i_published) {
            OBLIGATION(v.my_segment_table == g_newtab && g_construct_next == 64, "C11.table: the published table is complete");
            if (gs >= 3) OBLIGATION(g_newtab[gs] == NULL, "C11.table: entries 3..63 of the published long table start as NULL");
            else {
                OBLIGATION(g_copied_valid[gs] && g_newtab[gs] == g_copied[gs] && (g_copied[gs] == NULL || g_copied[gs] == g_emb[gs]), "C11.table: entries 0..2 of the published long table are the embedded entries, copied once");
                if (segment_base(gs) < start) OBLIGATION(g_newtab[gs] != NULL, "C11.table: every embedded segment that starts below start_index is published before it is copied (no segment is lost by the switch)");
            }
        }
        if (g_exc && start <= 8) OBLIGATION(IN_alloc_fails && v.my_segment_table_allocation_failed && !g_i_published, "C11.table: a failed long-table allocation raises the allocation-failed flag (waiting threads throw instead of spinning) and publishes nothing");
        if (g_exc && start > 8) OBLIGATION(v.my_segment_table_allocation_failed && g_tab_allocs == 0, "C11.table: a thread that waits for the long table throws only when its allocation failed elsewhere");
    }
    VACUITY_END();
}
#endif

/* ================================================================ internal_grow: what a growing call does with the range it claimed */
#ifdef GROW
bool g_exc;
#define EXC_PENDING() (g_exc)
#define EXC_PROPAGATE(r) do { if (g_exc) return r; } while (0)
size_t w_afb_arg; unsigned w_afb_calls, w_ext_calls, w_en_calls, w_ilc_calls;
size_t w_ext_start, w_ext_end, w_en_seg, w_en_index, w_ilc_start, w_ilc_end; segment_table_type w_en_table, w_ilc_table;
bool IN_ext_throws, IN_en_throws, IN_ilc_throws;
value_type *w_ret_addr; size_t w_ret_idx; bool w_returned;
#define ITER2(vec, i, a) (w_returned = true, w_ret_idx = (i), w_ret_addr = (a), (iterator){ (vec), (i) })
/* callee contracts: afb.once, table.extend, seg.enable, ilc.loop */
void st_assign_first_block_if_necessary(struct cv *self, segment_index_type index) {
    if (w_afb_calls < 2) w_afb_calls++; w_afb_arg = index;
    if (self->my_first_block == 0 && index != 0) { size_t other = nondet_size_t(); self->my_first_block = nondet_bool() ? index : (other != 0 ? other : index); }
}
void st_extend_table_if_necessary(struct cv *self, segment_table_type *table, size_type start, size_type end) {
    if (w_ext_calls < 2) w_ext_calls++; w_ext_start = start; w_ext_end = end;
    if (*table == self->my_embedded_table && end > 8) {
        if (IN_ext_throws) { g_exc = true; return; }
        self->my_segment_table = g_long; *table = g_long;
    }
}
void st_enable_segment(struct cv *self, segment_type *segment, segment_table_type table, size_type seg_index, size_type index) {
    if (w_en_calls < 2) w_en_calls++; w_en_seg = seg_index; w_en_index = index; w_en_table = table;
    if (IN_en_throws) { g_exc = true; return; }
    if (seg_index < (table == g_emb ? 3 : 64)) { if (table[seg_index] == NULL) { segment_type x = (segment_type)nondet_ptr(); __CPROVER_assume(x != NULL); table[seg_index] = x; } *segment = table[seg_index]; }
}
static void STUB_internal_loop_construct(struct cv *self, segment_table_type table, size_type start, size_type end) {
    if (w_ilc_calls < 2) w_ilc_calls++; w_ilc_table = table; w_ilc_start = start; w_ilc_end = end;
    if (IN_ilc_throws) { g_exc = true; return; }
    size_t k = segment_index_of(start);   /* on normal return every element of [start, end) is constructed, so its segment is allocated */
    if (k < (self->my_segment_table == g_emb ? 3 : 64) && !valid_seg(self->my_segment_table[k])) { segment_type x = (segment_type)nondet_ptr(); __CPROVER_assume(valid_seg(x)); self->my_segment_table[k] = x; }
}
#include "grow2.inc"
void h_internal_grow(void) {
    struct cv v; bool emb = IN_emb = nondet_bool(); mk_vector(&v, emb);
    for (int s = 0; s < 64; ++s) { g_long[s] = (segment_type)nondet_ptr(); if (s < 3) g_emb[s] = (segment_type)nondet_ptr(); }
    size_t start = IN_i = nondet_size_t(), end = IN_j = nondet_size_t();
    __CPROVER_assume(start < end && end <= ((size_t)1 << 63));          /* the claimed range is not empty; vectors of at most 2^63 elements */
    __CPROVER_assume(end <= v.my_size);                                   /* the range was claimed from my_size, which only grows */
    if (!emb) __CPROVER_assume(1);
    IN_ext_throws = nondet_bool(); IN_en_throws = nondet_bool(); IN_ilc_throws = nondet_bool();
    g_exc = false; w_afb_calls = w_ext_calls = w_en_calls = w_ilc_calls = 0; w_returned = false;
    cv_internal_grow_body(&v, start, end);
    OBLIGATION(w_afb_calls == 1 && w_afb_arg == segment_index_of(end - 1) + 1, "C11.grow: the first block is proposed as the number of segments this call's range needs");
    OBLIGATION(w_ext_calls == 1 && w_ext_start == start && w_ext_end == end, "C11.grow: the table is extended for exactly the claimed range before any of its entries is read");
    if (w_en_calls) OBLIGATION(w_en_calls == 1 && w_en_seg == segment_index_of(end - 1) && w_en_index == segment_base(w_en_seg) && start <= w_en_index && w_en_index < end && w_en_table == v.my_segment_table,
                               "C11.grow: the last segment is allocated eagerly only by the call that owns that segment's first index, in the active table");
    if (!g_exc || IN_ilc_throws && w_ilc_calls) OBLIGATION(w_ilc_calls == 1 && w_ilc_start == start && w_ilc_end == end && w_ilc_table == v.my_segment_table,
                               "C11.grow: the call constructs exactly the range [start, end) it claimed, through the active table");
    if (!g_exc) OBLIGATION(w_returned && w_ret_idx == start && w_ret_addr == st_internal_subscript(&v, start, false), "C11.grow: the returned iterator designates the first index of the claimed range and its element's address");
    VACUITY_END();
}
#ifdef RESERVE
/* ---- reserve(n): creates exactly the missing segments that hold an index below n, through internal_subscript<true> at their first index; moves nothing */
#define EXC_THROW(x) (g_exc = true)
#undef EXC_PROPAGATE
#define EXC_PROPAGATE(...) do { if (g_exc) return __VA_ARGS__; } while (0)
static value_type g_cell_r;
size_t r_s; unsigned r_calls_s; size_t r_last_idx; bool r_in_order, r_only_first_indices; size_t r_max, r_calls; bool IN_sub_throws_at_s;
static size_type cv_max_size(struct cv *self) { return r_max; }
static value_type *STUB_subscript_growing(struct cv *self, size_type idx) {
    if (idx != segment_base(segment_index_of(idx))) r_only_first_indices = false;
    if (r_calls && idx <= r_last_idx) r_in_order = false;
    r_last_idx = idx; r_calls++;
    if (idx == segment_base(r_s)) { if (r_calls_s < 2) r_calls_s++; if (IN_sub_throws_at_s) { g_exc = true; return NULL; } }
    return &g_cell_r;
}
#define LOOP_reserve_1 __CPROVER_assigns(seg_idx, g_exc, r_calls, r_calls_s, r_last_idx, r_in_order, r_only_first_indices) \
    __CPROVER_loop_invariant(!g_exc && start_seg_idx <= seg_idx && seg_idx <= 63 && r_only_first_indices && r_in_order && r_calls == seg_idx - start_seg_idx \
        && r_calls_s == ((start_seg_idx <= r_s && r_s < seg_idx) ? 1u : 0u) && (seg_idx == start_seg_idx || (r_last_idx == ((((size_t)1) << (seg_idx - 1)) & ~(size_t)1) && r_last_idx <= n))) /* == segment_base(seg_idx - 1), proved equal in seg.tiling's terms by the step check */ \
    __CPROVER_decreases(64 - seg_idx)
#include "reserve.inc"
void h_reserve(void) {
    struct cv v; mk_vector(&v, IN_emb = nondet_bool());
    size_t n = IN_j = nondet_size_t(), size = IN_size = v.my_size;
    r_max = nondet_size_t(); __CPROVER_assume(r_max <= ((size_t)1 << 63));      /* allocator max_size; vectors of at most 2^63 elements */
    __CPROVER_assume(size <= ((size_t)1 << 63));
    r_s = IN_k = nondet_size_t(); __CPROVER_assume(r_s < 64);
    r_calls_s = 0; r_calls = 0; r_in_order = true; r_only_first_indices = true; IN_sub_throws_at_s = nondet_bool();
    g_exc = false; w_afb_calls = 0;
    cv_reserve(&v, n);
    size_t start_seg = size == 0 ? 0 : segment_index_of(size - 1) + 1;
    bool wanted = n != 0 && n <= r_max && start_seg <= r_s && segment_base(r_s) < n;
    OBLIGATION(r_only_first_indices && r_in_order, "C11.reserve: reserve creates segments only through their first index, each at most once, in increasing order");
    OBLIGATION(r_calls_s <= 1 && (r_calls_s == 0 || (n != 0 && n <= r_max && start_seg <= r_s)), "C11.reserve: reserve(n) touches only segments above the last used one, each once (no existing element is moved), and none when it throws length_error");
    if (!g_exc) OBLIGATION(!wanted || r_calls_s == 1, "C11.reserve: after reserve(n) every segment above the last used one that holds an index below n has been created");
    if (n > r_max) OBLIGATION(g_exc && r_calls == 0, "C11.reserve: reserve(n > max_size()) throws length_error and changes nothing");
    if (n != 0 && n <= r_max) OBLIGATION(w_afb_calls == 1 && w_afb_arg == segment_index_of(n - 1) + 1, "C11.reserve: the first block is proposed as the number of segments n elements need");
    VACUITY_END();
}
#else
/* ---- segment_table::internal_subscript<true>: the access path of every growing call */
void h_subscript_growing(void) {
    struct cv v; bool emb = IN_emb = nondet_bool(); mk_vector(&v, emb);
    for (int s = 0; s < 64; ++s) { g_long[s] = (segment_type)nondet_ptr(); if (s < 3) g_emb[s] = (segment_type)nondet_ptr(); }
    size_t index = IN_index = nondet_size_t(); __CPROVER_assume(index < ((size_t)1 << 63));
    size_t seg = segment_index_of(index);
    IN_ext_throws = nondet_bool(); IN_en_throws = nondet_bool();
    g_exc = false; g_threw = false; w_ext_calls = w_en_calls = 0;
    bool was_null = seg < (emb ? 3 : 64) && v.my_segment_table[seg] == NULL;
    value_type *r = st_internal_subscript(&v, index, true);
    OBLIGATION(w_ext_calls == 1 && w_ext_start == index && w_ext_end == index + 1, "C11.sub: the table is extended for the index before its entry is read");
    if (!g_exc) {
        OBLIGATION(seg < (v.my_segment_table == g_emb ? 3 : 64), "C11.sub: the entry read lies inside the active table");
        segment_type e = v.my_segment_table[seg];
        OBLIGATION(g_threw == (e == segment_allocation_failure_tag), "C11.sub: bad_alloc is thrown iff the segment's allocation failed (entry tagged)");
        if (!g_threw) OBLIGATION(e != NULL && r == e + index, "C11.sub: the address of element i is entry[segment_index_of(i)] + i for the published, never changing entry");
    }
    if (w_en_calls) OBLIGATION(w_en_calls == 1 && w_en_seg == seg && w_en_index == index && w_en_table == v.my_segment_table && (was_null || emb && v.my_segment_table == g_long),
                               "C11.sub: enable_segment is asked for exactly this index's segment, in the active table, only when its entry was still NULL");
    VACUITY_END();
}
#endif
#endif
