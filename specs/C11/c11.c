/* C11 harnesses.  The *.inc files are generated from /repo on every run by specs/C11/spec.py. */
#include "verif.h"
#include "cv.h"

/* ---------------------------------------------------------------- sequential atomics for LF/LC targets */
#ifndef RG_MODE
#define ATOMIC_LOAD(x) (x)
static bool cas_sz(size_t *f, size_t *e, size_t d) { if (*f == *e) { *f = d; return true; } *e = *f; return false; }
#define ATOMIC_CAS(f, e, d) cas_sz(&(f), e, d)
#endif
/* unrelated pointers compared as integers (what the compiled code does) */
#define PTR_LE(a, b) ((uintptr_t)(a) <= (uintptr_t)(b))
#define PTR_GT(a, b) ((uintptr_t)(a) > (uintptr_t)(b))

#include "log2.inc"
#include "seg.inc"

/* ---------------------------------------------------------------- segment arithmetic (all 2^64 indices) */
size_t IN_i, IN_j, IN_k;
void h_seg_bijection(void) {
    size_t i = IN_i = nondet_size_t();
    size_t k = segment_index_of(i);
    OBLIGATION(k < pointers_per_long_table, "C11.seg: segment index < 64 for every index");
    OBLIGATION(segment_base(k) <= i, "C11.seg: base(index_of(i)) <= i");
    OBLIGATION(i - segment_base(k) < segment_size(k), "C11.seg: i lies inside segment index_of(i)");
    size_t j = IN_j = nondet_size_t();
    __CPROVER_assume(j < pointers_per_long_table);
    if (segment_base(j) <= i && i - segment_base(j) < segment_size(j))
        OBLIGATION(j == k, "C11.seg: no other segment contains i (segments are disjoint)");
    VACUITY_END();
}
void h_seg_tiling(void) {
    size_t k = IN_k = nondet_size_t();
    __CPROVER_assume(k < pointers_per_long_table);
    OBLIGATION(segment_base(0) == 0, "C11.seg: first segment starts at 0");
    OBLIGATION(segment_size(k) >= 2, "C11.seg: every segment is non-empty");
    if (k + 1 < pointers_per_long_table)
        OBLIGATION(segment_base(k + 1) == segment_base(k) + segment_size(k), "C11.seg: segments tile the index space without gap or overlap");
    else
        OBLIGATION(segment_base(k) + (segment_size(k) - 1) == SIZE_MAX, "C11.seg: last segment ends at SIZE_MAX");
    OBLIGATION(segment_index_of(segment_base(k)) == (k == 0 ? 0 : k), "C11.seg: index_of(base(k)) == k");
    VACUITY_END();
}

/* ---------------------------------------------------------------- table queries */
static segment_table_type st_get_table(const struct cv *self) { return self->my_segment_table; }
#define LOOP_capacity_1
#define LOOP_find_last_allocated_segment_1
#include "table.inc"

static segment_type g_emb[3];
static segment_type g_long[64];
static void mk_vector(struct cv *v, bool embedded) {
    v->my_embedded_table = g_emb; /* the embedded array is its own object so that an index >= 3 is out of bounds */
    v->my_segment_table = embedded ? g_emb : g_long;
    v->my_first_block = nondet_size_t();
    v->my_size = nondet_size_t();
    v->my_segment_table_allocation_failed = nondet_bool();
}
bool IN_emb;
void h_number_of_segments(void) {
    struct cv v; mk_vector(&v, IN_emb = nondet_bool());
    size_t n = st_number_of_segments(&v, v.my_segment_table);
    OBLIGATION(n == (IN_emb ? 3 : 64), "C11.table: number_of_segments is the real length of the active table");
    VACUITY_END();
}
static bool valid_seg(segment_type s) { return (uintptr_t)s > (uintptr_t)1; }
void h_capacity(void) {
    struct cv v; mk_vector(&v, IN_emb = nondet_bool());
    size_t n = IN_emb ? 3 : 64, first_bad = n;
    for (size_t s = 0; s < n; ++s) if (!valid_seg(v.my_segment_table[s])) { first_bad = s; break; }
    size_t c = st_capacity(&v);
    OBLIGATION(c == segment_base(first_bad), "C11.table: capacity == base of the first unallocated/failed segment");
    VACUITY_END();
}
void h_find_last(void) {
    struct cv v; mk_vector(&v, IN_emb = nondet_bool());
    size_t n = IN_emb ? 3 : 64, last = 0;
    for (size_t s = 0; s < n; ++s) if (valid_seg(v.my_segment_table[s])) last = s + 1;
    size_t c = st_find_last_allocated_segment(&v, v.my_segment_table);
    OBLIGATION(c == last && c <= n, "C11.table: find_last_allocated_segment == 1 + last allocated index");
    VACUITY_END();
}

/* ---------------------------------------------------------------- subscript / at() */
bool g_threw;
#define VERIF_THROW(id) do { g_threw = true; return NULL; } while (0)
void st_extend_table_if_necessary(struct cv *self, segment_table_type *table, size_type start, size_type end);
void st_enable_segment(struct cv *self, segment_type *segment, segment_table_type table, size_type seg_index, size_type index);
#include "subscript.inc"

size_t IN_index, IN_size;
void h_at(void) {
    struct cv v; mk_vector(&v, IN_emb = nondet_bool());
    v.my_size = IN_size = nondet_size_t();
    size_t i = IN_index = nondet_size_t();
    g_threw = false;
    value_type *r = cv_internal_subscript_with_exceptions(&v, i);
    /* CBMC's own bounds checks on table[seg_index] are the "every table read is at an index < number_of_segments" obligation */
    OBLIGATION(r != NULL || g_threw, "C11.at: returns an element or throws");
    OBLIGATION(i < IN_size || g_threw, "C11.at: an index >= size() throws");
    if (!g_threw) {
        size_t k = segment_index_of(i);
        OBLIGATION(k < (IN_emb ? 3 : 64), "C11.at: a returned element lives in a segment the active table has");
        OBLIGATION(valid_seg(v.my_segment_table[k]), "C11.at: a returned element lives in an allocated segment");
    }
    VACUITY_END();
}

size_t IN_fb;
void h_subscript(void) {
    struct cv v; mk_vector(&v, false);
    size_t i = IN_index = nondet_size_t();
    size_t fb = IN_fb = nondet_size_t();
    __CPROVER_assume(fb < 40);
    v.my_first_block = fb;
    v.my_size = nondet_size_t();
    __CPROVER_assume(i < v.my_size);
    size_t k = segment_index_of(i);
    __CPROVER_assume(k < 40); /* bound: CBMC object size limit; stated in evidence */
    value_type *alloc, *expect;
    if (k < fb) {   /* first block: one allocation of segment_size(first_block) elements shared by segments [0, first_block) */
        alloc = malloc(segment_size(fb) * sizeof(value_type)); __CPROVER_assume(alloc != NULL);
        g_long[k] = alloc;
        expect = alloc + i;
    } else {        /* own segment, stored biased by -segment_base(k) (enable_segment / create_segment) */
        alloc = malloc(segment_size(k) * sizeof(value_type)); __CPROVER_assume(alloc != NULL);
        g_long[k] = alloc - segment_base(k);
        expect = alloc + (i - segment_base(k));
    }
    value_type *r = cv_internal_subscript(&v, i);
    OBLIGATION(r == expect, "C11.addr: address of element i depends on i and its segment's allocation only");
    OBLIGATION(__CPROVER_r_ok(r, sizeof(value_type)), "C11.addr: element i lies inside its segment's allocation");
    VACUITY_END();
}

/* ---------------------------------------------------------------- growth decisions */
bool g_grow_called; size_t g_lo, g_hi;
static iterator cv_internal_grow(struct cv *self, size_t lo, size_t hi) { g_grow_called = true; g_lo = lo; g_hi = hi; return ITER(self, lo); }
static segment_table_type cv_get_table(struct cv *self) { return self->my_segment_table; }
static size_t cv_size(struct cv *self) { return self->my_size; }
/* contract of spin_wait_while_eq: returns only once the location differs from the value */
#define SPIN_WAIT_WHILE_EQ(loc, val) do { loc = g_long; __CPROVER_assume((loc) != (val)); } while (0)
#define LOOP_g2al_1 __CPROVER_assigns(old_size, self->my_size) __CPROVER_loop_invariant(1)
#define LOOP_g2al_2 __CPROVER_assigns(seg_idx) __CPROVER_loop_invariant(seg_idx <= end_segment + 1)
#define LOOP_g2al_3 __CPROVER_loop_invariant(1)
#ifndef RG_MODE
#include "grow.inc"
#include "nes.inc"
size_t IN_old, IN_new;
void h_g2al(void) {
    struct cv v; mk_vector(&v, IN_emb = nondet_bool());
    size_t n = IN_new = nondet_size_t();
    size_t old = IN_old = v.my_size;
    g_grow_called = false;
    iterator it = cv_internal_grow_to_at_least(&v, n);
    /* the call that moved size from old to n must construct exactly [old, n) */
    OBLIGATION((old < n) == g_grow_called, "C11.g2al: internal_grow called iff old_size < new_size");
    OBLIGATION(!g_grow_called || (g_lo == old && g_hi == n), "C11.g2al: constructs exactly the range this call added");
    OBLIGATION(n == 0 || v.my_size >= n, "C11.g2al: size() >= n afterwards");
    VACUITY_END();
}
size_t IN_seg;
void h_nes(void) {
    struct cv v; mk_vector(&v, false);
    size_t sz = IN_size = v.my_size;
    size_t s = IN_seg = nondet_size_t();
    __CPROVER_assume(s < 63); /* vectors of < 2^63 elements */
    size_t r = cv_number_of_elements_in_segment(&v, s);
    size_t b = segment_base(s), n = segment_size(s);
    size_t expect = sz <= b ? 0 : (sz - b < n ? sz - b : n);
    OBLIGATION(r == expect, "C11.nes: number_of_elements_in_segment == |segment ∩ [0,size)|");
    VACUITY_END();
}
#endif

/* ---------------------------------------------------------------- RG: my_size / my_first_block */
#ifdef RG_MODE
/* ghost: one arbitrary claim made by some other thread through the same fetch_add */
bool o_made; size_t o_lo, o_hi;
size_t my_lo, my_hi; bool my_made;
struct cv *g_v;
#define RG_INV ((!o_made || (o_lo <= o_hi && o_hi <= g_v->my_size)) && (!my_made || my_hi <= g_v->my_size))
static void interfere(void) {
    /* rely: other threads only grow my_size (each by its own fetch_add / successful CAS); never past SIZE_MAX */
    size_t grow1 = nondet_size_t(), d = nondet_size_t(), grow2 = nondet_size_t();
    __CPROVER_assume(grow1 <= SIZE_MAX - g_v->my_size); g_v->my_size += grow1;
    if (!o_made && nondet_bool()) { __CPROVER_assume(d <= SIZE_MAX - g_v->my_size); o_lo = g_v->my_size; g_v->my_size += d; o_hi = g_v->my_size; o_made = true; }
    __CPROVER_assume(grow2 <= SIZE_MAX - g_v->my_size); g_v->my_size += grow2;
}
#define ATOMIC_FETCH_ADD_AT(site, f, d) ({ interfere(); size_t old_ = (f); __CPROVER_assume((d) <= SIZE_MAX - old_); (f) = old_ + (d); \
      my_lo = old_; my_hi = old_ + (d); my_made = true; __CPROVER_assert(RG_INV, "guarantee INV at " #site); old_; })
#include "gbd.inc"
size_t IN_delta;
void h_gbd(void) {
    struct cv v; mk_vector(&v, false); g_v = &v;
    o_made = nondet_bool(); o_lo = nondet_size_t(); o_hi = nondet_size_t(); my_made = false;
    __CPROVER_assume(RG_INV);
    size_t delta = IN_delta = nondet_size_t();
    g_grow_called = false;
    cv_internal_grow_by_delta(&v, delta);
    interfere();
    OBLIGATION(g_grow_called == (delta != 0), "C11.gbd: constructs iff delta != 0");
    if (g_grow_called) {
        OBLIGATION(g_lo == my_lo && g_hi == my_hi && g_hi - g_lo == delta, "C11.gbd: constructs exactly the range its fetch_add claimed, of length delta");
        OBLIGATION(!o_made || o_hi <= g_lo || g_hi <= o_lo, "C11.gbd: the claimed range is disjoint from every other thread's claimed range");
        OBLIGATION(g_hi <= v.my_size, "C11.gbd: the claimed range lies below size()");
    }
    VACUITY_END();
}
/* my_first_block: 0 -> index exactly once */
size_t fb_first;   /* ghost: the first non-zero value ever stored */
#define FB_INV (g_v->my_first_block == fb_first)
static void interfere_fb(void) {
    /* rely: others only ever CAS 0 -> non-zero */
    if (g_v->my_first_block == 0 && nondet_bool()) { size_t x = nondet_size_t(); g_v->my_first_block = x; fb_first = x; }
}
#undef ATOMIC_LOAD_AT
#define ATOMIC_LOAD_AT(site, f) ({ interfere_fb(); (f); })
#define ATOMIC_CAS_AT(site, f, e, d) ({ interfere_fb(); size_t o_ = (f); bool r_ = (o_ == *(e)); if (r_) { (f) = (d); fb_first = (d); } else *(e) = o_; \
      __CPROVER_assert(o_ == 0 || (f) == o_, "guarantee at " #site ": a non-zero first block is never changed"); r_; })
#include "afb.inc"
size_t IN_fbidx;
void h_afb(void) {
    struct cv v; mk_vector(&v, false); g_v = &v; fb_first = v.my_first_block;
    size_t before = v.my_first_block;
    size_t idx = IN_fbidx = nondet_size_t();
    st_assign_first_block_if_necessary(&v, idx);
    interfere_fb();
    OBLIGATION(before == 0 || v.my_first_block == before, "C11.afb: an assigned first block never changes");
    OBLIGATION(idx == 0 || v.my_first_block != 0, "C11.afb: after the call the first block is assigned");
    VACUITY_END();
}
#endif
