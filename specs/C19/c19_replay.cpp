// Native recipe for C19: a helper joins a winner whose function then throws; the helper's call may return only after the function really completed.
#include <oneapi/tbb/collaborative_call_once.h>
#include <oneapi/tbb/enumerable_thread_specific.h>
#include <atomic>
#include <thread>
#include <chrono>
#include <cstdio>
#include <string>
#include <vector>
#include <algorithm>
#include <new>
#include <stdexcept>
#include <type_traits>
#include <oneapi/tbb/combinable.h>
using namespace std::chrono_literals;
// An allocator whose allocations of the ETS hash-table arrays (rebound to uintptr_t by enumerable_thread_specific::create_array) can be made to throw.
static std::atomic<int> g_fail_arrays{0};
template <typename T> struct FailingArrayAlloc {
    using value_type = T;
    FailingArrayAlloc() = default; template <typename U> FailingArrayAlloc(const FailingArrayAlloc<U>&) {}
    T* allocate(std::size_t n) {
        if (std::is_same<T, std::uintptr_t>::value && g_fail_arrays.load() > 0) { --g_fail_arrays; throw std::bad_alloc(); }
        return static_cast<T*>(::operator new(n * sizeof(T), std::align_val_t(128)));
    }
    void deallocate(T* p, std::size_t) { ::operator delete(p, std::align_val_t(128)); }
    template <typename U> bool operator==(const FailingArrayAlloc<U>&) const { return true; }
    template <typename U> bool operator!=(const FailingArrayAlloc<U>&) const { return false; }
};
// fault domain "table allocation throws": the first local() of a thread creates the element, then fails to allocate the table; the thread's retry creates a second element
static bool ets_fault_array_recipe(std::string& why) {
    std::atomic<int> inits{0};
    tbb::enumerable_thread_specific<int, FailingArrayAlloc<int>> ets([&] { ++inits; return 5; });
    g_fail_arrays = 1; bool threw = false;
    try { ets.local(); } catch (std::bad_alloc&) { threw = true; }
    g_fail_arrays = 0;
    bool ex = true; ets.local(ex);
    int visited = 0, sum = 0; ets.combine_each([&](int v) { ++visited; sum += v; });
    if (threw && (inits.load() != 1 || ets.size() != 1 || visited != 1)) {
        why = "enumerable_thread_specific<int>(finit=5), ONE thread: the first local() threw bad_alloc from the hash-table allocation after the element had been created; local() again: exists=" + std::to_string(ex) +
              ", initialiser calls=" + std::to_string(inits.load()) + ", size()=" + std::to_string(ets.size()) + ", combine_each visited " + std::to_string(visited) + " elements (sum " + std::to_string(sum) + " instead of 5)";
        return true;
    }
    return false;
}
// fault domain "initialiser throws": the element appended to the container is never constructed, yet iteration / combine visit it
static bool ets_fault_init_recipe(std::string& why) {
    int calls = 0;
    tbb::combinable<long> c([&]() -> long { if (calls++ == 0) throw std::runtime_error("init"); return 5; });
    bool threw = false;
    try { c.local(); } catch (std::runtime_error&) { threw = true; }
    c.local() += 1;
    int visited = 0; long first = -1; c.combine_each([&](long v) { if (visited++ == 0) first = v; });
    if (threw && visited != 1) {
        why = "combinable<long>(finit throws on its first call), ONE thread: local() threw, local() again returned a fresh element; combine_each then visited " + std::to_string(visited) +
              " elements, the first being the never-constructed storage left behind by the failed call (read as " + std::to_string(first) + ")";
        return true;
    }
    return false;
}
static bool once_recipe(std::string& why) {
    for (int round = 0; round < 5; ++round) {
        tbb::collaborative_once_flag flag; std::atomic<int> attempts{0}, completed{0}; std::atomic<bool> winner_inside{false};
        auto fn = [&] {
            int a = attempts++;
            if (a == 0) {
                winner_inside = true;
                auto* runner = tbb::detail::d1::collaborative_once_runner::from_bits(flag.m_state.load() & ~std::uintptr_t(127));
                for (int i = 0; i < 3000 && runner->m_ref_count.load() == 0; ++i) std::this_thread::sleep_for(1ms);   // wait until a helper has joined (lifetime guard taken)
                std::this_thread::sleep_for(5ms);
                throw 42;
            }
            completed++;
        };
        bool helper_ok = true;
        std::thread helper([&] {
            while (!winner_inside) std::this_thread::yield();
            tbb::collaborative_call_once(flag, fn);
            if (completed.load() == 0) helper_ok = false;            // returned although the function never completed successfully
        });
        try { tbb::collaborative_call_once(flag, fn); } catch (int) {}
        helper.join();
        if (!helper_ok) { why = "collaborative_call_once: the first caller's function threw while a second caller was helping; the second caller's call returned although the function had not completed (attempts=" + std::to_string(attempts.load()) + ", completed=0) and the flag was left not-called"; return true; }
        if (completed.load() > 1) { why = "function completed " + std::to_string(completed.load()) + " times"; return true; }
    }
    return false;
}
// 127 helpers are in flight (their +1 steps are done by hand inside the winner's function); one more real caller arrives: it must wait, not add a 128th reference
static bool once_overflow_recipe(std::string& why) {
    tbb::collaborative_once_flag flag; std::atomic<bool> bad{false}; std::uintptr_t seen = 0, runner_bits = 0;
    std::thread extra;
    auto fn = [&] {
        runner_bits = flag.m_state.load() & ~std::uintptr_t(127);
        for (int i = 0; i < 127; ++i) flag.m_state.fetch_add(1);                 // what 127 helpers' CAS(expected, expected+1) steps do
        extra = std::thread([&] { tbb::collaborative_call_once(flag, [] {}); });
        auto* runner = tbb::detail::d1::collaborative_once_runner::from_bits(runner_bits);
        for (int i = 0; i < 300 && !bad; ++i) {
            std::uintptr_t st = flag.m_state.load();
            // a lifetime guard on the runner exists only for a caller that added a reference; none of the 127 hand-made references took one
            if ((st & ~std::uintptr_t(127)) != runner_bits || runner->m_ref_count.load() != 0) { bad = true; seen = st; }
            else std::this_thread::sleep_for(1ms);
        }
        for (int i = 0; i < 127; ++i) flag.m_state.fetch_sub(1);
    };
    tbb::collaborative_call_once(flag, fn);
    extra.join();
    if (bad) { char buf[300]; std::snprintf(buf, sizeof buf, "it incremented the state word %#lx (count field already 127), carrying into the runner pointer bits %#lx, and went on to use the runner (lifetime guard taken)", (unsigned long)(runner_bits | 127), (unsigned long)runner_bits);
               why = std::string("collaborative_call_once with 127 helper references outstanding: one more caller took a reference; ") + buf; return true; }
    return false;
}
// waves of threads make the table grow (4 -> 8 -> ... slots) while earlier threads keep calling local(): same address, exists == true, one element per thread, all distinct
static bool ets_recipe(std::string& why) {
    for (int round = 0; round < 3; ++round) {
        std::atomic<int> inits{0}, bad_addr{0}, bad_exists{0}, go{0};
        tbb::enumerable_thread_specific<long> ets([&] { ++inits; return 1L; });
        const int NT = 96; std::vector<long*> first(NT, nullptr); std::vector<std::thread> ts;
        for (int t = 0; t < NT; ++t) ts.emplace_back([&, t] {
            while (go.load() <= t / 12) std::this_thread::yield();          // 8 waves of 12 threads
            bool ex = true; long* p = &ets.local(ex); first[t] = p; if (ex) ++bad_exists;
            for (int i = 0; i < 400; ++i) { bool e2 = false; long* q = &ets.local(e2); if (q != p) ++bad_addr; if (!e2) ++bad_exists; if ((i & 63) == 0) std::this_thread::yield(); }
            while (go.load() < 9) std::this_thread::yield();                 // stay alive (thread ids are the keys) and look again after every wave has arrived
            bool e3 = false; if (&ets.local(e3) != p || !e3) ++bad_addr;
        });
        for (int w = 1; w <= 8; ++w) { go = w; std::this_thread::sleep_for(3ms); }
        std::this_thread::sleep_for(10ms); go = 9;
        for (auto& t : ts) t.join();
        std::vector<long*> s(first); std::sort(s.begin(), s.end()); bool dup = std::adjacent_find(s.begin(), s.end()) != s.end();
        long sum = ets.combine([](long a, long b) { return a + b; });
        if (bad_addr || bad_exists || dup || (int)ets.size() != NT || inits.load() != NT || sum != NT) {
            why = "enumerable_thread_specific<long>, " + std::to_string(NT) + " threads in 8 waves: size()==" + std::to_string(ets.size()) + ", initialiser calls " + std::to_string(inits.load()) + ", combine(+) of the 1-initialised elements " +
                  std::to_string(sum) + ", " + std::to_string(bad_addr.load()) + " lookups returned a different element, " + std::to_string(bad_exists.load()) + " wrong exists flags, shared element: " + (dup ? "yes" : "no");
            return true;
        }
    }
    return false;
}
// copy construction from a container whose table has grown (keys of early threads sit in several tables of the chain): one element per thread in the copy
static bool ets_copy_recipe(std::string& why) {
    const int NT = 40; std::atomic<int> go{0}, bad{0}; std::atomic<bool> copied{false};
    tbb::enumerable_thread_specific<long> ets([] { return 0L; });
    tbb::enumerable_thread_specific<long>* cp = nullptr; std::vector<std::thread> ts;
    for (int t = 0; t < NT; ++t) ts.emplace_back([&, t] {
        while (go.load() <= t / 8) std::this_thread::yield();
        ets.local() = 1000 + t;
        while (go.load() < 6) std::this_thread::yield();
        ets.local();                                                          // re-inserted into the newest table: stale copies stay in the older ones
        ++go;
        while (!copied.load()) std::this_thread::yield();
        bool ex = false; long v = cp->local(ex); if (!ex || v != 1000 + t) ++bad;
    });
    for (int w = 1; w <= 5; ++w) { go = w; std::this_thread::sleep_for(3ms); }
    go = 6; while (go.load() < 6 + NT) std::this_thread::yield();
    tbb::enumerable_thread_specific<long> c(ets); cp = &c;
    long sum = 0; int n = 0; for (long v : c) { sum += v; ++n; }
    copied = true;
    for (auto& t : ts) t.join();
    long want = 0; for (int t = 0; t < NT; ++t) want += 1000 + t;
    if (bad || n != NT || (int)c.size() != NT || sum != want) {
        why = "copy of an enumerable_thread_specific<long> with " + std::to_string(NT) + " thread elements: the copy has size " + std::to_string(c.size()) + ", sum " + std::to_string(sum) + " (expected " + std::to_string(want) + "), " +
              std::to_string(bad.load()) + " threads did not find the copy of their own element";
        return true;
    }
    return false;
}
int main(int argc, char** argv) {
    std::string job = argc > 1 ? argv[1] : "", why;
    if (job.find("fault_array") != std::string::npos) { if (ets_fault_array_recipe(why)) std::printf("REPRODUCED class=ets-orphan-element-after-failed-table-allocation %s\n", why.c_str()); else std::printf("NOT-REPRODUCED\n"); return 0; }
    if (job.find("fault_init") != std::string::npos) { if (ets_fault_init_recipe(why)) std::printf("REPRODUCED class=ets-unbuilt-element-after-throwing-initialiser %s\n", why.c_str()); else std::printf("NOT-REPRODUCED\n"); return 0; }
    if (job.find("ets.copy") != std::string::npos) { if (ets_copy_recipe(why)) std::printf("REPRODUCED class=ets-copy %s\n", why.c_str()); else std::printf("NOT-REPRODUCED\n"); return 0; }
    if (job.rfind("once", 0) == 0) { if (once_overflow_recipe(why)) { std::printf("REPRODUCED class=call-once-reference-overflow %s\n", why.c_str()); return 0; }
        if (once_recipe(why)) { std::printf("REPRODUCED class=call-once-returns-early %s\n", why.c_str()); return 0; } }
    else if (ets_recipe(why)) { std::printf("REPRODUCED class=ets %s\n", why.c_str()); return 0; }
    if (once_recipe(why)) { std::printf("REPRODUCED class=call-once-returns-early %s\n", why.c_str()); return 0; }
    std::printf("NOT-REPRODUCED\n"); return 0;
}
