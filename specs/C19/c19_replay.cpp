// Native recipe for C19: a helper joins a winner whose function then throws; the helper's call may return only after the function really completed.
#include <oneapi/tbb/collaborative_call_once.h>
#include <oneapi/tbb/enumerable_thread_specific.h>
#include <atomic>
#include <thread>
#include <chrono>
#include <cstdio>
#include <string>
#include <vector>
using namespace std::chrono_literals;
static bool once_recipe(std::string& why) {
    for (int round = 0; round < 5; ++round) {
        tbb::collaborative_once_flag flag; std::atomic<int> attempts{0}, completed{0}; std::atomic<bool> winner_inside{false};
        auto fn = [&] {
            int a = attempts++;
            if (a == 0) {
                winner_inside = true;
                auto* runner = tbb::detail::d1::collaborative_once_runner::from_bits(flag.m_state.load() & ~std::uintptr_t(127));
                for (int i = 0; i < 3000 && runner->m_ref_count.load() == 0; ++i) std::this_thread::sleep_for(1ms);   // wait until a helper has joined (lifetime guard taken)
                std::this_thread::sleep_for(5ms);
                throw 42;
            }
            completed++;
        };
        bool helper_ok = true;
        std::thread helper([&] {
            while (!winner_inside) std::this_thread::yield();
            tbb::collaborative_call_once(flag, fn);
            if (completed.load() == 0) helper_ok = false;            // returned although the function never completed successfully
        });
        try { tbb::collaborative_call_once(flag, fn); } catch (int) {}
        helper.join();
        if (!helper_ok) { why = "collaborative_call_once: the first caller's function threw while a second caller was helping; the second caller's call returned although the function had not completed (attempts=" + std::to_string(attempts.load()) + ", completed=0) and the flag was left not-called"; return true; }
        if (completed.load() > 1) { why = "function completed " + std::to_string(completed.load()) + " times"; return true; }
    }
    return false;
}
// 127 helpers are in flight (their +1 steps are done by hand inside the winner's function); one more real caller arrives: it must wait, not add a 128th reference
static bool once_overflow_recipe(std::string& why) {
    tbb::collaborative_once_flag flag; std::atomic<bool> bad{false}; std::uintptr_t seen = 0, runner_bits = 0;
    std::thread extra;
    auto fn = [&] {
        runner_bits = flag.m_state.load() & ~std::uintptr_t(127);
        for (int i = 0; i < 127; ++i) flag.m_state.fetch_add(1);                 // what 127 helpers' CAS(expected, expected+1) steps do
        extra = std::thread([&] { tbb::collaborative_call_once(flag, [] {}); });
        auto* runner = tbb::detail::d1::collaborative_once_runner::from_bits(runner_bits);
        for (int i = 0; i < 300 && !bad; ++i) {
            std::uintptr_t st = flag.m_state.load();
            // a lifetime guard on the runner exists only for a caller that added a reference; none of the 127 hand-made references took one
            if ((st & ~std::uintptr_t(127)) != runner_bits || runner->m_ref_count.load() != 0) { bad = true; seen = st; }
            else std::this_thread::sleep_for(1ms);
        }
        for (int i = 0; i < 127; ++i) flag.m_state.fetch_sub(1);
    };
    tbb::collaborative_call_once(flag, fn);
    extra.join();
    if (bad) { char buf[300]; std::snprintf(buf, sizeof buf, "it incremented the state word %#lx (count field already 127), carrying into the runner pointer bits %#lx, and went on to use the runner (lifetime guard taken)", (unsigned long)(runner_bits | 127), (unsigned long)runner_bits);
               why = std::string("collaborative_call_once with 127 helper references outstanding: one more caller took a reference; ") + buf; return true; }
    return false;
}
static bool ets_recipe(std::string& why) {
    tbb::enumerable_thread_specific<int> ets([] { return 7; }); std::atomic<int> bad{0};
    std::vector<std::thread> ts;
    for (int t = 0; t < 16; ++t) ts.emplace_back([&] { int* p = &ets.local(); for (int i = 0; i < 1000; ++i) { bool ex; int* q = &ets.local(ex); if (q != p || !ex) ++bad; } });
    for (auto& t : ts) t.join();
    if (bad || ets.size() != 16) { why = "enumerable_thread_specific: 16 threads, size()==" + std::to_string(ets.size()) + ", " + std::to_string(bad.load()) + " lookups returned a different element"; return true; }
    return false;
}
int main(int argc, char** argv) {
    std::string job = argc > 1 ? argv[1] : "", why;
    if (job.rfind("once", 0) == 0) { if (once_overflow_recipe(why)) { std::printf("REPRODUCED class=call-once-reference-overflow %s\n", why.c_str()); return 0; }
        if (once_recipe(why)) { std::printf("REPRODUCED class=call-once-returns-early %s\n", why.c_str()); return 0; } }
    else if (ets_recipe(why)) { std::printf("REPRODUCED class=ets %s\n", why.c_str()); return 0; }
    if (once_recipe(why)) { std::printf("REPRODUCED class=call-once-returns-early %s\n", why.c_str()); return 0; }
    std::printf("NOT-REPRODUCED\n"); return 0;
}
