/* C19 harnesses: ETS hashing/claiming and the collaborative_call_once state word (sliced from the headers on every run) */
#include "verif.h"

#ifdef ETS
typedef uintptr_t key_type;
struct ets_array { struct ets_array *next; size_t lg_size; };
struct ets_slot { key_type key; void *ptr; };
#define LOOP_sizing_1
#ifdef SLOT
/* rely: a key slot goes 0 -> k exactly once (by some thread's successful CAS) and never changes afterwards */
key_type g_first; bool me_claimed; key_type g_k;
static struct ets_slot *S;
static void interfere(void) { if (S->key == 0 && nondet_bool()) { key_type x = nondet_uintptr_t(); __CPROVER_assume(x != 0 && x != g_k); S->key = x; } }   /* other threads have other keys */
#define ATOMIC_LOAD_AT(site, f) ({ interfere(); (f); })
#define ATOMIC_CAS_AT(site, f, e, d) ({ interfere(); key_type o_ = (f); bool r_ = (o_ == *(e)); if (r_) { (f) = (d); me_claimed = true; } else *(e) = o_; \
    __CPROVER_assert(o_ == 0 || (f) == o_, "guarantee: a claimed slot's key never changes, at " #site); r_; })
#else
#define ATOMIC_LOAD_AT(site, f) (f)
#define ATOMIC_CAS_AT(site, f, e, d) ((f) == *(e) ? ((f) = (d), true) : (*(e) = (f), false))
#endif
#include "ets.inc"
size_t IN_h, IN_lg, IN_c;
#ifndef SLOT
void h_probe(void) {
    struct ets_array a; a.lg_size = IN_lg = nondet_size_t(); __CPROVER_assume(a.lg_size >= 2 && a.lg_size <= 63);   /* arrays are created with lg_size >= 2 */
    size_t h = IN_h = nondet_size_t(), i = array_start(&a, h);
    OBLIGATION(array_size(&a) == ((size_t)1 << a.lg_size) && array_mask(&a) == array_size(&a) - 1, "C19.ets: size and mask");
    OBLIGATION(i < array_size(&a), "C19.ets: the first probe index lies inside the array for every hash");
    size_t j = nondet_size_t(); __CPROVER_assume(j < array_size(&a));
    OBLIGATION(((j + 1) & array_mask(&a)) < array_size(&a), "C19.ets: every further probe index lies inside the array");
    VACUITY_END();
}
void h_sizing(void) {
    struct ets_array r; r.lg_size = nondet_size_t(); __CPROVER_assume(r.lg_size >= 2 && r.lg_size <= 62);
    bool has = nondet_bool(); size_t c = IN_c = nondet_size_t(); __CPROVER_assume(c >= 1 && c <= ((size_t)1 << 61));
    __CPROVER_assume(!has || c > array_size(&r) / 2);          /* the branch condition under which the statements run */
    size_t s = ets_new_lg_size(has ? &r : NULL, c);
    OBLIGATION(s >= 2 && s <= 63 && c <= ((size_t)1 << (s - 1)), "C19.ets: the new array is at most half full once this key is counted: an empty slot is guaranteed for the final probe");
    OBLIGATION(!has || s > r.lg_size, "C19.ets: a replacement array is strictly larger");
    VACUITY_END();
}
#else
void h_claim(void) {
    struct ets_slot s; S = &s; s.key = nondet_bool() ? 0 : nondet_uintptr_t(); g_k = nondet_uintptr_t(); __CPROVER_assume(g_k != 0 && s.key != g_k); me_claimed = false;
    bool ok = slot_claim(&s, g_k);
    interfere();
    OBLIGATION(ok == me_claimed && (!ok || s.key == g_k), "C19.ets: claim returns true iff this thread's CAS installed its key; the slot then belongs to it for good");
    OBLIGATION(ok || s.key != g_k, "C19.ets: a failed claim leaves the slot to its owner");
    OBLIGATION(slot_match(&s, g_k) == ok && !slot_empty(&s), "C19.ets: afterwards the slot is non-empty and matches this key iff claimed");
    VACUITY_END();
}
#endif
#endif

#ifdef ONCE
#define uninitialized ((uintptr_t)0)
#define done ((uintptr_t)1)
#define collaborative_once_references_mask ((uintptr_t)127)     /* max_nfs_size - 1 (checked by spec.py) */
#define MASK collaborative_once_references_mask
struct flag { uintptr_t m_state; };
struct runner { int dummy; };
static struct flag F; uintptr_t g_mybits; bool me_winner, me_ref, g_threw; uintptr_t g_ref_bits;
#define SHAPE(v) ((v) == uninitialized || (v) == done || ((v) & ~MASK) != 0)
#define RUNNER_INIT(r) ((void)0)
#define RUNNER_BITS(r) g_mybits
#define FROM_BITS(b) (b)
/* rely: done is absorbing; while I hold a reference the word keeps its runner and a positive count; while I am the winner only the count moves */
static void interfere(void) {
    uintptr_t o = F.m_state, n = nondet_uintptr_t();
    __CPROVER_assume(SHAPE(n));
    __CPROVER_assume(o != done || n == done);
    __CPROVER_assume(!me_ref || ((n & ~MASK) == g_ref_bits && (n & MASK) >= 1));
    __CPROVER_assume(!me_winner || (n & ~MASK) == g_mybits);
    __CPROVER_assume(me_winner || (n & ~MASK) != g_mybits || n <= done);     /* nobody else installs my runner */
    F.m_state = n;
}
#define ATOMIC_LOAD_AT(site, f) ({ interfere(); (f); })
#define ATOMIC_CAS_AT(site, f, e, d) ({ interfere(); uintptr_t o_ = (f); bool r_ = (o_ == *(e)); if (r_) (f) = (d); else *(e) = o_; GHOST_##site; \
    __CPROVER_assert(SHAPE(f), "guarantee: the state word keeps its shape at " #site); r_; })
#define ATOMIC_FETCH_SUB_AT(site, f, d) ({ interfere(); __CPROVER_assert(me_ref && ((f) & MASK) >= 1, "guarantee: a reference is dropped only by a thread that holds one, at " #site); (f) -= (d); me_ref = false; (f) + (d); })
#define GHOST_once_CAS_1 do { if (r_) { __CPROVER_assert(o_ == uninitialized, "C19.once: the winner is elected only from the uninitialized state"); me_winner = true; } } while (0)
#define GHOST_once_CAS_2 do { if (r_) { __CPROVER_assert(o_ > done && (o_ & MASK) != MASK, "C19.once: the helper count never carries into the runner pointer bits, and uninitialized/done are never incremented"); me_ref = true; g_ref_bits = o_ & ~MASK; } } while (0)
#define GHOST_scs_CAS_1 do { if (r_) { __CPROVER_assert(me_winner && o_ == g_mybits, "C19.once: only the winner completes, and only once every helper reference is gone"); me_winner = false; } } while (0)
#define SPIN_WAIT_UNTIL_EQ(loc, v) do { interfere(); __CPROVER_assume((loc) == (v)); } while (0)
/* assumption A (stated): a word seen after the runner changed is not already saturated with 127 helpers */
#define SPIN_WAIT_WHILE_EQ(loc, v) ({ interfere(); __CPROVER_assume((loc) != (v)); __CPROVER_assume(((loc) & ~MASK) == ((v) & ~MASK) || ((loc) & MASK) != MASK || (loc) <= done); (loc); })
#define LIFETIME_GUARD_ENTER(b) ((void)0)
#define LIFETIME_GUARD_LEAVE(b) ((void)0)
static void STUB_assist(uintptr_t bits) { interfere(); }
#define LOOP_scs_1 __CPROVER_assigns(expected, F.m_state, me_winner) __CPROVER_loop_invariant(me_winner && runner_bits == g_mybits && SHAPE(F.m_state))
#define ONCE_INV (!me_ref && !me_winner && !g_threw && SHAPE(F.m_state) && (expected != done || F.m_state == done))
#define LOOP_once_1 __CPROVER_assigns(expected, F.m_state, me_winner, me_ref, g_ref_bits, g_threw) __CPROVER_loop_invariant(ONCE_INV)
#define LOOP_once_2 __CPROVER_assigns(expected, F.m_state, me_winner, me_ref, g_ref_bits, g_threw) __CPROVER_loop_invariant(ONCE_INV)
static void flag_set_completion_state(struct flag *self, uintptr_t runner_bits, uintptr_t desired);
/* contract of run_once + the two lambdas: the functor either completes (completion state done) or throws (state reset to uninitialized, exception leaves the call) */
static void STUB_run_once(struct flag *self, struct runner *r) {
    OBLIGATION(me_winner, "C19.once: the functor is run by the elected winner only");
    interfere();
    if (nondet_bool()) flag_set_completion_state(self, g_mybits, done);
    else { flag_set_completion_state(self, g_mybits, uninitialized); g_threw = true; }
}
#include "once.inc"
static void init(void) { g_mybits = nondet_uintptr_t(); __CPROVER_assume((g_mybits & MASK) == 0 && g_mybits != 0); me_winner = me_ref = g_threw = false; F.m_state = nondet_uintptr_t(); __CPROVER_assume(SHAPE(F.m_state) && (F.m_state & ~MASK) != g_mybits); }
void h_scs(void) {
    init(); me_winner = true; F.m_state = g_mybits | (nondet_uintptr_t() & MASK);
    uintptr_t desired = nondet_bool() ? done : uninitialized;
    flag_set_completion_state(&F, g_mybits, desired);
    OBLIGATION(!me_winner, "C19.once: set_completion_state returns only after its CAS replaced the reference-free runner word");
    VACUITY_END();
}
void h_once(void) {
    init();
    flag_do_collaborative_call_once(&F);
    interfere();
    OBLIGATION(g_threw || F.m_state == done, "C19.once: a call returns normally only after the function has completed successfully (state done), however it raced with winners that threw");
    OBLIGATION(!me_ref && !me_winner, "C19.once: no helper reference and no winner role is left behind");
    VACUITY_END();
}
#endif
