/* C19 harnesses: ETS hashing/claiming and the collaborative_call_once state word (sliced from the headers on every run) */
#include "verif.h"

#ifdef ETS
typedef uintptr_t key_type;
struct ets_array { struct ets_array *next; size_t lg_size; };
struct ets_slot { key_type key; void *ptr; };
#define ARR_LG(p) ((p)->lg_size)
#define LOOP_sizing_1
#ifdef SLOT
/* rely: a key slot goes 0 -> k exactly once (by some thread's successful CAS) and never changes afterwards */
key_type g_first; bool me_claimed; key_type g_k;
static struct ets_slot *S;
static void interfere(void) { if (S->key == 0 && nondet_bool()) { key_type x = nondet_uintptr_t(); __CPROVER_assume(x != 0 && x != g_k); S->key = x; } }   /* other threads have other keys */
#define ATOMIC_LOAD_AT(site, f) ({ interfere(); (f); })
#define ATOMIC_CAS_AT(site, f, e, d) ({ interfere(); key_type o_ = (f); bool r_ = (o_ == *(e)); if (r_) { (f) = (d); me_claimed = true; } else *(e) = o_; \
    __CPROVER_assert(o_ == 0 || (f) == o_, "guarantee: a claimed slot's key never changes, at " #site); r_; })
#else
#define ATOMIC_LOAD_AT(site, f) (f)
#define ATOMIC_CAS_AT(site, f, e, d) ((f) == *(e) ? ((f) = (d), true) : (*(e) = (f), false))
#endif
#include "ets.inc"
size_t IN_h, IN_lg, IN_c;
#ifndef SLOT
void h_probe(void) {
    struct ets_array a; a.lg_size = IN_lg = nondet_size_t(); __CPROVER_assume(a.lg_size >= 2 && a.lg_size <= 63);   /* arrays are created with lg_size >= 2 */
    size_t h = IN_h = nondet_size_t(), i = array_start(&a, h);
    OBLIGATION(array_size(&a) == ((size_t)1 << a.lg_size) && array_mask(&a) == array_size(&a) - 1, "C19.ets: size and mask");
    OBLIGATION(i < array_size(&a), "C19.ets: the first probe index lies inside the array for every hash");
    size_t j = nondet_size_t(); __CPROVER_assume(j < array_size(&a));
    OBLIGATION(((j + 1) & array_mask(&a)) < array_size(&a), "C19.ets: every further probe index lies inside the array");
    VACUITY_END();
}
void h_sizing(void) {
    struct ets_array r; r.lg_size = nondet_size_t(); __CPROVER_assume(r.lg_size >= 2 && r.lg_size <= 62);
    bool has = nondet_bool(); size_t c = IN_c = nondet_size_t(); __CPROVER_assume(c >= 1 && c <= ((size_t)1 << 61));
    __CPROVER_assume(!has || c > array_size(&r) / 2);          /* the branch condition under which the statements run */
    size_t s = ets_new_lg_size(has ? &r : NULL, c);
    OBLIGATION(s >= 2 && s <= 63 && c <= ((size_t)1 << (s - 1)), "C19.ets: the new array is at most half full once this key is counted: an empty slot is guaranteed for the final probe");
    OBLIGATION(!has || s > r.lg_size, "C19.ets: a replacement array is strictly larger");
    VACUITY_END();
}
#else
void h_claim(void) {
    struct ets_slot s; S = &s; s.key = nondet_bool() ? 0 : nondet_uintptr_t(); g_k = nondet_uintptr_t(); __CPROVER_assume(g_k != 0 && s.key != g_k); me_claimed = false;
    bool ok = slot_claim(&s, g_k);
    interfere();
    OBLIGATION(ok == me_claimed && (!ok || s.key == g_k), "C19.ets: claim returns true iff this thread's CAS installed its key; the slot then belongs to it for good");
    OBLIGATION(ok || s.key != g_k, "C19.ets: a failed claim leaves the slot to its owner");
    OBLIGATION(slot_match(&s, g_k) == ok && !slot_empty(&s), "C19.ets: afterwards the slot is non-empty and matches this key iff claimed");
    VACUITY_END();
}
#endif
#endif

#ifdef ONCE
#define uninitialized ((uintptr_t)0)
#define done ((uintptr_t)1)
#define collaborative_once_references_mask ((uintptr_t)127)     /* max_nfs_size - 1 (checked by spec.py) */
#define MASK collaborative_once_references_mask
struct flag { uintptr_t m_state; };
struct runner { int64_t m_ref_count; bool m_is_ready; };
static struct flag F; uintptr_t g_mybits; bool me_winner, me_ref, me_guard, g_exc, g_throws, was_winner; uintptr_t g_ref_bits; unsigned n_calls, n_done, n_uninit, n_dtor;
static struct runner SHARED;                     /* the runner of the winner this call helps (named by g_ref_bits) */
#define SHAPE(v) ((v) == uninitialized || (v) == done || ((v) & ~MASK) != 0)
#define RUNNER_INIT(r) ((void)0)
#define RUNNER_BITS(r) g_mybits
#define FROM_BITS(b) (b)
#define EXC_PENDING() (g_exc)
#define EXC_RETHROW() return
#define RUNNER_DTOR(r) do { __CPROVER_assert(!me_guard && !me_ref && !me_winner, "C19.once: the caller's own runner is destroyed only after the caller gave up every role (winner, state-word reference, lifetime reference)"); n_dtor++; } while (0)
#define EXC_PROPAGATE() do { if (g_exc) { RUNNER_DTOR(&runner); return; } } while (0)     /* stack unwinding destroys the local runner */
/* rely: done is absorbing; while I hold a reference the word keeps its runner and a positive count; while I am the winner only the count moves */
static void interfere(void) {
    uintptr_t o = F.m_state, n = nondet_uintptr_t();
    __CPROVER_assume(SHAPE(n));
    __CPROVER_assume(o != done || n == done);
    __CPROVER_assume(!me_ref || ((n & ~MASK) == g_ref_bits && (n & MASK) >= 1));
    __CPROVER_assume(!me_winner || (n & ~MASK) == g_mybits);
    __CPROVER_assume(me_winner || (n & ~MASK) != g_mybits || n <= done);     /* nobody else installs my runner */
    F.m_state = n;
    int64_t c = nondet_i64(); __CPROVER_assume(c >= (me_guard ? 1 : 0) && c < 1000000); SHARED.m_ref_count = c;   /* other helpers take and drop lifetime references; mine stays counted */
}
#define ATOMIC_LOAD_AT(site, f) ({ interfere(); (f); })
#define ATOMIC_CAS_AT(site, f, e, d) ({ interfere(); uintptr_t o_ = (f); bool r_ = (o_ == *(e)); if (r_) (f) = (d); else *(e) = o_; GHOST_##site; \
    __CPROVER_assert(SHAPE(f), "guarantee: the state word keeps its shape at " #site); r_; })
#define ATOMIC_FETCH_SUB_AT(site, f, d) ({ interfere(); __CPROVER_assert(me_ref && ((f) & MASK) >= 1, "guarantee: a reference is dropped only by a thread that holds one, at " #site); \
    __CPROVER_assert(me_guard, "C19.once: a helper drops its reference in the state word only after its lifetime reference on the runner is in place: the runner cannot be destroyed while the helper still uses it"); \
    (f) -= (d); me_ref = false; (f) + (d); })
#define ATOMIC_POSTINC_AT(site, f) ({ interfere(); GHOST_##site; (f)++; })
#define ATOMIC_POSTDEC_AT(site, f) ({ interfere(); GHOST_##site; (f)--; })
#define GHOST_guard_ctor_POSTINC_1 do { __CPROVER_assert(me_ref && !me_guard, "C19.once: the lifetime reference is taken while the helper still holds its reference in the state word (the winner waits for those before it completes, so the runner is alive)"); me_guard = true; } while (0)
#define GHOST_guard_dtor_POSTDEC_1 do { __CPROVER_assert(me_guard, "C19.once: each lifetime reference taken is released exactly once"); me_guard = false; } while (0)
#define GHOST_once_CAS_1 do { if (r_) { __CPROVER_assert(o_ == uninitialized, "C19.once: the winner is elected only from the uninitialized state"); me_winner = true; was_winner = true; } } while (0)
#define GHOST_once_CAS_2 do { if (r_) { __CPROVER_assert(o_ > done && (o_ & MASK) != MASK, "C19.once: the helper count never carries into the runner pointer bits, and uninitialized/done are never incremented"); me_ref = true; g_ref_bits = o_ & ~MASK; } } while (0)
#define GHOST_scs_CAS_1 do { if (r_) { __CPROVER_assert(me_winner && o_ == g_mybits, "C19.once: only the winner completes, and only once every helper reference is gone"); me_winner = false; if (desired == done) n_done++; else n_uninit++; } } while (0)
#define SPIN_WAIT_UNTIL_EQ(loc, v) do { interfere(); __CPROVER_assume((loc) == (v)); } while (0)
/* assumption A (stated): a word seen after the runner changed is not already saturated with 127 helpers */
#define SPIN_WAIT_WHILE_EQ(loc, v) ({ interfere(); __CPROVER_assume((loc) != (v)); __CPROVER_assume(((loc) & ~MASK) == ((v) & ~MASK) || ((loc) & MASK) != MASK || (loc) <= done); (loc); })
static void lifetime_guard_ctor(struct runner *m_runner); static void lifetime_guard_dtor(struct runner *m_runner);
#define LIFETIME_GUARD_ENTER(b) do { __CPROVER_assert((b) == g_ref_bits, "C19.once: the runner joined is the one whose reference was taken"); lifetime_guard_ctor(&SHARED); } while (0)
#define LIFETIME_GUARD_LEAVE(b) lifetime_guard_dtor(&SHARED)
static void STUB_assist(uintptr_t bits) { __CPROVER_assert(me_guard && !me_ref, "C19.once: a helper joins the winner's arena under its lifetime reference only"); interfere(); }     /* assist: job once.assist; noexcept */
static void STUB_user_function(void) { __CPROVER_assert(me_winner, "C19.once: the function is run by the elected winner only"); n_calls++; interfere(); if (g_throws) g_exc = true; }
#define LOOP_scs_1 __CPROVER_assigns(expected, F.m_state, SHARED.m_ref_count, me_winner, n_done, n_uninit) __CPROVER_loop_invariant(me_winner && runner_bits == g_mybits && SHAPE(F.m_state) && n_done == 0 && n_uninit == 0)
#define ONCE_INV (!me_ref && !me_winner && !me_guard && !g_exc && n_dtor == 0 && SHAPE(F.m_state) && (expected != done || F.m_state == done) && n_calls == 0 && n_done == 0 && n_uninit == 0 && !was_winner)
#define ONCE_ASSIGNS expected, F.m_state, SHARED.m_ref_count, me_winner, was_winner, me_ref, me_guard, g_ref_bits, g_exc, n_calls, n_done, n_uninit, n_dtor
#define LOOP_once_1 __CPROVER_assigns(ONCE_ASSIGNS) __CPROVER_loop_invariant(ONCE_INV)
#define LOOP_once_2 __CPROVER_assigns(ONCE_ASSIGNS) __CPROVER_loop_invariant(ONCE_INV)
static void flag_set_completion_state(struct flag *self, uintptr_t runner_bits, uintptr_t desired);
static void once_winner_body(struct flag *self);
/* run_once (job once.run_once) runs the task body - the lambda sliced out of do_collaborative_call_once - exactly once and passes its exception on */
static void STUB_run_once(struct flag *self, struct runner *r) {
    OBLIGATION(me_winner, "C19.once: run_once is entered by the elected winner only");
    interfere();
    once_winner_body(self);
}
#include "once.inc"
static void init(void) { g_mybits = nondet_uintptr_t(); __CPROVER_assume((g_mybits & MASK) == 0 && g_mybits != 0); me_winner = me_ref = me_guard = g_exc = was_winner = false; g_throws = nondet_bool(); n_calls = n_done = n_uninit = n_dtor = 0;
    SHARED.m_ref_count = 0; SHARED.m_is_ready = false; F.m_state = nondet_uintptr_t(); __CPROVER_assume(SHAPE(F.m_state) && (F.m_state & ~MASK) != g_mybits); }
void h_scs(void) {
    init(); me_winner = true; F.m_state = g_mybits | (nondet_uintptr_t() & MASK);
    uintptr_t desired = nondet_bool() ? done : uninitialized;
    flag_set_completion_state(&F, g_mybits, desired);
    OBLIGATION(!me_winner, "C19.once: set_completion_state returns only after its CAS replaced the reference-free runner word");
    VACUITY_END();
}
void h_once(void) {
    init();
    flag_do_collaborative_call_once(&F);
    interfere();
    OBLIGATION(g_exc || F.m_state == done, "C19.once: a call returns normally only after the function has completed successfully (state done), however it raced with winners that threw");
    OBLIGATION(!me_ref && !me_winner && !me_guard && n_dtor == 1, "C19.once: no helper reference, no lifetime reference and no winner role is left behind, and the caller's runner is destroyed once");
    OBLIGATION(n_calls == (was_winner ? 1u : 0u), "C19.once: the function is run exactly once by the call that won the election and never by a call that did not");
    if (g_exc) OBLIGATION(was_winner && n_uninit == 1 && n_done == 0, "C19.once: when the function throws, the exception leaves through the winner's call only, after the flag was put back to the not-called state exactly once (a later or concurrent call retries); the flag is not marked done");
    else OBLIGATION(n_uninit == 0 && n_done == (was_winner ? 1u : 0u), "C19.once: a winner whose function returned marks the flag done exactly once and never resets it");
    VACUITY_END();
}
#endif

#ifdef LOOKUP
/* ---- ets_base::table_lookup as a whole (+ allocate / deallocate), for ONE thread (key g_k, hash g_h) running one call among any number of other threads.
   Shared state and rely (what the other threads, which run this same function under other keys, may do between any two of this thread's atomic steps):
     * a slot's key goes 0 -> k' exactly once, by the CAS of the thread whose key k' is; this thread's key is written by nobody else;
     * my_root only ever moves to a strictly larger table that is linked (transitively) in front of the previous root; tables are never unlinked or changed below the root;
       my_count only grows.
   Tables are therefore identified by their lg_size: the pointer TABP(l) == l << 6 names THE table of 2^l slots that some OTHER thread pushes at some time; its `next` link is any
   smaller level or NULL that does not skip the table holding this thread's key (links are immutable once a table is published; each is read at most once per walk); MYP names
   the array this call allocates (fields MY_next / MY_lg).  The fields of `array` are reached through the accessors ARR_NEXT / ARR_LG (extraction rewrites `x->next`, `x->lg_size`).
   Slots are not stored: array::at is an oracle that hands out one scratch slot whose content is any content compatible with the rely and with the facts about THIS thread's key
   (below); the sliced slot::empty/match/claim work on it.
   Entry fact (the inductive invariant of a thread, re-established by the obligations at the claim): either the thread has no element and its key is in no table (me_lvl == 0), or
   its key sits in the table of level me_lvl at index me_idx with the element pointer &OLD_ELEM, that table is the NEWEST table holding the key, it is reachable from the root (every
   table above it links down through it), and every slot from the key's home index start(h) up to me_idx is occupied (so that a probe reaches the key before it meets an empty slot).
   Older tables may hold stale copies of the key; they carry the same element.
   Facts about all slots are stated for ONE arbitrary slot (g_jt, g_j).  Termination of the probe / retry loops is not claimed. ---- */
typedef uintptr_t key_type;
struct ets_array { struct ets_array *next; size_t lg_size; };
struct ets_slot { key_type key; void *ptr; };
struct ets_base { struct ets_array *my_root; size_t my_count; };
#define NLV 64
#define TABP(l) ((struct ets_array *)((uintptr_t)(l) << 6))
#define MYP TABP(NLV)
#define IS_TAB(p) ((((uintptr_t)(p)) & 63) == 0 && ((uintptr_t)(p) >> 6) >= 2 && ((uintptr_t)(p) >> 6) < NLV)
static struct ets_base B;
static char OLD_ELEM, NEW_ELEM;
static struct ets_array *MY_next, *scratch_next; static size_t MY_lg, scratch_lg;
key_type g_k; size_t g_h, me_lvl, me_idx, me_rel, my_c, arr_bytes, claim_idx, cur_idx, g_j;
bool g_exists, g_exc, g_fail_array, g_fail_init, arr_zeroed, gj_seen;
unsigned created, me_incs, my_claims;
int my_arr;                                      /* 0: none, 1: allocated and private, 2: published as root, 3: freed */
struct ets_array *claim_tab, *cur_tab, *g_jt; static struct ets_slot SL; void *sl_ptr0;
#define IMP(a, b) (!(a) || (b))
#define EXC_PROPAGATE(...) do { if (g_exc) return __VA_ARGS__; } while (0)
#define LVL(p) ((p) == MYP ? MY_lg : (size_t)((uintptr_t)(p) >> 6))
#define IN_CHAIN(p) (IS_TAB(p) || ((p) == MYP && my_arr == 2))
#define ROOTLVL() (B.my_root == NULL ? (size_t)0 : LVL(B.my_root))
#define ROOT_OK ((B.my_root == NULL || IN_CHAIN(B.my_root)) && IMP(me_lvl != 0, B.my_root != NULL && LVL(B.my_root) >= me_lvl))
static size_t *arr_lg(struct ets_array *p) {
    __CPROVER_assert(IS_TAB(p) || (p == MYP && my_arr != 0), "C19.lookup: only tables of the chain and the array this call allocated are dereferenced");
    if (p == MYP) return &MY_lg;
    scratch_lg = (size_t)((uintptr_t)p >> 6); return &scratch_lg;
}
static struct ets_array **arr_next(struct ets_array *p) {
    __CPROVER_assert(IS_TAB(p) || (p == MYP && my_arr != 0), "C19.lookup: only tables of the chain and the array this call allocated are dereferenced");
    if (p == MYP) return &MY_next;
    size_t l = (size_t)((uintptr_t)p >> 6), n = nondet_size_t();
    __CPROVER_assume(n < l && n != 1 && (me_lvl == 0 || l <= me_lvl || n >= me_lvl));        /* links go strictly down and do not skip the table that holds this thread's key */
    scratch_next = n ? TABP(n) : NULL; return &scratch_next;
}
#define ARR_LG(p) (*arr_lg((struct ets_array *)(p)))
#define ARR_NEXT(p) (*arr_next((struct ets_array *)(p)))
#define LOOP_sizing_1
static void interfere_slot(void) { if (SL.key == 0 && nondet_bool()) { key_type x = nondet_uintptr_t(); __CPROVER_assume(x != 0 && x != g_k); SL.key = x; } }
static void interfere_root(void) { if (nondet_bool()) { size_t l = nondet_size_t(); __CPROVER_assume(l >= 2 && l < NLV && l > ROOTLVL()); B.my_root = TABP(l); } }
static void interfere_count(void) { size_t n = nondet_size_t(); __CPROVER_assume(n >= B.my_count && n < ((size_t)1 << 48)); B.my_count = n; }
static void note_nonempty(void) { if (cur_tab == g_jt && cur_idx == g_j) gj_seen = true; }
static void ghost_claimed(key_type d);
static void ghost_publish(struct ets_array *old, struct ets_array *a);
#define ATOMIC_LOAD_AT(site, f) LOAD_##site(f)
#define LOAD_empty_LOAD_1(f) ({ interfere_slot(); key_type v_ = (f); if (v_ != 0) note_nonempty(); v_; })
#define LOAD_match_LOAD_1(f) ({ interfere_slot(); (f); })
#define LOAD_ROOT(f) ({ interfere_root(); (f); })
#define LOAD_lookup_LOAD_1(f) LOAD_ROOT(f)
#define LOAD_lookup_LOAD_2(f) LOAD_ROOT(f)
#define LOAD_lookup_LOAD_3(f) LOAD_ROOT(f)
#define LOAD_lookup_LOAD_4(f) LOAD_ROOT(f)
#define LOAD_lookup_LOAD_5(f) LOAD_ROOT(f)
#define ATOMIC_CAS_AT(site, f, e, d) CAS_##site(f, e, d)
#define CAS_claim_CAS_1(f, e, d) ({ interfere_slot(); key_type o_ = (f); bool r_ = (o_ == *(e)); if (r_) { (f) = (d); ghost_claimed(d); } else { *(e) = o_; note_nonempty(); } r_; })
#define CAS_lookup_CAS_1(f, e, d) ({ interfere_root(); struct ets_array *o_ = (f); bool r_ = (o_ == *(e)); if (r_) { ghost_publish(o_, (d)); (f) = (d); } else *(e) = o_; r_; })
#define ATOMIC_PREINC_AT(site, f) ({ interfere_count(); me_incs++; my_c = ++(f); my_c; })
#include "ets.inc"
/* array::start(h) is used through its contract (job ets.probe_index: a value below size() for every hash; a pure function of the table and the hash): the home index of this thread's
   hash in table t is HOME(t) - one arbitrary value for the table that holds the key, one for the table of the arbitrary slot g_j, one for all others, cut to the table's size.
   ASZ / DIST are side-effect-free spellings for loop invariants; STUB_at checks on every probe that ASZ agrees with the sliced array::size / mask. */
size_t g_home_me, g_home_j, g_home_o;
#define ASZ(t) ((size_t)1 << LVL(t))
#define HOME(t) (((t) == g_jt ? g_home_j : ((t) != MYP && me_lvl != 0 && LVL(t) == me_lvl) ? g_home_me : g_home_o) & (ASZ(t) - 1))
#define DIST(t, x) (((x) - HOME(t)) & (ASZ(t) - 1))
static size_t STUB_start(struct ets_array *t, size_t h) {
    OBLIGATION(t != NULL && (IS_TAB(t) || (t == MYP && my_arr == 2)), "C19.lookup: only tables of the chain are probed");
    OBLIGATION(h == g_h, "C19.lookup: a probe starts at the home index of the calling thread's hash");
    return HOME(t);
}
static void slot_release(void) {
    OBLIGATION(SL.ptr == sl_ptr0 || (SL.key == g_k && my_claims == 1 && cur_tab == claim_tab && cur_idx == claim_idx),
               "C19.lookup: an element pointer is stored only into the slot this call has just claimed: no two threads share a slot");
}
static struct ets_slot *STUB_at(struct ets_array *t, size_t i) {
    OBLIGATION(t != NULL && IN_CHAIN(t), "C19.lookup: only tables of the chain are probed");
    OBLIGATION(i < array_size(t), "C19.lookup: every probe index lies inside the table");
    __CPROVER_assert(array_size(t) == ASZ(t) && array_mask(t) == ASZ(t) - 1, "spec: the invariants' spelling of size and mask agrees with the sliced functions");
    slot_release();
    cur_tab = t; cur_idx = i;
    key_type kk = nondet_uintptr_t(); void *pp = nondet_ptr();
    if (my_claims != 0 && t == claim_tab && i == claim_idx) { kk = g_k; pp = SL.ptr; }                 /* the slot claimed earlier in this call */
    else if (me_lvl != 0 && t != MYP && LVL(t) == me_lvl) {                                             /* the newest table holding the key */
        size_t rel = DIST(t, i);
        if (rel == me_rel) { kk = g_k; pp = &OLD_ELEM; }                                                /* i.e. i == me_idx */
        else { __CPROVER_assume(kk != g_k); if (rel < me_rel) __CPROVER_assume(kk != 0); }
    } else if (me_lvl == 0 || t == MYP || LVL(t) > me_lvl) __CPROVER_assume(kk != g_k);               /* newer tables do not hold it */
    else if (kk == g_k) pp = &OLD_ELEM;                                                                   /* stale copies in older tables carry the same element */
    SL.key = kk; SL.ptr = pp; sl_ptr0 = pp;
    return &SL;
}
static void ghost_claimed(key_type d) {
    OBLIGATION(d == g_k && my_claims == 0, "C19.lookup: a call claims at most one slot, under the calling thread's key");
    OBLIGATION(me_lvl == 0 || LVL(cur_tab) > me_lvl, "C19.lookup: the key is put only into a table strictly newer than the newest table that holds it: at most one slot per table carries a thread's key");
    OBLIGATION(!(cur_tab == g_jt && g_j < ASZ(cur_tab) && DIST(cur_tab, g_j) < DIST(cur_tab, cur_idx)) || gj_seen,
               "C19.lookup: every slot between the key's home index and the slot claimed was seen occupied (arbitrary slot g_j): every later search reaches the key before it meets an empty slot and returns the same element");
    OBLIGATION(me_incs == 0 || my_c <= ASZ(cur_tab) / 2, "C19.lookup: a new key goes into a table of at least twice its count: no table is ever more than half full, so concurrent first accesses always find an empty slot");
    my_claims++; claim_tab = cur_tab; claim_idx = cur_idx;
}
static void ghost_publish(struct ets_array *old, struct ets_array *a) {
    OBLIGATION(a == MYP && my_arr == 1, "C19.lookup: only the array this call allocated (not freed, not yet published) is published as root");
    OBLIGATION(MY_next == old, "C19.lookup: the new root is linked in front of exactly the root it replaces: no table, and so no thread's element, drops out of the chain");
    OBLIGATION(old == NULL || MY_lg > LVL(old), "C19.lookup: a new root is strictly larger than the root it replaces (the order every thread's 'equal or bigger array' test relies on)");
    OBLIGATION(arr_zeroed && MY_lg >= 2 && MY_lg < NLV && arr_bytes == sizeof(struct ets_array) + ((size_t)1 << MY_lg) * sizeof(struct ets_slot),
               "C19.lookup: a published table carries its size, was allocated with room for the header and 2^lg_size slots, and all its slots are empty");
    my_arr = 2;
}
static key_type STUB_current_key(void) { return g_k; }
static size_t STUB_hash(key_type k) { __CPROVER_assert(k == g_k, "C19.lookup: the hash is taken of the thread's key"); return g_h; }
static void *STUB_create_local(struct ets_base *self) {
    OBLIGATION(me_lvl == 0, "C19.lookup: an element is created only for a thread that has none: a thread that has one finds it again (exists == true on every call after the first)");
    __CPROVER_assume(me_lvl == 0);               /* (checked just above) */
    OBLIGATION(created == 0, "C19.lookup: one initialiser call per first access");
    if (g_fail_init) { g_exc = true; return NULL; }
    created++; return &NEW_ELEM;
}
static void *STUB_create_array(struct ets_base *self, size_t bytes) {
    OBLIGATION(my_arr == 0, "C19.lookup: at most one array is allocated per call");
    if (g_fail_array) { g_exc = true; return NULL; }
    my_arr = 1; arr_bytes = bytes; arr_zeroed = false; MY_next = (struct ets_array *)nondet_ptr(); MY_lg = nondet_size_t();
    return MYP;
}
static void STUB_memset(void *p, int c, size_t n) {
    OBLIGATION(my_arr == 1 && p == (void *)(MYP + 1) && c == 0 && n == arr_bytes - sizeof(struct ets_array), "C19.lookup: the whole slot area of a new array is cleared before the array can be published");
    arr_zeroed = true;
}
static void STUB_free_array(struct ets_base *self, void *p, size_t bytes) {
    OBLIGATION(p == (void *)MYP && my_arr == 1, "C19.lookup: only an array this call allocated and did not publish is freed, and only once");
    OBLIGATION(bytes == arr_bytes, "C19.lookup: an array is freed with the byte size it was allocated with");
    my_arr = 3;
}
#define LK_ASSIGNS_SLOT SL, cur_tab, cur_idx, sl_ptr0, gj_seen, scratch_lg, scratch_next
#define LOOP_lookup_chain __CPROVER_assigns(r, found, *exists, B.my_root, LK_ASSIGNS_SLOT) \
    __CPROVER_loop_invariant((r == NULL || IS_TAB(r)) && ROOT_OK && SL.ptr == sl_ptr0 && IMP(me_lvl != 0, r != NULL && LVL(r) >= me_lvl))
#define LOOP_lookup_probe __CPROVER_assigns(i, found, *exists, B.my_root, LK_ASSIGNS_SLOT) \
    __CPROVER_loop_invariant(ROOT_OK && SL.ptr == sl_ptr0 && i < ASZ(r) && IMP(me_lvl != 0 && LVL(r) == me_lvl, DIST(r, i) <= me_rel))
#define S0 (r ? LVL(r) : (size_t)2)
#define LOOP_lookup_sizing __CPROVER_assigns(s) __CPROVER_loop_invariant(s >= S0 && s <= 62 && (s == S0 || c > ((size_t)1 << (s - 2)))) __CPROVER_decreases(64 - s)
#define LOOP_lookup_publish __CPROVER_assigns(r, B.my_root, MY_next, my_arr, scratch_lg, scratch_next) \
    __CPROVER_loop_invariant(my_arr == 1 && a == MYP && MY_lg == s && arr_zeroed && (r == NULL || (IS_TAB(r) && LVL(r) < s && B.my_root != NULL && LVL(B.my_root) >= LVL(r))) && ROOT_OK)
#define LOOP_lookup_insert __CPROVER_assigns(i, LK_ASSIGNS_SLOT, my_claims, claim_tab, claim_idx) \
    __CPROVER_loop_invariant(i < ASZ(ir) && SL.ptr == sl_ptr0 && my_claims == 0 && IMP(ir == g_jt && g_j < ASZ(ir) && DIST(ir, g_j) < DIST(ir, i), gj_seen))
#include "lookup.inc"
size_t IN_me_lvl, IN_root_lvl;
static void lk_init(bool returning) {
    g_k = nondet_uintptr_t(); __CPROVER_assume(g_k != 0); g_h = nondet_size_t(); g_home_me = nondet_size_t(); g_home_j = nondet_size_t(); g_home_o = nondet_size_t();
    me_lvl = IN_me_lvl = returning ? nondet_size_t() : 0; __CPROVER_assume(!returning || (me_lvl >= 2 && me_lvl < NLV));
    size_t rl = IN_root_lvl = nondet_size_t(); __CPROVER_assume(rl == 0 ? me_lvl == 0 : (rl >= 2 && rl < NLV && rl >= me_lvl));
    B.my_root = rl ? TABP(rl) : NULL; B.my_count = nondet_size_t(); __CPROVER_assume(B.my_count < ((size_t)1 << 48));
    g_exists = nondet_bool(); g_exc = g_fail_array = g_fail_init = arr_zeroed = gj_seen = false; created = me_incs = my_claims = 0; my_arr = 0; my_c = arr_bytes = claim_idx = cur_idx = 0;
    claim_tab = cur_tab = NULL; SL.key = 0; SL.ptr = sl_ptr0 = NULL; MY_next = scratch_next = NULL; MY_lg = scratch_lg = 0;
    size_t jl = nondet_size_t(); g_jt = (jl >= 2 && jl < NLV) ? TABP(jl) : MYP; g_j = nondet_size_t();
    me_rel = nondet_size_t(); __CPROVER_assume(me_lvl == 0 || me_rel < ((size_t)1 << me_lvl));      /* the key's distance from its home index; its index is me_idx */
    me_idx = me_lvl ? ((HOME(TABP(me_lvl)) + me_rel) & (((size_t)1 << me_lvl) - 1)) : 0;
}
static void lk_post(void *ret) {
    slot_release();
    OBLIGATION(my_arr == 0 || my_arr == 2 || my_arr == 3, "C19.lookup: an array allocated for growth is either published as root or freed when the root race is lost - never leaked");
    if (my_claims == 1) {
        OBLIGATION(cur_tab == claim_tab && cur_idx == claim_idx && SL.key == g_k && SL.ptr == ret, "C19.lookup: the slot claimed carries the thread's key and the element that is returned");
    }
}
#ifdef CASE_RETURNING
void h_lookup_returning(void) {
    lk_init(true);
    void *ret = ets_table_lookup(&B, &g_exists);
    lk_post(ret);
    OBLIGATION(!g_exc && ret == (void *)&OLD_ELEM && g_exists, "C19.lookup: a thread that has an element gets the same element (same address) on every later call, with exists == true, however the table has grown meanwhile");
    OBLIGATION(created == 0 && me_incs == 0, "C19.lookup: no second element is created and my_count is not incremented again for a key that is already counted");
    OBLIGATION(my_claims <= 1, "C19.lookup: at most one slot is claimed (re-insertion into the newest table)");
    VACUITY_END();
}
#endif
#ifdef CASE_FIRST
void h_lookup_first(void) {
    lk_init(false);
#ifdef FAULT_ARRAY
    g_fail_array = true;
#endif
#ifdef FAULT_INIT
    g_fail_init = true;
#endif
    void *ret = ets_table_lookup(&B, &g_exists);
    lk_post(ret);
    if (!g_exc) {
        OBLIGATION(!g_exists && created == 1 && ret == (void *)&NEW_ELEM, "C19.lookup: a first access creates exactly one element by one initialiser call, reports exists == false and returns that element");
        OBLIGATION(me_incs == 1, "C19.lookup: my_count is incremented exactly once per key");
        OBLIGATION(my_claims == 1, "C19.lookup: a first access returns only after it claimed one slot for the thread's key");
    } else {
        OBLIGATION(my_claims == 0, "C19.fault: a first access that leaves by exception has claimed no slot");
        OBLIGATION(created == 0, "C19.fault: a first access that leaves by exception leaves no element behind in the container: the thread's next access creates its element, and combine / iteration visit one element per thread");
    }
#if defined(FAULT_ARRAY) || defined(FAULT_INIT)
    __CPROVER_assume(g_exc);                     /* the vacuity twin must reach the end on the exception path */
#endif
    VACUITY_END();
}
#endif
#endif

#ifdef ELEMS
/* ---- the element side of enumerable_thread_specific / combinable: create_local, the iterator, combine / combine_each, and the TLS front end + local().
   The internal concurrent_vector my_locals is a stub (C11 proves its grow_by / indexing): n elements EL[0..n), grow_by(1) appends one default-constructed element. ---- */
typedef long T;
struct ets_element { T my_space; bool is_built; };
struct cvec { size_t n; };
struct ets_iter { struct cvec *my_container; size_t my_index; T *my_value; };
struct ets { struct cvec my_locals; };
#define SPACE_BEGIN(x) (&(x))
#define EXC_PROPAGATE(...) do { if (g_exc) return __VA_ARGS__; } while (0)
#define NMAX ((size_t)1 << 12)
#define INIT_VALUE ((T)7)
static struct ets_element *EL; static struct ets E;
size_t g_k, g_n0; bool g_exc, g_fail_init, g_indicator; unsigned constructs, grows; long visits; T *g_constructed_at;
static void ets_element_ctor(struct ets_element *self);
static struct ets_element *STUB_grow_by(struct cvec *v, size_t delta) {
    OBLIGATION(v == &E.my_locals && delta == 1, "C19.elems: the container grows by one element per first access");
    size_t i = v->n; v->n = i + 1; grows++;
    ets_element_ctor(&EL[i]);                    /* concurrent_vector default-constructs the new element */
    return &EL[i];
}
static void STUB_construct(struct ets *self, T *where) {
    OBLIGATION(constructs == 0, "C19.elems: one initialiser call");
    if (g_fail_init) { g_exc = true; return; }
    *where = INIT_VALUE; constructs++; g_constructed_at = where;
}
static size_t STUB_cvec_size(struct cvec *v) { return v->n; }
static struct ets_element *STUB_cvec_at(struct cvec *v, size_t i) {
    OBLIGATION(v == &E.my_locals && i < v->n, "C19.combine: iteration reads only elements of the container (index below size())");
    /* precondition of combine / iteration, supplied for the element being read: it was constructed; its value is the indicator of 'this is element g_k' */
    __CPROVER_assume(EL[i].is_built && (!g_indicator || EL[i].my_space == (i == g_k ? 1 : 0)));
    return &EL[i];
}
static void STUB_f_each(T v) { visits += v; }
static T STUB_f_combine(T a, T b) { return a + b; }
/* TLS front end */
static char OLD_ELEM, NEW_ELEM; void *g_tls; bool me_has; unsigned super_calls, created;
static void *STUB_get_tls(struct ets *self) { return g_tls; }
static void *STUB_super_table_lookup(struct ets *self, bool *exists) {      /* contract of ets_base::table_lookup as decided by the jobs ets.lookup.* */
    super_calls++;
    if (me_has) { *exists = true; return &OLD_ELEM; }
    *exists = false; created++; me_has = true; return &NEW_ELEM;
}
static void STUB_set_tls(struct ets *self, void *v) { g_tls = v; }
#define LOOP_each_1 __CPROVER_assigns(ci, visits) __CPROVER_loop_invariant(ci.my_container == &self->my_locals && ci.my_value == NULL && ci.my_index <= self->my_locals.n && visits == (g_k < ci.my_index ? 1 : 0)) __CPROVER_decreases(self->my_locals.n - ci.my_index)
#define LOOP_combine_1 __CPROVER_assigns(ci, my_result) __CPROVER_loop_invariant(ci.my_container == &self->my_locals && ci.my_index < self->my_locals.n && my_result == (g_k <= ci.my_index ? 1 : 0)) __CPROVER_decreases(self->my_locals.n - ci.my_index)
#include "elems.inc"
size_t IN_n, IN_k;
static void el_init(void) {
    size_t n = IN_n = nondet_size_t(); __CPROVER_assume(n < NMAX);
    EL = malloc((n + 2) * sizeof(struct ets_element)); __CPROVER_assume(EL != NULL);
    E.my_locals.n = g_n0 = n; g_k = IN_k = nondet_size_t(); g_exc = g_fail_init = g_indicator = false; constructs = grows = 0; visits = 0; g_constructed_at = NULL;
}
#ifdef CREATE
void h_create_local(void) {
    el_init();
    __CPROVER_assume(g_k >= g_n0 || EL[g_k].is_built);          /* every element already in the container is constructed (arbitrary element g_k) */
#ifdef FAULT_INIT
    g_fail_init = true;
#endif
    void *ret = ets_create_local(&E);
    if (!g_exc) {
        OBLIGATION(E.my_locals.n == g_n0 + 1 && grows == 1 && constructs == 1, "C19.elems: a first access appends exactly one element and runs the initialiser exactly once");
        OBLIGATION(ret == (void *)&EL[g_n0].my_space && g_constructed_at == &EL[g_n0].my_space, "C19.elems: the element handed to the thread is the appended one, and it is the one the initialiser constructed");
    }
    OBLIGATION(g_k >= E.my_locals.n || EL[g_k].is_built, "C19.elems: every element of the container is constructed (arbitrary element g_k): combine / iteration never visit storage no initialiser completed on - also after a first access that left by exception");
#ifdef FAULT_INIT
    __CPROVER_assume(g_exc);
#endif
    VACUITY_END();
}
#endif
#ifdef COMBINE
void h_combine_each(void) {
    el_init(); g_indicator = true;
    ets_combine_each(&E);
    OBLIGATION(visits == (g_k < g_n0 ? 1 : 0), "C19.combine: combine_each passes every element of the container to the functor exactly once (arbitrary element g_k), and nothing else");
    VACUITY_END();
}
void h_combine(void) {
    el_init(); g_indicator = true;
    T r = ets_combine(&E);
    if (g_n0 == 0) OBLIGATION(r == INIT_VALUE && constructs == 1, "C19.combine: combine on an empty container returns one freshly initialised value");
    else OBLIGATION(r == (g_k < g_n0 ? 1 : 0) && constructs == 0, "C19.combine: every element contributes to the result of combine exactly once (arbitrary element g_k; the functor adds indicator values), and nothing else does");
    VACUITY_END();
}
#endif
#ifdef TLS
void h_tls(void) {
    bool had = me_has = nondet_bool(); super_calls = created = 0;
    g_tls = nondet_bool() ? NULL : (void *)&OLD_ELEM; __CPROVER_assume(g_tls == NULL || had);     /* invariant: the TLS slot of (thread, instance) is empty or holds the thread's element */
    bool ex = nondet_bool(); T *r;
    if (nondet_bool()) r = ets_local_exists(&E, &ex); else { r = ets_local(&E); ex = had; }
    OBLIGATION((void *)r == (had ? (void *)&OLD_ELEM : (void *)&NEW_ELEM) && ex == had, "C19.tls: local() returns the thread's own element (the one the table holds, created now if there was none) and exists tells whether it existed - with or without the TLS shortcut");
    OBLIGATION(created == (had ? 0u : 1u) && super_calls <= 1, "C19.tls: the element is created exactly when the thread had none");
    OBLIGATION(g_tls == NULL || g_tls == (void *)r, "C19.tls: what the TLS shortcut holds afterwards is the element the table holds for this thread (shortcut and table agree)");
    VACUITY_END();
}
#endif
#endif

#ifdef CLEAR
/* ---- ets_base::table_clear (not concurrent: destructor / clear()): every array of the chain is freed exactly once, with its own byte size; root and count are reset.
   The chain has n arrays in list order; array i is the pointer (i+1)<<6, its lg_size any value (read through the accessor, remembered for the free). ---- */
typedef uintptr_t key_type;
struct ets_array { struct ets_array *next; size_t lg_size; };
struct ets_slot { key_type key; void *ptr; };
struct ets_base { struct ets_array *my_root; size_t my_count; };
#define CP(i) ((struct ets_array *)(((uintptr_t)(i) + 1) << 6))
#define IS_CP(p) ((((uintptr_t)(p)) & 63) == 0 && (uintptr_t)(p) >= 64 && (((uintptr_t)(p)) >> 6) - 1 < g_n)
#define POSOF(p) ((p) == NULL ? g_n : (size_t)((((uintptr_t)(p)) >> 6) - 1))
static struct ets_base B; size_t g_n, g_t, frees; unsigned freed_t; static struct ets_array *scratch_next, *lg_tab; static size_t scratch_lg;
static size_t *arr_lg(struct ets_array *p) {
    __CPROVER_assert(IS_CP(p), "C19.clear: only arrays of the chain are dereferenced");
    size_t l = nondet_size_t(); __CPROVER_assume(l >= 2 && l <= 47); scratch_lg = l; lg_tab = p; return &scratch_lg;
}
static struct ets_array **arr_next(struct ets_array *p) {
    __CPROVER_assert(IS_CP(p), "C19.clear: only arrays of the chain are dereferenced");
    __CPROVER_assert(POSOF(p) >= frees, "C19.clear: an array is not read after it was freed");
    scratch_next = POSOF(p) + 1 < g_n ? CP(POSOF(p) + 1) : NULL; return &scratch_next;
}
#define ARR_LG(p) (*arr_lg((struct ets_array *)(p)))
#define ARR_NEXT(p) (*arr_next((struct ets_array *)(p)))
#define ATOMIC_LOAD(f) (f)
#define ATOMIC_STORE(f, v) ((f) = (v))
static void STUB_free_array(struct ets_base *self, void *p, size_t bytes) {
    OBLIGATION(IS_CP((struct ets_array *)p) && POSOF((struct ets_array *)p) == frees, "C19.clear: the arrays are freed in list order, each once");
    OBLIGATION(self->my_root != (struct ets_array *)p, "C19.clear: an array is unlinked from the root before it is freed");
    OBLIGATION(lg_tab == (struct ets_array *)p && bytes == sizeof(struct ets_array) + ((size_t)1 << scratch_lg) * sizeof(struct ets_slot), "C19.clear: an array is freed with the byte size that goes with its own lg_size");
    if (POSOF((struct ets_array *)p) == g_t) freed_t++;
    frees++;
}
#define LOOP_clear_1 __CPROVER_assigns(r, B.my_root, frees, freed_t, scratch_next, scratch_lg, lg_tab) \
    __CPROVER_loop_invariant((B.my_root == NULL || IS_CP(B.my_root)) && frees == POSOF(B.my_root) && freed_t == (g_t < frees ? 1u : 0u)) __CPROVER_decreases(g_n - POSOF(B.my_root))
#include "clear.inc"
size_t IN_n;
void h_clear(void) {
    g_n = IN_n = nondet_size_t(); __CPROVER_assume(g_n <= 62); g_t = nondet_size_t(); frees = 0; freed_t = 0; lg_tab = NULL; scratch_next = NULL; scratch_lg = 0;
    B.my_root = g_n ? CP(0) : NULL; B.my_count = nondet_size_t();
    ets_table_clear(&B);
    OBLIGATION(B.my_root == NULL && B.my_count == 0, "C19.clear: afterwards the table is empty (no root, count 0): the next local() of every thread creates a fresh element");
    OBLIGATION(frees == g_n && freed_t == (g_t < g_n ? 1u : 0u), "C19.clear: every array of the chain is freed exactly once (arbitrary array g_t)");
    VACUITY_END();
}
#endif

#ifdef RUNNER
/* ---- collaborative_once_runner: run_once (winner), assist (helper), destructor; collaborative_call_stack_task::execute / cancel / finalize.
   Shared words of ONE runner R: m_is_ready (false -> true once, by the winner inside run_once), m_ref_count (helpers' lifetime references).  Ghost: storage_built (the union member
   holding the task_arena and the wait_context has been constructed), wait_refs (reference count of the wait_context, 1 after construction), in_arena / isolated (nesting markers).
   The scheduler is a stub: execute_and_wait runs the task's execute(); if that leaves by exception it cancels the task's context and dispatches the same task again through cancel()
   (task_dispatcher's exception loop, C01/C03), then rethrows; it returns only once the wait_context has no references. ---- */
struct runner { int64_t m_ref_count; bool m_is_ready; };
struct cst { struct runner *owner; };
static struct runner R; bool g_exc, g_throws, storage_built, storage_destroyed, in_arena, isolated, ready_seen, completed; int wait_refs; unsigned n_body, n_release, n_wait;
#define EXC_PROPAGATE(...) do { if (g_exc) return __VA_ARGS__; } while (0)
#ifdef RDTOR
/* rely for the destructor: it runs after the owner gave up the winner role (job once.do_call_once: RUNNER_DTOR), so the state word no longer names this runner and no helper can take
   a new lifetime reference (they are taken only under a state-word reference): m_ref_count only falls; m_is_ready is stable and equals storage_built (run_once). */
static void interfere_r(void) { int64_t c = nondet_i64(); __CPROVER_assume(c >= 0 && c <= R.m_ref_count); R.m_ref_count = c; }
#elif defined(RRUN)
/* rely for run_once: only the winner (this thread) touches m_is_ready and the storage; helpers come and go */
static void interfere_r(void) { int64_t c = nondet_i64(); __CPROVER_assume(c >= 0 && c < 1000000); R.m_ref_count = c; }
#else
/* rely for assist: the helper holds a lifetime reference, so R is alive; m_is_ready rises once, and only after the storage was constructed (run_once: guarantee at run_once_STORE_1) */
static void interfere_r(void) { if (!R.m_is_ready && nondet_bool()) { R.m_is_ready = true; storage_built = true; } }
#endif
#define ATOMIC_LOAD_AT(site, f) ({ interfere_r(); (f); })
#define ATOMIC_STORE_AT(site, f, v) do { interfere_r(); GHOST_##site(v); (f) = (v); } while (0)
#define GHOST_run_once_STORE_1(v) __CPROVER_assert((v) == true && storage_built && in_arena && isolated, "C19.once: the ready flag is raised only after the arena and the wait_context were constructed and the winner has entered the arena in isolation (a helper that sees the flag may use them; helpers cannot take the winner's slot)")
#define SPIN_WAIT_WHILE_EQ(loc, v) do { interfere_r(); __CPROVER_assume((loc) != (v)); ready_seen = true; } while (0)
#define SPIN_WAIT_UNTIL_EQ(loc, v) do { interfere_r(); __CPROVER_assume((loc) == (v)); } while (0)
#define STORAGE_CTOR(r) do { __CPROVER_assert(!storage_built && !R.m_is_ready, "C19.once: the arena / wait_context storage is constructed once, by the winner, before anyone can see the ready flag"); storage_built = true; wait_refs = 1; } while (0)
#define STORAGE_DTOR(r) do { interfere_r(); __CPROVER_assert(storage_built && !storage_destroyed, "C19.once: the arena / wait_context storage is destroyed only if it was constructed, and once"); \
    __CPROVER_assert(R.m_ref_count == 0, "C19.once: the arena and the wait_context are destroyed only when no helper holds a lifetime reference on the runner (and none can be taken any more)"); storage_destroyed = true; } while (0)
#define ARENA_EXECUTE_BEGIN(r) do { __CPROVER_assert(storage_built && !in_arena, "C19.once: the arena is entered only after it was constructed (winner) or after the ready flag was seen (helper)"); in_arena = true; } while (0)
#define ARENA_EXECUTE_END(r) do { in_arena = false; } while (0)
#define ISOLATED_BEGIN(r) do { __CPROVER_assert(in_arena && !isolated, "C19.once: the isolated region lies inside the runner's arena"); isolated = true; } while (0)
#define ISOLATED_END(r) do { isolated = false; } while (0)
#define CTX_DECL_BOUND_CONCURRENT_WAIT(c) ((void)0)
#define CTX_DECL(c) ((void)0)
#define TASK_DECL(t, r) struct cst t; t.owner = (r)
#define WAIT_CTX_RELEASE(t) do { __CPROVER_assert(wait_refs > 0, "C19.once: the wait_context is not released more often than it was reserved"); wait_refs--; n_release++; } while (0)
static void *STUB_call_m_func(struct cst *t) {          /* the task body: the lambda of do_collaborative_call_once (job once.do_call_once: once_winner_body); it may throw */
    __CPROVER_assert(in_arena && isolated && R.m_is_ready, "C19.once: the function runs inside the runner's arena, in isolation, after the ready flag let helpers in");
    n_body++; if (g_throws) g_exc = true; return NULL;
}
static void *cst_execute(struct cst *self); static void *cst_cancel(struct cst *self);
static void STUB_execute_and_wait(struct runner *r, struct cst *t) {
    cst_execute(t);
    if (g_exc) { g_exc = false; cst_cancel(t); g_exc = true; }      /* the dispatcher's exception loop: context cancelled, the same task dispatched again through cancel(); rethrown after the wait */
    __CPROVER_assert(wait_refs == 0, "C19.once: the wait_context is released exactly once whether the function returns or throws: neither the winner nor a helper waits for ever");
}
static void STUB_wait(struct runner *r) {
    __CPROVER_assert(ready_seen && storage_built && in_arena && isolated, "C19.once: a helper waits on the winner's wait_context only after it saw the ready flag, inside the runner's arena and in isolation");
    n_wait++;
}
#include "runner.inc"
static void r_init(void) { R.m_ref_count = 0; R.m_is_ready = false; g_exc = storage_built = storage_destroyed = in_arena = isolated = ready_seen = completed = false; g_throws = nondet_bool(); wait_refs = 0; n_body = n_release = n_wait = 0; }
#ifdef RRUN
void h_run_once(void) {
    r_init();
    runner_run_once(&R);
    OBLIGATION(n_body == 1, "C19.once: run_once runs the function exactly once");
    OBLIGATION(g_exc == g_throws, "C19.once: run_once leaves by exception exactly if the function threw (the exception reaches the winner's caller)");
    OBLIGATION(storage_built && R.m_is_ready && wait_refs == 0 && n_release == 1, "C19.once: afterwards the storage exists, the ready flag is up and the wait_context has been released once (helpers stop waiting)");
    VACUITY_END();
}
#elif !defined(RDTOR)
void h_assist(void) {
    r_init(); R.m_ref_count = 1;                 /* the caller's lifetime reference */
    if (nondet_bool()) { R.m_is_ready = true; storage_built = true; wait_refs = nondet_bool() ? 1 : 0; }
    runner_assist(&R);
    OBLIGATION(!g_exc && n_wait == 1 && !in_arena && !isolated, "C19.once: assist waits once for the winner's function and raises no exception");
    VACUITY_END();
}
#else
void h_runner_dtor(void) {
    r_init(); R.m_ref_count = nondet_i64(); __CPROVER_assume(R.m_ref_count >= 0 && R.m_ref_count < 1000000);
    R.m_is_ready = storage_built = nondet_bool();             /* run_once: the flag is up exactly if the storage was constructed */
    __CPROVER_assume(storage_built || R.m_ref_count == 0);    /* a runner that never won was never published: nobody holds a reference */
    runner_dtor(&R);
    interfere_r();
    OBLIGATION(R.m_ref_count == 0, "C19.once: the runner's memory is given up only when no helper holds a lifetime reference");
    OBLIGATION(storage_destroyed == storage_built, "C19.once: the arena and the wait_context are destroyed exactly if they were constructed");
    VACUITY_END();
}
#endif
#endif

#ifdef LAYOUT
/* ---- ets_base::allocate / array::at / deallocate on REAL memory: the facts the slot oracle of the LOOKUP section takes for granted - at(k) for k < size() lies inside the
   allocation, different indices are different (non-overlapping) slots behind the header, a fresh array has only empty slots, deallocate passes the allocation's size ---- */
typedef uintptr_t key_type;
struct ets_array { struct ets_array *next; size_t lg_size; };
struct ets_slot { key_type key; void *ptr; };
struct ets_base { struct ets_array *my_root; size_t my_count; };
#define ARR_LG(p) ((p)->lg_size)
#define ARR_NEXT(p) ((p)->next)
#define LOOP_sizing_1
#define EXC_PROPAGATE(...) ((void)0)
#define ATOMIC_LOAD_AT(site, f) (f)
#define ATOMIC_CAS_AT(site, f, e, d) ((f) == *(e) ? ((f) = (d), true) : (*(e) = (f), false))
static size_t g_bytes; static void *g_block; unsigned n_free;
static void *STUB_create_array(struct ets_base *self, size_t bytes) { g_bytes = bytes; g_block = malloc(bytes); __CPROVER_assume(g_block != NULL); return g_block; }
static void STUB_free_array(struct ets_base *self, void *p, size_t bytes) {
    OBLIGATION(p == g_block && bytes == g_bytes && n_free == 0, "C19.layout: deallocate hands back the block allocate obtained, with the same byte size, once");
    n_free++; free(p);
}
#define STUB_memset memset
#include "ets.inc"
#define LOOKUP_INC_LAYOUT_ONLY
#include "layout.inc"
size_t IN_lg, IN_k;
void h_layout(void) {
    struct ets_base b; size_t lg = IN_lg = nondet_size_t(); __CPROVER_assume(lg >= 2 && lg <= LAYOUT_MAX_LG); n_free = 0;
    struct ets_array *a = ets_allocate(&b, lg);
    size_t k = IN_k = nondet_size_t(), j = nondet_size_t(); __CPROVER_assume(k < array_size(a) && j < array_size(a));
    OBLIGATION(a->lg_size == lg && g_bytes == sizeof(struct ets_array) + array_size(a) * sizeof(struct ets_slot), "C19.layout: the array records its size and is allocated with room for the header and size() slots");
    struct ets_slot *s = array_at(a, k), *u = array_at(a, j);
    OBLIGATION((char *)s == (char *)a + sizeof(struct ets_array) + k * sizeof(struct ets_slot), "C19.layout: slot k lies behind the header at offset k * sizeof(slot): different indices are different, non-overlapping slots");
    OBLIGATION(slot_empty(s) && s->ptr == NULL, "C19.layout: every slot of a fresh array is empty (arbitrary slot k)");
    s->key = 1; s->ptr = a;                                    /* (CBMC's pointer checks: the whole slot lies inside the allocation) */
    OBLIGATION(j == k || slot_empty(u), "C19.layout: writing one slot leaves every other slot untouched");
    ets_deallocate(&b, a);
    OBLIGATION(n_free == 1, "C19.layout: deallocate frees the block");
    VACUITY_END();
}
#endif

#ifdef COPY
/* ---- ets_base::table_elementwise_copy (copy / move construction and assignment; documented as not concurrent): every thread's element of the source is copied exactly once,
   however many tables of the source chain hold (stale copies of) its key, and every slot of every source table is looked at once.
   Source chain: n_src tables in list order, table t is the pointer (t+1)<<6 with lg_size SRC_LG[t]; its slots come from an oracle (any content; all copies of the arbitrary key g_k carry
   the element &SRC_ELEM - the invariant the jobs ets.lookup.* maintain).  Destination: the array allocated by the sliced allocate (pointer DP, fields MY_lg / MY_next); its slots come from
   an oracle that knows where g_k was inserted (dst_has, dst_idx) and that the slots from g_k's home index up to there are occupied; other slots have any content without g_k.
   Facts over all slots are stated for one arbitrary source slot (g_wt, g_wi) and one arbitrary destination slot g_j.  Termination of the probe loop is not claimed. ---- */
typedef uintptr_t key_type;
struct ets_array { struct ets_array *next; size_t lg_size; };
struct ets_slot { key_type key; void *ptr; };
struct ets_base { struct ets_array *my_root; size_t my_count; };
#define IMP(a, b) (!(a) || (b))
#define EXC_PROPAGATE(...) do { if (g_exc) return __VA_ARGS__; } while (0)
#define NSRC 62
#define SP(t) ((struct ets_array *)(((uintptr_t)(t) + 1) << 6))
#define IS_SP(p) ((((uintptr_t)(p)) & 63) == 0 && (uintptr_t)(p) >= 64 && (((uintptr_t)(p)) >> 6) - 1 < n_src)
#define TPOS(p) ((p) == NULL ? n_src : (size_t)((((uintptr_t)(p)) >> 6) - 1))
#define DP ((struct ets_array *)((uintptr_t)1 << 20))
static struct ets_base SELF, OTHER; static size_t SRC_LG[NSRC + 1]; size_t n_src;
static struct ets_array *MY_next, *scratch_next; static size_t MY_lg, scratch_lg, arr_bytes; int my_arr; bool arr_zeroed, g_exc;
static char SRC_ELEM, DST_ELEM;
key_type g_k; size_t g_h, g_home_k, g_wt, g_wi, g_j, dst_idx, cur_j; bool dst_has, gj_seen, seen_k, dst_out; unsigned adds_k, visited_w;
static struct ets_slot S1, S2;
static size_t *arr_lg(struct ets_array *p) {
    __CPROVER_assert(IS_SP(p) || (p == DP && my_arr != 0), "C19.copy: only tables of the source chain and the new table are dereferenced");
    if (p == DP) return &MY_lg;
    scratch_lg = SRC_LG[TPOS(p)]; return &scratch_lg;
}
static struct ets_array **arr_next(struct ets_array *p) {
    __CPROVER_assert(IS_SP(p) || (p == DP && my_arr != 0), "C19.copy: only tables of the source chain and the new table are dereferenced");
    if (p == DP) return &MY_next;
    scratch_next = TPOS(p) + 1 < n_src ? SP(TPOS(p) + 1) : NULL; return &scratch_next;
}
#define ARR_LG(p) (*arr_lg((struct ets_array *)(p)))
#define ARR_NEXT(p) (*arr_next((struct ets_array *)(p)))
#define LOOP_sizing_1
#define ATOMIC_LOAD_AT(site, f) (f)
#define ATOMIC_CAS_AT(site, f, e, d) ((f) == *(e) ? ((f) = (d), true) : (*(e) = (f), false))
#define ATOMIC_LOAD(f) (f)
static void ghost_key_store(key_type v);
#define ATOMIC_STORE(f, v) do { __typeof__(f) v_ = (v); if ((void *)&(f) == (void *)&S2.key) ghost_key_store((key_type)(uintptr_t)v_); (f) = v_; } while (0)
#include "ets.inc"
#define DLG MY_lg
#define DSZ ((size_t)1 << DLG)
#define DDIST(x) (((x) - (g_home_k & (DSZ - 1))) & (DSZ - 1))      /* distance of destination index x from the home index of g_k's hash */
#define SSZ(t) ((size_t)1 << SRC_LG[t])
#define BEFORE(t, i) (g_wt < (t) || (g_wt == (t) && g_wi < (i)))    /* the arbitrary source slot comes before position (t, i) in the scan order */
static size_t STUB_hash(key_type k) { __CPROVER_assert(k == S1.key && k != 0, "C19.copy: the hash is taken of the key being copied"); return k == g_k ? g_h : nondet_size_t(); }
static size_t STUB_start(struct ets_array *t, size_t h) {
    __CPROVER_assert(t == DP && my_arr == 1, "C19.copy: keys are inserted into the new table only");
    return (h == g_h ? g_home_k : nondet_size_t()) & (DSZ - 1);      /* contract of array::start (job ets.probe_index): a pure function of the hash, below size() */
}
static struct ets_slot *STUB_at_src(struct ets_array *t, size_t i) {
    OBLIGATION(IS_SP(t) && i < SSZ(TPOS(t)), "C19.copy: every source index lies inside its table");
    if (TPOS(t) == g_wt && i == g_wi) visited_w++;
    S1.key = nondet_uintptr_t(); S1.ptr = nondet_ptr();
    if (S1.key == g_k) { S1.ptr = &SRC_ELEM; seen_k = true; } else __CPROVER_assume(S1.ptr != (void *)&SRC_ELEM);    /* elements belong to one key each */
    dst_out = false;
    return &S1;
}
static struct ets_slot *STUB_at_dst(struct ets_array *t, size_t j) {
    OBLIGATION(t == DP && my_arr == 1 && j < DSZ, "C19.copy: every destination index lies inside the new table");
    __CPROVER_assert(array_size(t) == DSZ && array_mask(t) == DSZ - 1, "spec: the invariants' spelling of size and mask agrees with the sliced functions");
    OBLIGATION(!(S1.key == g_k && dst_has) || DDIST(j) <= DDIST(dst_idx), "C19.copy: a probe for a key that the new table already holds stops at that key's slot: the key (a stale copy in an older source table) is not inserted a second time");
    cur_j = j; dst_out = true;
    key_type kk = nondet_uintptr_t(); void *pp = nondet_ptr();
    if (dst_has && j == dst_idx) { kk = g_k; pp = &DST_ELEM; }
    else { __CPROVER_assume(kk != g_k && pp != (void *)&DST_ELEM); if (dst_has && DDIST(j) < DDIST(dst_idx)) __CPROVER_assume(kk != 0); }
    if (j == g_j && gj_seen) __CPROVER_assume(kk != 0);               /* a slot seen occupied stays occupied */
    if (j == g_j && kk != 0) gj_seen = true;
    S2.key = kk; S2.ptr = pp;
    return &S2;
}
static void *STUB_add_element(struct ets_base *self, void *src) {
    __CPROVER_assert(self == &SELF && src == S1.ptr, "C19.copy: the new element is made from the element of the source slot being copied");
    if (src == (void *)&SRC_ELEM) { adds_k++; return &DST_ELEM; }
    void *p = nondet_ptr(); __CPROVER_assume(p != (void *)&DST_ELEM); return p;
}
static void ghost_key_store(key_type v) {
    OBLIGATION(dst_out && S2.key == 0, "C19.copy: a key is stored only into an empty slot of the new table");
    OBLIGATION(v == S1.key, "C19.copy: the key stored is the key of the source slot being copied");
    if (v == g_k) {
        OBLIGATION(!dst_has, "C19.copy: a key is inserted into the new table only if the table does not hold it yet: one slot, one element per thread");
        OBLIGATION(S2.ptr == (void *)&DST_ELEM && adds_k == 1, "C19.copy: the slot gets the element that was copied from this key's element, and that copy was made once");
        OBLIGATION(!(g_j < DSZ && DDIST(g_j) < DDIST(cur_j)) || gj_seen, "C19.copy: every slot between the key's home index and the slot used is occupied (arbitrary slot g_j): later probes for the same key, and table_lookup afterwards, find it");
        dst_has = true; dst_idx = cur_j;
    } else OBLIGATION(S2.ptr != (void *)&DST_ELEM, "C19.copy: no other key's slot gets this key's element");
    if (cur_j == g_j) gj_seen = true;
}
static void *STUB_create_array(struct ets_base *self, size_t bytes) { __CPROVER_assert(my_arr == 0, "C19.copy: one table is allocated"); my_arr = 1; arr_bytes = bytes; arr_zeroed = false; MY_next = (struct ets_array *)nondet_ptr(); MY_lg = nondet_size_t(); return DP; }
static void STUB_memset(void *p, int c, size_t n) { __CPROVER_assert(p == (void *)(DP + 1) && c == 0 && n == arr_bytes - sizeof(struct ets_array), "C19.copy: the new table starts with all slots empty"); arr_zeroed = true; }
static void STUB_free_array(struct ets_base *self, void *p, size_t bytes) { __CPROVER_assert(0, "C19.copy: nothing is freed"); }
#define COPY_STATE0 (my_arr == 1 && arr_zeroed && MY_lg == SRC_LG[0] && adds_k == (dst_has ? 1u : 0u) && IMP(dst_has, dst_idx < DSZ && seen_k))
#define COPY_STATE (COPY_STATE0 && IMP(seen_k, dst_has))
#define LOOP_copy_1 __CPROVER_assigns(r, S1, S2, scratch_lg, scratch_next, cur_j, dst_out, dst_has, dst_idx, gj_seen, seen_k, adds_k, visited_w) \
    __CPROVER_loop_invariant((r == NULL || IS_SP(r)) && COPY_STATE && visited_w == (g_wt < TPOS(r) ? 1u : 0u)) __CPROVER_decreases(n_src - TPOS(r))
#define LOOP_copy_2 __CPROVER_assigns(i, S1, S2, scratch_lg, scratch_next, cur_j, dst_out, dst_has, dst_idx, gj_seen, seen_k, adds_k, visited_w) \
    __CPROVER_loop_invariant(i <= SSZ(TPOS(r)) && COPY_STATE && visited_w == (BEFORE(TPOS(r), i) ? 1u : 0u)) __CPROVER_decreases(SSZ(TPOS(r)) - i)
#define LOOP_copy_3 __CPROVER_assigns(j, S2, scratch_lg, cur_j, dst_out, dst_has, dst_idx, gj_seen, adds_k) \
    __CPROVER_loop_invariant(j < DSZ && COPY_STATE0 && IMP(seen_k && S1.key != g_k, dst_has) && IMP(S1.key == g_k && dst_has, DDIST(j) <= DDIST(dst_idx)) && IMP(S1.key == g_k && !dst_has && g_j < DSZ && DDIST(g_j) < DDIST(j), gj_seen))
#include "layout.inc"
#include "copy.inc"
size_t IN_n;
void h_copy(void) {
    n_src = IN_n = nondet_size_t(); __CPROVER_assume(n_src <= NSRC);
    for (size_t t = 0; t <= NSRC; ++t) { size_t l = nondet_size_t(); __CPROVER_assume(l >= 2 && l <= 40); SRC_LG[t] = l; }
    g_k = nondet_uintptr_t(); __CPROVER_assume(g_k != 0); g_h = nondet_size_t(); g_home_k = nondet_size_t(); g_j = nondet_size_t();
    g_wt = nondet_size_t(); g_wi = nondet_size_t(); __CPROVER_assume(g_wt < n_src && g_wi < SSZ(g_wt));
    SELF.my_root = NULL; SELF.my_count = 0; OTHER.my_root = n_src ? SP(0) : NULL; OTHER.my_count = nondet_size_t();
    my_arr = 0; arr_zeroed = g_exc = dst_has = gj_seen = seen_k = dst_out = false; adds_k = visited_w = 0; dst_idx = cur_j = 0; scratch_next = NULL; scratch_lg = 0; MY_lg = 0; MY_next = NULL; S1.key = S2.key = 0; S1.ptr = S2.ptr = NULL;
    ets_table_elementwise_copy(&SELF, &OTHER);
    if (n_src == 0) OBLIGATION(SELF.my_root == NULL && my_arr == 0 && adds_k == 0, "C19.copy: copying an empty container leaves the copy empty");
    else {
        OBLIGATION(SELF.my_root == DP && MY_next == NULL && MY_lg == SRC_LG[0] && arr_zeroed, "C19.copy: the copy gets ONE table, of the size of the source's newest table, initially empty, as its root");
        OBLIGATION(SELF.my_count == OTHER.my_count, "C19.copy: the copy counts as many keys as the source");
        OBLIGATION(visited_w == 1, "C19.copy: every slot of every table of the source chain is looked at exactly once (arbitrary slot)");
        OBLIGATION(adds_k == (seen_k ? 1u : 0u) && IMP(dst_has, seen_k) && IMP(seen_k, dst_has), "C19.copy: a thread's element is copied exactly once - however many tables of the source hold its key - and the copy sits in exactly one slot under that key (arbitrary key g_k)");
    }
    VACUITY_END();
}
#endif
