"""C19 -- collaborative_call_once (state word, winner body, runner) and enumerable_thread_specific / combinable (table_lookup as a whole, elements, combine, TLS front end, clear)."""
import os
import sys
import re
HERE = os.path.dirname(os.path.abspath(__file__))
sys.path.insert(0, os.path.join(HERE, '..'))
sys.path.insert(0, os.path.join(HERE, '..', '..', 'tools'))
import common
import native
import cxx2c
from cxx2c import Rewriter, slice_block, tag_loops, ExtractionBreak, load
from prove import Job

ETS = 'include/oneapi/tbb/enumerable_thread_specific.h'
CO = 'include/oneapi/tbb/collaborative_call_once.h'


def extract(ctx):
    sliced, fired = [], {}
    rw = Rewriter('ets')
    out = []
    W = r'struct array \{'
    for name, sig in (('size', r'std::size_t size\(\) const'), ('mask', r'std::size_t mask\(\) const'), ('start', r'std::size_t start\( std::size_t h \) const')):
        s = slice_block(ETS, sig, within=W)
        sliced.append('%s:%d ets_base::array::%s' % (ETS, s.line, name))
        t = rw.sub(s.text, r'std::size_t (\w+)\((.*?)\) const', lambda m: 'static size_t array_%s(const struct ets_array* self%s)' % (m.group(1), (', ' + m.group(2).strip().replace('std::', '')) if m.group(2).strip() else ''), 1, 1, name='sig')
        t = rw.sub(t, r'(?<![\w.>])lg_size\b', 'ARR_LG(self)', 0, name='field -> accessor')
        t = rw.sub(t, r'(?<![\w.>_])size\(\)', 'array_size(self)', 0, name='method')
        t = rw.fcasts(t, ['std::size_t'])
        t = rw.std(t)
        t = rw.fcasts(t, ['size_t'])
        out.append(t)
    W = r'struct slot \{'
    for name, sig in (('empty', r'bool empty\(\) const'), ('match', r'bool match\( key_type k \) const'), ('claim', r'bool claim\( key_type k \)')):
        s = slice_block(ETS, sig, within=W)
        sliced.append('%s:%d ets_base::slot::%s' % (ETS, s.line, name))
        t = rw.sub(s.text, r'bool (\w+)\((.*?)\)( const)?', lambda m: 'static bool slot_%s(struct ets_slot* self%s)' % (m.group(1), (', ' + m.group(2).strip()) if m.group(2).strip() else ''), 1, 1, name='sig')
        t = rw.sub(t, r'(?<![\w.>])key\.', 'self->key.', 1, name='field')
        t = rw.atomics(t, ['key'], 1)
        t = rw.sub(t, r'key_type\(\)', '((key_type)0)', 0, name='value-init')
        t = rw.number_sites(t, name, by_kind=True)
        out.append(t)
    # the sizing statements of table_lookup
    s = slice_block(ETS, r'void\* ets_base<ETS_key_type>::table_lookup\( bool& exists \)')
    sliced.append('%s:%d ets_base::table_lookup (sizing statements)' % (ETS, s.line))
    # the two statements in front of `array* a = allocate(s);` (their expressions are NOT pinned: a changed start value / loop condition is decided by the obligations)
    m = re.search(r'\{\s*(std::size_t s = [^{}]*?;)\s*array\* a = allocate\(s\);', s.text, re.S)
    if not m:
        raise ExtractionBreak('table_lookup: sizing statements changed')
    t = 'static size_t ets_new_lg_size(const struct ets_array* r, size_t c) {\n    ' + m.group(1) + '\n    return s;\n}'
    t = rw.sub(t, r'r->size\(\)', 'array_size(r)', 0, name='method')
    t = _accessors(rw, t)
    t = rw.fcasts(t, ['std::size_t'])
    t = rw.std(t)
    t = tag_loops(t, 'sizing', rw)
    ctx.ets_sizing_loops = rw.fired.get('loops:sizing', 0)
    out.append(t)
    if not re.search(r'for\(std::size_t i = ir->start\(h\);; i = \(i\+1\)&mask\)', s.text) or not re.search(r'for\(std::size_t i = r->start\(h\); ;i=\(i\+1\)&mask\)', s.text):
        raise ExtractionBreak('table_lookup: probe loops no longer step with (i+1)&mask from start(h)')
    common.write(ctx, 'ets.inc', '\n'.join(out) + '\n')
    fired['ets'] = rw.fired
    # ---- collaborative_once_flag ---------------------------------------------------
    rw = Rewriter('call_once')
    for pat, what in ((r'constexpr std::uintptr_t collaborative_once_references_mask = collaborative_once_max_references-1;', 'references mask'),
                      (r'constexpr std::uintptr_t collaborative_once_max_references = max_nfs_size;', 'max references'),
                      (r'enum state : std::uintptr_t \{\s*uninitialized,\s*done,', 'state enum')):
        if not re.search(pat, load(CO)):
            raise ExtractionBreak('collaborative_call_once.h: %s changed' % what)
    if not re.search(r'constexpr size_t max_nfs_size = 128;', load('include/oneapi/tbb/detail/_utils.h')):
        raise ExtractionBreak('max_nfs_size is no longer 128')
    out = []
    W = r'class collaborative_once_flag : no_copy \{'
    s = slice_block(CO, r'void set_completion_state\(std::uintptr_t runner_bits, std::uintptr_t desired\)', within=W)
    sliced.append('%s:%d collaborative_once_flag::set_completion_state' % (CO, s.line))
    t = rw.sub(s.text, r'void set_completion_state\(std::uintptr_t runner_bits, std::uintptr_t desired\)', 'static void flag_set_completion_state(struct flag* self, uintptr_t runner_bits, uintptr_t desired)', 1, 1, name='sig')
    t = rw.sub(t, r'spin_wait_until_eq\(m_state, expected\);', 'SPIN_WAIT_UNTIL_EQ(self->m_state, expected);', 1, 1, name='spin-wait')
    t = rw.sub(t, r'(?<![\w.>])m_state\.', 'self->m_state.', 1, name='field')
    t = rw.atomics(t, ['m_state'], 1)
    t = rw.std(t)
    t = rw.number_sites(t, 'scs', by_kind=True)
    t = tag_loops(t, 'scs', rw, expect=1)
    out.append(t)
    s = slice_block(CO, r'void do_collaborative_call_once\(Fn&& f\)', within=W)
    sliced.append('%s:%d collaborative_once_flag::do_collaborative_call_once' % (CO, s.line))
    t = s.text
    t = rw.sub(t, r'void do_collaborative_call_once\(Fn&& f\)', 'static void flag_do_collaborative_call_once(struct flag* self)', 1, 1, name='sig (the functor only reaches the run_once stub)')
    # the lambda handed to run_once (the winner's task body) becomes a function of its own; run_once itself is job once.run_once
    lm = re.search(r'(?s)runner\.run_once\(\[&\] \{(.*?)\n                \}\);', t)
    if not lm:
        raise ExtractionBreak('do_collaborative_call_once: the lambda handed to runner.run_once was not found')
    wb = 'static void once_winner_body(struct flag* self) {' + lm.group(1) + '\n}'
    wb = rw.sub(wb, r'(?s)try_call\(\[&\] \{(.*?)\}\)\.on_exception\(\[&\] \{(.*?)\}\);', r'{ \1 if (EXC_PENDING()) { { \2 } EXC_RETHROW(); } }', 0,
                name='try_call(body).on_exception(handler) -> { body; if (exception pending) { handler; rethrow } }')
    wb = rw.sub(wb, r'std::forward<Fn>\(f\)\(\);', 'STUB_user_function();', 0, name='user functor -> stub (may throw)')
    wb = rw.sub(wb, r'(?<![\w.>])set_completion_state\(', 'flag_set_completion_state(self, ', 0, name='method')
    wb = rw.sub(wb, r'runner\.to_bits\(\)', 'RUNNER_BITS(&runner)', 0, name='method')
    wb = rw.sub(wb, r'state::(\w+)', r'\1', 0, name='enum scope')
    wb = cxx2c.strip_comments(wb)
    t = rw.sub(t, r'(?s)runner\.run_once\(\[&\] \{.*?\n                \}\);', 'STUB_run_once(self, &runner); EXC_PROPAGATE();', 1, 1, name='run_once(lambda) -> stub that runs the extracted lambda body (once_winner_body); exception edge made explicit')
    t = rw.sub(t, r'\}\s*$', 'RUNNER_DTOR(&runner);\n}', 1, 1, name='destructor of the local runner at scope exit')
    t = rw.sub(t, r'collaborative_once_runner runner;', 'struct runner runner; RUNNER_INIT(&runner);', 1, 1, name='ctor')
    t = rw.sub(t, r'runner\.to_bits\(\)', 'RUNNER_BITS(&runner)', 1, name='method')
    t = rw.sub(t, r'auto max_value = ', 'uintptr_t max_value = ', 1, 1, name='auto')
    t = rw.sub(t, r'spin_wait_while_eq\(m_state, max_value\)', 'SPIN_WAIT_WHILE_EQ(self->m_state, max_value)', 1, 1, name='spin-wait')
    # `if (auto shared_runner = from_bits(E)) { BODY }`: declaration in the condition -> block; the RAII lifetime_guard declared in BODY -> explicit enter at the declaration and
    # leave at the end of BODY (only if the declaration is there); the statements of BODY and their order are taken as they are
    gm = re.search(r'(?s)if \(auto shared_runner = collaborative_once_runner::from_bits\((.*?)\)\) \{(.*?)\n                \}', t)
    if not gm:
        raise ExtractionBreak('do_collaborative_call_once: the helper branch `if (auto shared_runner = from_bits(...)) {...}` was not found')
    gbody = gm.group(2)
    has_guard = len(re.findall(r'collaborative_once_runner::lifetime_guard guard\{\*shared_runner\};', gbody))
    gbody = rw.sub(gbody, r'collaborative_once_runner::lifetime_guard guard\{\*shared_runner\};', 'LIFETIME_GUARD_ENTER(shared_bits);', 0, name='RAII guard declaration -> explicit enter')
    gbody = rw.sub(gbody, r'shared_runner->assist\(\);', 'STUB_assist(shared_bits);', 0, name='assist -> stub (job once.assist)')
    if has_guard:
        gbody += ' LIFETIME_GUARD_LEAVE(shared_bits);'
    rw.fired['RAII guard -> leave at scope exit'] = has_guard
    t = t[:gm.start()] + '{ uintptr_t shared_bits = FROM_BITS(' + gm.group(1) + '); if (shared_bits) {' + gbody + ' } }' + t[gm.end():]
    rw.fired['decl-in-condition -> block'] = 1
    t = rw.sub(t, r'(?<![\w.>])m_state\.', 'self->m_state.', 3, name='field')
    t = rw.atomics(t, ['m_state'], 3)
    t = rw.sub(t, r'state::(\w+)', r'\1', 3, name='enum scope')
    t = cxx2c.cpp_resolve(t, {'TBB_USE_ASSERT': 0}, 'do_collaborative_call_once')
    t = rw.sub(t, r'VERIF_ASSERT\(ATOMIC_LOAD\(self->m_state\) != dead,[^;]*;', 'RG_NOP();', 0)
    t = rw.sub(t, r'(?s)__TBB_ASSERT\(ATOMIC_LOAD\(self->m_state\) != dead,.*?\);', 'RG_NOP();', 1, 1, name='assert about the debug-only dead state -> RG_NOP')
    t = rw.std(t)
    t = rw.number_sites(t, 'once', by_kind=True)
    t = tag_loops(t, 'once', rw, expect=2)
    out.append(wb)
    out.append(t)
    # lifetime_guard constructor / destructor
    WG = r'class lifetime_guard : no_copy \{'
    for name, sig, csig in (('ctor', r'lifetime_guard\(collaborative_once_runner& r\) : m_runner\(r\) \{', 'static void lifetime_guard_ctor(struct runner* m_runner) {'),
                            ('dtor', r'~lifetime_guard\(\) \{', 'static void lifetime_guard_dtor(struct runner* m_runner) {')):
        s = slice_block(CO, sig, within=WG)
        sliced.append('%s:%d collaborative_once_runner::lifetime_guard %s' % (CO, s.line, name))
        g = rw.sub(s.text, sig, csig, 1, 1, name='sig (the reference member m_runner is the parameter)')
        g = rw.atomics(g, ['m_ref_count'], 0)
        g = rw.sub(g, r'\bm_runner\.', 'm_runner->', 0, name='reference -> pointer')
        g = rw.number_sites(g, 'guard_' + name, by_kind=True)
        out.insert(0, g)
    common.write(ctx, 'once.inc', '\n'.join(out) + '\n')
    fired['call_once'] = rw.fired
    extract_lookup(ctx, sliced, fired)
    extract_elems(ctx, sliced, fired)
    extract_runner(ctx, sliced, fired)
    extract_copy(ctx, sliced, fired)
    closed_world(fired)
    return sliced, fired


def _accessors(rw, t):
    """fields of ets_base::array -> lvalue accessors (the harness decides how tables are represented)"""
    t = rw.sub(t, r'\b(\w+)->lg_size\b', r'ARR_LG(\1)', 0, name='field -> accessor')
    t = rw.sub(t, r'\b(\w+)->next\b', r'ARR_NEXT(\1)', 0, name='field -> accessor')
    return t


def _types(rw, t):
    """type names of ets_base -> C structs"""
    t = rw.sub(t, r'\barray\s*\*', 'struct ets_array*', 0, name='type array*')
    t = rw.sub(t, r'sizeof\(array\)', 'sizeof(struct ets_array)', 0, name='sizeof(array)')
    t = rw.sub(t, r'sizeof\(slot\)', 'sizeof(struct ets_slot)', 0, name='sizeof(slot)')
    return t


def extract_lookup(ctx, sliced, fired):
    """ets_base::table_lookup as a whole + allocate / deallocate / array::at / table_clear and the TLS front end (ets_key_per_instance)."""
    rw = Rewriter('ets_lookup')
    out = []
    W = r'class ets_base : detail::no_copy \{'
    # ---- array::at ----
    s = slice_block(ETS, r'slot& at\( std::size_t k \)', within=r'struct array \{')
    sliced.append('%s:%d ets_base::array::at' % (ETS, s.line))
    t = rw.sub(s.text, r'slot& at\( std::size_t k \)', 'static struct ets_slot* array_at(struct ets_array* self, size_t k)', 1, 1, name='sig (reference return -> pointer)')
    t = rw.sub(t, r'return (.*);', r'return &(\1);', 1, 1, name='reference return -> address of the lvalue')
    t = rw.casts(t, 2)
    t = rw.sub(t, r'\(slot\*\)', '(struct ets_slot*)', 1, 1, name='type slot*')
    t = rw.sub(t, r'\bthis\b', 'self', 1, 1, name='this')
    out.append(t)
    # ---- allocate / deallocate ----
    s = slice_block(ETS, r'array\* allocate\( std::size_t lg_size \)', within=W)
    sliced.append('%s:%d ets_base::allocate' % (ETS, s.line))
    t = rw.sub(s.text, r'array\* allocate\( std::size_t lg_size \)', 'static struct ets_array* ets_allocate(struct ets_base* self, size_t lg_size)', 1, 1, name='sig')
    t = rw.casts(t, 0)
    t = _types(rw, t)
    t = rw.sub(t, r'\bcreate_array\(', 'STUB_create_array(self, ', 0, name='virtual callee stub (allocator; may throw)')
    t = rw.sub(t, r'(STUB_create_array\([^;]*;)', r'\1 EXC_PROPAGATE(NULL);', 0, name='exception edge made explicit')
    t = rw.sub(t, r'std::memset\(', 'STUB_memset(', 0, name='memset -> recording stub')
    t = _accessors(rw, t)
    t = rw.fcasts(t, ['std::size_t'])
    t = rw.std(t)
    out.append(t)
    s = slice_block(ETS, r'void deallocate\(array\* a\)', within=W)
    sliced.append('%s:%d ets_base::deallocate' % (ETS, s.line))
    t = rw.sub(s.text, r'void deallocate\(array\* a\)', 'static void ets_deallocate(struct ets_base* self, struct ets_array* a)', 1, 1, name='sig')
    t = rw.casts(t, 0)
    t = _types(rw, t)
    t = rw.sub(t, r'\bfree_array\(', 'STUB_free_array(self, ', 0, name='virtual callee stub')
    t = _accessors(rw, t)
    t = rw.fcasts(t, ['std::size_t'])
    t = rw.std(t)
    out.append(t)
    common.write(ctx, 'layout.inc', '\n'.join(out) + '\n')
    # ---- table_lookup ----
    s = slice_block(ETS, r'void\* ets_base<ETS_key_type>::table_lookup\( bool& exists \)')
    sliced.append('%s:%d ets_base::table_lookup' % (ETS, s.line))
    t = rw.sub(s.text, r'void\* ets_base<ETS_key_type>::table_lookup\( bool& exists \)', 'static void* ets_table_lookup(struct ets_base* self, bool* exists)', 1, 1, name='sig (reference parameter -> pointer)')
    t = rw.sub(t, r'\bexists = ', '*exists = ', 0, name='ref-param store')
    t = rw.sub(t, r'ets_key_selector<ETS_key_type>::current_key\(\)', 'STUB_current_key()', 1, 1, name='callee stub (thread id)')
    t = rw.sub(t, r'std::hash<key_type>\{\}\(k\)', 'STUB_hash(k)', 1, 1, name='callee stub (std::hash)')
    t = rw.nop_calls(t, [r'\bcall_itt_notify'], 0)
    t = rw.asserts(t, 0)
    t = rw.sub(t, r'key_type\(\)', '((key_type)0)', 0, name='value-init')
    t = rw.sub(t, r'slot& s = (\w+)->at\(i\);', r'struct ets_slot* s = STUB_at(\1, i);', 2, name='slot reference -> pointer; array::at -> slot oracle')
    t = rw.sub(t, r'\bs\.(empty|match|claim)\(\s*', lambda m: 'slot_%s(s%s' % (m.group(1), '' if m.group(1) == 'empty' else ', '), 0, name='slot method')
    t = rw.sub(t, r'\bs\.ptr\b', 's->ptr', 0, name='slot reference -> pointer')
    t = rw.sub(t, r'\b(\w+)->(mask|size)\(\)', r'array_\2(\1)', 0, name='array method')
    t = rw.sub(t, r'\b(\w+)->start\(', r'STUB_start(\1, ', 0, name='array::start -> contract stub (a pure function of table and hash with a value below size(): job ets.probe_index)')
    t = _types(rw, t)
    t = rw.sub(t, r'(?<![\w.>])(my_root|my_count)\b', r'self->\1', 0, name='field')
    t = rw.atomics(t, ['my_root', 'my_count'], 0)
    t = rw.sub(t, r'found = create_local\(\);', 'found = STUB_create_local(self); EXC_PROPAGATE(NULL);', 0, name='virtual callee stub (initialiser; may throw: exception edge made explicit)')
    t = rw.sub(t, r'= allocate\(s\);', '= ets_allocate(self, s); EXC_PROPAGATE(NULL);', 0, name='method (may throw: exception edge made explicit)')
    t = rw.sub(t, r'\bdeallocate\(a\);', 'ets_deallocate(self, a);', 0, name='method')
    t = _accessors(rw, t)
    t = rw.sub(t, r'\binsert:', 'insert: ;', 1, 1, name='label in front of a declaration gets an empty statement (C grammar)')
    t = rw.fcasts(t, ['std::size_t'])
    t = rw.std(t)
    t = rw.number_sites(t, 'lookup', by_kind=True)
    t = tag_loops(t, 'lookup', rw, names=[(r'ARR_NEXT\(r\)', 'chain'), (r'STUB_start\(r, h\)', 'probe'), (r'while\s*\(\s*c\s*>', 'sizing'), (r'for\s*\(\s*;\s*;\s*\)', 'publish'), (r'STUB_start\(ir, h\)', 'insert')])
    ctx.lookup_loops = sum(v for k_, v in rw.fired.items() if k_.startswith('loop:lookup_'))
    out.append(t)
    common.write(ctx, 'lookup.inc', '\n'.join(out) + '\n')
    fired['ets_lookup'] = rw.fired


def _iter_ops(rw, t):
    """operators of enumerable_thread_specific_iterator on the local iterator `ci`, begin() / end() -> the sliced functions"""
    t = rw.sub(t, r'\b(?:const_)?iterator ci = ', 'struct ets_iter ci = ', 0, name='iterator type')
    t = rw.sub(t, r'(?<![\w.>])begin\(\)', 'ets_begin(self)', 0, name='method')
    t = rw.sub(t, r'(?<![\w.>])end\(\)', 'ets_end(self)', 0, name='method')
    t = rw.sub(t, r'\+\+ci\b', '(*ets_iter_preinc(&ci))', 0, name='iterator operator++ -> function')
    t = rw.sub(t, r'(?<![\w)])\*ci\b', '(*ets_iter_deref(&ci))', 0, name='iterator operator* -> function')
    t = rw.sub(t, r'(\(\*ets_iter_preinc\(&ci\)\)|\bci|ets_begin\(self\)) (==|!=) (ets_end\(self\))', lambda m: 'ets_iter_%s(%s, %s)' % ('eq' if m.group(2) == '==' else 'ne', m.group(1), m.group(3)), 0, name='iterator operator== / != -> function')
    return t


def extract_elems(ctx, sliced, fired):
    """ets_element, create_local, the iterator, begin/end, combine / combine_each, local(), the TLS front end and table_clear."""
    rw = Rewriter('ets_elems')
    out = []
    WE = r'struct ets_element \{'
    for name, sig, csig in (('ctor', r'ets_element\(\) \{', 'static void ets_element_ctor(struct ets_element* self) {'),
                            ('value', r'U\* value\(\) \{', 'static T* ets_element_value(struct ets_element* self) {'),
                            ('value_committed', r'U\* value_committed\(\) \{', 'static T* ets_element_value_committed(struct ets_element* self) {')):
        s = slice_block(ETS, sig, within=WE)
        sliced.append('%s:%d ets_element::%s' % (ETS, s.line, name))
        t = rw.sub(s.text, sig, csig, 1, 1, name='sig')
        t = rw.sub(t, r'(?<![\w.>])is_built\b', 'self->is_built', 0, name='field')
        t = rw.sub(t, r'(?<![\w.>])my_space\.begin\(\)', 'SPACE_BEGIN(self->my_space)', 0, name='aligned_space::begin -> address of the storage')
        out.append(t)
    WC = r'class enumerable_thread_specific: ets_base<ETS_key_type> \{'
    s = slice_block(ETS, r'void\* create_local\(\) override \{', within=WC)
    sliced.append('%s:%d enumerable_thread_specific::create_local' % (ETS, s.line))
    t = rw.sub(s.text, r'void\* create_local\(\) override \{', 'static void* ets_create_local(struct ets* self) {', 1, 1, name='sig')
    t = rw.sub(t, r'padded_element& lref = \*my_locals\.grow_by\(1\);', 'struct ets_element* lref = STUB_grow_by(&self->my_locals, 1);', 0, name='reference -> pointer; concurrent_vector::grow_by -> stub (C11)')
    t = rw.sub(t, r'my_construct_callback->construct\(lref\.value\(\)\);', 'STUB_construct(self, ets_element_value(lref)); EXC_PROPAGATE(NULL);', 0, name='initialiser callback -> stub (may throw: exception edge made explicit)')
    t = rw.sub(t, r'lref\.(value|value_committed)\(\)', r'ets_element_\1(lref)', 0, name='method')
    out.append(t)
    # ---- iterator ----
    WI = r'class enumerable_thread_specific_iterator\s*\{'
    s = slice_block(ETS, r'enumerable_thread_specific_iterator\( const Container &container, typename Container::size_type index \) :', within=WI, ctor=True)
    sliced.append('%s:%d enumerable_thread_specific_iterator ctor' % (ETS, s.line))
    m = re.search(r'(?s):\s*my_container\(&const_cast<Container &>\(container\)\), my_index\(index\), my_value\(nullptr\) \{\}', s.text)
    if not m:
        raise ExtractionBreak('iterator constructor initialiser list changed')
    out.append('static struct ets_iter ets_iter_make(struct cvec* container, size_t index) { struct ets_iter it; it.my_container = container; it.my_index = index; it.my_value = NULL; return it; }   /* init list, declared order */')
    rw.fired['ctor-init-list->assignments'] = 3
    for name, sig, csig in (('operator*', r'Value& operator\*\(\) const \{', 'static T* ets_iter_deref(struct ets_iter* self) {'),
                            ('operator++', r'enumerable_thread_specific_iterator& operator\+\+\(\) \{', 'static struct ets_iter* ets_iter_preinc(struct ets_iter* self) {')):
        s = slice_block(ETS, sig, within=WI)
        sliced.append('%s:%d enumerable_thread_specific_iterator::%s' % (ETS, s.line, name))
        t = rw.sub(s.text, sig, csig, 1, 1, name='sig (reference return -> pointer)')
        t = rw.sub(t, r'Value\*', 'T*', 0, name='bind-template(Value:=T)')
        t = rw.sub(t, r'\(\*my_container\)\[my_index\]\.value\(\)', 'ets_element_value(STUB_cvec_at(my_container, my_index))', 0, name='concurrent_vector::operator[] -> stub; method')
        t = rw.sub(t, r'return \*value;', 'return value;', 0, name='reference return -> pointer')
        t = rw.sub(t, r'return \*this;', 'return self;', 0, name='reference return -> pointer')
        t = rw.sub(t, r'(?<![\w.>])(my_container|my_index|my_value)\b', r'self->\1', 0, name='field')
        t = rw.asserts(t, 0)
        t = rw.std(t)
        out.append(t)
    for name, sig, csig in (('operator==', r'bool operator==\( const enumerable_thread_specific_iterator<Container, T>& i,\s*const enumerable_thread_specific_iterator<Container, U>& j \) \{', 'static bool ets_iter_eq(struct ets_iter i, struct ets_iter j) {'),
                            ('operator!=', r'bool operator!=\( const enumerable_thread_specific_iterator<Container,T>& i,\s*const enumerable_thread_specific_iterator<Container,U>& j \) \{', 'static bool ets_iter_ne(struct ets_iter i, struct ets_iter j) {')):
        s = slice_block(ETS, sig)
        sliced.append('%s:%d %s(iterator, iterator)' % (ETS, s.line, name))
        t = rw.sub(s.text, sig, csig, 1, 1, name='sig (const reference -> value)')
        t = rw.sub(t, r'\(i==j\)', 'ets_iter_eq(i, j)', 0, name='operator call')
        out.append(t)
    # ---- begin / end / combine / combine_each / local ----
    for name, sig, csig in (('begin', r'iterator begin\(\) \{', 'static struct ets_iter ets_begin(struct ets* self) {'), ('end', r'iterator end\(\) \{', 'static struct ets_iter ets_end(struct ets* self) {')):
        s = slice_block(ETS, sig, within=WC)
        sliced.append('%s:%d enumerable_thread_specific::%s' % (ETS, s.line, name))
        t = rw.sub(s.text, sig, csig, 1, 1, name='sig')
        t = rw.sub(t, r'iterator\(\s*my_locals, (.*?)\s*\)', r'ets_iter_make(&self->my_locals, \1)', 0, name='constructor call')
        t = rw.sub(t, r'my_locals\.size\(\)', 'STUB_cvec_size(&self->my_locals)', 0, name='concurrent_vector::size -> stub')
        out.append(t)
    s = slice_block(ETS, r'void combine_each\(CombineFunc f_combine\) \{', within=WC)
    sliced.append('%s:%d enumerable_thread_specific::combine_each' % (ETS, s.line))
    t = rw.sub(s.text, r'void combine_each\(CombineFunc f_combine\) \{', 'static void ets_combine_each(struct ets* self) {', 1, 1, name='sig (the functor only reaches the f_combine stub)')
    t = _iter_ops(rw, t)
    t = rw.sub(t, r'f_combine\( (.*?) \);', r'STUB_f_each(\1);', 0, name='user functor -> stub')
    t = tag_loops(t, 'each', rw)
    out.append(t)
    s = slice_block(ETS, r'T combine\(CombineFunc f_combine\) \{', within=WC)
    sliced.append('%s:%d enumerable_thread_specific::combine' % (ETS, s.line))
    t = rw.sub(s.text, r'T combine\(CombineFunc f_combine\) \{', 'static T ets_combine(struct ets* self) {', 1, 1, name='sig (the functor only reaches the f_combine stub)')
    t = rw.sub(t, r'ets_element<T> location;', 'struct ets_element location; ets_element_ctor(&location);', 0, name='constructor call (the destructor at scope exit is dropped)')
    t = rw.sub(t, r'my_construct_callback->construct\(location\.value\(\)\);', 'STUB_construct(self, ets_element_value(&location));', 0, name='initialiser callback -> stub')
    t = rw.sub(t, r'\*location\.(value|value_committed)\(\)', r'*ets_element_\1(&location)', 0, name='method')
    t = _iter_ops(rw, t)
    t = rw.sub(t, r'f_combine\( (.*?), (.*?) \);', r'STUB_f_combine(\1, \2);', 0, name='user functor -> stub')
    t = tag_loops(t, 'combine', rw)
    out.append(t)
    # ---- the TLS front end, local(bool&), local() ----
    WT = r'class ets_base<ets_key_per_instance>: public ets_base<ets_no_key> \{'
    s = slice_block(ETS, r'void\* table_lookup\( bool& exists \) \{', within=WT)
    sliced.append('%s:%d ets_base<ets_key_per_instance>::table_lookup' % (ETS, s.line))
    t = rw.sub(s.text, r'void\* table_lookup\( bool& exists \) \{', 'static void* tls_table_lookup(struct ets* self, bool* exists) {', 1, 1, name='sig (reference parameter -> pointer)')
    t = rw.sub(t, r'\bexists\s*=\s*true', '*exists = true', 0, name='ref-param store')
    t = rw.sub(t, r'\bget_tls\(\)', 'STUB_get_tls(self)', 0, name='pthread_getspecific wrapper -> stub')
    t = rw.sub(t, r'\bset_tls\(', 'STUB_set_tls(self, ', 0, name='pthread_setspecific wrapper -> stub')
    t = rw.sub(t, r'super::table_lookup\(exists\)', 'STUB_super_table_lookup(self, exists)', 0, name='base-class table_lookup -> contract stub (jobs ets.lookup.*)')
    out.append(t)
    s = slice_block(ETS, r'reference local\(bool& exists\)\s*\{', within=WC)
    sliced.append('%s:%d enumerable_thread_specific::local(bool&)' % (ETS, s.line))
    t = rw.sub(s.text, r'reference local\(bool& exists\)\s*\{', 'static T* ets_local_exists(struct ets* self, bool* exists) {', 1, 1, name='sig (reference -> pointer)')
    t = rw.sub(t, r'this->table_lookup\(exists\)', 'tls_table_lookup(self, exists)', 0, name='method (ets_key_per_instance instantiation)')
    t = rw.sub(t, r'return \*\(T\*\)ptr;', 'return (T*)ptr;', 0, name='reference return -> pointer')
    out.append(t)
    s = slice_block(ETS, r'reference local\(\) \{', within=WC)
    sliced.append('%s:%d enumerable_thread_specific::local()' % (ETS, s.line))
    t = rw.sub(s.text, r'reference local\(\) \{', 'static T* ets_local(struct ets* self) {', 1, 1, name='sig (reference -> pointer)')
    t = rw.sub(t, r'return local\(exists\);', 'return ets_local_exists(self, &exists);', 0, name='method; reference argument -> address')
    out.append(t)
    common.write(ctx, 'elems.inc', '\n'.join(out) + '\n')
    # ---- table_clear (base) ----
    out = []
    W = r'class ets_base : detail::no_copy \{'
    s = slice_block(ETS, r'void deallocate\(array\* a\)', within=W)
    t = rw.sub(s.text, r'void deallocate\(array\* a\)', 'static void ets_deallocate(struct ets_base* self, struct ets_array* a)', 1, 1, name='sig')
    t = rw.casts(t, 0)
    t = _types(rw, t)
    t = rw.sub(t, r'\bfree_array\(', 'STUB_free_array(self, ', 0, name='virtual callee stub')
    t = _accessors(rw, t)
    t = rw.fcasts(t, ['std::size_t'])
    t = rw.std(t)
    out.append(t)
    s = slice_block(ETS, r'void ets_base<ETS_key_type>::table_clear\(\) \{')
    sliced.append('%s:%d ets_base::table_clear' % (ETS, s.line))
    t = rw.sub(s.text, r'void ets_base<ETS_key_type>::table_clear\(\) \{', 'static void ets_table_clear(struct ets_base* self) {', 1, 1, name='sig')
    t = rw.sub(t, r'while \( array\* r = ([^;{}]*?) \) \{', r'struct ets_array* r; while ( (r = \1) ) {', 1, 1, name='declaration in the loop condition -> declaration + assignment in the condition')
    t = rw.sub(t, r'(?<![\w.>])(my_root|my_count)\b', r'self->\1', 0, name='field')
    t = rw.atomics(t, ['my_root', 'my_count'], 0)
    t = rw.sub(t, r'\bdeallocate\(r\);', 'ets_deallocate(self, r);', 0, name='method')
    t = _accessors(rw, t)
    t = rw.std(t)
    t = tag_loops(t, 'clear', rw)
    out.append(t)
    common.write(ctx, 'clear.inc', '\n'.join(out) + '\n')
    fired['ets_elems'] = rw.fired


def extract_runner(ctx, sliced, fired):
    """collaborative_once_runner::run_once / assist / destructor and collaborative_call_stack_task::execute / cancel / finalize."""
    rw = Rewriter('once_runner')
    out = []
    WT = r'class collaborative_call_stack_task : public task \{'
    for name, sig, csig in (('finalize', r'void finalize\(\) \{', 'static void cst_finalize(struct cst* self) {'),
                            ('execute', r'task\* execute\(d1::execution_data&\) override \{', 'static void* cst_execute(struct cst* self) {'),
                            ('cancel', r'task\* cancel\(d1::execution_data&\) override \{', 'static void* cst_cancel(struct cst* self) {')):
        s = slice_block(CO, sig, within=WT)
        sliced.append('%s:%d collaborative_call_stack_task::%s' % (CO, s.line, name))
        t = rw.sub(s.text, sig, csig, 1, 1, name='sig')
        t = rw.sub(t, r'm_wait_ctx\.release\(\);', 'WAIT_CTX_RELEASE(self);', 0, name='wait_context::release -> ghost counter')
        t = rw.sub(t, r'task\* res = d2::task_ptr_or_nullptr\(m_func\);', 'void* res = STUB_call_m_func(self); EXC_PROPAGATE(NULL);', 0, name='task_ptr_or_nullptr(m_func) -> call of the stored functor (may throw: exception edge made explicit)')
        t = rw.sub(t, r'(?<![\w.>])finalize\(\);', 'cst_finalize(self);', 0, name='method')
        t = rw.std(t)
        out.append(t)
    WR = r'class alignas\(max_nfs_size\) collaborative_once_runner : no_copy \{'
    s = slice_block(CO, r'void run_once\(F&& f\) \{', within=WR)
    sliced.append('%s:%d collaborative_once_runner::run_once' % (CO, s.line))
    t = rw.sub(s.text, r'void run_once\(F&& f\) \{', 'static void runner_run_once(struct runner* self) {', 1, 1, name='sig (the functor only reaches the task body stub)')
    t = rw.asserts(t, 0)
    t = rw.sub(t, r'new\(&m_storage\) storage_t\(\);', 'STORAGE_CTOR(self);', 0, name='placement new of the arena + wait_context storage -> ghost')
    t = rw.sub(t, r'm_storage\.m_arena\.execute\(\[&\] \{', 'ARENA_EXECUTE_BEGIN(self); {', 1, 1, name='task_arena::execute(lambda) -> begin/end markers around the lambda body')
    t = rw.sub(t, r'isolated_execute\(\[&\] \{', 'ISOLATED_BEGIN(self); {', 1, 1, name='isolated_execute(lambda) -> begin/end markers around the lambda body')
    t = rw.sub(t, r'(?s)task_group_context context\{\s*task_group_context::bound,\s*task_group_context::default_traits \| task_group_context::concurrent_wait \};', 'CTX_DECL_BOUND_CONCURRENT_WAIT(context);', 1, 1, name='context declaration')
    t = rw.sub(t, r'collaborative_call_stack_task<F> t\{ std::forward<F>\(f\), m_storage\.m_wait_context \};', 'TASK_DECL(t, self);', 1, 1, name='task declaration')
    t = rw.sub(t, r'execute_and_wait\(t, context, m_storage\.m_wait_context, context\);', 'STUB_execute_and_wait(self, &t); EXC_PROPAGATE();', 0, name='scheduler entry -> stub dispatcher (C01; may rethrow: exception edge made explicit)')
    n = t.count('});')
    if n != 2:
        raise ExtractionBreak('run_once: %d lambda closers, expected 2' % n)
    t = t.replace('});', '} ISOLATED_END(self);', 1).replace('});', '} ARENA_EXECUTE_END(self);', 1)
    rw.fired['lambda closers -> end markers'] = rw.fired.get('lambda closers -> end markers', 0) + 2
    t = rw.sub(t, r'(?<![\w.>])m_is_ready\b', 'self->m_is_ready', 0, name='field')
    t = rw.atomics(t, ['m_is_ready'], 0)
    t = rw.std(t)
    t = rw.number_sites(t, 'run_once', by_kind=True)
    out.append(t)
    s = slice_block(CO, r'void assist\(\) noexcept \{', within=WR)
    sliced.append('%s:%d collaborative_once_runner::assist' % (CO, s.line))
    t = rw.sub(s.text, r'void assist\(\) noexcept \{', 'static void runner_assist(struct runner* self) {', 1, 1, name='sig')
    t = rw.sub(t, r'spin_wait_while_eq\(m_is_ready, false\);', 'SPIN_WAIT_WHILE_EQ(self->m_is_ready, false);', 0, name='spin-wait')
    t = rw.sub(t, r'm_storage\.m_arena\.execute\(\[&\] \{', 'ARENA_EXECUTE_BEGIN(self); {', 1, 1, name='task_arena::execute(lambda) -> begin/end markers around the lambda body')
    t = rw.sub(t, r'isolated_execute\(\[&\] \{', 'ISOLATED_BEGIN(self); {', 1, 1, name='isolated_execute(lambda) -> begin/end markers around the lambda body')
    t = rw.sub(t, r'task_group_context stub_context;', 'CTX_DECL(stub_context);', 1, 1, name='context declaration')
    t = rw.sub(t, r'(?<![\w.>])wait\(m_storage\.m_wait_context, stub_context\);', 'STUB_wait(self);', 0, name='scheduler wait -> stub')
    n = t.count('});')
    if n != 2:
        raise ExtractionBreak('assist: %d lambda closers, expected 2' % n)
    t = t.replace('});', '} ISOLATED_END(self);', 1).replace('});', '} ARENA_EXECUTE_END(self);', 1)
    t = rw.std(t)
    out.append(t)
    s = slice_block(CO, r'~collaborative_once_runner\(\) \{', within=WR)
    sliced.append('%s:%d collaborative_once_runner::~collaborative_once_runner' % (CO, s.line))
    t = rw.sub(s.text, r'~collaborative_once_runner\(\) \{', 'static void runner_dtor(struct runner* self) {', 1, 1, name='sig')
    t = rw.sub(t, r'spin_wait_until_eq\(m_ref_count, 0, std::memory_order_acquire\);', 'SPIN_WAIT_UNTIL_EQ(self->m_ref_count, 0);', 0, name='spin-wait')
    t = rw.sub(t, r'm_storage\.~storage_t\(\);', 'STORAGE_DTOR(self);', 0, name='explicit destructor call of the arena + wait_context storage -> ghost')
    t = rw.sub(t, r'(?<![\w.>])m_is_ready\b', 'self->m_is_ready', 0, name='field')
    t = rw.atomics(t, ['m_is_ready'], 0)
    t = rw.std(t)
    t = rw.number_sites(t, 'rdtor', by_kind=True)
    out.append(t)
    common.write(ctx, 'runner.inc', '\n'.join(out) + '\n')
    fired['once_runner'] = rw.fired


def extract_copy(ctx, sliced, fired):
    """ets_base::table_elementwise_copy (copy / move construction and assignment of enumerable_thread_specific)."""
    rw = Rewriter('ets_copy')
    W = r'class ets_base : detail::no_copy \{'
    s = slice_block(ETS, r'void table_elementwise_copy\( const ets_base& other,', within=W)
    sliced.append('%s:%d ets_base::table_elementwise_copy' % (ETS, s.line))
    t = rw.sub(s.text, r'(?s)void table_elementwise_copy\( const ets_base& other,\s*void\*\(\*add_element\)\(ets_base<E2>&, void\*\) \) \{', 'static void ets_table_elementwise_copy(struct ets_base* self, struct ets_base* other) {', 1, 1, name='sig (reference -> pointer; the callback only reaches the add_element stub)')
    t = rw.asserts(t, 0)
    t = rw.sub(t, r'(?<![\w.>])(my_root|my_count)\b', r'self->\1', 0, name='field')
    t = rw.atomics(t, ['my_root', 'my_count'], 0)
    t = rw.sub(t, r'\bother\.', 'other->', 0, name='reference -> pointer')
    t = rw.sub(t, r'ATOMIC_LOAD\(([^()]*)\)->lg_size', r'ARR_LG(ATOMIC_LOAD(\1))', 0, name='field -> accessor')
    t = rw.sub(t, r'slot& s1 = (\w+)->at\(i\);', r'struct ets_slot* s1 = STUB_at_src(\1, i);', 0, name='slot reference -> pointer; array::at -> source slot oracle')
    t = rw.sub(t, r'slot& s2 = (\w+)->at\(j\);', r'struct ets_slot* s2 = STUB_at_dst(\1, j);', 0, name='slot reference -> pointer; array::at -> destination slot oracle')
    t = rw.atomics(t, ['key'], 0, obj=r'')
    t = rw.sub(t, r'\b(s1|s2)\.(empty|match)\(\s*', lambda m: 'slot_%s(%s%s' % (m.group(2), m.group(1), '' if m.group(2) == 'empty' else ', '), 0, name='slot method')
    t = rw.sub(t, r'\b(s1|s2)\.(key|ptr)\b', r'\1->\2', 0, name='slot reference -> pointer')
    t = rw.sub(t, r'add_element\(static_cast<ets_base<E2>&>\(\*this\), ', 'STUB_add_element(self, ', 0, name='callback -> stub')
    t = rw.sub(t, r'std::hash<key_type>\{\}\(', 'STUB_hash(', 0, name='callee stub (std::hash)')
    t = rw.sub(t, r'\b(\w+)->(mask|size)\(\)', r'array_\2(\1)', 0, name='array method')
    t = rw.sub(t, r'\b(\w+)->start\(', r'STUB_start(\1, ', 0, name='array::start -> contract stub')
    t = _types(rw, t)
    t = rw.sub(t, r'= allocate\(([^;]*)\);', r'= ets_allocate(self, \1); EXC_PROPAGATE();', 0, name='method (may throw: exception edge made explicit)')
    t = _accessors(rw, t)
    t = rw.fcasts(t, ['std::size_t'])
    t = rw.std(t)
    t = tag_loops(t, 'copy', rw)
    common.write(ctx, 'copy.inc', t + '\n')
    fired['ets_copy'] = rw.fired


def closed_world(fired):
    """Rely/guarantee is sound only if every writer of the shared words is among the functions under contract: count the write sites in the two headers.
    A new writer ends the run UNDECIDED (extraction break) instead of leaving the rely silently too weak."""
    want = {
        ETS: [(r'\bmy_root\.(?:store|exchange|compare_exchange_\w+|fetch_\w+)\(', 3, 'my_root: table_elementwise_copy store, table_clear store, table_lookup CAS'),
              (r'swap_atomics_relaxed\(my_root,', 1, 'my_root: table_swap (documented as not concurrent; not under contract)'),
              (r'(?<![\w])key\.(?:store|exchange|compare_exchange_\w+|fetch_\w+)\(', 2, 'slot key: slot::claim CAS, table_elementwise_copy store'),
              (r'\bmy_count\.(?:store|exchange|fetch_\w+)\(|\+\+my_count\b|\bmy_count\+\+|\bmy_count\s*[-+]=', 3, 'my_count: copy store, clear store, ++ in table_lookup')],
        CO: [(r'\bm_state\.(?:store|exchange|compare_exchange_\w+|fetch_\w+)\(', 5, 'm_state: set_completion_state CAS, winner CAS, helper CAS, helper fetch_sub, debug-only destructor store'),
             (r'\bm_ref_count(?:\+\+|--|\.(?:store|exchange|fetch_\w+)\()', 2, 'm_ref_count: lifetime_guard ++ / --'),
             (r'\bm_is_ready\.(?:store|exchange)\(', 1, 'm_is_ready: run_once store')],
    }
    out = {}
    for rel, pats in want.items():
        m = cxx2c.mask(load(rel))
        for pat, n, what in pats:
            k = len(re.findall(pat, m))
            out[what] = k
            if k > n:     # fewer sites (a deleted store) is decided by the obligations, not here
                raise ExtractionBreak('closed-world scan of %s: %d write sites for "%s", the contracts cover %d' % (rel, k, what, n))
    fired['closed_world_scan'] = out


def build(ctx):
    sliced, fired = extract(ctx)
    C = os.path.join(HERE, 'c19.c')
    jobs = [
        Job('ets.probe_index', C, 'h_probe', route='LF', defines=['ETS'], target='ets_base::array::size/mask/start + probe step (i+1)&mask', source=ETS),
        Job('ets.sizing', C, 'h_sizing', route='LW', unwind=66, defines=['ETS'], target='ets_base::table_lookup sizing loop', source=ETS),
        Job('ets.slot_claim', C, 'h_claim', route='RG', defines=['ETS', 'SLOT'], target='ets_base::slot::claim/match/empty', source=ETS),
        Job('ets.lookup.first', C, 'h_lookup_first', route='RG', defines=['LOOKUP', 'CASE_FIRST'], loops=True, nloops=ctx.lookup_loops, timeout=600, solver='cadical', target='ets_base::table_lookup + allocate/deallocate (first access of a thread: search, create, count, grow with root race, claim)', source=ETS),
        Job('ets.lookup.returning', C, 'h_lookup_returning', route='RG', defines=['LOOKUP', 'CASE_RETURNING'], loops=True, nloops=ctx.lookup_loops, timeout=600, solver='cadical', target='ets_base::table_lookup (later access: found at top level, or found in an older table and re-inserted)', source=ETS),
        Job('ets.lookup.fault_init', C, 'h_lookup_first', route='RG', defines=['LOOKUP', 'CASE_FIRST', 'FAULT_INIT'], loops=True, nloops=ctx.lookup_loops, timeout=600, solver='cadical',
            target='ets_base::table_lookup, fault domain: the initialiser (create_local) throws', source=ETS),
        Job('ets.lookup.fault_array', C, 'h_lookup_first', route='RG', defines=['LOOKUP', 'CASE_FIRST', 'FAULT_ARRAY'], loops=True, nloops=ctx.lookup_loops, timeout=600, solver='cadical',
            target='ets_base::table_lookup, fault domain: the allocation of a bigger table (create_array) throws after the element was created', source=ETS),
        Job('ets.layout', C, 'h_layout', route='LF', defines=['LAYOUT', 'LAYOUT_MAX_LG=12'],
            target='ets_base::allocate / array::at / deallocate on real memory', source=ETS),
        Job('ets.create_local', C, 'h_create_local', route='LF', defines=['ELEMS', 'CREATE'], target='enumerable_thread_specific::create_local + ets_element::value/value_committed', source=ETS),
        Job('ets.create_local.fault_init', C, 'h_create_local', route='LF', defines=['ELEMS', 'CREATE', 'FAULT_INIT'], target='enumerable_thread_specific::create_local, fault domain: the initialiser throws', source=ETS),
        Job('ets.combine_each', C, 'h_combine_each', route='LC', loops=True, nloops=1, defines=['ELEMS', 'COMBINE'], target='enumerable_thread_specific::combine_each (combinable::combine_each) + iterator ++ / * / != + begin/end', source=ETS),
        Job('ets.combine', C, 'h_combine', route='LC', loops=True, nloops=1, defines=['ELEMS', 'COMBINE'], target='enumerable_thread_specific::combine (combinable::combine) + iterator ++ / * / == / !=', source=ETS),
        Job('ets.tls_local', C, 'h_tls', route='LF', defines=['ELEMS', 'TLS'], target='ets_base<ets_key_per_instance>::table_lookup (TLS shortcut) + enumerable_thread_specific::local() / local(bool&)', source=ETS),
        Job('ets.table_clear', C, 'h_clear', route='LC', loops=True, nloops=1, defines=['CLEAR'], target='ets_base::table_clear + deallocate', source=ETS),
        Job('ets.copy', C, 'h_copy', route='LC', loops=True, nloops=3, defines=['COPY'], timeout=600, solver='cadical', target='ets_base::table_elementwise_copy (copy / move construction and assignment) + allocate', source=ETS),
        Job('once.set_completion_state', C, 'h_scs', route='RG', defines=['ONCE'], loops=True, nloops=1, target='collaborative_once_flag::set_completion_state', source=CO),
        Job('once.do_call_once', C, 'h_once', route='RG', defines=['ONCE'], loops=True, nloops=3, timeout=600, target='collaborative_once_flag::do_collaborative_call_once (winner election, helper references, return only after done)', source=CO),
        Job('once.run_once', C, 'h_run_once', route='RG', defines=['RUNNER', 'RRUN'], target='collaborative_once_runner::run_once + collaborative_call_stack_task::execute/cancel/finalize', source=CO),
        Job('once.assist', C, 'h_assist', route='RG', defines=['RUNNER'], target='collaborative_once_runner::assist', source=CO),
        Job('once.runner_dtor', C, 'h_runner_dtor', route='RG', defines=['RUNNER', 'RDTOR'], target='collaborative_once_runner::~collaborative_once_runner', source=CO),
    ]
    return {
        'jobs': jobs, 'sliced': sliced, 'fired': fired,
        'trusted': [
            'SC atomics; spin_wait_* contracts (return only when the condition holds); compare_exchange_strong does not fail spuriously',
            'rely for collaborative_once_flag::m_state: done is absorbing; a runner word with references > 0 keeps its runner; only the winner replaces a reference-free runner word',
            'rely for the ETS table (jobs ets.lookup.*): a slot key goes 0 -> k once, by the thread whose key k is; my_root only moves to a strictly larger table linked in front of the old root, nothing below the root changes; my_count only grows '
            '(each of these is also a guarantee checked on this thread: slot claimed by CAS from 0 only, publish obligations at lookup_CAS_1)',
            'ets_base::array::at -> slot oracle: one scratch slot per call whose content is any content allowed by the rely and by the entry facts about this thread\'s key; that distinct (table, index) pairs are distinct slots inside the allocation and that a fresh table is empty is job ets.layout',
            'ets_base::array::start inside table_lookup -> contract stub (pure function of table and hash, value below size(): job ets.probe_index)',
            'fields of ets_base::array reached through the accessors ARR_NEXT / ARR_LG; tables of other threads named by their lg_size (the chain is strictly ordered by size: checked at this thread\'s own publish)',
            'create_local / create_array / free_array (virtual) -> stubs; the allocator may throw (fault jobs), std::memset -> recording stub (real memset in ets.layout)',
            'std::hash / current_key -> arbitrary fixed values (key != 0 is the __TBB_ASSERT of the code)',
            'concurrent_vector my_locals -> stub (grow_by(1) appends one default-constructed element at a stable address; operator[] / size(): C11)',
            'table_elementwise_copy (job ets.copy): source and destination slots come from oracles (source: any content, all copies of the arbitrary key carry one element; destination: knows where the arbitrary key was inserted and that its probe path is occupied); add_element callback -> stub',
            'pthread_getspecific / pthread_setspecific wrappers -> one ghost word per (thread, instance)',
            'base-class table_lookup inside the TLS front end -> contract stub stating what jobs ets.lookup.* decide',
            'scheduler: execute_and_wait -> stub dispatcher that runs the sliced task execute(), on exception dispatches the same task through cancel() (task_dispatcher exception loop) and returns when the wait_context is free; '
            'task_arena::execute / isolated_execute -> begin/end markers around the lambda bodies; wait(wait_context) -> stub',
            'run_once inside do_collaborative_call_once -> stub that runs the lambda body sliced out of do_collaborative_call_once (once_winner_body); run_once / assist / ~runner themselves are separate jobs',
        ],
        'drops': ['RAII lifetime_guard -> explicit enter at the declaration / leave at the end of the block (the constructor and destructor bodies are sliced)', 'destructor of the local collaborative_once_runner -> explicit RUNNER_DTOR at the exits of do_collaborative_call_once',
                  'try_call(body).on_exception(handler) -> { body; if (exception pending) { handler; rethrow } }; callees that may throw are followed by an explicit exception edge',
                  'debug-only dead state', 'call_itt_notify -> RG_NOP', 'destructor of the local ets_element in combine()', 'task_group_context declarations'],
        'not_decided': ['termination of the retry / probe loops (table_lookup: that every probe meets an empty slot follows from the decided obligation "a new key goes into a table of at least twice its count" by a counting argument that is not mechanised)',
                        'internal_copy / internal_move / internal_swap around table_elementwise_copy (callback cloning, my_locals.reserve, swapping the concurrent_vectors), table_swap, flattened2d / segmented iterators, range()',
                        'ets_suspend_aware keys (suspend points instead of thread ids)', 'pthread key re-creation in ets_base<ets_key_per_instance>::table_clear (stale TLS values of other threads: pthread semantics)',
                        'data races on slot::ptr and on the element under weaker memory orders (SC assumed)', 'isolate_within_arena / task_arena::execute internals, the moonlighting slot limit (C16)',
                        'known findings F16 (orphan element after a failed table allocation) and F17 (unconstructed element after a throwing initialiser): reported, not proved absent'],
        'assumptions': ['closed world: the write sites of my_root / my_count / slot keys / m_state / m_ref_count / m_is_ready are counted on every run (a new writer is an extraction break); table_swap, table_clear and table_elementwise_copy are documented as not concurrent with local()',
                        'fewer helpers than collaborative_once_max_references at a time is enforced by the code (proved: the reference field never carries into the pointer bits)',
                        'my_count below 2^48; table sizes up to 2^63 slots (lg_size 2..63) in ets.lookup.*, up to 2^12 slots on real memory in ets.layout; containers of up to 2^12 elements in combine / combine_each',
                        'combine / combine_each / iteration are called with every element constructed (violated after F17) and, as documented, not concurrently with local()',
                        'table_clear is not concurrent with anything (documented)', 'the element type is trivially copyable (T = long); the combine functor is modelled by + on indicator values'],
    }


def replay(ctx, jobname, failure):
    exe = native.build([os.path.join(HERE, 'c19_replay.cpp')], os.path.join(ctx.work, 'c19_replay'), flags=['-fno-access-control'], link_tbb=True)
    rc, out = native.run([exe, jobname], timeout=120)
    rep = {'cmd': exe + ' ' + jobname, 'rc': rc, 'output': out[-1500:], 'reproduced': False, 'detail': 'native recipes found no failing schedule'}
    m = re.search(r'REPRODUCED (.*)', out)
    if m:
        rep['reproduced'] = True
        rep['detail'] = m.group(1)
        w = re.search(r'class=(\S+)', m.group(1))
        rep['witness_class'] = w.group(1) if w else None
    return rep
