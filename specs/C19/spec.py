"""C19 -- collaborative_call_once state word and enumerable_thread_specific hashing/claiming."""
import os
import sys
import re
HERE = os.path.dirname(os.path.abspath(__file__))
sys.path.insert(0, os.path.join(HERE, '..'))
sys.path.insert(0, os.path.join(HERE, '..', '..', 'tools'))
import common
import native
import cxx2c
from cxx2c import Rewriter, slice_block, tag_loops, ExtractionBreak, load
from prove import Job

ETS = 'include/oneapi/tbb/enumerable_thread_specific.h'
CO = 'include/oneapi/tbb/collaborative_call_once.h'


def extract(ctx):
    sliced, fired = [], {}
    rw = Rewriter('ets')
    out = []
    W = r'struct array \{'
    for name, sig in (('size', r'std::size_t size\(\) const'), ('mask', r'std::size_t mask\(\) const'), ('start', r'std::size_t start\( std::size_t h \) const')):
        s = slice_block(ETS, sig, within=W)
        sliced.append('%s:%d ets_base::array::%s' % (ETS, s.line, name))
        t = rw.sub(s.text, r'std::size_t (\w+)\((.*?)\) const', lambda m: 'static size_t array_%s(const struct ets_array* self%s)' % (m.group(1), (', ' + m.group(2).strip().replace('std::', '')) if m.group(2).strip() else ''), 1, 1, name='sig')
        t = rw.sub(t, r'(?<![\w.>])lg_size\b', 'self->lg_size', 0, name='field')
        t = rw.sub(t, r'(?<![\w.>_])size\(\)', 'array_size(self)', 0, name='method')
        t = rw.fcasts(t, ['std::size_t'])
        t = rw.std(t)
        t = rw.fcasts(t, ['size_t'])
        out.append(t)
    W = r'struct slot \{'
    for name, sig in (('empty', r'bool empty\(\) const'), ('match', r'bool match\( key_type k \) const'), ('claim', r'bool claim\( key_type k \)')):
        s = slice_block(ETS, sig, within=W)
        sliced.append('%s:%d ets_base::slot::%s' % (ETS, s.line, name))
        t = rw.sub(s.text, r'bool (\w+)\((.*?)\)( const)?', lambda m: 'static bool slot_%s(struct ets_slot* self%s)' % (m.group(1), (', ' + m.group(2).strip()) if m.group(2).strip() else ''), 1, 1, name='sig')
        t = rw.sub(t, r'(?<![\w.>])key\.', 'self->key.', 1, name='field')
        t = rw.atomics(t, ['key'], 1)
        t = rw.sub(t, r'key_type\(\)', '((key_type)0)', 0, name='value-init')
        t = rw.number_sites(t, name, by_kind=True)
        out.append(t)
    # the sizing statements of table_lookup
    s = slice_block(ETS, r'void\* ets_base<ETS_key_type>::table_lookup\( bool& exists \)')
    sliced.append('%s:%d ets_base::table_lookup (sizing statements)' % (ETS, s.line))
    m = re.search(r'if\( !r \|\| c > r->size\(\)/2 \) \{\s*(std::size_t s = r \? r->lg_size : 2;\s*while\( c > std::size_t\(1\)<<\(s-1\) \) \+\+s;)', s.text)
    if not m:
        raise ExtractionBreak('table_lookup: sizing statements changed')
    t = 'static size_t ets_new_lg_size(const struct ets_array* r, size_t c) {\n    ' + m.group(1) + '\n    return s;\n}'
    t = rw.sub(t, r'r->size\(\)', 'array_size(r)', 0, name='method')
    t = rw.fcasts(t, ['std::size_t'])
    t = rw.std(t)
    t = tag_loops(t, 'sizing', rw, expect=1)
    out.append(t)
    if not re.search(r'for\(std::size_t i = ir->start\(h\);; i = \(i\+1\)&mask\)', s.text) or not re.search(r'for\(std::size_t i = r->start\(h\); ;i=\(i\+1\)&mask\)', s.text):
        raise ExtractionBreak('table_lookup: probe loops no longer step with (i+1)&mask from start(h)')
    common.write(ctx, 'ets.inc', '\n'.join(out) + '\n')
    fired['ets'] = rw.fired
    # ---- collaborative_once_flag ---------------------------------------------------
    rw = Rewriter('call_once')
    for pat, what in ((r'constexpr std::uintptr_t collaborative_once_references_mask = collaborative_once_max_references-1;', 'references mask'),
                      (r'constexpr std::uintptr_t collaborative_once_max_references = max_nfs_size;', 'max references'),
                      (r'enum state : std::uintptr_t \{\s*uninitialized,\s*done,', 'state enum')):
        if not re.search(pat, load(CO)):
            raise ExtractionBreak('collaborative_call_once.h: %s changed' % what)
    if not re.search(r'constexpr size_t max_nfs_size = 128;', load('include/oneapi/tbb/detail/_utils.h')):
        raise ExtractionBreak('max_nfs_size is no longer 128')
    out = []
    W = r'class collaborative_once_flag : no_copy \{'
    s = slice_block(CO, r'void set_completion_state\(std::uintptr_t runner_bits, std::uintptr_t desired\)', within=W)
    sliced.append('%s:%d collaborative_once_flag::set_completion_state' % (CO, s.line))
    t = rw.sub(s.text, r'void set_completion_state\(std::uintptr_t runner_bits, std::uintptr_t desired\)', 'static void flag_set_completion_state(struct flag* self, uintptr_t runner_bits, uintptr_t desired)', 1, 1, name='sig')
    t = rw.sub(t, r'spin_wait_until_eq\(m_state, expected\);', 'SPIN_WAIT_UNTIL_EQ(self->m_state, expected);', 1, 1, name='spin-wait')
    t = rw.sub(t, r'(?<![\w.>])m_state\.', 'self->m_state.', 1, name='field')
    t = rw.atomics(t, ['m_state'], 1)
    t = rw.std(t)
    t = rw.number_sites(t, 'scs', by_kind=True)
    t = tag_loops(t, 'scs', rw, expect=1)
    out.append(t)
    s = slice_block(CO, r'void do_collaborative_call_once\(Fn&& f\)', within=W)
    sliced.append('%s:%d collaborative_once_flag::do_collaborative_call_once' % (CO, s.line))
    t = s.text
    t = rw.sub(t, r'void do_collaborative_call_once\(Fn&& f\)', 'static void flag_do_collaborative_call_once(struct flag* self)', 1, 1, name='sig (the functor only reaches the run_once stub)')
    t = rw.sub(t, r'(?s)runner\.run_once\(\[&\] \{.*?\n                \}\);', 'STUB_run_once(self, &runner);', 1, 1, name='run_once + nested lambdas (try_call / on_exception) -> contract stub that calls the sliced set_completion_state')
    t = rw.sub(t, r'collaborative_once_runner runner;', 'struct runner runner; RUNNER_INIT(&runner);', 1, 1, name='ctor')
    t = rw.sub(t, r'runner\.to_bits\(\)', 'RUNNER_BITS(&runner)', 1, name='method')
    t = rw.sub(t, r'auto max_value = ', 'uintptr_t max_value = ', 1, 1, name='auto')
    t = rw.sub(t, r'spin_wait_while_eq\(m_state, max_value\)', 'SPIN_WAIT_WHILE_EQ(self->m_state, max_value)', 1, 1, name='spin-wait')
    t = rw.sub(t, r'(?s)if \(auto shared_runner = collaborative_once_runner::from_bits\(expected & ~collaborative_once_references_mask\)\) \{\s*collaborative_once_runner::lifetime_guard guard\{\*shared_runner\};\s*m_state\.fetch_sub\(1\);(.*?)shared_runner->assist\(\);\s*\}',
               r'{ uintptr_t shared_bits = FROM_BITS(expected & ~collaborative_once_references_mask); if (shared_bits) { LIFETIME_GUARD_ENTER(shared_bits); ATOMIC_FETCH_SUB(self->m_state, 1);\1STUB_assist(shared_bits); LIFETIME_GUARD_LEAVE(shared_bits); } }', 1, 1,
               name='decl-in-condition + RAII guard -> explicit enter/leave')
    t = rw.sub(t, r'(?<![\w.>])m_state\.', 'self->m_state.', 3, name='field')
    t = rw.atomics(t, ['m_state'], 3)
    t = rw.sub(t, r'state::(\w+)', r'\1', 3, name='enum scope')
    t = cxx2c.cpp_resolve(t, {'TBB_USE_ASSERT': 0}, 'do_collaborative_call_once')
    t = rw.sub(t, r'VERIF_ASSERT\(ATOMIC_LOAD\(self->m_state\) != dead,[^;]*;', 'RG_NOP();', 0)
    t = rw.sub(t, r'(?s)__TBB_ASSERT\(ATOMIC_LOAD\(self->m_state\) != dead,.*?\);', 'RG_NOP();', 1, 1, name='assert about the debug-only dead state -> RG_NOP')
    t = rw.std(t)
    t = rw.number_sites(t, 'once', by_kind=True)
    t = tag_loops(t, 'once', rw, expect=2)
    out.append(t)
    common.write(ctx, 'once.inc', '\n'.join(out) + '\n')
    fired['call_once'] = rw.fired
    return sliced, fired


def build(ctx):
    sliced, fired = extract(ctx)
    C = os.path.join(HERE, 'c19.c')
    jobs = [
        Job('ets.probe_index', C, 'h_probe', route='LF', defines=['ETS'], target='ets_base::array::size/mask/start + probe step (i+1)&mask', source=ETS),
        Job('ets.sizing', C, 'h_sizing', route='LW', unwind=66, defines=['ETS'], target='ets_base::table_lookup sizing loop', source=ETS),
        Job('ets.slot_claim', C, 'h_claim', route='RG', defines=['ETS', 'SLOT'], target='ets_base::slot::claim/match/empty', source=ETS),
        Job('once.set_completion_state', C, 'h_scs', route='RG', defines=['ONCE'], loops=True, nloops=1, target='collaborative_once_flag::set_completion_state', source=CO),
        Job('once.do_call_once', C, 'h_once', route='RG', defines=['ONCE'], loops=True, nloops=3, timeout=600, target='collaborative_once_flag::do_collaborative_call_once (winner election, helper references, return only after done)', source=CO),
    ]
    return {
        'jobs': jobs, 'sliced': sliced, 'fired': fired,
        'trusted': ['collaborative_once_runner::run_once/assist, lifetime_guard: stubs (run_once ends by calling the SLICED set_completion_state with done, or with uninitialized when the functor throws)', 'spin_wait_* contracts',
                    'SC atomics', 'rely for m_state: done is absorbing; a runner word with references > 0 keeps its runner; only the winner replaces a reference-free runner word'],
        'drops': ['nested lambdas of run_once (try_call/on_exception) -> stub', 'RAII lifetime_guard -> explicit enter/leave', 'debug-only dead state'],
        'not_decided': ['runner lifetime (m_ref_count spin in the destructor)', 'the functor actually running once inside run_once (execute_and_wait, C01)', 'ets table_lookup as a whole (chained arrays)', 'combine / iteration',
                        'termination of the retry loops'],
        'assumptions': ['fewer helpers than collaborative_once_max_references at a time is enforced by the code (proved: the reference field never carries into the pointer bits)'],
    }


def replay(ctx, jobname, failure):
    exe = native.build([os.path.join(HERE, 'c19_replay.cpp')], os.path.join(ctx.work, 'c19_replay'), flags=['-fno-access-control'], link_tbb=True)
    rc, out = native.run([exe, jobname], timeout=120)
    rep = {'cmd': exe + ' ' + jobname, 'rc': rc, 'output': out[-1500:], 'reproduced': False, 'detail': 'native recipes found no failing schedule'}
    m = re.search(r'REPRODUCED (.*)', out)
    if m:
        rep['reproduced'] = True
        rep['detail'] = m.group(1)
        w = re.search(r'class=(\S+)', m.group(1))
        rep['witness_class'] = w.group(1) if w else None
    return rep
