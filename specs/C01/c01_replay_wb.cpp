// White-box native recipes for C01 (compiled with -fno-access-control against the CURRENT sources: src/tbb/mailbox.h, task_stream.h and the public headers are
// header code and are compiled into this program; libtbb is built from src/tbb by tools/native.py):
//   c01_replay_wb mail      mail_outbox::push / mail_inbox::pop: every proxy mailed is received exactly once (with and without isolation, draining, racing pusher)
//   c01_replay_wb stream    task_stream<front|back_nonnull>: every task pushed is popped exactly once; the population word is zero iff all lanes are empty when quiescent
//   c01_replay_wb group     task_group run / run_and_wait / wait, cancel, task_arena::enqueue, affinity mailing: every body runs exactly once and before wait returns
//   c01_replay_wb waitctx   wait_context reserve/release/continue_execution
//   c01_replay_wb taskmem   a task_group task with a large functor: is its object given back to the small object pool under the size class it was allocated with?
//                           (observed: the exiting thread's pool object is handed to cache_aligned_deallocate while a task allocated from it is still alive)
// Each scenario runs in a forked child (a broken list may hang or crash); prints `REPRODUCED class=<c> ...` or `NOT-REPRODUCED`.
#include <oneapi/tbb/task_group.h>
#include <oneapi/tbb/task_arena.h>
#include <oneapi/tbb/parallel_for.h>
#include <oneapi/tbb/partitioner.h>
#include <oneapi/tbb/global_control.h>
#include "tbb/scheduler_common.h"
#include "tbb/mailbox.h"
#include "tbb/task_stream.h"
#include "tbb/small_object_pool_impl.h"
#include <array>
#include <dlfcn.h>
#include <atomic>
#include <thread>
#include <vector>
#include <cstdio>
#include <cstdlib>
#include <cstring>
#include <string>
#include <sys/wait.h>
#include <unistd.h>
using namespace tbb::detail;

static char why[512];
// interposed: libtbb reaches its own exported cache_aligned_deallocate through the PLT, so this definition sees every such free made inside the library
static std::atomic<void*> watched{nullptr}; static std::atomic<int> watched_freed{0};
namespace tbb { namespace detail { namespace r1 {
void __TBB_EXPORTED_FUNC cache_aligned_deallocate(void* p) {
    static auto real = (void (*)(void*))dlsym(RTLD_NEXT, "_ZN3tbb6detail2r124cache_aligned_deallocateEPv");
    if (p && p == watched.load()) { ++watched_freed; return; }     // the block is kept, so that later accesses through the stale pointer stay harmless here
    real(p);
} } } }
#define FAIL(...) do { std::snprintf(why, sizeof why, __VA_ARGS__); return 1; } while (0)

// ---------------------------------------------------------------- mailbox
struct alignas(128) box_storage { char b[256]; };
static r1::task_proxy* mk_proxy(r1::isolation_type iso) {
    r1::task_proxy* p = new r1::task_proxy; r1::task_accessor::isolation(*p) = iso; p->next_in_mailbox.store(reinterpret_cast<r1::task_proxy*>(0x11), std::memory_order_relaxed); return p;
}
static int check_list(r1::mail_outbox& ob, const std::vector<r1::task_proxy*>& expect) {      // quiescent list must be exactly `expect`, my_last at its last link
    std::atomic<r1::task_proxy*>* link = &ob.my_first; size_t i = 0;
    for (r1::task_proxy* p = ob.my_first.load(); p; p = p->next_in_mailbox.load()) {
        if (i >= expect.size() || p != expect[i]) FAIL("list differs from the expected sequence at position %zu", i);
        link = &p->next_in_mailbox; ++i; if (i > expect.size() + 4) break;
    }
    if (i != expect.size()) FAIL("list has %zu reachable proxies, expected %zu (a proxy was lost or duplicated)", i, expect.size());
    if (ob.my_last.load() != link) FAIL("my_last does not point at the last link after %zu proxies", i);
    return 0;
}
static int mail_scenario() {
    static box_storage st; std::memset(&st, 0, sizeof st);
    r1::mail_outbox& ob = *reinterpret_cast<r1::mail_outbox*>(&st); ob.construct(); r1::mail_inbox ib; ib.attach(ob);
    // sequential: all tag patterns of up to 5 proxies over tags {1,2}, pop order patterns
    for (int n = 0; n <= 5; ++n) for (int tags = 0; tags < (1 << n); ++tags) for (int popiso = 0; popiso <= 2; ++popiso) {
        std::vector<r1::task_proxy*> v;
        for (int i = 0; i < n; ++i) { v.push_back(mk_proxy(1 + ((tags >> i) & 1))); ob.push(v.back()); }
        if (check_list(ob, v)) return 1;
        r1::task_proxy* r = ib.pop((r1::isolation_type)popiso);
        if (r) {
            size_t j = 0; while (j < v.size() && v[j] != r) ++j;
            if (j == v.size()) FAIL("pop returned a proxy that was not mailed");
            if (popiso != 0 && r1::task_accessor::isolation(*r) != (r1::isolation_type)popiso) FAIL("pop(isolation=%d) returned a proxy of isolation %d", popiso, (int)r1::task_accessor::isolation(*r));
            v.erase(v.begin() + j);
        } else {
            for (auto p : v) if (popiso == 0 || r1::task_accessor::isolation(*p) == (r1::isolation_type)popiso) FAIL("pop(isolation=%d) returned nothing although an eligible proxy is mailed (n=%d tags=%d)", popiso, n, tags);
        }
        if (check_list(ob, v)) { std::strncat(why, " [after one pop]", sizeof why - std::strlen(why) - 1); return 1; }
        // push one more behind, then drain without isolation: everything comes out exactly once
        v.push_back(mk_proxy(1)); ob.push(v.back()); if (check_list(ob, v)) return 1;
        size_t got = 0; while (r1::task_proxy* q = ib.pop(r1::no_isolation)) { if (got >= v.size() || q != v[got]) FAIL("drain order / identity wrong at %zu", got); ++got; if (got > v.size()) break; }
        if (got != v.size()) FAIL("drain returned %zu of %zu proxies", got, v.size());
        if (check_list(ob, {})) return 1;
    }
    // racing pusher: the consumer pops while a pusher pushes; every proxy must arrive exactly once
    const int N = 200000; std::vector<r1::task_proxy*> all(N); for (auto& p : all) p = mk_proxy(1);
    std::atomic<bool> go{false}; std::thread pusher([&] { while (!go) {} for (int i = 0; i < N; ++i) ob.push(all[i]); });
    go = true; int got = 0; long spins = 0;
    while (got < N && spins < 2000000000L) { if (r1::task_proxy* q = ib.pop(r1::no_isolation)) { if (q != all[got]) { pusher.join(); FAIL("racing push/pop: proxy %d arrived out of order or twice", got); } ++got; } else ++spins; }
    pusher.join();
    if (got != N) FAIL("racing push/pop: only %d of %d proxies arrived (one was lost)", got, N);
    return check_list(ob, {});
}

// ---------------------------------------------------------------- task_stream
struct wb_task : d1::task { int popped = 0; d1::task* execute(d1::execution_data&) override { return nullptr; } d1::task* cancel(d1::execution_data&) override { return nullptr; } };
template <r1::task_stream_accessor_type A> static int lanes_consistent(r1::task_stream<A>& s, size_t expect_tasks) {
    size_t tasks = 0;
    for (unsigned l = 0; l < s.N; ++l) {
        bool nonempty = !s.lanes[l].my_queue.empty(); bool bit = r1::is_bit_set(s.population.load(), (int)l);
        if (bit != nonempty) FAIL("lane %u: population bit %d but the lane is %s", l, (int)bit, nonempty ? "non-empty (its tasks are invisible)" : "empty");
        for (d1::task* t : s.lanes[l].my_queue) if (t) ++tasks;
    }
    if (tasks != expect_tasks) FAIL("the lanes hold %zu tasks, expected %zu", tasks, expect_tasks);
    return 0;
}
template <r1::task_stream_accessor_type A> static int stream_one(unsigned n_lanes, int ntasks, int mode) {
    r1::task_stream<A> s; s.initialize(n_lanes);
    if (s.N < 2 || s.N > 64 || (s.N & (s.N - 1))) FAIL("initialize(%u) gave N=%u", n_lanes, s.N);
    std::vector<wb_task> ts(ntasks); unsigned hint = 0;
    for (int i = 0; i < ntasks; ++i) { r1::task_accessor::isolation(ts[i]) = 1 + (i % 2); s.push(&ts[i], r1::subsequent_lane_selector(hint)); if (lanes_consistent(s, i + 1)) return 1; }
    size_t left = ntasks; unsigned h2 = 0; long guard = 0;
    while (left && ++guard < 100000) {
        d1::task* t = nullptr;
        if (mode == 0) t = s.pop(r1::subsequent_lane_selector(h2));
        else if (mode == 1) t = s.pop(r1::preceding_lane_selector(h2));
        else { t = s.pop_specific(h2, (r1::isolation_type)(1 + (guard % 2))); if (t && r1::task_accessor::isolation(*t) != (r1::isolation_type)(1 + (guard % 2))) FAIL("pop_specific returned a task of another isolation level"); }
        if (t) { wb_task* w = static_cast<wb_task*>(t); if (w < &ts[0] || w > &ts[ntasks - 1]) FAIL("popped a task that was never pushed"); if (++w->popped != 1) FAIL("task %d popped twice", (int)(w - &ts[0])); --left; }
        if (lanes_consistent(s, left)) return 1;
        if (!t && s.empty() && left) FAIL("%zu tasks left but the stream reports empty (tasks lost or invisible)", left);
    }
    if (left) FAIL("%zu of %d tasks were never popped", left, ntasks);
    if (mode == 2) { unsigned h = 0; while (s.pop(r1::subsequent_lane_selector(h))) {} }     // holes left by pop_specific
    if (!s.empty()) { unsigned h = 0; if (s.pop(r1::subsequent_lane_selector(h))) FAIL("a task appeared from nowhere"); }
    return 0;
}
static int stream_scenario() {
    for (unsigned lanes : {1u, 2u, 3u, 4u, 7u, 64u, 100u}) for (int n : {1, 2, 5, 17}) for (int mode = 0; mode < 3; ++mode) {
        if (stream_one<r1::front_accessor>(lanes, n, mode)) { std::strncat(why, " [front accessor]", sizeof why - std::strlen(why) - 1); return 1; }
        if (stream_one<r1::back_nonnull_accessor>(lanes, n, mode)) { std::strncat(why, " [back_nonnull accessor]", sizeof why - std::strlen(why) - 1); return 1; }
    }
    return 0;
}

// ---------------------------------------------------------------- groups
static int group_scenario() {
    for (int threads : {1, 2, 4}) {
        tbb::global_control gc(tbb::global_control::max_allowed_parallelism, threads);
        for (int round = 0; round < 50; ++round) {
            const int N = 64; std::atomic<int> cnt[N]; for (auto& c : cnt) c = 0;
            tbb::task_group g;
            for (int i = 0; i < N; ++i) g.run([&, i] { ++cnt[i]; if (i % 8 == 0) g.run([&, i] { ++cnt[i]; }); });
            g.run_and_wait([&] { ++cnt[1]; });
            for (int i = 0; i < N; ++i) { int want = 1 + (i % 8 == 0) + (i == 1); if (cnt[i] != want) FAIL("task_group with %d threads: body %d ran %d times instead of %d by the time wait returned", threads, i, cnt[i].load(), want); }
            // cancelled group: every body runs at most once, wait still covers all
            std::atomic<int> c2[N]; for (auto& c : c2) c = 0; tbb::task_group g2;
            for (int i = 0; i < N; ++i) g2.run([&, i] { ++c2[i]; if (i == 3) g2.cancel(); });
            g2.wait(); for (int i = 0; i < N; ++i) if (c2[i] > 1) FAIL("cancelled group: body %d ran %d times", i, c2[i].load());
            // enqueue + affinity mailing
            std::atomic<int> e{0}; tbb::task_arena a(threads); for (int i = 0; i < 16; ++i) a.enqueue([&] { ++e; });
            long spin = 0; while (e != 16 && ++spin < 2000000000L) { a.execute([] {}); }
            if (e != 16) FAIL("enqueue: %d of 16 enqueued tasks ran", e.load());
            static tbb::affinity_partitioner ap; std::atomic<int> pf[256]; for (auto& c : pf) c = 0;
            tbb::parallel_for(0, 256, [&](int i) { ++pf[i]; }, ap);
            for (int i = 0; i < 256; ++i) if (pf[i] != 1) FAIL("parallel_for with affinity_partitioner: iteration %d ran %d times", i, pf[i].load());
        }
    }
    return 0;
}
static int waitctx_scenario() {
    d1::wait_context w(0);
    if (w.continue_execution()) FAIL("fresh wait_context(0) reports outstanding work");
    w.reserve(3); if (!w.continue_execution()) FAIL("after reserve(3) continue_execution() is false");
    w.release(2); if (!w.continue_execution()) FAIL("after reserve(3), release(2) continue_execution() is false: a waiter would return with one unit outstanding");
    if (w.m_ref_count.load() != 1) FAIL("count is %llu after reserve(3), release(2)", (unsigned long long)w.m_ref_count.load());
    tbb::task_arena a(1); int bad = 0; a.execute([&] { w.release(1); if (w.continue_execution()) bad = 1; });
    if (bad) FAIL("after the last release continue_execution() is still true");
    return 0;
}
// ---------------------------------------------------------------- task memory
static long sop_len(r1::small_object_pool_impl::small_object* o) { long n = 0; for (; o && o != reinterpret_cast<r1::small_object_pool_impl::small_object*>(1); o = o->next) ++n; return n; }
template <size_t FunctorBytes> static int taskmem_one(long& computed, int& freed_early) {
    std::atomic<bool> started{false}, a_exited{false};
    tbb::task_group g;            // shared group: its task X is allocated from thread A's pool and finishes on a worker after A has gone
    r1::small_object_pool_impl* poolA = nullptr; computed = -99; watched = nullptr; watched_freed = 0;
    std::thread A([&] {
        { tbb::task_group w; w.run([] {}); w.wait(); }
        struct small { char c[32]; }; d1::small_object_allocator al{}; small* sp = al.new_object<small>(); poolA = static_cast<r1::small_object_pool_impl*>(al.m_pool); al.delete_object(sp);
        g.run([&] { started = true; while (!a_exited) std::this_thread::yield(); });                           // X: small functor, allocated from A's pool, stolen by a worker
        long spin = 0; while (!started && ++spin < 4000000000L) std::this_thread::yield();
        std::array<char, FunctorBytes> big{}; static int sink; tbb::task_group g2; g2.run([big] { sink += big[1]; }); g2.wait();    // one more task, allocated and freed meanwhile
        computed = (long)poolA->m_private_counter - sop_len(poolA->m_private_list) - sop_len(poolA->m_public_list.load());
        watched = poolA;
    });
    A.join();                                    // thread exit: thread_data is destroyed, the pool is destroyed if it counts no live object
    freed_early = watched_freed.load();          // X is still running here
    a_exited = true; g.wait();
    return started ? 0 : 2;
}
static int taskmem_scenario(bool with_large) {
    tbb::global_control gc(tbb::global_control::max_allowed_parallelism, 4);
    long c_small = 0, c_big = 1; int f_small = 0, f_big = 0;
    if (taskmem_one<8>(c_small, f_small) || (with_large && taskmem_one<400>(c_big, f_big))) FAIL("scenario could not be set up (no worker took the blocking task)");
    if (c_small != 1 || f_small != 0) FAIL("control (8-byte functor): the exiting thread's pool counts %ld live objects with one task alive, pool freed early %d time(s)", c_small, f_small);
    if (c_big != 1 || f_big != 0) FAIL("task_group task with a 400-byte functor (sizeof(function_task<F>) > 256): allocated as a plain block, given back as a small object; the exiting thread's pool then counts %ld live objects while one task allocated from it is still alive, and the pool object was handed to cache_aligned_deallocate %d time(s) before that task finished (control with an 8-byte functor: count 1, not freed)", c_big, f_big);
    return 0;
}
int main(int argc, char** argv) {
    std::string which = argc > 1 ? argv[1] : "mail";
    const char* cls = which == "mail" ? "mailbox-proxy-lost-or-duplicated" : which == "stream" ? "stream-task-lost-or-duplicated" : which == "waitctx" ? "wait-count-wrong" : which == "taskmem" ? "task-object-freed-with-wrong-size" : which == "taskmem-small" ? "small-object-pool-count-wrong" : "task-not-exactly-once-or-wait-early";
    int fd[2]; if (pipe(fd)) return 2;
    pid_t pid = fork();
    if (pid == 0) {
        alarm(100); int b = which == "mail" ? mail_scenario() : which == "stream" ? stream_scenario() : which == "waitctx" ? waitctx_scenario() : which == "taskmem" ? taskmem_scenario(true) : which == "taskmem-small" ? taskmem_scenario(false) : group_scenario();
        if (b) { ssize_t k = write(fd[1], why, std::strlen(why)); (void)k; } _exit(b ? 3 : 0);
    }
    close(fd[1]); int st = 0; waitpid(pid, &st, 0); char buf[600] = {0}; ssize_t k = read(fd[0], buf, sizeof buf - 1); (void)k;
    if (WIFSIGNALED(st)) { std::printf("REPRODUCED class=%s scenario %s died with signal %d (%s)\n", cls, which.c_str(), WTERMSIG(st), WTERMSIG(st) == SIGALRM ? "hang: a waiter or a list walk never finished" : "crash"); return 0; }
    if (WEXITSTATUS(st) == 3) { std::printf("REPRODUCED class=%s %s\n", cls, buf); return 0; }
    std::printf("NOT-REPRODUCED\n"); return 0;
}
