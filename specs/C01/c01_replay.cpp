// Native recipes for C01 against libtbb compiled from /repo's current sources: every task runs exactly once.
#include <oneapi/tbb/task_group.h>
#include <oneapi/tbb/task_arena.h>
#include <oneapi/tbb/parallel_for.h>
#include <atomic>
#include <cstdio>
#include <cstdlib>
#include <string>
#include <sys/wait.h>
#include <unistd.h>
static int scenario() {
    // one thread, tasks of two isolation levels interleaved in the owner's pool
    int bad = 0;
    tbb::task_arena a(1);
    a.execute([&] {
        for (int depth = 1; depth <= 3 && !bad; ++depth) {
            tbb::task_group gA, gB; std::atomic<int> ca[4] = {}, cb[4] = {};
            tbb::this_task_arena::isolate([&] {
                for (int i = 0; i < depth; ++i) gA.run([&, i] { ++ca[i]; });
                tbb::this_task_arena::isolate([&] { for (int i = 0; i < depth; ++i) gB.run([&, i] { ++cb[i]; }); });   // left unwaited: stays on top of gA's tasks
                gA.wait();                                  // must take gA's tasks from beneath gB's
            });
            gB.wait();
            for (int i = 0; i < depth; ++i) if (ca[i] != 1 || cb[i] != 1) { bad = 1; std::printf("DETAIL depth=%d task A%d ran %d times, task B%d ran %d times\n", depth, i, ca[i].load(), i, cb[i].load()); }
        }
    });
    return bad;
}
int main(int argc, char** argv) {
    pid_t pid = fork();
    if (pid == 0) { int b = scenario(); std::fflush(stdout); _exit(b ? 3 : 0); }
    int st = 0; waitpid(pid, &st, 0);
    if (WIFSIGNALED(st)) { std::printf("REPRODUCED class=task-runs-twice isolate{ gA.run(A); isolate{ gB.run(B); } gA.wait(); } gB.wait(); in a 1-thread arena: the process died with signal %d (a task object was dispatched again after it had run and been freed)\n", WTERMSIG(st)); return 0; }
    if (WEXITSTATUS(st) == 3) { std::printf("REPRODUCED class=task-runs-twice isolate{ gA.run(A); isolate{ gB.run(B); } gA.wait(); } gB.wait(); in a 1-thread arena: a task taken from beneath a task of another isolation level was executed more than once\n"); return 0; }
    std::printf("NOT-REPRODUCED\n"); return 0;
}
