/* C01 harnesses: the owner's pop from its task pool (with isolation skipping) and the proxy's two-sided claim; sliced from src/tbb */
#include "verif.h"
typedef size_t isolation_type; typedef unsigned short slot_id;
#define no_isolation ((isolation_type)0)
#ifdef POOL
#ifndef MAXN
#define MAXN 5
#endif
typedef struct task { isolation_type isolation; bool is_proxy; slot_id slot; } task;
typedef struct execution_data_ext { slot_id affinity_slot; } execution_data_ext;
struct aslot { size_t head, tail; task **task_pool_ptr; bool published, locked; };
#define ATOMIC_LOAD(x) (x)
#define ATOMIC_STORE(x, v) ((x) = (v))
#define ATOMIC_PREDEC(x) (--(x))
static void slot_acquire_task_pool(struct aslot *s) { s->locked = true; }
static void slot_release_task_pool(struct aslot *s) { s->locked = false; }
static void slot_leave_task_pool(struct aslot *s) { s->published = false; s->locked = false; }
static void slot_publish_task_pool(struct aslot *s) { s->published = true; }
static bool slot_is_task_pool_published(struct aslot *s) { return s->published; }
static bool slot_is_quiescent_local_task_pool_reset(struct aslot *s) { return s->head == 0 && s->tail == 0; }
static void STUB_advertise_new_work(void) {}
bool g_proxy_has_task; int g_proxy_deleted; static task g_inner;
static task *STUB_proxy_extract_task_pool(task *tp) { return g_proxy_has_task ? &g_inner : NULL; }
static void STUB_delete_proxy(task *tp) { g_proxy_deleted++; }
#define LOOP_get_task_1
#include "get_task.inc"
static task T[MAXN]; static task *P[MAXN + 1];
size_t IN_head, IN_tail, IN_iso;
void h_impl(void) {
    struct aslot s; s.task_pool_ptr = P; size_t pos = nondet_size_t(); __CPROVER_assume(pos < MAXN);
    bool present = nondet_bool(); P[pos] = present ? &T[pos] : NULL; T[pos].isolation = nondet_size_t(); T[pos].is_proxy = nondet_bool(); T[pos].slot = nondet_ushort();
    isolation_type iso = IN_iso = nondet_size_t(); bool om0 = nondet_bool(), omitted = om0; execution_data_ext ed; ed.affinity_slot = 0; g_proxy_has_task = nondet_bool(); g_proxy_deleted = 0;
    task *r = slot_get_task_impl(&s, pos, &ed, &omitted, iso);
    bool mismatch = present && iso != no_isolation && T[pos].isolation != iso;
    OBLIGATION(!(r == &T[pos]) || !mismatch, "C01.iso: a task is handed to an isolated waiter only if its isolation tag equals the waiter's");
    OBLIGATION(omitted == (om0 || mismatch), "C01.iso: tasks_omitted is raised exactly when a task was skipped for isolation");
    OBLIGATION(!mismatch || (r == NULL && P[pos] == &T[pos]), "C01.iso: a skipped task stays in the pool untouched");
    OBLIGATION(!(present && !mismatch && !T[pos].is_proxy) || r == &T[pos], "C01.pool: an eligible ordinary task is returned");
    if (present && !mismatch && T[pos].is_proxy) {
        OBLIGATION(g_proxy_has_task ? (r == &g_inner && ed.affinity_slot == T[pos].slot && g_proxy_deleted == 0) : (r == NULL && g_proxy_deleted == 1), "C01.proxy: a proxy yields its task, or is freed exactly once when the mailbox side already took it");
        OBLIGATION(g_proxy_has_task || !omitted || P[pos] == NULL, "C01.proxy: an emptied proxy does not stay behind in a pool that keeps skipped tasks");
    }
    VACUITY_END();
}
void h_get_task(void) {
    struct aslot s; s.task_pool_ptr = P; s.published = true; s.locked = false;
    size_t H = IN_head = nondet_size_t(), Tn = IN_tail = nondet_size_t(); __CPROVER_assume(H < Tn && Tn <= MAXN);
    s.head = H; s.tail = Tn;
    task *orig[MAXN];
    for (size_t i = 0; i < MAXN; ++i) { T[i].isolation = nondet_size_t(); T[i].is_proxy = false; P[i] = (i >= H && i < Tn && nondet_bool()) ? &T[i] : NULL; orig[i] = P[i]; }
    isolation_type iso = IN_iso = nondet_size_t(); execution_data_ext ed; ed.affinity_slot = 0;
    task *r = slot_get_task(&s, &ed, iso);
#define ELIGIBLE(q) (orig[q] != NULL && (iso == no_isolation || T[q].isolation == iso))
    size_t p = MAXN;                                            /* the topmost eligible entry */
    for (size_t q = 0; q < MAXN; ++q) if (q >= H && q < Tn && ELIGIBLE(q)) p = q;
    OBLIGATION(r == (p < MAXN ? &T[p] : NULL), "C01.pool: the owner gets the topmost task it is allowed to run (LIFO, isolation respected), or nothing if there is none (bounded)");
    for (size_t q = 0; q < MAXN; ++q) if (q >= H && q < Tn && orig[q] != NULL) {
        bool still = q >= s.head && q < s.tail && P[q] == orig[q];
        if (q == p) OBLIGATION(!still, "C01.once: the task handed out is no longer in the pool - it cannot be dispatched a second time (bounded)");
        else OBLIGATION(still && s.published, "C01.once: every other task stays in the published pool, exactly where it was - nothing is lost (bounded)");
    }
    for (size_t q = 0; q < MAXN; ++q) if (q >= s.head && q < s.tail && P[q] != NULL) OBLIGATION(q >= H && q < Tn && P[q] == orig[q], "C01.once: the pool holds no task that was not there before (bounded)");
    OBLIGATION(!s.locked, "C01.pool: the pool lock is released");
    VACUITY_END();
}
#endif

#ifdef PROXY
typedef struct task { int d; } task;
#define pool_bit ((intptr_t)1)
#define mailbox_bit ((intptr_t)2)
#define location_mask (pool_bit | mailbox_bit)
struct proxy { intptr_t task_and_tag; };
static struct proxy PX; intptr_t g_task; intptr_t g_from; bool other_done, other_got, me_got;
#define PINV (PX.task_and_tag == (g_task | location_mask) || PX.task_and_tag == pool_bit || PX.task_and_tag == mailbox_bit)
/* the other location's extract_task: at most once, claims the task iff the proxy is still shared and leaves MY bit as the cleaner mark */
static void interfere(void) { if (!other_done && nondet_bool()) { other_done = true; if (PX.task_and_tag == (g_task | location_mask)) { PX.task_and_tag = g_from; other_got = true; } } }
#define ATOMIC_LOAD_AT(site, f) ({ interfere(); (f); })
#define ATOMIC_CAS_AT(site, f, e, d) ({ interfere(); intptr_t o_ = (f); bool r_ = (o_ == *(e)); if (r_) { (f) = (d); me_got = true; } else *(e) = o_; __CPROVER_assert(PINV, "guarantee: the proxy word keeps its shape at " #site); r_; })
#include "proxy.inc"
void h_extract(void) {
    g_task = nondet_intptr_t(); __CPROVER_assume((g_task & location_mask) == 0 && g_task != 0);
    g_from = nondet_bool() ? pool_bit : mailbox_bit; other_done = nondet_bool(); other_got = false; me_got = false;
    /* this location still references the proxy: the word is shared, or the other side already claimed it and left my bit */
    if (other_done && nondet_bool()) { PX.task_and_tag = g_from; other_got = true; } else PX.task_and_tag = g_task | location_mask;
    task *r = proxy_extract_task(&PX, g_from);
    interfere();
    OBLIGATION(r == (task *)g_task || r == NULL, "C01.proxy: the result is the proxied task or nothing");
    OBLIGATION((r != NULL) == me_got && !(me_got && other_got), "C01.proxy: of the two locations exactly one extracts the task (never both, never none once both have tried)");
    OBLIGATION(!(other_done && r == NULL) || other_got, "C01.proxy: if this side gets nothing the other side has the task");
    OBLIGATION(r != NULL ? PX.task_and_tag == (location_mask & ~g_from) : PX.task_and_tag == g_from, "C01.proxy: the loser is marked as the one who must free the proxy");
    VACUITY_END();
}
#endif

#ifdef PLOCK
/* The pool lock word arena_slot::task_pool: EmptyTaskPool | LockedTaskPool | the owner's task_pool_ptr.  Rely/guarantee over one word, any number of
   thieves and the owner (SC).  Ghost census: gH = number of holders, meH = this thread holds.  The owner's task_pool_ptr is owner-private: thieves see it
   only through the word; while a thief holds the lock the owner cannot change it (the owner changes it only under the lock or while unpublished). */
typedef struct task { int d; } task;
#define EmptyTaskPool ((task**)0)
#define LockedTaskPool ((task**)~(intptr_t)0)
struct aslot { task **task_pool; task **task_pool_ptr; size_t head, tail; };
static struct aslot S; unsigned long gH; bool meH, me_owner;
#define INV (gH <= 1 && ((S.task_pool == LockedTaskPool) == (gH == 1)) && gH >= (unsigned long)meH \
  && (S.task_pool == EmptyTaskPool || S.task_pool == LockedTaskPool || S.task_pool == S.task_pool_ptr) && S.task_pool_ptr != EmptyTaskPool && S.task_pool_ptr != LockedTaskPool)
static void interfere(void) {
    task **o = S.task_pool, **op = S.task_pool_ptr;
    S.task_pool = nondet_ptr(); gH = nondet_ulong(); if (!me_owner && !meH) S.task_pool_ptr = nondet_ptr();
    __CPROVER_assume(INV);
    if (me_owner) __CPROVER_assume((o == EmptyTaskPool) == (S.task_pool == EmptyTaskPool));   /* only the owner publishes and leaves */
}
/* guarantee of every step: INV again; a thread that is not the owner never changes whether the pool is published; nobody writes the word while another thread holds the lock */
#define RG_SITE(site, T, op) ({ interfere(); task **old_ = S.task_pool; unsigned long oH_ = gH; bool omeH_ = meH; T r_ = (op); GHOST_##site; \
   __CPROVER_assert(INV, "guarantee: lock-word invariant (at most one holder; Locked iff held; otherwise Empty or the owner's pool) re-established at " #site); \
   __CPROVER_assert(me_owner || (old_ == EmptyTaskPool) == (S.task_pool == EmptyTaskPool), "guarantee: a thief never publishes or unpublishes the pool, at " #site); \
   __CPROVER_assert(!(oH_ == 1 && !omeH_) || S.task_pool == old_, "guarantee: the word is not written while another thread holds the lock, at " #site); r_; })
#define ATOMIC_LOAD_AT(site, f) RG_SITE(site, task **, (f))
#define ATOMIC_CAS_AT(site, f, e, d) RG_SITE(site, bool, ((f) == *(e) ? ((f) = (d), true) : (*(e) = (f), false)))
#define ATOMIC_STORE_AT(site, f, v) RG_SITE(site, int, ((f) = (v), 0))
#define NOG ((void)0)
#define TAKE if (r_) { gH++; meH = true; }
#define DROP { gH--; meH = false; }
#define GHOST_acquire_task_pool_LOAD_1 NOG
#define GHOST_acquire_task_pool_LOAD_2 NOG
#define GHOST_acquire_task_pool_LOAD_3 NOG
#define GHOST_acquire_task_pool_CAS_1 TAKE
#define GHOST_release_task_pool_LOAD_1 NOG
#define GHOST_release_task_pool_LOAD_2 NOG
#define GHOST_release_task_pool_STORE_1 DROP
#define GHOST_lock_task_pool_LOAD_1 NOG
#define GHOST_lock_task_pool_LOAD_2 NOG
#define GHOST_lock_task_pool_CAS_1 TAKE
#define GHOST_unlock_task_pool_LOAD_1 NOG
#define GHOST_unlock_task_pool_STORE_1 DROP
#define GHOST_leave_task_pool_LOAD_1 NOG
#define GHOST_leave_task_pool_LOAD_2 NOG
#define GHOST_leave_task_pool_STORE_1 DROP
#define GHOST_publish_task_pool_LOAD_1 NOG
#define GHOST_publish_task_pool_STORE_1 NOG
#define LOOP_acquire_task_pool_1 __CPROVER_assigns(S.task_pool, S.task_pool_ptr, gH, meH, sync_prepare_done) __CPROVER_loop_invariant(INV && !meH && S.task_pool != EmptyTaskPool)
#define LOOP_lock_task_pool_1 __CPROVER_assigns(S.task_pool, S.task_pool_ptr, gH, meH, victim_task_pool) __CPROVER_loop_invariant(INV && !meH)
#include "locks.inc"
#define PRE(c) do { S.task_pool = nondet_ptr(); S.task_pool_ptr = nondet_ptr(); S.head = nondet_size_t(); S.tail = nondet_size_t(); gH = nondet_ulong(); meH = nondet_bool(); __CPROVER_assume(INV && (c)); } while (0)
void h_acquire(void) { me_owner = true; PRE(!meH); bool pub = S.task_pool != EmptyTaskPool; slot_acquire_task_pool(&S); interfere();
    OBLIGATION(pub ? (meH && gH == 1 && S.task_pool == LockedTaskPool) : (!meH && S.task_pool == EmptyTaskPool), "C01.lock: acquire_task_pool returns holding the lock exclusively, or with the pool unpublished (nothing to lock)"); VACUITY_END(); }
void h_release(void) { me_owner = true; PRE(S.task_pool == EmptyTaskPool ? !meH : meH); bool pub = S.task_pool != EmptyTaskPool; slot_release_task_pool(&S);
    OBLIGATION(!meH && (pub ? S.task_pool == S.task_pool_ptr : S.task_pool == EmptyTaskPool), "C01.lock: release_task_pool gives the lock back and republishes the owner's current pool pointer"); VACUITY_END(); }
void h_lock(void) { me_owner = false; PRE(!meH); task **r = slot_lock_task_pool(&S); task **at_return = S.task_pool_ptr; interfere();
    OBLIGATION(r == EmptyTaskPool ? !meH : (meH && gH == 1 && r != LockedTaskPool && r == at_return && S.task_pool_ptr == at_return && S.task_pool == LockedTaskPool),
               "C01.lock: lock_task_pool returns nullptr without the lock, or the victim's pool with the lock held exclusively; the pool pointer cannot change while it is held"); VACUITY_END(); }
void h_unlock(void) { me_owner = false; PRE(meH); task **p = S.task_pool_ptr; slot_unlock_task_pool(&S, p);
    OBLIGATION(!meH && gH == 0 && S.task_pool == p, "C01.lock: unlock_task_pool releases the lock and restores exactly the pool pointer it was given"); VACUITY_END(); }
void h_leave(void) { me_owner = true; PRE(meH && S.head == S.tail); slot_leave_task_pool(&S); interfere();
    OBLIGATION(!meH && gH == 0 && S.task_pool == EmptyTaskPool, "C01.lock: leave_task_pool drops the lock and leaves the pool unpublished - no thief can enter it"); VACUITY_END(); }
void h_publish(void) { me_owner = true; PRE(!meH && S.task_pool == EmptyTaskPool && S.head < S.tail); slot_publish_task_pool(&S);
    OBLIGATION(!meH && S.task_pool == S.task_pool_ptr, "C01.lock: publish_task_pool makes exactly the owner's pool visible, unlocked"); VACUITY_END(); }
#endif

#ifdef STEAL
/* arena_slot::steal_task, the thief's side, for pools of ANY size (loop contract).  The pool is represented by per-index arrays: entry i is a hole or THE i-th task
   (tasks in a pool are pairwise distinct - the representation makes that a fact instead of a quantified assumption); attributes are arbitrary per task.
   The owner is quiescent here (tail fixed); the owner/thief arbitration on head/tail is the subject of the jobs the.* */
typedef struct task task;
struct arena { bool my_mailbox_idle; };
struct aslot { size_t head, tail; bool published; int locked, lock_calls; };
#define NMAX ((size_t)1 << 12)
static size_t g_n; static bool *g_hole; static isolation_type *g_iso; static bool *g_proxy, *g_shared, *g_outbox_idle; static int g_adv;
static task *const POOL_TOKEN = (task *)(uintptr_t)8;
#define TASKPTR(i) ((task *)(((uintptr_t)(i) + 1) << 4))
#define TIDX(p) ((size_t)(((uintptr_t)(p)) >> 4) - 1)
#define TASK_ISOLATION(p) (g_iso[TIDX(p)])
#define TASK_IS_PROXY(p) (g_proxy[TIDX(p)])
static task *pool_rd(task **vp, size_t i) { __CPROVER_assert(vp == (task **)POOL_TOKEN, "C01.steal: the pool read is the one that was locked"); __CPROVER_assert(i < g_n, "C01.steal: pool index inside the pool"); return g_hole[i] ? NULL : TASKPTR(i); }
static void pool_wr(task **vp, size_t i, task *v) { __CPROVER_assert(vp == (task **)POOL_TOKEN && i < g_n, "C01.steal: pool write inside the locked pool"); __CPROVER_assert(v == NULL, "C01.steal: a thief only ever writes holes into the victim's pool"); g_hole[i] = true; }
#define POOL_RD(vp, i) pool_rd((vp), (i))
#define POOL_WR(vp, i, v) pool_wr((vp), (i), (v))
#define ATOMIC_LOAD_AT(site, x) (x)
#define ATOMIC_STORE_AT(site, x, v) ((x) = (v))
#define ATOMIC_PREINC_AT(site, x) (++(x))
static task **slot_lock_task_pool(struct aslot *s) { if (!s->published) return NULL; s->locked++; s->lock_calls++; return (task **)POOL_TOKEN; }
static void slot_unlock_task_pool(struct aslot *s, task **p) { __CPROVER_assert(p == (task **)POOL_TOKEN, "C01.steal: unlock restores the pointer lock returned"); s->locked--; }
static bool STUB_proxy_is_shared(task *tp) { return g_shared[TIDX(tp)]; }
static bool STUB_outbox_recipient_is_idle(task *tp) { return g_outbox_idle[TIDX(tp)]; }
static bool STUB_my_mailbox_is_idle(struct arena *a, size_t idx) { return a->my_mailbox_idle; }
static void STUB_advertise_new_work(void) { g_adv++; }
size_t g_k, g_Hin, g_T; isolation_type g_isoarg; bool g_mbidle;
#define ELIG(i) (!g_hole[i] && (g_isoarg == no_isolation || g_isoarg == g_iso[i]) && (!g_proxy[i] || !g_shared[i] || !g_outbox_idle[i] || g_mbidle))
/* at the loop head: head mirrors H; everything in [Hin,H) was looked at and is a hole or not eligible; [Hin,H0) are holes only; H0 trails H exactly when something was skipped */
#define LOOP_steal_1 __CPROVER_assigns(H, H0, result, tasks_omitted, self->head) \
  __CPROVER_loop_invariant(self->head == H && g_Hin <= H0 && H0 <= H && H <= g_T && self->tail == g_T && result == NULL && (tasks_omitted ? (H0 < H && !g_hole[H0]) : H0 == H) \
     && (!(g_Hin <= g_k && g_k < H) || !ELIG(g_k)) && (!(g_Hin <= g_k && g_k < H0) || g_hole[g_k])) \
  __CPROVER_decreases(g_T - H)
#include "steal.inc"
size_t IN_head, IN_tail, IN_iso, IN_k;
void h_steal(void) {
    g_n = nondet_size_t(); __CPROVER_assume(g_n >= 1 && g_n <= NMAX);
    g_hole = malloc(g_n * sizeof(bool)); g_iso = malloc(g_n * sizeof(isolation_type)); g_proxy = malloc(g_n * sizeof(bool)); g_shared = malloc(g_n * sizeof(bool)); g_outbox_idle = malloc(g_n * sizeof(bool));
    __CPROVER_assume(g_hole && g_iso && g_proxy && g_shared && g_outbox_idle);
    struct aslot s; struct arena a; s.published = nondet_bool(); s.locked = 0; s.lock_calls = 0; g_adv = 0;
    g_Hin = IN_head = s.head = nondet_size_t(); g_T = IN_tail = s.tail = nondet_size_t(); __CPROVER_assume(g_Hin <= g_T && g_T <= g_n);
    g_isoarg = IN_iso = nondet_size_t(); g_mbidle = a.my_mailbox_idle = nondet_bool(); g_k = IN_k = nondet_size_t(); __CPROVER_assume(g_k < g_n);
    bool hole0 = g_hole[g_k], elig0 = ELIG(g_k);
    task *r = slot_steal_task(&s, &a, g_isoarg, nondet_size_t());
    OBLIGATION(s.locked == 0 && s.lock_calls == (s.published ? 1 : 0), "C01.steal: the victim's pool is locked exactly once and unlocked again on every path");
    OBLIGATION(s.tail == g_T, "C01.steal: a thief never moves the tail");
    OBLIGATION(s.published || (r == NULL && s.head == g_Hin), "C01.steal: nothing is taken from an unpublished pool");
    if (r != NULL) {
        size_t q = TIDX(r);
        OBLIGATION(q >= g_Hin && q < g_T && r == TASKPTR(q), "C01.steal: the stolen task is one that was in the victim's pool, inside [head, tail)");
        if (q == g_k) {
            OBLIGATION(!hole0 && elig0, "C01.steal: the stolen task is eligible for this thief: its isolation tag matches (or the thief is not isolated), and a proxy is taken only when its recipient is unlikely to grab it");
            OBLIGATION(!(s.head <= q && q < s.tail && !g_hole[q]), "C01.once: the stolen task is no longer in the pool - neither the owner nor another thief can take it again");
        }
    }
    if (g_k >= g_Hin && g_k < g_T && !hole0 && !(r != NULL && TIDX(r) == g_k))
        OBLIGATION(s.head <= g_k && g_k < s.tail && !g_hole[g_k], "C01.once: every task the thief did not take is still in the published pool, where it was - nothing is lost");
    if (!(r != NULL && TIDX(r) == g_k)) OBLIGATION(g_hole[g_k] == hole0, "C01.steal: no other pool entry is touched");
    OBLIGATION(s.head >= g_Hin && s.head <= g_T, "C01.steal: head stays within [old head, tail]");
    VACUITY_END();
}
#endif

#ifdef GTLC
/* arena_slot::get_task + get_task_impl + reset_task_pool_and_leave: the owner's pop with isolation skipping, for pools of ANY size (loop contract).
   Same pool representation as for steal_task; thieves only try and back off (head fixed up to a transient +1) - the arbitration with a thief is the subject of the jobs the.* */
typedef struct task task;
typedef struct execution_data_ext { slot_id affinity_slot; } execution_data_ext;
struct aslot { size_t head, tail; task **task_pool_ptr; bool published, locked; };
#define NMAX ((size_t)1 << 12)
static size_t g_n; static bool *g_hole; static isolation_type *g_iso; static bool *g_proxy, *g_has_task; static bool g_adv, g_del_k; size_t g_k;
static task *const POOL_TOKEN = (task *)(uintptr_t)8;
#define TASKPTR(i) ((task *)(((uintptr_t)(i) + 1) << 4))
#define INNER(i) ((task *)((((uintptr_t)(i) + 1) << 4) | 4))      /* the task a proxy stands for */
#define TIDX(p) ((size_t)(((uintptr_t)(p)) >> 4) - 1)
#define TASK_ISOLATION(p) (g_iso[TIDX(p)])
#define TASK_IS_PROXY(p) (g_proxy[TIDX(p)])
#define TASK_SLOT(p) ((slot_id)TIDX(p))
static task *pool_rd(task **vp, size_t i) { __CPROVER_assert(vp == (task **)POOL_TOKEN, "C01.pool: the owner reads its own pool"); __CPROVER_assert(i < g_n, "C01.pool: pool index inside the pool"); return g_hole[i] ? NULL : TASKPTR(i); }
static void pool_wr(task **vp, size_t i, task *v) { __CPROVER_assert(vp == (task **)POOL_TOKEN && i < g_n, "C01.pool: pool write inside the pool"); __CPROVER_assert(v == NULL, "C01.pool: popping only ever writes holes"); g_hole[i] = true; }
#define POOL_RD(vp, i) pool_rd((vp), (i))
#define POOL_WR(vp, i, v) pool_wr((vp), (i), (v))
/* a thief that is about to back off shows as a transient head+1 to an owner that does not hold the lock (the permanent effects of thieves are the subject of the.*) */
static size_t load_(struct aslot *s, size_t *p) { return *p + ((p == &s->head && s->published && !s->locked && nondet_bool()) ? 1 : 0); }
#define ATOMIC_LOAD(x) load_(self, &(x))
#define ATOMIC_STORE(x, v) ((x) = (v))
#define ATOMIC_PREDEC(x) (--(x))
static void slot_acquire_task_pool(struct aslot *s) { __CPROVER_assert(!s->locked, "C01.pool: the owner does not lock twice"); if (s->published) s->locked = true; }
static void slot_release_task_pool(struct aslot *s) { s->locked = false; }
static void slot_leave_task_pool(struct aslot *s) { __CPROVER_assert(s->locked && s->head == s->tail, "C01.pool: the pool is left only locked and empty"); s->published = false; s->locked = false; }
static void slot_publish_task_pool(struct aslot *s) { __CPROVER_assert(!s->published && s->head < s->tail, "C01.pool: publish only an unpublished, non-empty pool"); s->published = true; }
static bool slot_is_task_pool_published(struct aslot *s) { return s->published; }
static bool slot_is_quiescent_local_task_pool_reset(struct aslot *s) { return s->head == 0 && s->tail == 0; }
static void STUB_advertise_new_work(void) { g_adv = true; }
static task *STUB_proxy_extract_task_pool(task *tp) { size_t i = TIDX(tp); if (g_has_task[i]) { g_has_task[i] = false; return INNER(i); } return NULL; }
static void STUB_delete_proxy(task *tp) { if (TIDX(tp) == g_k) { __CPROVER_assert(!g_del_k, "C01.proxy: a proxy is freed at most once"); g_del_k = true; } }
size_t g_Hin, g_Tin; isolation_type g_isoarg; bool g_hole0k, g_has0k;
#define MISMATCH(i) (g_isoarg != no_isolation && g_isoarg != g_iso[i])
/* loop head: tail mirrors T; nothing was returned yet; every position in [T, Tin) was examined and gave nothing: a hole, a task of another isolation level (still there), or a proxy that
   turned out empty (freed; removed when skipped tasks stay above it).  T0 trails: [T0, Tin) holds no live task; T0 > T exactly when a task was skipped, and that task sits at T0-1. */
#define LOOP_get_task_1 __CPROVER_assigns(T, T0, H0, result, task_pool_empty, tasks_omitted, self->head, self->tail, self->locked, self->published, g_del_k, g_adv, ed->affinity_slot, __CPROVER_object_whole(g_hole), __CPROVER_object_whole(g_has_task)) \
  __CPROVER_loop_invariant(self->tail == T && self->head == g_Hin && self->published && !self->locked && result == NULL && !task_pool_empty && g_Hin <= T && T <= T0 && T0 <= g_Tin \
     && (tasks_omitted ? (T < T0 && !g_hole[T0 - 1] && MISMATCH(T0 - 1)) : T0 == T) \
     && ((g_k < T || g_k >= g_Tin || g_hole0k) ? (g_hole[g_k] == g_hole0k && g_has_task[g_k] == g_has0k && !g_del_k) : 1) \
     && (g_k >= T && g_k < g_Tin && !g_hole0k ? ((MISMATCH(g_k) && !g_hole[g_k] && g_k < T0 && !g_del_k) || (!MISMATCH(g_k) && g_proxy[g_k] && !g_has0k && g_del_k && (g_hole[g_k] || g_k >= T0))) : 1) \
     && (g_del_k ? !g_has0k : 1)) \
  __CPROVER_decreases(T)
#include "get_task_lc.inc"
size_t IN_head, IN_tail, IN_iso, IN_k;
void h_get_task_lc(void) {
    g_n = nondet_size_t(); __CPROVER_assume(g_n >= 1 && g_n <= NMAX);
    g_hole = malloc(g_n * sizeof(bool)); g_iso = malloc(g_n * sizeof(isolation_type)); g_proxy = malloc(g_n * sizeof(bool)); g_has_task = malloc(g_n * sizeof(bool));
    __CPROVER_assume(g_hole && g_iso && g_proxy && g_has_task);
    struct aslot s; s.task_pool_ptr = (task **)POOL_TOKEN; s.published = true; s.locked = false; g_adv = false; g_del_k = false; execution_data_ext ed; ed.affinity_slot = 0;
    g_Hin = IN_head = s.head = nondet_size_t(); g_Tin = IN_tail = s.tail = nondet_size_t(); __CPROVER_assume(g_Hin <= g_Tin && g_Tin <= g_n);
    g_isoarg = IN_iso = nondet_size_t(); g_k = IN_k = nondet_size_t(); __CPROVER_assume(g_k < g_n);
    g_hole0k = g_hole[g_k]; g_has0k = g_has_task[g_k]; bool proxy_k = g_proxy[g_k], mismatch_k = MISMATCH(g_k);
    task *r = slot_get_task(&s, &ed, g_isoarg);
    OBLIGATION(!s.locked, "C01.pool: the pool lock is released on every path");
    bool in_k = g_k >= g_Hin && g_k < g_Tin && !g_hole0k;
    bool avail_k = s.published && s.head <= g_k && g_k < s.tail && !g_hole[g_k];
    if (r != NULL) {
        size_t q = TIDX(r); bool inner = ((uintptr_t)r & 4) != 0;
        OBLIGATION(q >= g_Hin && q < g_Tin, "C01.pool: the task handed out comes from the owner's pool, inside [head, tail)");
        if (q == g_k) {
            OBLIGATION(!g_hole0k && !mismatch_k, "C01.iso: the owner gets only a task whose isolation tag it is allowed to run");
            OBLIGATION(inner ? (proxy_k && g_has0k && ed.affinity_slot == TASK_SLOT(TASKPTR(q))) : !proxy_k, "C01.proxy: a proxy is never returned itself: it yields the task it stands for (once), with the affinity recorded");
            OBLIGATION(!avail_k || inner, "C01.once: the task handed out is no longer in the pool - it cannot be dispatched a second time");
        }
    }
    if (in_k && !(r != NULL && TIDX(r) == g_k)) {
        if (mismatch_k || !proxy_k) OBLIGATION(avail_k, "C01.once: every task not handed out stays in the published pool, where it was - nothing is lost (skipped tasks of other isolation levels included)");
        else OBLIGATION(avail_k || (!g_has0k && g_del_k), "C01.proxy: a proxy leaves the pool without yielding a task only if the mailbox side had taken the task already, and it is freed");
    }
    if (!in_k) OBLIGATION(!avail_k || (g_k >= g_Hin && g_k < g_Tin), "C01.once: the pool does not grow");
    OBLIGATION(!(s.published && s.head <= g_k && g_k < s.tail) || (g_k >= g_Hin && g_k < g_Tin), "C01.once: the published range stays inside the old one - no stale slot becomes visible");
    OBLIGATION(!g_del_k || (in_k && proxy_k && !mismatch_k && !g_has0k), "C01.proxy: only an emptied proxy the owner was allowed to look at is freed");
    VACUITY_END();
}
#endif

#if defined(THE_OWNER) || defined(THE_THIEF)
/* Owner/thief arbitration on head and tail (the THE protocol): for ONE arbitrary slot k of a published pool, the task in it is handed out at most once - by the owner's
   get_task or by a thief's steal_task - under every interleaving (SC) of the owner with any number of thieves (thieves are serialised by the pool lock, proved in lock.*).
   Ghost state for slot k: hole (slot empty: physical), cO / cT (its task was handed to the owner / a thief),
   oPh (owner: 0 idle, 1 lowered tail to k, 2 won the arbitration for k), th_t / th_c (the lock-holding thief: bumped head over k / passed the tail check for k).
   Each job runs ONE side's real code; the other side is the interference: a havoc constrained by INV and by a two-state rely, and every step of the real code is
   checked against the two-state guarantee the other job relies on. */
typedef struct task task;
typedef struct execution_data_ext { slot_id affinity_slot; } execution_data_ext;
struct arena { bool my_mailbox_idle; };
struct aslot { size_t head, tail; task **task_pool_ptr; bool published; };
static struct aslot S; int L; bool hole, cO, cT, th_t, th_c, me_took, elig_k; int oPh; size_t g_k; isolation_type g_isoarg, g_iso_k;
#define SK ((intptr_t)g_k)
#define SH ((intptr_t)S.head)
#define ST ((intptr_t)S.tail)
#define INV ((L == 0 || L == 1 || L == 2) && (oPh == 0 || oPh == 1 || oPh == 2) && !(th_t && th_c) \
  && ((th_t || th_c) ? (L == 2 && SH >= SK + 1) : 1) && (S.published ? 1 : (L == 0 && !th_t && !th_c)) \
  && (oPh >= 1 ? ST <= SK : 1) && ((oPh == 2 && !hole) ? (!cT && !th_c) : 1) && !(cO && cT) \
  && (cT ? (SH >= SK + 1 || hole || (ST <= SK && oPh == 0)) : 1) && (cO ? (ST <= SK || hole || (SH >= SK + 1 && !th_t && !th_c)) : 1) \
  && SH >= 0 && SH <= BND + 1 && ST >= -1 && ST <= BND)
#define BND ((intptr_t)1 << 41)
static task *const POOL_TOKEN = (task *)(uintptr_t)8;
#define TASKPTR(i) ((task *)(((uintptr_t)(i) + 1) << 4))
#define TIDX(p) ((size_t)(((uintptr_t)(p)) >> 4) - 1)
#define TASK_ISOLATION(p) (TIDX(p) == g_k ? g_iso_k : nondet_size_t())
#define TASK_IS_PROXY(p) false
#define TASK_SLOT(p) ((slot_id)0)
static void STUB_advertise_new_work(void) {}
#endif

#if defined(THE_OWNER) || defined(THE_THIEF)
/* the library's own debug assertions about head/tail consistency (compiled out of the tested build) are not part of this job: they are obligations of pool.get_task.any_size / pool.steal_task */
#undef VERIF_ASSERT
#define VERIF_ASSERT(c, m) ((void)0)
#endif

#ifdef THE_OWNER
/* rely: what thieves may do between two steps of the owner */
static void interfere(void) {
    size_t oh = S.head; int oL = L; bool ohole = hole, ocT = cT, oth_t = th_t, oth_c = th_c;
    if (L == 1 || !S.published) return;                                         /* the owner holds the lock, or no thief can enter: nothing moves */
    S.head = nondet_size_t(); L = nondet_int(); hole = nondet_bool(); cT = nondet_bool(); th_t = nondet_bool(); th_c = nondet_bool();
    __CPROVER_assume(INV && L != 1);
    __CPROVER_assume((ohole ? hole : 1) && (ocT ? cT : 1));
    __CPROVER_assume((cT && !ocT) ? (ST >= SK + 1 && !ohole) : 1);            /* a thief takes slot k only after seeing tail beyond it */
    __CPROVER_assume((th_c && !oth_c) ? ST >= SK + 1 : 1);
    __CPROVER_assume((hole && !ohole) ? cT : 1);                                /* a thief only empties the slot it took */
    __CPROVER_assume(((intptr_t)oh >= SK + 1 && !oth_t && !oth_c) ? (SH >= SK + 1 && !th_t && !th_c) : 1);   /* a slot already below head stays below head: thieves roll head back only to where they found it */
}
/* guarantee of every owner step, as relied on by the thief job */
#define OWNER_STEP(site, T, op) ({ interfere(); size_t oh_ = S.head, ot_ = S.tail; int oL_ = L, oP_ = oPh; bool ohole_ = hole, ocO_ = cO, ocT_ = cT, ot_t_ = th_t, ot_c_ = th_c, opub_ = S.published; T r_ = (op); GHOST_##site; \
   __CPROVER_assert(INV, "guarantee: arbitration invariant for slot k re-established at " #site); \
   __CPROVER_assert(oL_ == 2 ? (S.head == oh_ && L == 2 && S.published == opub_) : 1, "guarantee: the owner does not move head, take the lock or leave while a thief holds the pool lock, at " #site); \
   __CPROVER_assert(cT == ocT_ && th_t == ot_t_ && th_c == ot_c_, "guarantee: the owner does not touch the thief's ghost state, at " #site); \
   __CPROVER_assert((oPh == 2 && oP_ != 2) ? (intptr_t)oh_ <= SK || oL_ == 1 : 1, "guarantee: the owner wins slot k only by reading head <= k after lowering tail to k (or under the lock), at " #site); \
   __CPROVER_assert((oPh >= 1 && oP_ == 0) ? (intptr_t)ot_ >= SK + 1 : 1, "guarantee: the owner starts popping slot k from tail == k+1, at " #site); \
   __CPROVER_assert(((intptr_t)ot_ <= SK && SK < ST && (S.published || SK >= SH)) ? ((cT ? hole : 1) && (cO ? hole : 1)) : 1, "guarantee: a slot the owner puts back into [head, tail) holds a task nobody has taken, or a hole, at " #site); \
   __CPROVER_assert((hole && !ohole_) ? (oP_ == 2 || oPh == 2) : 1, "guarantee: the owner empties only a slot it has won, at " #site); \
   r_; })
#define ATOMIC_LOAD_AT(site, f) OWNER_STEP(site, size_t, (f))
#define ATOMIC_STORE_AT(site, f, v) OWNER_STEP(site, size_t, ((f) = (v)))
#define ATOMIC_PREDEC_AT(site, f) OWNER_STEP(site, size_t, (--(f)))
#define NOG ((void)0)
#define GHOST_gt_LOAD_1 NOG
#define GHOST_gt_PREDEC_1 if ((intptr_t)r_ == SK) oPh = 1
#define GHOST_gt_LOAD_2 if (oPh == 1 && (intptr_t)r_ <= SK) oPh = 2
#define GHOST_gt_LOAD_3 if (oPh == 1 && (intptr_t)r_ <= SK) oPh = 2
#define GHOST_gt_LOAD_4 NOG
#define GHOST_gt_LOAD_5 NOG
#define GHOST_gt_LOAD_6 NOG
#define GHOST_gt_LOAD_7 NOG
#define GHOST_gt_STORE_1 if (oPh == 1) oPh = 0                         /* reset: tail = 0 - the owner gives up a slot it did not win */
#define GHOST_gt_STORE_2 NOG                                          /* reset: head = 0 */
#define GHOST_gt_STORE_3 NOG                                          /* restore head */
#define GHOST_gt_STORE_4 oPh = 0                                      /* restore tail: the owner is done with every slot it examined */
#define GHOST_gt_STORE_5 oPh = 0
static task *pool_rd(task **vp, size_t i) {
    if (i != g_k) return nondet_bool() ? NULL : TASKPTR(i);
    __CPROVER_assert(oPh == 2, "C01.THE: the owner reads slot k only after it has won the arbitration for k (tail lowered to k, then head seen <= k or the lock held)");
    if (!hole && elig_k) { __CPROVER_assert(!cT, "C01.once: the owner takes the task in slot k only if no thief has taken it"); cO = true; me_took = true; }
    return hole ? NULL : TASKPTR(i);
}
static void pool_wr(task **vp, size_t i, task *v) { __CPROVER_assert(v == NULL, "C01.pool: popping only ever writes holes"); if (i == g_k) { __CPROVER_assert(oPh == 2, "C01.THE: the owner empties slot k only after winning it"); hole = true; } }
#define POOL_RD(vp, i) pool_rd((vp), (i))
#define POOL_WR(vp, i, v) pool_wr((vp), (i), (v))
static void slot_acquire_task_pool(struct aslot *s) { interfere(); if (!s->published) return; __CPROVER_assume(L == 0); L = 1; __CPROVER_assert(INV, "guarantee: INV after acquire"); }
static void slot_release_task_pool(struct aslot *s) { if (!s->published) return; __CPROVER_assert(L == 1, "C01.THE: the owner releases a lock it holds"); L = 0; }
static void slot_leave_task_pool(struct aslot *s) { __CPROVER_assert(L == 1 && s->head == s->tail, "C01.THE: the pool is left only locked and empty"); s->published = false; L = 0; __CPROVER_assert(INV, "guarantee: INV after leave"); }
static void slot_publish_task_pool(struct aslot *s) { __CPROVER_assert(!s->published && L == 0, "C01.THE: publish only an unpublished pool"); s->published = true; __CPROVER_assert(INV, "guarantee: INV after publish"); }
static bool slot_is_task_pool_published(struct aslot *s) { return s->published; }
static bool slot_is_quiescent_local_task_pool_reset(struct aslot *s) { return s->head == 0 && s->tail == 0; }
static task *STUB_proxy_extract_task_pool(task *tp) { return NULL; }
static void STUB_delete_proxy(task *tp) {}
#define LOOP_get_task_1 __CPROVER_assigns(T, T0, H0, result, task_pool_empty, tasks_omitted, S.head, S.tail, S.published, L, hole, cO, cT, th_t, th_c, oPh, me_took, ed->affinity_slot) \
  __CPROVER_loop_invariant(INV && S.tail == T && S.published && L != 1 && result == NULL && !task_pool_empty && !me_took && ((intptr_t)T <= SK && SK < (intptr_t)IN_tail ? oPh == 2 : oPh == 0) && (intptr_t)T <= (intptr_t)T0 && (intptr_t)T0 <= (intptr_t)IN_tail \
     && ((cO && !hole) ? (SK >= (intptr_t)T0 || (SH >= SK + 1 && !th_t && !th_c)) : 1) \
     && (intptr_t)T >= 0 && (intptr_t)T0 < ((intptr_t)1 << 40) && (tasks_omitted ? 1 : T0 == T))
size_t IN_head, IN_tail, IN_k;
#include "get_task_the.inc"
void h_the_owner(void) {
    S.task_pool_ptr = (task **)POOL_TOKEN; S.published = true; S.head = IN_head = nondet_size_t(); S.tail = IN_tail = nondet_size_t(); g_k = IN_k = nondet_size_t();
    __CPROVER_assume(g_k < ((size_t)1 << 40) && ST >= 0 && ST < ((intptr_t)1 << 40) && SH >= 0 && SH < ((intptr_t)1 << 40));
    L = nondet_int(); hole = nondet_bool(); cO = nondet_bool(); cT = nondet_bool(); th_t = nondet_bool(); th_c = nondet_bool(); oPh = 0; me_took = false;
    g_isoarg = nondet_size_t(); g_iso_k = nondet_size_t(); elig_k = (g_isoarg == no_isolation || g_isoarg == g_iso_k);
    __CPROVER_assume(INV && L != 1);
    execution_data_ext ed; ed.affinity_slot = 0;
    task *r = slot_get_task(&S, &ed, g_isoarg);
    oPh = 0;
    OBLIGATION(INV, "C01.THE: the arbitration invariant holds when get_task returns");
    OBLIGATION((r == TASKPTR(g_k)) == me_took, "C01.once: get_task returns the task of slot k exactly when the owner took it under the protocol");
    OBLIGATION(!(cO && cT), "C01.once: the task in slot k is handed out at most once - never to the owner and to a thief");
    OBLIGATION(L != 1, "C01.THE: the owner does not keep the pool lock");
    VACUITY_END();
}
#endif

#ifdef THE_THIEF
/* rely: what the owner (and, while this thief does not hold the lock, other thieves) may do between two steps of this thief */
bool me_holds;
static void interfere(void) {
    size_t ot = S.tail; int oP = oPh; bool ohole = hole, ocO = cO, ocT = cT;
    if (!me_holds) {                                                        /* anything that respects the invariant; the lock is not mine */
        S.head = nondet_size_t(); S.tail = nondet_size_t(); S.published = nondet_bool(); L = nondet_int(); hole = nondet_bool(); cO = nondet_bool(); cT = nondet_bool(); th_t = nondet_bool(); th_c = nondet_bool(); oPh = nondet_int();
        __CPROVER_assume(INV); return;
    }
    S.tail = nondet_size_t(); oPh = nondet_int(); cO = nondet_bool(); hole = nondet_bool(); bool newinst = nondet_bool();
    if (newinst) cT = false;                                               /* the owner spawned a NEW task into slot k (only possible while k is at or above tail) */
    __CPROVER_assume(INV);
    __CPROVER_assume(newinst ? ((intptr_t)ot <= SK && SK < ST && oP == 0 && oPh == 0 && !th_c && !cO && !hole) : 1);
    __CPROVER_assume((!newinst && ohole) ? hole : 1);
    __CPROVER_assume((hole && !ohole) ? (oP == 2 || SH <= SK) : 1);                                   /* the owner empties only a slot it has won */
    __CPROVER_assume((oPh == 2 && oP != 2) ? SH <= SK : 1);                                           /* the owner wins k only by seeing head <= k (it cannot take the lock while I hold it) */
    __CPROVER_assume((oPh >= 1 && oP == 0) ? (intptr_t)ot >= SK + 1 : 1);                             /* the owner starts popping k from tail == k+1 */
    __CPROVER_assume((cO && !ocO) ? (!ohole && (oP == 2 || SH <= SK)) : 1);
    __CPROVER_assume((!newinst && ocO) ? cO : 1);
    __CPROVER_assume((!newinst && (intptr_t)ot <= SK && SK < ST) ? ((cT ? hole : 1) && (cO ? hole : 1)) : 1);   /* what the owner puts back into the pool is untaken or a hole */
    __CPROVER_assume(((intptr_t)ot < ST) ? (oPh == 0) : 1);                                          /* tail is raised only by spawn or at the end of get_task */
}
/* guarantee of every thief step = what the owner job relies on */
#define THIEF_STEP(site, T, op) ({ interfere(); size_t oh_ = S.head, ot_ = S.tail; int oL_ = L, oP_ = oPh; bool ohole_ = hole, ocO_ = cO, ocT_ = cT, ot_t_ = th_t, ot_c_ = th_c, opub_ = S.published; T r_ = (op); GHOST_##site; \
   __CPROVER_assert(INV, "guarantee: arbitration invariant for slot k re-established at " #site); \
   __CPROVER_assert(S.tail == ot_ && cO == ocO_ && oPh == oP_ && S.published == opub_, "guarantee: a thief never moves tail, never publishes or leaves the pool, at " #site); \
   __CPROVER_assert(me_holds || (S.head == oh_ && hole == ohole_ && cT == ocT_), "guarantee: a thief touches head and the slots only while it holds the pool lock, at " #site); \
   __CPROVER_assert((ohole_ ? hole : 1) && (ocT_ ? cT : 1) && ((hole && !ohole_) ? cT : 1), "guarantee: a thief only empties the slot it took, at " #site); \
   __CPROVER_assert((cT && !ocT_) ? (ST >= SK + 1 && !ohole_) : 1, "guarantee: a thief takes slot k only after bumping head over it and then seeing tail beyond it, at " #site); \
   __CPROVER_assert((th_c && !ot_c_) ? ST >= SK + 1 : 1, "guarantee: a thief passes the check for slot k only on tail > k, at " #site); \
   __CPROVER_assert(((intptr_t)oh_ >= SK + 1 && !ot_t_ && !ot_c_) ? (SH >= SK + 1 && !th_t && !th_c) : 1, "guarantee: a slot already below head stays below head (roll-back only to where head was found), at " #site); \
   r_; })
#define ATOMIC_LOAD_AT(site, f) THIEF_STEP(site, size_t, (f))
#define ATOMIC_STORE_AT(site, f, v) THIEF_STEP(site, size_t, ((f) = (v)))
#define ATOMIC_PREINC_AT(site, f) THIEF_STEP(site, size_t, (++(f)))
#define NOG ((void)0)
#define GHOST_steal_LOAD_1 NOG
#define GHOST_steal_PREINC_1 if ((intptr_t)r_ == SK + 1) th_t = true
#define GHOST_steal_LOAD_2 if (th_t && !(SK + 1 > (intptr_t)r_)) { th_t = false; th_c = true; }
#define GHOST_steal_STORE_1 th_t = th_c = false
#define GHOST_steal_STORE_2 th_t = th_c = false
static task *pool_rd(task **vp, size_t i) {
    __CPROVER_assert(vp == (task **)POOL_TOKEN, "C01.steal: the pool read is the one that was locked");
    if (i != g_k) return nondet_bool() ? NULL : TASKPTR(i);
    __CPROVER_assert(th_c && me_holds, "C01.THE: a thief reads slot k only after it has won the arbitration for k (head bumped to k+1 under the pool lock, then tail seen > k)");
    if (!hole && elig_k) { __CPROVER_assert(!cO, "C01.once: a thief takes the task in slot k only if the owner has not taken it"); cT = true; me_took = true; }
    return hole ? NULL : TASKPTR(i);
}
static void pool_wr(task **vp, size_t i, task *v) { __CPROVER_assert(v == NULL, "C01.steal: a thief only ever writes holes"); if (i == g_k) { __CPROVER_assert(me_took && me_holds, "C01.THE: a thief empties only the slot it took"); hole = true; } }
#define POOL_RD(vp, i) pool_rd((vp), (i))
#define POOL_WR(vp, i, v) pool_wr((vp), (i), (v))
size_t g_Hlock;
static task **slot_lock_task_pool(struct aslot *s) { interfere(); if (!s->published) return NULL; __CPROVER_assume(L == 0 && SH <= BND /* numeric range: with the lock free, head is at most tail+1 <= 2^41 */); L = 2; me_holds = true; g_Hlock = s->head; __CPROVER_assert(INV, "guarantee: INV after lock"); return (task **)POOL_TOKEN; }
static void slot_unlock_task_pool(struct aslot *s, task **p) { interfere(); __CPROVER_assert(me_holds && L == 2 && p == (task **)POOL_TOKEN, "C01.THE: the thief unlocks the lock it holds"); __CPROVER_assert(!th_t, "C01.THE: no tentative head bump is left behind at unlock");
    th_c = false; L = 0; me_holds = false; __CPROVER_assert(INV, "guarantee: INV after unlock"); }
static bool STUB_proxy_is_shared(task *tp) { return false; }
static bool STUB_outbox_recipient_is_idle(task *tp) { return false; }
static bool STUB_my_mailbox_is_idle(struct arena *a, size_t idx) { return false; }
#define LOOP_steal_1 __CPROVER_assigns(H, H0, result, tasks_omitted, S.head, S.tail, hole, cO, cT, th_t, th_c, oPh, me_took) \
  __CPROVER_loop_invariant(INV && L == 2 && me_holds && S.published && S.head == H && (intptr_t)g_Hlock <= (intptr_t)H0 && (intptr_t)H0 <= (intptr_t)H && result == NULL && !me_took && !th_t && (intptr_t)H <= BND \
     && (((intptr_t)H0 <= SK && SK < (intptr_t)H) ? th_c : 1) && (th_c ? SK < (intptr_t)H : 1) && (tasks_omitted ? 1 : H0 == H) \
     && ((cT && !hole) ? ((intptr_t)H0 >= SK + 1 || (ST <= SK && oPh == 0)) : 1) && ((cO && !hole) ? (ST <= SK || (intptr_t)H0 >= SK + 1) : 1))
#include "steal.inc"
size_t IN_head, IN_tail, IN_k;
void h_the_thief(void) {
    S.task_pool_ptr = (task **)POOL_TOKEN; S.published = nondet_bool(); S.head = IN_head = nondet_size_t(); S.tail = IN_tail = nondet_size_t(); g_k = IN_k = nondet_size_t();
    __CPROVER_assume(g_k < ((size_t)1 << 40));
    L = nondet_int(); hole = nondet_bool(); cO = nondet_bool(); cT = nondet_bool(); th_t = nondet_bool(); th_c = nondet_bool(); oPh = nondet_int(); me_took = false; me_holds = false;
    g_isoarg = nondet_size_t(); g_iso_k = nondet_size_t(); elig_k = (g_isoarg == no_isolation || g_isoarg == g_iso_k);
    __CPROVER_assume(INV);
    struct arena a; a.my_mailbox_idle = false;
    task *r = slot_steal_task(&S, &a, g_isoarg, nondet_size_t());
    OBLIGATION(INV, "C01.THE: the arbitration invariant holds when steal_task returns");
    OBLIGATION((r == TASKPTR(g_k)) == me_took, "C01.once: steal_task returns the task of slot k exactly when this thief took it under the protocol");
    OBLIGATION(!(cO && cT), "C01.once: the task in slot k is handed out at most once - never to the owner and to a thief");
    OBLIGATION(!me_holds, "C01.THE: the thief does not keep the pool lock");
    VACUITY_END();
}
#endif

#ifdef RELOC
/* arena_slot::prepare_task_pool (+ allocate_task_pool, commit_relocated_tasks) and spawn (+ commit_spawned_tasks): growing / compacting the deque keeps every task exactly once, in order.
   Old pool: entry i is a hole or THE i-th task (g_hole0[i]); the new pool is real memory (CBMC checks every write against its size).  In-place compaction shares the array: a cell
   must not be read after it was overwritten (ghost g_written).  g_cnt[] is the prefix count of live entries, a definitional ghost: instances of its defining recurrence and of its
   monotonicity are supplied where an entry is read. */
typedef struct task task;
struct aslot { size_t head, tail, my_task_pool_size; task **task_pool_ptr; bool published, locked; };
#ifndef NMAX
#define NMAX ((size_t)1 << 12)
#endif
#define TASKPTR(i) ((task *)(((uintptr_t)(i) + 1) << 4))
#define TIDX(p) ((size_t)(((uintptr_t)(p)) >> 4) - 1)
static bool *g_hole0, g_written_w; static size_t *g_cnt; static task **g_old, **g_new; static size_t g_oldcap, g_newcap, g_H, g_T, g_k, g_pos, g_w; static bool g_inplace, g_freed_old; int g_allocs;
#define ATOMIC_LOAD(x) (x)
#define ATOMIC_STORE(x, v) ((x) = (v))
static void slot_acquire_task_pool(struct aslot *s) { __CPROVER_assert(!s->locked, "C01.reloc: no double lock"); if (s->published) s->locked = true; }
static void slot_release_task_pool(struct aslot *s) { s->locked = false; }
static void slot_publish_task_pool(struct aslot *s) { __CPROVER_assert(!s->published && s->head < s->tail, "C01.reloc: publish only a non-empty unpublished pool"); s->published = true; }
static bool slot_is_task_pool_published(struct aslot *s) { return s->published; }
static bool slot_is_local_task_pool_quiescent(struct aslot *s) { return !s->published || s->locked; }
static task **STUB_cache_aligned_allocate(size_t bytes) {
#ifdef RELOC_INPLACE
    __CPROVER_assume(0);   /* case split: this job covers the executions that compact in place; the twin job covers the ones that allocate */
#endif
    g_allocs++; g_newcap = bytes / sizeof(task *); g_new = malloc(bytes); __CPROVER_assume(g_new != NULL); g_inplace = false; return g_new; }
static void STUB_cache_aligned_deallocate(task **p) { __CPROVER_assert(p == g_old && !g_inplace && !g_freed_old, "C01.reloc: exactly the replaced array is freed, once, and never the array still in use"); g_freed_old = true; }
static task *pool_rd(task **vp, size_t i) {
    __CPROVER_assert(vp == g_old && !g_freed_old, "C01.reloc: tasks are read from the old array while it is alive");
    __CPROVER_assert(i >= g_H && i < g_T && i < g_oldcap, "C01.reloc: only [head, tail) of the old array is read");
#ifndef RELOC_ORDER
    __CPROVER_assert(!(g_inplace && i == g_w && g_written_w), "C01.reloc: in-place compaction never reads a cell it has already overwritten");
#endif
    __CPROVER_assume(g_cnt[i + 1] == g_cnt[i] + (g_hole0[i] ? 0 : 1) && g_cnt[i + 1] <= g_cnt[g_T] && g_cnt[i] <= i - g_H);     /* definition of the prefix count, instance i */
    return g_hole0[i] ? NULL : TASKPTR(i);
}
static void pool_wr(task **vp, size_t i, task *v) {
    __CPROVER_assert(vp == g_new, "C01.reloc: tasks are written into the pool that will be published");
    vp[i] = v; if (g_inplace && i == g_w) g_written_w = true; if (v != NULL && TIDX(v) == g_k) g_pos = i;
}
#define POOL_RD(vp, i) pool_rd((vp), (i))
#define POOL_WR(vp, i, v) pool_wr((vp), (i), (v))
size_t g_j1, g_j2; task *g_spawned;
#define LIVE(i) ((i) >= g_H && (i) < g_T && !g_hole0[i])
#define LOOP_prepare_task_pool_1 __CPROVER_assigns(i, new_size) __CPROVER_loop_invariant(i >= H && i <= T && new_size == num_tasks + g_cnt[i]) __CPROVER_decreases(T - i)
#ifdef RELOC_ORDER   /* case split of the PROOF (not of the executions): this job carries the facts about what the new pool holds (nothing invented, order kept) */
#define INV_LOST 1
#define INV_ORDER (g_j1 < T1 ? (g_new[g_j1] != NULL && LIVE(TIDX(g_new[g_j1])) && TIDX(g_new[g_j1]) < i && g_cnt[TIDX(g_new[g_j1])] == g_j1) : 1)
#else                /* ... and this one the facts about where every old task went (nothing lost) and that in-place compaction reads no overwritten cell */
#define INV_LOST (((g_k < i && LIVE(g_k)) ? (g_pos < T1 && g_new[g_pos] == TASKPTR(g_k)) : 1) && ((g_inplace && g_written_w) ? g_w < T1 : 1))
#define INV_ORDER 1
#endif
#define LOOP_prepare_task_pool_2 __CPROVER_assigns(i, T1, g_pos, __CPROVER_object_whole(g_new), g_written_w) \
  __CPROVER_loop_invariant(i >= H && i <= T && T1 == g_cnt[i] && T1 <= i - H && INV_LOST && INV_ORDER) \
  __CPROVER_decreases(T - i)
#define LOOP_allocate_task_pool_1
#include "relocate.inc"
size_t IN_head, IN_tail, IN_cap, IN_num;
static void mk_pool(struct aslot *s) {
    g_oldcap = IN_cap = nondet_size_t(); __CPROVER_assume(g_oldcap >= MIN_TASK_POOL_SIZE && g_oldcap <= NMAX && g_oldcap % (max_nfs_size / sizeof(task *)) == 0);
    g_hole0 = malloc(g_oldcap * sizeof(bool)); g_cnt = malloc((g_oldcap + 1) * sizeof(size_t)); g_old = malloc(g_oldcap * sizeof(task *));
    __CPROVER_assume(g_hole0 && g_cnt && g_old); g_written_w = false;
    g_new = g_old; g_newcap = g_oldcap; g_inplace = true; g_freed_old = false; g_allocs = 0;
    g_H = IN_head = s->head = nondet_size_t(); g_T = IN_tail = s->tail = nondet_size_t(); __CPROVER_assume(g_H <= g_T && g_T <= g_oldcap);
    s->my_task_pool_size = g_oldcap; s->task_pool_ptr = g_old; s->published = nondet_bool(); s->locked = false;
    g_k = nondet_size_t(); g_w = nondet_size_t(); g_j1 = nondet_size_t(); g_j2 = nondet_size_t(); g_pos = nondet_size_t(); __CPROVER_assume(g_k < g_oldcap && g_w < g_oldcap);
    __CPROVER_assume(g_cnt[g_H] == 0 && g_cnt[g_T] <= g_T - g_H);
}
void h_prepare(void) {
    struct aslot s; mk_pool(&s); size_t num = IN_num = nondet_size_t(); __CPROVER_assume(num >= 1 && num <= NMAX);
    bool live_k = LIVE(g_k);
    size_t r = slot_prepare_task_pool(&s, num);
#ifdef RELOC_ALLOC
    __CPROVER_assume(g_allocs >= 1);
#endif
    OBLIGATION(!s.locked, "C01.reloc: the pool lock is released");
    OBLIGATION(r + num <= s.my_task_pool_size && s.my_task_pool_size == g_newcap && s.task_pool_ptr == g_new, "C01.reloc: the pool returned has room for the tasks about to be spawned, and its recorded size is the size of the array in use");
    OBLIGATION(s.tail == r, "C01.reloc: the returned position is the new tail");
    if (g_allocs == 0 && r == g_T && s.head == g_H) { OBLIGATION(g_new == g_old, "C01.reloc: nothing moved when there was room"); }
    else {
        OBLIGATION(s.head == 0 && r == g_cnt[g_T], "C01.reloc: after relocation the pool is [0, number of live tasks)");
#ifndef RELOC_ORDER
        OBLIGATION(!live_k || (g_pos < r && g_new[g_pos] == TASKPTR(g_k)), "C01.once: every task that was in [head, tail) is in the relocated pool - nothing is lost");
#else
        OBLIGATION(!(g_j1 < r) || (g_new[g_j1] != NULL && LIVE(TIDX(g_new[g_j1]))), "C01.once: the relocated pool holds only tasks that were in [head, tail) - nothing is invented, no holes");
        OBLIGATION(!(g_j1 < r) || g_cnt[TIDX(g_new[g_j1])] == g_j1, "C01.once: entry j of the relocated pool is the live task that has exactly j live tasks before it - origins strictly increase with j: order kept, no task twice");
#endif
        OBLIGATION(g_allocs <= 1 && (g_allocs == 1) == g_freed_old, "C01.reloc: the old array is freed exactly when it was replaced");
    }
    VACUITY_END();
}
void h_spawn(void) {
    struct aslot s; mk_pool(&s); bool live_k = LIVE(g_k); bool pub0 = s.published; g_spawned = (task *)(uintptr_t)((NMAX + 7) << 4);
    __CPROVER_assume(pub0 ? g_H < g_T : 1);
    slot_spawn(&s, g_spawned);
#ifdef RELOC_ALLOC
    __CPROVER_assume(g_allocs >= 1);
#endif
    OBLIGATION(s.published && !s.locked && s.head < s.tail && s.tail <= s.my_task_pool_size, "C01.spawn: after spawn the pool is published, unlocked and non-empty");
    OBLIGATION(s.task_pool_ptr[s.tail - 1] == g_spawned, "C01.spawn: the spawned task is the topmost entry of the pool");
    if (g_allocs != 0 || s.head != g_H || s.tail != g_T + 1) OBLIGATION(!live_k || (g_pos < s.tail - 1 && g_new[g_pos] == TASKPTR(g_k)), "C01.once: a spawn that relocates the pool loses none of the tasks already in it");
    VACUITY_END();
}
#endif

#ifdef DELEG
/* task_arena::execute(f): f is carried out exactly once before the call returns - inline (own arena, or a free slot) or, when the arena is saturated, by a delegated task that is
   enqueued once under a context OF ITS OWN (isolated: a cancellation of the caller's group must not turn the delegated call into a skipped task), while the caller waits. */
typedef struct task { int d; } task;
enum { tgc_isolated = 0, tgc_bound = 1 };
struct tgc { int kind; void *my_exception; bool cancelled; };
struct delegate_base { int id; };
struct monitor { int d; }; struct thread_context { uintptr_t key; }; struct wait_context { int refs; };
struct arena { struct monitor my_exit_monitors; struct tgc *my_default_ctx; };
struct thread_data { struct arena *my_arena; size_t my_arena_index; };
struct task_arena_base { struct arena *my_arena; };
struct task_dispatcher; typedef struct execution_data_ext { struct tgc *context; isolation_type isolation; struct task_dispatcher *task_disp; } execution_data_ext;
struct task_dispatcher { execution_data_ext m_execute_data_ext; struct thread_data *m_thread_data; bool fifo; };
struct delegated_task { struct delegate_base *m_delegate; struct monitor *m_monitor; struct wait_context *m_wait_ctx; bool m_completed; };
#define out_of_arena (~(size_t)0)
static struct arena A, OTHER_ARENA; static struct thread_data TD; static struct tgc DEFCTX, CALLERCTX; static struct delegate_base D;
int g_calls, g_enq, g_enq_kind, g_entered, g_guard, g_release, g_notify, g_throw; bool g_done, g_prepared, g_checked, g_in_scope_at_call, g_guard_at_call; struct delegated_task *g_enq_task; size_t g_slot;
static void interfere(void) { if (g_enq == 1 && nondet_bool()) g_done = true; }          /* the delegated task runs (or is cancelled) on some other thread and finalizes: monotone */
static struct thread_data *STUB_get_thread_data(void) { return &TD; }
static size_t STUB_occupy_free_slot(struct arena *a, struct thread_data *td) { interfere(); return nondet_bool() ? out_of_arena : (g_slot = nondet_size_t() % 1024); }
#define INIT_thread_context(w, k) ((w)->key = (k))
#define INIT_wait_context(w, n) ((w)->refs = (n))
#define INIT_tgc(c, k) do { (c)->kind = (k); (c)->my_exception = NULL; (c)->cancelled = false; } while (0)
#define INIT_delegated_task(t, dd, m, w) do { (t)->m_delegate = (dd); (t)->m_monitor = (m); (t)->m_wait_ctx = (w); (t)->m_completed = false; } while (0)
static void STUB_copy_fp_settings(struct tgc *c, struct tgc *src) {}
static void STUB_enqueue_task(struct arena *a, struct delegated_task *t, struct tgc *c, struct thread_data *td) { g_enq++; g_enq_kind = c->kind; g_enq_task = t; __CPROVER_assert(t->m_wait_ctx->refs == 1 && !t->m_completed, "C01.delegate: the delegated task holds the one reference the caller waits for"); }
#define MONITOR_prepare_wait(m, w) do { __CPROVER_assert(!g_prepared, "C01.delegate: no nested prepare_wait"); g_prepared = true; g_checked = false; } while (0)
#define MONITOR_cancel_wait(m, w) do { __CPROVER_assert(g_prepared, "C01.delegate: cancel_wait pairs with prepare_wait"); g_prepared = false; } while (0)
#define MONITOR_commit_wait(m, w) do { __CPROVER_assert(g_prepared && g_checked, "C01.delegate: the caller goes to sleep only after re-checking, behind prepare_wait, that the delegated call is still outstanding"); g_prepared = false; interfere(); } while (0)
#define MONITOR_notify_one(m) ((void)0)
static bool wait_ctx_continue(struct wait_context *w) { interfere(); if (!g_done && g_prepared) g_checked = true; return !g_done; }
#define WAIT_CTX_CONTINUE(w) wait_ctx_continue(w)
#define NESTED_ARENA_ENTER(td, a, idx) do { g_entered++; __CPROVER_assert((idx) != out_of_arena, "C01.delegate: the arena is entered through a slot that was really obtained"); } while (0)
static void STUB_r1_wait(struct wait_context *w, struct tgc *c) { interfere(); __CPROVER_assume(g_done); }        /* returns when the wait context is released */
#define VERIF_THROW() (g_throw++)
#define CONTEXT_GUARD_SET(c) (g_guard++)
#define CALL_DELEGATE(dd) do { g_calls++; g_in_scope_at_call = (g_entered == 1); g_guard_at_call = (g_guard == 1); __CPROVER_assert((dd) == &D, "C01.delegate: the function called is the one that was passed in"); } while (0)
#define WAIT_CTX_RELEASE(w) do { __CPROVER_assert(g_notify == 0, "C01.delegate: the wait context is released before the waiter is notified"); g_release++; (w)->refs--; } while (0)
#define MONITOR_NOTIFY_KEY(m, k) do { __CPROVER_assert(g_release == 1, "C01.delegate: the waiter is notified after the release"); __CPROVER_assert((k) == (uintptr_t)&D, "C01.delegate: exactly the caller waiting for THIS delegate is woken"); g_notify++; } while (0)
#define ATOMIC_STORE(x, v) do { __CPROVER_assert(g_release == 1 && g_notify == 1, "C01.delegate: m_completed is raised last (the task object may be destroyed right after)"); (x) = (v); } while (0)
static bool TD_ALLOW_FIFO(struct task_dispatcher *d, bool v) { bool o = d->fifo; d->fifo = v; return o; }
#define LOOP_exec_1 __CPROVER_assigns(index2, g_done, g_prepared, g_checked, g_entered, g_slot) __CPROVER_loop_invariant(g_enq == 1 && g_enq_kind == tgc_isolated && index2 == out_of_arena && !g_prepared && g_entered == 0 && g_calls == 0)
#include "delegate.inc"
static void world(void) { A.my_default_ctx = &DEFCTX; g_calls = g_enq = g_entered = g_guard = g_release = g_notify = g_throw = 0; g_done = g_prepared = g_checked = false; g_enq_kind = -1; }
void h_arena_execute(void) {
    world(); struct task_arena_base ta; ta.my_arena = &A; TD.my_arena = nondet_bool() ? &A : &OTHER_ARENA; TD.my_arena_index = nondet_size_t() % 1024;
    task_arena_execute(&ta, &D);
    if (g_enq == 0) {
        OBLIGATION(g_calls == 1 && g_in_scope_at_call && g_guard_at_call, "C01.once: task_arena::execute(f) carries f out exactly once, inside the arena (slot occupied or own arena) and under the arena's default context");
    } else {
        OBLIGATION(g_enq == 1 && g_calls == 0, "C01.once: when the arena is saturated f is delegated exactly once and not also run inline");
        OBLIGATION(g_enq_kind == tgc_isolated, "C01.once: the delegated call runs under an isolated context of its own - a cancellation of the caller's task group must not turn it into a skipped task while execute() returns normally");
        OBLIGATION(g_done && !g_prepared, "C01.wait: execute() returns only after the delegated task has finalized, and leaves no wait registration behind");
    }
    VACUITY_END();
}
void h_delegated_task(void) {
    world(); struct wait_context wo; wo.refs = 1; struct delegated_task dt; INIT_delegated_task(&dt, &D, &A.my_exit_monitors, &wo);
    struct task_dispatcher disp; TD.my_arena = &A; disp.m_thread_data = &TD; disp.m_execute_data_ext.context = &CALLERCTX; disp.m_execute_data_ext.isolation = no_isolation; disp.m_execute_data_ext.task_disp = &disp; disp.fifo = nondet_bool(); bool fifo0 = disp.fifo;
    bool cancelled = nondet_bool();
    if (cancelled) dt_cancel(&dt); else dt_execute(&dt, &disp.m_execute_data_ext);
    OBLIGATION(g_calls == (cancelled ? 0 : 1), "C01.once: the delegated task calls the function exactly once when executed, and not at all when its (own, isolated) group was cancelled");
    OBLIGATION(g_release == 1 && g_notify == 1 && dt.m_completed && wo.refs == 0, "C01.wait: either way the task finalizes exactly once: the waiting caller's reference is released, that caller is notified, completion is published last");
    OBLIGATION(disp.m_execute_data_ext.context == &CALLERCTX && disp.fifo == fifo0, "C01.delegate: the executing thread's own context and FIFO permission are restored");
    VACUITY_END();
}
#endif
