/* C01 harnesses: the owner's pop from its task pool (with isolation skipping) and the proxy's two-sided claim; sliced from src/tbb */
#include "verif.h"
typedef size_t isolation_type; typedef unsigned short slot_id;
#define no_isolation ((isolation_type)0)
#ifdef POOL
#ifndef MAXN
#define MAXN 5
#endif
typedef struct task { isolation_type isolation; bool is_proxy; slot_id slot; } task;
typedef struct execution_data_ext { slot_id affinity_slot; } execution_data_ext;
struct aslot { size_t head, tail; task **task_pool_ptr; bool published, locked; };
#define ATOMIC_LOAD(x) (x)
#define ATOMIC_STORE(x, v) ((x) = (v))
#define ATOMIC_PREDEC(x) (--(x))
static void slot_acquire_task_pool(struct aslot *s) { s->locked = true; }
static void slot_release_task_pool(struct aslot *s) { s->locked = false; }
static void slot_leave_task_pool(struct aslot *s) { s->published = false; s->locked = false; }
static void slot_publish_task_pool(struct aslot *s) { s->published = true; }
static bool slot_is_task_pool_published(struct aslot *s) { return s->published; }
static bool slot_is_quiescent_local_task_pool_reset(struct aslot *s) { return s->head == 0 && s->tail == 0; }
static void STUB_advertise_new_work(void) {}
bool g_proxy_has_task; int g_proxy_deleted; static task g_inner;
static task *STUB_proxy_extract_task_pool(task *tp) { return g_proxy_has_task ? &g_inner : NULL; }
static void STUB_delete_proxy(task *tp) { g_proxy_deleted++; }
#define LOOP_get_task_1
#include "get_task.inc"
static task T[MAXN]; static task *P[MAXN + 1];
size_t IN_head, IN_tail, IN_iso;
void h_impl(void) {
    struct aslot s; s.task_pool_ptr = P; size_t pos = nondet_size_t(); __CPROVER_assume(pos < MAXN);
    bool present = nondet_bool(); P[pos] = present ? &T[pos] : NULL; T[pos].isolation = nondet_size_t(); T[pos].is_proxy = nondet_bool(); T[pos].slot = nondet_ushort();
    isolation_type iso = IN_iso = nondet_size_t(); bool om0 = nondet_bool(), omitted = om0; execution_data_ext ed; ed.affinity_slot = 0; g_proxy_has_task = nondet_bool(); g_proxy_deleted = 0;
    task *r = slot_get_task_impl(&s, pos, &ed, &omitted, iso);
    bool mismatch = present && iso != no_isolation && T[pos].isolation != iso;
    OBLIGATION(!(r == &T[pos]) || !mismatch, "C01.iso: a task is handed to an isolated waiter only if its isolation tag equals the waiter's");
    OBLIGATION(omitted == (om0 || mismatch), "C01.iso: tasks_omitted is raised exactly when a task was skipped for isolation");
    OBLIGATION(!mismatch || (r == NULL && P[pos] == &T[pos]), "C01.iso: a skipped task stays in the pool untouched");
    OBLIGATION(!(present && !mismatch && !T[pos].is_proxy) || r == &T[pos], "C01.pool: an eligible ordinary task is returned");
    if (present && !mismatch && T[pos].is_proxy) {
        OBLIGATION(g_proxy_has_task ? (r == &g_inner && ed.affinity_slot == T[pos].slot && g_proxy_deleted == 0) : (r == NULL && g_proxy_deleted == 1), "C01.proxy: a proxy yields its task, or is freed exactly once when the mailbox side already took it");
        OBLIGATION(g_proxy_has_task || !omitted || P[pos] == NULL, "C01.proxy: an emptied proxy does not stay behind in a pool that keeps skipped tasks");
    }
    VACUITY_END();
}
void h_get_task(void) {
    struct aslot s; s.task_pool_ptr = P; s.published = true; s.locked = false;
    size_t H = IN_head = nondet_size_t(), Tn = IN_tail = nondet_size_t(); __CPROVER_assume(H < Tn && Tn <= MAXN);
    s.head = H; s.tail = Tn;
    task *orig[MAXN];
    for (size_t i = 0; i < MAXN; ++i) { T[i].isolation = nondet_size_t(); T[i].is_proxy = false; P[i] = (i >= H && i < Tn && nondet_bool()) ? &T[i] : NULL; orig[i] = P[i]; }
    isolation_type iso = IN_iso = nondet_size_t(); execution_data_ext ed; ed.affinity_slot = 0;
    task *r = slot_get_task(&s, &ed, iso);
#define ELIGIBLE(q) (orig[q] != NULL && (iso == no_isolation || T[q].isolation == iso))
    size_t p = MAXN;                                            /* the topmost eligible entry */
    for (size_t q = 0; q < MAXN; ++q) if (q >= H && q < Tn && ELIGIBLE(q)) p = q;
    OBLIGATION(r == (p < MAXN ? &T[p] : NULL), "C01.pool: the owner gets the topmost task it is allowed to run (LIFO, isolation respected), or nothing if there is none (bounded)");
    for (size_t q = 0; q < MAXN; ++q) if (q >= H && q < Tn && orig[q] != NULL) {
        bool still = q >= s.head && q < s.tail && P[q] == orig[q];
        if (q == p) OBLIGATION(!still, "C01.once: the task handed out is no longer in the pool - it cannot be dispatched a second time (bounded)");
        else OBLIGATION(still && s.published, "C01.once: every other task stays in the published pool, exactly where it was - nothing is lost (bounded)");
    }
    for (size_t q = 0; q < MAXN; ++q) if (q >= s.head && q < s.tail && P[q] != NULL) OBLIGATION(q >= H && q < Tn && P[q] == orig[q], "C01.once: the pool holds no task that was not there before (bounded)");
    OBLIGATION(!s.locked, "C01.pool: the pool lock is released");
    VACUITY_END();
}
#endif

#ifdef PROXY
typedef struct task { int d; } task;
#define pool_bit ((intptr_t)1)
#define mailbox_bit ((intptr_t)2)
#define location_mask (pool_bit | mailbox_bit)
struct proxy { intptr_t task_and_tag; };
static struct proxy PX; intptr_t g_task; intptr_t g_from; bool other_done, other_got, me_got;
#define PINV (PX.task_and_tag == (g_task | location_mask) || PX.task_and_tag == pool_bit || PX.task_and_tag == mailbox_bit)
/* the other location's extract_task: at most once, claims the task iff the proxy is still shared and leaves MY bit as the cleaner mark */
static void interfere(void) { if (!other_done && nondet_bool()) { other_done = true; if (PX.task_and_tag == (g_task | location_mask)) { PX.task_and_tag = g_from; other_got = true; } } }
#define ATOMIC_LOAD_AT(site, f) ({ interfere(); (f); })
#define ATOMIC_CAS_AT(site, f, e, d) ({ interfere(); intptr_t o_ = (f); bool r_ = (o_ == *(e)); if (r_) { (f) = (d); me_got = true; } else *(e) = o_; __CPROVER_assert(PINV, "guarantee: the proxy word keeps its shape at " #site); r_; })
#include "proxy.inc"
void h_extract(void) {
    g_task = nondet_intptr_t(); __CPROVER_assume((g_task & location_mask) == 0 && g_task != 0);
    g_from = nondet_bool() ? pool_bit : mailbox_bit; other_done = nondet_bool(); other_got = false; me_got = false;
    /* this location still references the proxy: the word is shared, or the other side already claimed it and left my bit */
    if (other_done && nondet_bool()) { PX.task_and_tag = g_from; other_got = true; } else PX.task_and_tag = g_task | location_mask;
    task *r = proxy_extract_task(&PX, g_from);
    interfere();
    OBLIGATION(r == (task *)g_task || r == NULL, "C01.proxy: the result is the proxied task or nothing");
    OBLIGATION((r != NULL) == me_got && !(me_got && other_got), "C01.proxy: of the two locations exactly one extracts the task (never both, never none once both have tried)");
    OBLIGATION(!(other_done && r == NULL) || other_got, "C01.proxy: if this side gets nothing the other side has the task");
    OBLIGATION(r != NULL ? PX.task_and_tag == (location_mask & ~g_from) : PX.task_and_tag == g_from, "C01.proxy: the loser is marked as the one who must free the proxy");
    VACUITY_END();
}
#endif
